"""C16 - template resolution and environment contract.

Specs:   specs/TemplateLookupP.tla     P-layer (pure operators): nearest class of the chain having a template (level sets of the
                                       __bases__ relation), user beats built-in, history / order independence, instance-test
                                       membership, alias rule, no silent replacement.  Ambiguous cells accept both readings.
         specs/TemplateLookup.tla      I-layer, part 1: DSDLTemplateLoader's BFS with the ONE class-keyed cache shared by both template
                                       sets (probed before the name test, filled for the class that had the template), get_source.
                                       Part 2: the environment registry (constructor order of CodeGenEnvironment + DSDLCodeGenerator).
                                       TLC checks I => P over all pairs of template subsets of 5-class chains / trees / diamonds x
                                       lookup sequences <= 3, and over all sequences of <= 2 additions.  The shared-cache design with
                                       both sets present is REFUTED (history dependence); the per-set variant passes.
         specs/TemplateLookupTrace.tla T-layer: judges recorded observations of the real code with the P operators only.
         (static .cfg files in specs/ document the configurations; this driver generates the same files per shape into scratch.)
spec->code: TLC emits every lookup history (stimulus + the I-layer's predicted answers) and every addition scenario; they are
         replayed on real DSDLTemplateLoader objects (scratch template directories + a scratch package) and on the real
         CodeGenEnvironmentBuilder / DSDLCodeGenerator with every real filter/test/global name; the observations go to the T-layer
         (verdict) and are compared with the I-prediction (drift).
code->spec: the real PyDSDL class hierarchy with random template subsets, random realizations of the directories (creation order,
         several directories, distractor files, duplicates), histories <= 6, the real built-in packages, the public paths
         (DSDLCodeGenerator.filter_type_to_template on real instances, generate_all, SupportGenerator), every instance test x every
         value of a DSDL fixture (direct call and `is` inside a rendered template) x language.
"""
import concurrent.futures
import importlib
import os
import pathlib
import shutil
import sys

from ..core import MachineryFailure, NCPU, REPO, SPECS
from .. import tlc

LANGS = ("c", "cpp", "py", "html")
PKG = "c16pkg"
ALL_INV = ("RefNearest", "RefSource", "RefHistory", "CacheSound", "BfsIsNearest", "NameRefines")


def cps(s):
    return [ord(c) for c in s]


def to_s(cp):
    return "".join(map(chr, cp))


# ---------------------------------------------------------------------------------------------------------------------
# class hierarchies
# ---------------------------------------------------------------------------------------------------------------------
class Hier:
    """classes 1..n, bases[c-1] = ids of the direct bases (without object); one extra isolated class n+1 = OTHER stands for
    'a template that is not named after any class of the hierarchy'."""

    def __init__(self, kind, classes, anycls):
        self.kind = kind
        self.cls = [None] + list(classes)
        self.n = len(classes)
        self.id = {c: i for i, c in enumerate(self.cls) if c is not None}
        self.name2id = {c.__name__: i for c, i in self.id.items()}
        if len(self.name2id) != self.n:
            raise MachineryFailure("class names of the hierarchy are not unique")
        self.bases = [[self.id[b] for b in c.__bases__ if b is not object and b in self.id] for c in classes]
        self.anyc = self.id[anycls] if anycls is not None else 0
        self.other = self.n + 1
        self.bases_out = self.bases + [[]]
        # reflexive ancestors with distance
        self.dist = {}
        for c in range(1, self.n + 1):
            d, frontier, k = {c: 0}, [c], 0
            while frontier:
                k += 1
                nxt = []
                for x in frontier:
                    for b in self.bases[x - 1]:
                        if b not in d:
                            d[b] = k
                            nxt.append(b)
                frontier = nxt
            self.dist[c] = d

    def names(self, ids):
        return sorted(self.cls[i].__name__ for i in ids)


_SYN = {}


def synthetic_hier(bases, anyc):
    key = (json_key(bases), anyc)
    if key not in _SYN:
        n = len(bases)
        made = {}

        def mk(i):
            if i not in made:
                made[i] = type("K%d" % i, tuple(mk(b) for b in bases[i - 1]) or (object,), {})
            return made[i]

        classes = [mk(i) for i in range(1, n + 1)]
        _SYN[key] = Hier("synthetic", classes, classes[anyc - 1] if anyc else None)
        if _SYN[key].bases != [list(b) for b in bases]:
            raise MachineryFailure("synthetic hierarchy does not reproduce the spec's Bases")
    return _SYN[key]


def json_key(x):
    import json

    return json.dumps(x, sort_keys=True)


def real_hier():
    """abc.ABC (beyond Any) + everything below pydsdl.Any, in a deterministic order."""
    import abc
    import pydsdl
    import nunavut  # noqa: F401  (nunavut.Namespace is a subclass of pydsdl.Any)
    import nunavut.jinja  # noqa: F401

    out = [abc.ABC]

    def walk(c):
        if c in out:
            return
        out.append(c)
        for s in sorted(c.__subclasses__(), key=lambda k: (k.__module__, k.__name__)):
            walk(s)

    walk(pydsdl.Any)
    names = [c.__name__ for c in out]
    out = [c for c in out if names.count(c.__name__) == 1]
    return Hier("pydsdl", out, pydsdl.Any)


# ---------------------------------------------------------------------------------------------------------------------
# realization of a configuration (user set, built-in set) as directories / a package
# ---------------------------------------------------------------------------------------------------------------------
class Realizer:
    def __init__(self, ctx):
        self.root = ctx.scratch / "tpl"
        (self.root / "pk" / PKG).mkdir(parents=True)
        (self.root / "pk" / PKG / "__init__.py").write_text("")
        sys.path.insert(0, str(self.root / "pk"))
        importlib.invalidate_caches()
        sys.modules.pop(PKG, None)
        self._b, self._u, self.n = {}, {}, 0

    def builtin(self, names):
        key = frozenset(names)
        if key not in self._b:
            d = "b%d" % len(self._b)
            p = self.root / "pk" / PKG / d
            p.mkdir()
            for n in sorted(key):
                (p / (n + ".j2")).write_text("B:" + n)
            (p / "base.j2").write_text("B:base")
            self._b[key] = d
        return self._b[key]

    def user(self, names):
        """canonical realization: one directory, files created in sorted order, nothing else in it"""
        key = frozenset(names)
        if key not in self._u:
            p = self.root / ("u%d" % len(self._u))
            p.mkdir()
            for n in sorted(key):
                (p / (n + ".j2")).write_text("U:" + n)
            self._u[key] = [p]
        return self._u[key]

    def user_variant(self, names, rng):
        """same configuration, realized differently: several directories in random order, random creation order, distractors
        (files that are NOT templates named after a class: other suffixes, other case, other stems), duplicates"""
        self.n += 1
        nd = rng.choice([1, 1, 2, 3])
        dirs = [self.root / ("v%d_%s%d" % (self.n, rng.choice("azmq"), i)) for i in range(nd)]
        rng.shuffle(dirs)
        for d in dirs:
            d.mkdir()
        files = [(n + ".j2", "U:" + n) for n in names]
        pool = sorted(names) or ["Zz"]
        for _ in range(rng.randint(0, 5)):
            n = rng.choice(pool)
            files.append(rng.choice([("base.j2", "x"), ("_common.j2", "x"), ("README.txt", "x"), (n + ".j2.bak", "x"), (n + ".jinja", "x"),
                                     (n.lower() + "_.j2", "x"), ("X" + n + ".j2", "x"), (n + "2.j2", "x"), (n, "x")]))
        rng.shuffle(files)
        placed = set()
        layout = []  # creation order: (index of the directory in the search path, file name, text)
        for fn, txt in files:
            if fn in placed:
                continue
            placed.add(fn)
            targets = [rng.randrange(nd)]
            if nd > 1 and rng.random() < 0.2:
                targets = list(range(nd))  # the same user template in every directory
            for t in targets:
                (dirs[t] / fn).write_text(txt)
                layout.append([t, fn, txt])
        return dirs, {"dirs": [d.name for d in dirs], "files": layout}

    def user_layout(self, layout):
        """re-create a recorded realization (replay)"""
        self.n += 1
        dirs = [self.root / ("r%d_%s" % (self.n, n)) for n in layout["dirs"]]
        for d in dirs:
            d.mkdir()
        for t, fn, txt in layout["files"]:
            (dirs[t] / fn).write_text(txt)
        return dirs

    def name_user(self, files):
        """a user directory holding exactly these relative file names (any suffix, sub-directories allowed)"""
        key = ("nu", frozenset(files))
        if key not in self._u:
            p = self.root / ("nu%d" % len(self._u))
            for f in sorted(files):
                (p / f).parent.mkdir(parents=True, exist_ok=True)
                (p / f).write_text(name_text("U", f))
            p.mkdir(exist_ok=True)
            self._u[key] = p
        return self._u[key]

    def name_builtin(self, files):
        key = ("nb", frozenset(files))
        if key not in self._b:
            d = "nb%d" % len(self._b)
            p = self.root / "pk" / PKG / d
            for f in sorted(files):
                (p / f).parent.mkdir(parents=True, exist_ok=True)
                (p / f).write_text(name_text("B", f))
            p.mkdir(exist_ok=True)
            self._b[key] = d
        return self._b[key]

    def drop(self, dirs):
        for d in dirs:
            shutil.rmtree(str(d), True)


def make_loader(mode, dirs, bpath, flavor=0, pkg=PKG, tpath=None):
    """mode: which template sets the loader object has.  fs: file-system only, pkg: package only, both: FIND_ALL with both."""
    from nunavut.jinja.loaders import DSDLTemplateLoader
    from nunavut._utilities import ResourceSearchPolicy as Pol

    bp = tpath or bpath
    if mode == "fs":
        if flavor % 2 == 0:  # what DSDLCodeGenerator builds when a templates directory is given
            return DSDLTemplateLoader(templates_dirs=list(dirs), package_name_for_templates=pkg, builtin_template_path=bp, search_policy=Pol.FIND_FIRST)
        return DSDLTemplateLoader(templates_dirs=list(dirs), search_policy=Pol.FIND_ALL)
    if mode == "pkg":
        return DSDLTemplateLoader(templates_dirs=None, package_name_for_templates=pkg, builtin_template_path=bp,
                                  search_policy=Pol.FIND_FIRST if flavor % 2 == 0 else Pol.FIND_ALL)
    if mode == "both":
        return DSDLTemplateLoader(templates_dirs=list(dirs), package_name_for_templates=pkg, builtin_template_path=bp, search_policy=Pol.FIND_ALL)
    raise MachineryFailure("mode " + mode)


def decode(loader, path, hier, userdirs):
    """(class id the returned template is named after, set its text is finally loaded from)"""
    from nunavut.jinja.jinja2 import TemplateNotFound

    if path is None:
        return 0, 0
    p = pathlib.Path(str(path))
    got = hier.name2id.get(p.stem, hier.other) if p.suffix == ".j2" else hier.other
    try:
        text, filename, _ = loader.get_source(None, p.name)
    except TemplateNotFound:
        return got, 0
    if text.startswith("U:") or text.startswith("B:"):
        src = 1 if text[0] == "U" else 2
        if text[2:].strip() != p.stem:
            src = 3  # the text of another template was served under this name
    else:
        src = 1 if any(str(filename).startswith(str(d) + os.sep) for d in userdirs) else 2
    return got, src


class LoaderPath:
    """observations on DSDLTemplateLoader objects"""

    name = "loader"

    def __init__(self, R):
        self.R = R
        self._cold = {}

    def cold(self, key, mk, hier, c):
        k = (key, c)
        if k not in self._cold:
            p = mk().type_to_template(hier.cls[c])
            self._cold[k] = hier.name2id.get(pathlib.Path(str(p)).stem, hier.other) if p is not None else 0
        return self._cold[k]

    def history(self, mk, hier, lookups, userdirs, key, refkey=None, refmk=None):
        ld = mk()
        steps = []
        for c in lookups:
            got, src = decode(ld, ld.type_to_template(hier.cls[c]), hier, userdirs)
            cold = self.cold(key, mk, hier, c)
            ref = self.cold(refkey, refmk, hier, c) if refmk is not None else cold
            steps.append({"c": c, "got": got, "cold": cold, "ref": ref, "src": src})
        return steps


def hist_record(rid, hier, user, builtin, mode, steps):
    return {"id": rid, "k": "hist", "bases": hier.bases_out, "anyc": hier.anyc, "user": sorted(user), "builtin": sorted(builtin),
            "fs": mode in ("fs", "both"), "pkg": mode in ("pkg", "both"), "steps": steps}


def rel_of(hier, c, a, b):
    """structural relation of answer a to answer b for class c"""
    if a == b:
        return "same"
    if a == 0:
        return "none-instead-of-template"
    if b == 0:
        return "template-instead-of-none"
    d = hier.dist.get(c, {})
    if a not in d:
        return "non-ancestor"
    if b not in d:
        return "other"
    return "farther" if d[a] > d[b] else ("nearer" if d[a] < d[b] else "same-distance")


def hist_signature(hier, rec, clause):
    parts = clause.split()
    cl = parts[0]
    i = int(parts[1]) if len(parts) > 1 and parts[1].isdigit() else 1
    mode = "both" if rec["fs"] and rec["pkg"] else ("fs" if rec["fs"] else "pkg")
    s = rec["steps"][max(0, min(i, len(rec["steps"])) - 1)]
    if cl == "lookup.history":
        detail = "warm-" + rel_of(hier, s["c"], s["got"], s["cold"])
    elif cl == "lookup.nearest":
        U = set(rec["user"]) if rec["fs"] else set()
        B = set(rec["builtin"]) if rec["pkg"] else set()
        d = hier.dist.get(s["c"], {})
        cands = [x for x in d if x in (U | B)]
        best = min(cands, key=lambda x: d[x]) if cands else 0
        detail = "got-" + rel_of(hier, s["c"], s["got"], best)
    elif cl == "lookup.user_first":
        detail = "src=%d" % s["src"]
    elif cl == "lookup.order":
        detail = "realization"
    else:
        detail = "other"
    return "C16|%s|%s|%s" % (cl, mode, detail), i


# ---------------------------------------------------------------------------------------------------------------------
# DSDL fixtures and real PyDSDL instances
# ---------------------------------------------------------------------------------------------------------------------
FIXTURE = {
    "Leaf.1.0.dsdl": "uint8 a\n@sealed\n",
    "Open.1.0.dsdl": "int16 x\n@extent 64\n",
    "Un.1.0.dsdl": "@union\nuint8 a\nfloat32 b\n@sealed\n",
    "Svc.1.0.dsdl": "uint8 q\n@sealed\n---\nuint8 r\n@extent 64\n",
    "All.1.0.dsdl": ("bool f_bool\nbyte[4] f_bytes\nutf8[<=8] f_text\nuint7 f_u7\nint9 f_i9\nfloat16 f_f16\nfloat64 f_f64\nvoid5\n"
                     "truncated uint12 f_tr\nuint8[3] f_fix\nuint8[<=5] f_var\nc16.Leaf.1.0 f_leaf\nc16.Open.1.0 f_open\n"
                     "c16.Un.1.0[<=2] f_uns\nc16.Leaf.1.0[2] f_leafs\nuint8 CONST_A = 7\nfloat32 CONST_F = 1.5\nbool CONST_B = true\n"
                     "@extent 2048 * 8\n"),
    "sub/Deep.1.0.dsdl": "c16.All.1.0[<=2] all\nvoid3\nint64 CONST_I = -5\n@sealed\n",
}


class Fixture:
    def __init__(self, ctx):
        import pydsdl

        self.root = ctx.scratch / "dsdl" / "c16"
        for fn, txt in FIXTURE.items():
            p = self.root / fn
            p.parent.mkdir(parents=True, exist_ok=True)
            p.write_text(txt)
        self.types = pydsdl.read_namespace(str(self.root), [])
        self.values = []  # (description, value)
        seen = set()

        def add(desc, v):
            if id(v) in seen:
                return
            seen.add(id(v))
            self.values.append((desc, v))
            if isinstance(v, pydsdl.CompositeType):
                for i, a in enumerate(v.attributes):
                    add("%s.attributes[%d]" % (desc, i), a)
                if isinstance(v, pydsdl.ServiceType):
                    add(desc + ".request_type", v.request_type)
                    add(desc + ".response_type", v.response_type)
                if isinstance(v, pydsdl.DelimitedType):
                    add(desc + ".inner_type", v.inner_type)
            elif isinstance(v, pydsdl.Attribute):
                add(desc + ".data_type", v.data_type)
                if isinstance(v, pydsdl.Constant):
                    add(desc + ".value", v.value)
            elif isinstance(v, pydsdl.ArrayType):
                add(desc + ".element_type", v.element_type)

        for t in sorted(self.types, key=str):
            add(str(t), t)
        for i, v in enumerate([None, 0, "StructureType", (), pydsdl.StructureType, object()]):
            self.values.append(("nonpydsdl[%d]" % i, v))


class GenPath:
    """observations through the public generator API"""

    name = "generator"

    def __init__(self, ctx, fx):
        import nunavut
        from nunavut.lang import LanguageContextBuilder

        self.fx = fx
        self.out = ctx.scratch / "genout"
        self.ns = {}
        for lang in LANGS:
            lctx = LanguageContextBuilder(include_experimental_languages=True).set_target_language(lang).create()
            self.ns[lang] = nunavut.build_namespace_tree(fx.types, str(fx.root), str(self.out / lang), lctx)
        self.lctx = {lang: self.ns[lang].get_language_context() for lang in LANGS}

    def gen(self, lang, mode=None, dirs=None, bpath=None, pkg=PKG, flavor=0, **kw):
        from nunavut.jinja import DSDLCodeGenerator

        if mode == "fs":
            kw["templates_dir"] = list(dirs) if (len(dirs) > 1 or flavor % 2) else dirs[0]
            if flavor % 3 == 0:  # a package named as well: FIND_FIRST must ignore it
                kw["package_name_for_templates"] = pkg
                kw["builtin_template_path"] = bpath
        elif mode == "pkg":
            kw["package_name_for_templates"] = pkg
            kw["builtin_template_path"] = bpath
        return DSDLCodeGenerator(self.ns[lang], **kw)

    @staticmethod
    def lookup(g, hier, v, userdirs):
        try:
            name = g.filter_type_to_template(v)
        except RuntimeError:
            return 0, 0
        return decode(g.dsdl_loader, name, hier, userdirs)


# ---------------------------------------------------------------------------------------------------------------------
# TLC model runs
# ---------------------------------------------------------------------------------------------------------------------
def mk_cfg(ctx, name, *, spec="Spec", shape="chain4", modes=("fs",), L=3, shared=True, maxadds=1, strict=False, invariants=()):
    p = ctx.scratch / (name + ".cfg")
    tlc.write_cfg(p, spec=spec, post=None, invariants=invariants, constants={
        "Shape": '"%s"' % shape, "Modes": "{" + ", ".join('"%s"' % m for m in modes) + "}", "MaxLookups": L,
        "SharedCache": "TRUE" if shared else "FALSE", "MaxAdds": maxadds, "StrictGlobals": "TRUE" if strict else "FALSE"})
    return p


def run_jobs(jobs, parallel):
    """jobs: list of (tag, callable) -> {tag: result}; exceptions propagate"""
    res = {}
    with concurrent.futures.ThreadPoolExecutor(max_workers=parallel) as ex:
        futs = {ex.submit(fn): tag for tag, fn in jobs}
        for f in concurrent.futures.as_completed(futs):
            res[futs[f]] = f.result()
    return res


def model_jobs(ctx, variant):
    spec = SPECS / "TemplateLookup.tla"
    shapes = ctx.pick(["chain5", "tree5", "diamond5", "lop5"], ["chain5", "tree5", "diamond5", "tree6", "lop5"])
    w = ctx.pick(4, 4)
    jobs = []
    for sh in shapes:
        L = 3
        c1 = mk_cfg(ctx, "m_single_" + sh, shape=sh, modes=("fs", "pkg"), L=L, shared=True, invariants=ALL_INV)
        jobs.append((("single-set loaders (code as is), I=>P", sh, "Shape=%s Modes={fs,pkg} MaxLookups=%d SharedCache=TRUE" % (sh, L), True),
                     (lambda c=c1: tlc.run_tlc(spec, c, ctx.scratch, workers=w, timeout=3000, xmx="4g"))))
        c2 = mk_cfg(ctx, "m_perset_" + sh, shape=sh, modes=("both",), L=L, shared=False, invariants=ALL_INV)
        jobs.append((("both sets, cache entries valid per set (repaired design), I=>P", sh,
                      "Shape=%s Modes={both} MaxLookups=%d SharedCache=FALSE" % (sh, L), True),
                     (lambda c=c2: tlc.run_tlc(spec, c, ctx.scratch, workers=w, timeout=3000, xmx="4g"))))
    if not ctx.quick:
        c5 = mk_cfg(ctx, "m_single_l4", shape="chain4", modes=("fs", "pkg", "both"), L=4, shared=False, invariants=ALL_INV)
        jobs.append((("histories of length 4", "chain4", "Shape=chain4 Modes={fs,pkg,both} MaxLookups=4 SharedCache=FALSE", True),
                     (lambda: tlc.run_tlc(spec, c5, ctx.scratch, workers=w, timeout=3000, xmx="4g"))))
    c3 = mk_cfg(ctx, "m_shared_neg", shape="chain4", modes=("both",), L=2, shared=True, invariants=("RefHistory",))
    jobs.append((("both sets, ONE cache keyed by class (code as is)", "chain4", "Shape=chain4 Modes={both} MaxLookups=2 SharedCache=TRUE", False),
                 (lambda: tlc.run_tlc(spec, c3, ctx.scratch, workers=2, timeout=3000, xmx="2g"))))
    c4 = mk_cfg(ctx, "m_env", spec="EnvSpec", maxadds=2, invariants=("EnvRefines", "ErrOnlyIfTaken"))
    jobs.append((("environment registry, I=>P", "env", "MaxAdds=2 StrictGlobals=FALSE", True),
                 (lambda: tlc.run_tlc(spec, c4, ctx.scratch, workers=w, timeout=3000, xmx="4g"))))
    c6 = mk_cfg(ctx, "m_env_strict", spec="EnvSpec", maxadds=1, strict=True, invariants=("EnvRefines",))
    jobs.append((("environment registry, strict reading of globals", "env", "MaxAdds=1 StrictGlobals=TRUE", False),
                 (lambda: tlc.run_tlc(spec, c6, ctx.scratch, workers=2, timeout=3000, xmx="2g"))))
    return jobs


def model_account(ctx, res, variant):
    for (what, sh, consts, expect_ok), r in sorted(res.items(), key=lambda kv: kv[0][:3]):
        r.constants = consts
        if expect_ok:
            if not r.ok:
                raise MachineryFailure("model %s [%s] did not pass: %s %s\n%s" % (what, consts, r.error, r.violated, r.out[-2500:]))
            ctx.add_model(r, "TemplateLookup: " + what)
        else:
            if r.violated is None:
                raise MachineryFailure("negative control of the model was not refuted: %s [%s] %s" % (what, consts, r.error))
            ctx.cov.setdefault("model_refuted_designs", []).append(
                "%s [%s]: invariant %s refuted after %d states" % (what, consts, r.violated, r.distinct))
    ctx.cov["i_layer_variant"] = ("cache shared by both template sets (SharedCache=TRUE)" if variant == "shared"
                                  else "answers do not depend on the cache (SharedCache=FALSE)")


def probe_variant(R):
    """which I-layer variant describes the tree: does a cache entry made by the package search answer a file-system search?"""
    h = synthetic_hier([[2], []], 0)
    b = R.builtin(h.names([1, 2]))
    ld = make_loader("both", R.user([]), b)
    top = ld.type_to_template(h.cls[2])
    warm = ld.type_to_template(h.cls[1])
    if top is None or warm is None:
        return "shared"
    return "shared" if pathlib.Path(str(warm)).stem == "K2" else "perset"


# ---------------------------------------------------------------------------------------------------------------------
# judging
# ---------------------------------------------------------------------------------------------------------------------
class Judge:
    def __init__(self, ctx):
        self.ctx = ctx
        self.recs = []
        self.info = {}  # id -> (kind specific info)

    def add(self, rec, **info):
        rec["id"] = len(self.recs)
        self.recs.append(rec)
        self.info[rec["id"]] = info
        return rec["id"]

    def run(self):
        ctx = self.ctx
        rej = tlc.validate_traces(ctx, "TemplateLookupTrace", self.recs, batch=ctx.pick(2500, 5000))
        for rid, clause in sorted(rej.items()):
            rec, info = self.recs[rid], self.info[rid]
            if clause.startswith("harness"):
                raise MachineryFailure("harness produced an inconsistent record (%s): %r" % (clause, rec))
            if clause.startswith("drift."):
                ctx.drift("%s: the property holds if the template set the I-layer calls invisible is consulted too: %r" % (clause, info.get("case")))
                continue
            report(ctx, rec, info, clause)
        return rej


def report(ctx, rec, info, clause):
    k = rec["k"]
    if k == "hist":
        hier = info["hier"]
        sig, i = hist_signature(hier, rec, clause)
        s = rec["steps"][i - 1]
        name = lambda c: "None" if c == 0 else ("<foreign>" if c > hier.n else hier.cls[c].__name__)
        what = ("lookup #%d of %s on a %s loader (%s) with user templates %s, built-in templates %s returned %s [set %d]; a fresh loader returns %s, "
                "canonical directories give %s; lookups so far: %s [%s]"
                % (i, name(s["c"]), info["mode"], info["path"], hier.names(rec["user"]), hier.names(rec["builtin"]), name(s["got"]), s["src"],
                   name(s["cold"]), name(s["ref"]), [name(x["c"]) for x in rec["steps"][:i]], clause))
        ctx.violation(sig, what, info["case"])
    elif k == "name":
        c = info["case"]
        sig = "C16|%s|%s|%s|%s" % (clause.split()[0], c["mode"], "j2" if c["name"].endswith(".j2") else "non-j2", "subdir" if "/" in c["name"] else "top")
        ctx.violation(sig, "template %r requested by name (%s via %s%s, loader sets: %s; a user file of that name %s, a built-in file %s): text came from "
                      "set %d (1 user, 2 built-in, 3 another file, 0 not found / error) [%s]"
                      % (c["name"], c["access"], c["path"], "/" + c["lang"] if c.get("lang") else "", c["mode"], "exists" if c["inU"] else "does not exist",
                         "exists" if c["inB"] else "does not exist", rec["src"], clause), c)
    elif k == "inst":
        parts = clause.split()
        K = int(parts[1]) if len(parts) > 1 else 0
        hier = info["hier"]
        kn = hier.cls[K].__name__ if 0 < K <= hier.n else "?"
        root = "attribute-class" if K and rec["attr"] in hier.dist[K] else "type-class"
        vk = "attribute" if rec["vcls"] and rec["attr"] in hier.dist.get(rec["vcls"], {}) else ("pydsdl-value" if rec["vcls"] else "foreign-value")
        sig = "C16|%s|%s|%s" % (parts[0], root, vk)
        ctx.violation(sig, "instance test %s / alias on %s (%s): test says %s, alias says %s [%s]"
                      % (kn, info["desc"], info["path"], rec["res"][K - 1] if K else "?", rec["resa"][K - 1] if K else "?", clause), info["case"])
    elif k == "alias":
        ctx.violation("C16|env.test_exists|%s" % ("name" if not rec["has_name"] else "alias"),
                      "instance test %r / alias %r missing from the environment (%s)" % (to_s(rec["name"]), to_s(rec["alias"]), info["desc"]), info["case"])
    elif k == "env":
        rk = "+".join(sorted({x.split(":")[0] for x in info["replaced_names"]})) or "none"
        ctx.violation("C16|env.no_silent_replace|%s|%s" % (rk, info["path"]),
                      "user additions %r (path %s, language %s) raised no error and replaced %d protected name(s): %s"
                      % (info["adds"], info["path"], info["lang"], rec["replaced"], info["replaced_names"]), info["case"])


# ---------------------------------------------------------------------------------------------------------------------
# part 1: lookup histories
# ---------------------------------------------------------------------------------------------------------------------
def emission_jobs(ctx, variant):
    """spec -> code stimuli: every complete history of the bounded model with the I-layer's predicted answers"""
    quick = [("chain4", m, 3) for m in ("both", "fs", "pkg")] + [("diamond4", "both", 2), ("diamond4", "fs", 3), ("diamond4", "pkg", 3),
                                                                   ("tree5", "both", 2), ("lop5", "fs", 2), ("lop5", "both", 2)]
    thorough = [("chain4", m, 3) for m in ("both", "fs", "pkg")] + [("diamond4", m, 3) for m in ("both", "fs", "pkg")] + [
        ("tree5", "both", 3), ("chain5", "both", 3), ("diamond5", "both", 3), ("tree5", "fs", 3), ("tree5", "pkg", 3), ("lop5", "both", 3), ("lop5", "fs", 3), ("lop5", "pkg", 3)]
    spec = SPECS / "TemplateLookup.tla"
    jobs = []
    for sh, mode, L in ctx.pick(quick, thorough):
        cfg = mk_cfg(ctx, "e_%s_%s_%d" % (sh, mode, L), shape=sh, modes=(mode,), L=L, shared=(variant == "shared"), invariants=("Emit",))
        jobs.append(((sh, mode, L), (lambda c=cfg: tlc.run_tlc(spec, c, ctx.scratch, workers=1, timeout=3000, xmx="2g"))))
    cfg2 = mk_cfg(ctx, "e_env", spec="EnvSpec", maxadds=2, invariants=("EnvEmit",))
    jobs.append((("env",), (lambda: tlc.run_tlc(spec, cfg2, ctx.scratch, workers=1, timeout=3000, xmx="2g"))))
    return jobs


def emission_account(ctx, key, r, variant):
    if not r.ok:
        raise MachineryFailure("case emission %r failed: %s %s\n%s" % (key, r.error, r.violated, r.out[-2500:]))
    if key == ("env",):
        r.constants = "MaxAdds=2 (emission)"
        ctx.add_model(r, "TemplateLookup EnvSpec emission")
    else:
        r.constants = "Shape=%s Modes={%s} MaxLookups=%d SharedCache=%s (emission)" % (key[0], key[1], key[2], variant == "shared")
        ctx.add_model(r, "TemplateLookup emission %s/%s" % key[:2])
    return r.json_lines()


def replay_emitted(ctx, R, LP, J, cases):
    """replay on real loaders; returns [(record id, case, I-mismatch description or None)]"""
    out = []
    amb = 0
    for n, c in enumerate(cases):
        hier = synthetic_hier(c["bases"], c["anyc"])
        mode = c["mode"]
        user, builtin = set(c["user"]), set(c["builtin"])
        # a set the loader has no loader object for is invisible: put arbitrary templates there
        duser = user if mode != "pkg" else set(ctx.rng.sample(range(1, hier.n + 1), ctx.rng.randint(0, hier.n)))
        dbuiltin = builtin if mode != "fs" else set(ctx.rng.sample(range(1, hier.n + 1), ctx.rng.randint(0, hier.n)))
        dirs = R.user(hier.names(duser))
        b = R.builtin(hier.names(dbuiltin))
        flavor = n % 2
        mk = lambda: make_loader(mode, dirs, b, flavor)
        lookups = [s["c"] for s in c["steps"]]
        key = (hier.kind, id(hier), mode, flavor, tuple(sorted(duser)), tuple(sorted(dbuiltin)))
        steps = LP.history(mk, hier, lookups, dirs, key)
        ctx.count(len(steps))
        case = {"kind": "hist", "path": "loader", "hier": {"bases": c["bases"], "anyc": c["anyc"]}, "mode": mode, "flavor": flavor,
                "user": sorted(duser), "builtin": sorted(dbuiltin), "lookups": lookups}
        rid = J.add(hist_record(0, hier, duser, dbuiltin, mode, steps), hier=hier, mode=mode, path="DSDLTemplateLoader", case=case)
        mism = None
        for i, (s, e) in enumerate(zip(steps, c["steps"])):
            if (s["got"], s["src"], s["cold"]) != (e["got"], e["src"], e["cold"]):
                mism = "step %d of %s: I-layer predicts (got,src,cold)=%r, code gives %r" % (
                    i + 1, {k: case[k] for k in ("mode", "user", "builtin", "lookups")}, (e["got"], e["src"], e["cold"]), (s["got"], s["src"], s["cold"]))
                break
        if any(not e["det"] for e in c["steps"]):
            amb += 1
            if amb == 1:
                ctx.cov["ambiguous_example"] = {"shape": c["shape"], "mode": mode, "user": c["user"], "builtin": c["builtin"], "steps": c["steps"]}
        out.append((rid, c, mism))
        ctx.distinct("h|%s|%s|%s|%s|%s" % (c["shape"], mode, c["user"], c["builtin"], lookups), nontrivial=bool(user or builtin))
    if amb:
        ctx.ambiguous("%d of %d model histories contain a lookup where the readings of the statement differ (both sets hold a template for the "
                      "chain and the nearest user template is farther than the nearest built-in one, or a template is named after a class beyond "
                      "Any): either answer is accepted there, history/order independence is still required" % (amb, len(cases)))
    return out


def rand_real_histories(ctx, R, LP, J, H, n):
    """code -> spec: the real PyDSDL hierarchy, random subsets, random realizations, longer histories"""
    rng = ctx.rng
    ids = list(range(1, H.n + 1))
    leaves = [c for c in ids if not any(c in b for b in H.bases)]
    realpk = {}
    for lang in LANGS:
        d = REPO / "src" / "nunavut" / "lang" / lang / "templates"
        realpk[lang] = {H.name2id[p.stem] for p in d.glob("*.j2") if p.stem in H.name2id}
    amb = 0
    for i in range(n):
        focus = rng.choice(leaves)
        chain = sorted(H.dist[focus], key=lambda x: H.dist[focus][x])
        rel = set(chain)
        for c in ids:
            if rng.random() < 0.15 or (set(H.dist[c]) & set(chain[:3]) and rng.random() < 0.5):
                rel.add(c)
        relv = sorted(rel)

        def subset(p):
            return {c for c in relv if rng.random() < p}

        mode = rng.choice(["both", "both", "both", "fs", "pkg"])
        user = subset(rng.choice([0.0, 0.15, 0.3, 0.5]))
        use_real = rng.random() < 0.15 and mode != "fs"
        lang = rng.choice(LANGS)
        builtin = set(realpk[lang]) if use_real else subset(rng.choice([0.15, 0.3, 0.5]))
        lookups = [rng.choice(relv if rng.random() < 0.85 else ids) for _ in range(rng.randint(1, 6))]
        flavor = rng.randint(0, 1)
        cdirs = R.user(H.names(user))
        vdirs, layout = R.user_variant(H.names(user), rng) if mode != "pkg" and rng.random() < 0.7 else (cdirs, None)
        if use_real:
            kw = {"pkg": "nunavut.lang." + lang, "tpath": "templates"}
            b = "templates"
        else:
            kw = {}
            b = R.builtin(H.names(builtin))
        mk = lambda: make_loader(mode, vdirs, b, flavor, **kw)
        refmk = lambda: make_loader(mode, cdirs, b, flavor, **kw)
        key = ("real", i)
        steps = LP.history(mk, H, lookups, vdirs, key, ("realref", i), refmk)
        LP._cold.clear()
        ctx.count(len(steps))
        case = {"kind": "hist", "path": "loader", "hier": "pydsdl", "mode": mode, "flavor": flavor, "user": H.names(user), "builtin": H.names(builtin),
                "lookups": [H.cls[c].__name__ for c in lookups],
                "real_package": lang if use_real else None, "layout": layout}
        J.add(hist_record(0, H, user, builtin, mode, steps), hier=H, mode=mode, path="DSDLTemplateLoader/pydsdl", case=case)
        if vdirs is not cdirs:
            R.drop(vdirs)
        ctx.distinct("r|%s|%s|%s|%s" % (mode, sorted(user), sorted(builtin), lookups), nontrivial=bool(user or builtin))
        if i == 3:
            ctx.sample({"direction": "code->spec", "path": "DSDLTemplateLoader", **{k: case[k] for k in ("mode", "user", "builtin", "lookups")},
                        "observed": [{k: (H.cls[s[k]].__name__ if 0 < s[k] <= H.n else s[k]) for k in ("c", "got", "cold")} for s in steps]})


def generator_histories(ctx, R, J, H, GP, n):
    """code -> spec through the public API: DSDLCodeGenerator.filter_type_to_template on real instances, generate_all"""
    import pydsdl

    rng = ctx.rng
    vals = [(d, v) for d, v in GP.fx.values if isinstance(v, pydsdl.Any) and type(v) in H.id]
    ngen = 0
    for i in range(n):
        lang = LANGS[i % len(LANGS)]
        mode = "fs" if i % 3 else "pkg"
        picks = [rng.choice(vals) for _ in range(rng.randint(1, 6))]
        rel = set()
        for _, v in picks:
            rel |= set(H.dist[H.id[type(v)]])
        relv = sorted(rel)
        vis = {c for c in relv if rng.random() < rng.choice([0.1, 0.3, 0.6])}
        hid = {c for c in relv if rng.random() < 0.4}
        user, builtin = (vis, hid) if mode == "fs" else (hid, vis)
        cdirs = R.user(H.names(user))
        vdirs, layout = R.user_variant(H.names(user), rng) if mode == "fs" and rng.random() < 0.6 else (cdirs, None)
        b = R.builtin(H.names(builtin))
        flavor = rng.randint(0, 5)
        g = GP.gen(lang, mode, vdirs, b, flavor=flavor)
        steps = []
        for d, v in picks:
            c = H.id[type(v)]
            got, src = GP.lookup(g, H, v, vdirs)
            cold = GP.lookup(GP.gen(lang, mode, vdirs, b, flavor=flavor), H, v, vdirs)[0]
            ref = GP.lookup(GP.gen(lang, mode, cdirs, b, flavor=flavor), H, v, cdirs)[0] if vdirs is not cdirs else cold
            steps.append({"c": c, "got": got, "cold": cold, "ref": ref, "src": src})
        ctx.count(len(steps))
        case = {"kind": "hist", "path": "generator", "lang": lang, "hier": "pydsdl", "mode": mode, "flavor": flavor, "user": H.names(user),
                "builtin": H.names(builtin), "values": [d for d, _ in picks], "layout": layout}
        J.add(hist_record(0, H, user, builtin, mode, steps), hier=H, mode=mode, path="DSDLCodeGenerator.filter_type_to_template/" + lang, case=case)
        ctx.distinct("g|%s|%s|%s|%s|%s" % (lang, mode, sorted(user), sorted(builtin), [s["c"] for s in steps]), nontrivial=bool(vis))
        if i == 1:
            ctx.sample({"direction": "code->spec", "path": "DSDLCodeGenerator.filter_type_to_template", "lang": lang, "mode": mode,
                        "templates": H.names(vis), "values": [d for d, _ in picks],
                        "observed": [H.cls[s["got"]].__name__ if 0 < s["got"] <= H.n else s["got"] for s in steps]})
        if vdirs is not cdirs:
            R.drop(vdirs)
        # generate_all: the text written for a type is the text of the template that was used for it
        if lang in ("c", "cpp") and mode == "fs" and i % 2 == 0:
            comp = [H.id[k] for k in (pydsdl.StructureType, pydsdl.UnionType, pydsdl.DelimitedType, pydsdl.ServiceType, pydsdl.CompositeType,
                                      pydsdl.SerializableType, pydsdl.Any)]
            user2 = {c for c in comp if rng.random() < 0.4} | {rng.choice(comp[4:])}
            dirs2 = R.user(H.names(user2))
            g2 = GP.gen(lang, "fs", dirs2, b, flavor=flavor)
            outs = list(g2.generate_all(False, True))
            steps = []
            for (t, op) in g2.namespace.get_all_datatypes():
                c = H.id[type(t)]
                txt = pathlib.Path(str(op)).read_text().strip()
                got = H.name2id.get(txt[2:], H.other) if txt.startswith(("U:", "B:")) else H.other
                src = 1 if txt.startswith("U:") else (2 if txt.startswith("B:") else 3)
                cold = GP.lookup(GP.gen(lang, "fs", dirs2, b, flavor=flavor), H, t, dirs2)[0]
                steps.append({"c": c, "got": got, "cold": cold, "ref": cold, "src": src})
            shutil.rmtree(str(GP.out / lang), True)
            if len(steps) != len(outs) or not steps:
                raise MachineryFailure("generate_all produced %d files for %d types" % (len(outs), len(steps)))
            ngen += 1
            ctx.count(len(steps))
            case = {"kind": "hist", "path": "generate_all", "lang": lang, "hier": "pydsdl", "mode": "fs", "flavor": flavor, "user": H.names(user2),
                    "builtin": H.names(builtin)}
            J.add(hist_record(0, H, user2, builtin, "fs", steps), hier=H, mode="fs", path="DSDLCodeGenerator.generate_all/" + lang, case=case)
    return ngen


def support_templates(ctx, R, J, GP):
    """clause 1 on the public by-name path: SupportGenerator renders the support templates by NAME; a user template of the same
    name (support_templates_dir) must be the one that is used.  Encoded as a one-class hierarchy: the name is its own class."""
    from nunavut.jinja import SupportGenerator

    n = 0
    for lang in ("c", "cpp", "py"):
        sup = REPO / "src" / "nunavut" / "lang" / lang / "support"
        names = sorted(p.stem for p in sup.glob("*.j2"))
        for name in names:
            for with_user in (True, False):
                hier = Hier("support", [type(name, (object,), {})], None)
                d = R.root / ("sup_%s_%s" % (lang, name))
                d.mkdir(exist_ok=True)
                (d / (name + ".j2")).write_text("U:" + name)
                (d / "unrelated.j2").write_text("U:unrelated")
                kw = {"support_templates_dir": [d]} if with_user else {"templates_dir": [d]}  # templates_dir must not influence support files
                g = SupportGenerator(GP.ns[lang], **kw)
                outs = [pathlib.Path(str(o)) for o in g.generate_all(False, True)]
                hit = [o for o in outs if o.stem == name]
                if len(hit) != 1:
                    raise MachineryFailure("support file for %s/%s not generated: %r" % (lang, name, outs))
                txt = hit[0].read_text()
                src = 1 if txt.strip() == "U:" + name else (3 if txt.startswith("U:") else 2)
                shutil.rmtree(str(GP.out / lang), True)
                steps = [{"c": 1, "got": 1, "cold": 1, "ref": 1, "src": src}]
                case = {"kind": "support", "lang": lang, "name": name, "with_user": with_user}
                J.add(hist_record(0, hier, {1} if with_user else set(), {1}, "both", steps), hier=hier, mode="both",
                      path="SupportGenerator/" + lang, case=case)
                ctx.count()
                ctx.distinct("s|%s|%s|%s" % (lang, name, with_user))
                n += 1
    return n


# ---------------------------------------------------------------------------------------------------------------------
# part 1b: resolution BY NAME (any name: with / without the template suffix, top level / sub-directory)
# ---------------------------------------------------------------------------------------------------------------------
NAME_POOL = ["banner.txt", "macros.j2", "part.j2", "namespace_base.js", "inc/part.j2", "inc/banner.txt", "assets/x.css", "assets/deep/y.js",
             "README", "Any.j2"]
ACCESS = ("get_source", "get_template", "include", "import", "from_import")


def name_text(tag, name):
    """one text that serves get_source, get_template, include (renders the marker) and import (macro who() returns the marker)"""
    return "{%% macro who() %%}%s:%s{%% endmacro %%}%s:%s" % (tag, name, tag, name)


def includer(access, name):
    if access == "import":
        return '{%% import "%s" as m %%}{{ m.who() }}' % name
    if access == "from_import":
        return '{%% from "%s" import who %%}{{ who() }}' % name
    return '{%% include "%s" %%}' % name


def name_src(text, name):
    t = text.strip()
    if t.endswith("U:" + name):
        return 1
    if t.endswith("B:" + name):
        return 2
    if "{% macro who() %}" in t or t.startswith(("U:", "B:")):
        return 3  # the text of another scratch file
    return 2  # a real built-in file (the harness' user copies always carry the marker)


def observe_name(R, GP, case):
    """-> src (1 user text, 2 built-in text, 3 wrong text, 0 not resolvable / error)"""
    from nunavut.jinja import CodeGenEnvironmentBuilder, SupportGenerator

    name, mode, access, path, flavor = case["name"], case["mode"], case["access"], case["path"], case.get("flavor", 0)
    ufiles = set(case["others_u"]) | ({name} if case["inU"] else set())
    bfiles = set(case["others_b"]) | ({name} if case["inB"] else set())
    try:
        if path in ("loader", "environment"):
            if case.get("real_package"):
                pkg, bp = "nunavut.lang." + case["real_package"], "templates"
            else:
                pkg, bp = PKG, R.name_builtin(bfiles)
            ld = make_loader(mode, [R.name_user(ufiles)], bp, flavor, pkg=pkg)
            if access == "get_source":
                return name_src(ld.get_source(None, name)[0], name)
            env = CodeGenEnvironmentBuilder(ld, GP.lctx["c"]).create()
            if access == "get_template":
                return name_src(env.get_template(name).render(), name)
            return name_src(env.from_string(includer(access, name)).render(), name)
        lang = case["lang"]
        if path == "DSDLCodeGenerator":
            top = {"Any.j2": includer(access, name)}
            if mode == "fs":
                d = R.name_user(ufiles)
                g = GP.gen(lang, "fs", [overlay(R, d, top)], R.name_builtin(bfiles), flavor=flavor)
            else:
                b = R.name_builtin(bfiles | {"Any.j2", "gen_%s.flag" % access})  # a package directory of its own
                overlay(R, R.root / "pk" / PKG / b, top, inplace=True)
                g = GP.gen(lang, "pkg", None, b, flavor=flavor)
        elif path == "SupportGenerator":
            sup = sorted(p.stem for p in (REPO / "src" / "nunavut" / "lang" / lang / "support").glob("*.j2"))[0]
            d = overlay(R, R.name_user(ufiles), {sup + ".j2": includer(access, name)})
            g = SupportGenerator(GP.ns[lang], support_templates_dir=[d])
        else:
            raise MachineryFailure("path " + path)
        outs = [pathlib.Path(str(o)) for o in g.generate_all(False, True)]
        txt = outs[0].read_text() if outs else ""
        return name_src(txt, name)
    except MachineryFailure:
        raise
    except Exception:  # TemplateNotFound or whatever else makes the name unusable
        return 0
    finally:
        if path in ("DSDLCodeGenerator", "SupportGenerator"):
            shutil.rmtree(str(GP.out / case["lang"]), True)


_OVL = {}


def overlay(R, base, extra, inplace=False):
    """a copy of directory `base` plus the files `extra` (the including type / support template)"""
    if inplace:
        for fn, txt in extra.items():
            (base / fn).write_text(txt)
        return base
    key = (str(base), tuple(sorted(extra.items())))
    if key not in _OVL:
        d = R.root / ("ov%d" % len(_OVL))
        shutil.copytree(str(base), str(d))
        for fn, txt in extra.items():
            (d / fn).write_text(txt)
        _OVL[key] = d
    return _OVL[key]


def name_record(J, case, src):
    mode = case["mode"]
    J.add({"k": "name", "inU": bool(case["inU"]), "inB": bool(case["inB"]), "fs": mode in ("fs", "both"), "pkg": mode in ("pkg", "both"), "src": src},
          case=case)


def by_name(ctx, R, J, GP):
    rng = ctx.rng
    n = 0

    def others(name):
        pool = [x for x in NAME_POOL if x != name and x != "Any.j2"]
        return sorted(rng.sample(pool, rng.randint(0, 3))), sorted(rng.sample(pool, rng.randint(0, 3)))

    def go(case):
        nonlocal n
        src = observe_name(R, GP, case)
        name_record(J, case, src)
        ctx.count()
        ctx.distinct("n|%s|%s|%s|%s|%s|%s|%s" % (case["path"], case.get("lang"), case["mode"], case["access"], case["name"], case["inU"], case["inB"]))
        n += 1
        return src

    # the loader directly and through an environment: every name x (in user set?, in built-in set?) x loader configuration x access
    for rep in range(ctx.pick(1, 4)):
        for name in NAME_POOL:
            for inU in (True, False):
                for inB in (True, False):
                    for mode in ("both", "fs", "pkg"):
                        for flavor in (0, 1):
                            ou, ob = others(name)
                            for access in ACCESS:
                                go({"kind": "name", "path": "loader" if access == "get_source" else "environment", "name": name, "inU": inU, "inB": inB,
                                    "mode": mode, "flavor": flavor, "access": access, "others_u": ou, "others_b": ob})
    # real built-in files of the html template set (namespace_base.js, assets/*, helper templates), with and without a user copy
    real = REPO / "src" / "nunavut" / "lang" / "html" / "templates"
    rnames = sorted(str(p.relative_to(real)) for p in real.rglob("*") if p.is_file() and p.suffix not in (".py", ".pyc") and "__pycache__" not in p.parts)
    for name in rnames:
        for inU in (True, False):
            for mode, flavor in (("both", 0), ("pkg", 0), ("pkg", 1)):
                go({"kind": "name", "path": "loader", "name": name, "inU": inU, "inB": True, "mode": mode, "flavor": flavor, "access": "get_source",
                    "others_u": [], "others_b": [], "real_package": "html"})
    # the public generators: a type / support template that includes or imports the name
    gnames = ["banner.txt", "part.j2", "inc/part.j2", "assets/x.css"]
    for i, name in enumerate(gnames):
        for inU in (True, False):
            for access in ("include", "import"):
                lang = ("c", "cpp")[i % 2]
                for inB in (False, True):
                    go({"kind": "name", "path": "DSDLCodeGenerator", "lang": lang, "name": name, "inU": inU, "inB": inB, "mode": "fs", "flavor": 3 * i,
                        "access": access, "others_u": [], "others_b": []})
                go({"kind": "name", "path": "DSDLCodeGenerator", "lang": lang, "name": name, "inU": False, "inB": inU, "mode": "pkg", "flavor": i,
                    "access": access, "others_u": [], "others_b": []})
                for slang in ctx.pick((("c", "py")[i % 2],), ("c", "cpp", "py")):
                    go({"kind": "name", "path": "SupportGenerator", "lang": slang, "name": name, "inU": inU, "inB": False, "mode": "both", "flavor": 0,
                        "access": access, "others_u": [], "others_b": []})
    ctx.cov["by_name"] = {"requests": n, "names": NAME_POOL, "real_html_builtins": rnames, "access": list(ACCESS)}
    return n


# ---------------------------------------------------------------------------------------------------------------------
# part 2: instance tests
# ---------------------------------------------------------------------------------------------------------------------
def py_alias(name):
    low = name.lower()
    if len(low) > 4 and low.endswith("type"):
        return low[:-4]
    if len(low) > 5 and low.endswith("field"):
        return low[:-5]
    return low


def instance_tests(ctx, J, H, GP):
    import pydsdl

    ser, attr = H.id[pydsdl.SerializableType], H.id[pydsdl.Attribute]
    tested = [c for c in range(1, H.n + 1) if ser in H.dist[c] or attr in H.dist[c]]
    ambiguous_cells = 0
    nrender = 0
    for lang in LANGS:
        g = GP.gen(lang)
        tests = g._env.tests if hasattr(g, "_env") else None
        if tests is None:
            raise MachineryFailure("cannot reach the generator's environment")
        for c in tested:
            nm = H.cls[c].__name__
            al = py_alias(nm)
            J.add({"k": "alias", "name": cps(nm), "alias": cps(al), "has_name": nm in tests, "has_alias": al in tests},
                  desc="class %s, language %s" % (nm, lang), case={"kind": "alias", "lang": lang, "cls": nm})
            ctx.count()
        for vi, (desc, v) in enumerate(GP.fx.values):
            vcls = H.id.get(type(v), 0) if isinstance(v, pydsdl.Any) else 0
            dcls = H.id.get(type(v.data_type), 0) if isinstance(v, pydsdl.Attribute) else 0
            for path in (("call", "render") if (vi % ctx.pick(5, 2) == 0 and lang in ("c", "py")) else ("call",)):
                res, resa = [0] * H.n, [0] * H.n
                names = []
                for c in tested:
                    nm = H.cls[c].__name__
                    names.append((c, nm, py_alias(nm)))
                if path == "call":
                    for c, nm, al in names:
                        res[c - 1] = (1 if tests[nm](v) else 0) if nm in tests else 2
                        resa[c - 1] = (1 if tests[al](v) else 0) if al in tests else 2
                else:
                    have = [(c, nm, al) for c, nm, al in names if nm in tests and al in tests]
                    src = "".join("{{ 1 if v is %s else 0 }}{{ 1 if v is %s else 0 }}" % (nm, al) for _, nm, al in have)
                    txt = g._env.from_string(src).render(v=v)
                    if len(txt) != 2 * len(have):
                        raise MachineryFailure("render path gave %r" % txt)
                    for c, nm, al in names:
                        res[c - 1] = resa[c - 1] = 2
                    for j, (c, nm, al) in enumerate(have):
                        res[c - 1], resa[c - 1] = int(txt[2 * j]), int(txt[2 * j + 1])
                    nrender += 1
                ctx.count(2 * len(tested))
                if dcls and vcls:
                    ambiguous_cells += sum(1 for c in tested if c in H.dist[vcls] and c not in H.dist.get(dcls, {}))
                J.add({"k": "inst", "bases": H.bases_out, "roots": [ser, attr], "attr": attr, "vcls": vcls, "dcls": dcls, "res": res + [0], "resa": resa + [0]},
                      hier=H, desc=desc, path="%s/%s" % (path, lang), case={"kind": "inst", "lang": lang, "value": desc, "path": path})
                ctx.distinct("i|%s|%s|%s" % (lang, path, desc))
    ctx.cov["instance_tests"] = {"classes_with_tests": len(tested), "values": len(GP.fx.values), "languages": list(LANGS), "render_path_values": nrender}
    if ambiguous_cells:
        ctx.ambiguous("instance tests named after Attribute classes (Attribute, Field, PaddingField, Constant and their aliases) applied to attribute "
                      "VALUES: 'membership of the value' says true, 'membership of the attribute's data type' says false; the code implements the "
                      "latter (so `f is padding`, `attr is Field` are false for every PyDSDL object) -- %d such cells accepted under either reading"
                      % ambiguous_cells)
    return tested


# ---------------------------------------------------------------------------------------------------------------------
# part 3: additions to the environment
# ---------------------------------------------------------------------------------------------------------------------
def marker(named=None):
    def m(*a, **k):
        return "C16-MARK"

    m._c16_marker = True
    if named:   # user code names its functions as it likes - also exactly like the conventional method it would replace
        m.__name__ = m.__qualname__ = named
    return m


def is_marker(o):
    return bool(getattr(o, "_c16_marker", False) or getattr(getattr(o, "func", None), "_c16_marker", False))


class EnvPath:
    RESERVED = ("ln", "options", "uses_queries", "nunavut", "now_utc")

    def __init__(self, ctx, GP):
        from nunavut.jinja.jinja2 import defaults

        self.GP = GP
        self.jinja_globals = set(defaults.DEFAULT_NAMESPACE)
        self.base = {}
        self.cat = {}
        for lang in LANGS:
            benv = self.build("builder", lang, False, [])[1]
            genv = self.build("generator", lang, False, [])[1]
            if benv is None or genv is None:
                raise MachineryFailure("cannot build the baseline environment for " + lang)
            base = {}
            for path, env in (("builder", benv), ("generator", genv)):
                base[path] = {"filters": set(env.filters), "tests": set(env.tests), "globals": set(env.globals)}
            self.base[lang] = base
            res = [n for n in self.RESERVED if n in base["builder"]["globals"]]
            self.cat[lang] = {
                "f": sorted(base["builder"]["filters"]), "t": sorted(base["builder"]["tests"]),
                "m": sorted(base["generator"]["filters"] - base["builder"]["filters"]),
                "d": sorted(base["generator"]["tests"] - base["builder"]["tests"]),
                "r": res, "j": sorted(self.jinja_globals & base["builder"]["globals"]),
                "l": sorted(base["builder"]["globals"] - set(res) - self.jinja_globals),
                "q": ["zz_c16_fresh"],
            }
            if len(res) != len(self.RESERVED):
                ctx.drift("reserved globals missing from the environment of %s: %s" % (lang, sorted(set(self.RESERVED) - set(res))))

    def build(self, path, lang, allow, adds):
        """adds: [(kind, name)] -> (error or None, environment or None)"""
        from nunavut.jinja import CodeGenEnvironmentBuilder

        kw = {"globals": {}, "filters": {}, "tests": {}}
        for n, (kind, name) in enumerate(adds):
            conv = {"filters": "filter_", "tests": "is_"}.get(kind)
            kw[kind][name] = marker((conv + name) if conv and (len(name) + n) % 2 == 0 else None)
        try:
            if path == "builder":
                b = CodeGenEnvironmentBuilder(make_loader("pkg", None, "templates", pkg="nunavut.lang." + lang), self.GP.lctx[lang])
                if kw["filters"]:
                    b.add_filters(**kw["filters"])
                if kw["tests"]:
                    b.add_tests(**kw["tests"])
                if kw["globals"]:
                    b.add_globals(**kw["globals"])
                if allow:
                    b.set_allow_filter_test_or_use_query_overwrite(True)
                return None, b.create()
            if allow:
                raise MachineryFailure("the generator path offers no overwrite request")
            g = self.GP.gen(lang, additional_filters=kw["filters"] or None, additional_tests=kw["tests"] or None, additional_globals=kw["globals"] or None)
            return None, g._env
        except MachineryFailure:
            raise
        except Exception as e:  # any exception is "an error was raised" (not silent)
            return e, None

    def observe(self, path, lang, allow, adds):
        """-> (exception or None, protected names now bound to a user object, Jinja default globals so bound, all user-bound names,
        noisy).  noisy: no exception, but a warning / a log record of level WARNING or above that names one of the additions was
        emitted -- that is not a SILENT replacement either."""
        import logging
        import warnings

        seen = []

        class Cap(logging.Handler):
            def emit(self, record):
                try:
                    seen.append(record.getMessage())
                except Exception:  # noqa
                    seen.append(str(record.msg))

        cap = Cap(level=logging.WARNING)
        root = logging.getLogger()
        root.addHandler(cap)
        try:
            with warnings.catch_warnings(record=True) as wl:
                warnings.simplefilter("always")
                err, env = self.build(path, lang, allow, adds)
            seen += [str(w.message) for w in wl]
        finally:
            root.removeHandler(cap)
        keys = {n for _, n in adds} | {strip_name(n) for _, n in adds}
        noisy = err is None and any(k and k in msg for msg in seen for k in keys)
        rep, amb, usr = [], [], {"globals": [], "filters": [], "tests": []}
        if env is not None:
            for kind, coll in (("filters", env.filters), ("tests", env.tests), ("globals", env.globals)):
                for n in coll:
                    if is_marker(coll[n]):
                        usr[kind].append(n)
                        if n in self.base[lang][path][kind]:
                            (amb if (kind == "globals" and n in self.jinja_globals) else rep).append("%s:%s" % (kind, n))
        return err, sorted(rep), sorted(amb), {k: sorted(v) for k, v in usr.items()}, noisy


def env_record(J, EP, path, lang, allow, adds, obs, cats):
    err, rep, amb, usr, noisy = obs
    kinds = "+".join(sorted({k for k, _ in adds})) or "none"
    case = {"kind": "env", "path": path, "lang": lang, "allow": allow, "adds": [list(a) for a in adds]}
    J.add({"k": "env", "allow": bool(allow), "err": err is not None or noisy, "replaced": len(rep)},
          kinds=kinds, cats=cats, adds=adds, path=path, lang=lang, replaced_names=rep, case=case)


def strip_name(n):
    for p in ("is_", "filter_", "uses_"):
        if n.startswith(p):
            return n[len(p):]
    return n


def env_additions(ctx, J, GP, cases):
    EP = EnvPath(ctx, GP)
    if len(cases) < 1000:
        raise MachineryFailure("too few environment cases: %d" % len(cases))
    rng = ctx.rng
    singles = [c for c in cases if len(c["adds"]) <= 1]
    pairs = [c for c in cases if len(c["adds"]) == 2]
    rng.shuffle(pairs)
    pairs = pairs[:ctx.pick(1500, 12000)]
    amb_total, drift = 0, 0
    nreal = {"filters": set(), "tests": set(), "globals": set()}
    sample_done = False

    def abstract_present(kind, prefix, letter, path):
        if kind == "globals":
            return prefix == "" and letter in "jrl"
        if kind == "filters":
            return letter == "f" or (letter == "m" and path == "generator")
        return letter == "t" or (letter == "d" and path == "generator")

    def instantiate(lang, path, adds, exhaustive):
        """abstract additions (kind, prefix+letter) -> lists of real additions.  One real name per letter (so names that coincide in the
        model coincide in reality); a real name qualifies only if it is present/absent in the collection it is added to exactly as the
        model's abstract name is (e.g. the name of a built-in TEST added as a FILTER must not also be a built-in filter)."""
        parsed = [(kind, to_s(n)[:-1], to_s(n)[-1]) for kind, n in adds]
        letters = sorted({l for _, _, l in parsed})
        if not letters:
            return [([], {})]

        def ok(mapping):
            for kind, prefix, letter in parsed:
                real = mapping[letter]
                eff = prefix + real if kind == "globals" else real
                if (eff in EP.base[lang][path][kind]) != abstract_present(kind, prefix, letter, path):
                    return False
            return True

        pools = {l: [r for r in EP.cat[lang][l] if strip_name(r) == r] for l in letters}
        if any(not pools[l] for l in letters):
            return []
        maps = []
        if len(letters) == 1 and exhaustive:
            maps = [{letters[0]: r} for r in pools[letters[0]]]
        else:
            for _ in range(6):
                maps.append({l: rng.choice(pools[l]) for l in letters})
        res, seen = [], set()
        for m in maps:
            if not ok(m):
                continue
            inst = [(kind, prefix + m[letter]) for kind, prefix, letter in parsed]
            key = tuple(inst)
            if key in seen:
                continue
            seen.add(key)
            res.append((inst, m))
            if not exhaustive and len(res) >= 2:
                break
        return res

    def expected_user(case, m):
        """the emitted abstract registry (names owned by the user at the end) mapped to the real names of this instance"""
        out = {}
        for fld, kind in (("ug", "globals"), ("uf", "filters"), ("ut", "tests")):
            out[kind] = sorted(to_s(n)[:-1] + m[to_s(n)[-1]] for n in case[fld])
        return out

    langs_for = lambda i: LANGS if not ctx.quick else (LANGS[i % len(LANGS)],)
    own = {"f": "filters", "m": "filters", "t": "tests", "d": "tests", "r": "globals", "j": "globals", "l": "globals"}
    conv = {"filters": ("", "filter_"), "tests": ("", "is_"), "globals": ("",)}

    def native(c):
        """a single addition of an existing name to its own collection, plain or behind that collection's convention prefix:
        replayed with EVERY real name; everything else with a sample of real names"""
        if len(c["adds"]) != 1:
            return False
        kind, n = c["adds"][0]
        s_ = to_s(n)
        return own.get(s_[-1]) == kind and s_[:-1] in conv[kind]

    for ci, c in enumerate(singles + pairs):
        exhaustive = native(c)
        for lang in (LANGS if (exhaustive or not ctx.quick) else langs_for(ci)):
            for inst, mapping in instantiate(lang, c["path"], c["adds"], exhaustive):
                obs = EP.observe(c["path"], lang, c["allow"], inst)
                ctx.count()
                err, rep, amb, usr, noisy = obs
                cats = "+".join(sorted(to_s(n)[-1] for _, n in c["adds"])) or "none"
                env_record(J, EP, c["path"], lang, c["allow"], inst, obs, cats)
                amb_total += len(amb)
                for k, n in inst:
                    nreal[k].add(n)
                if not sample_done and len(inst) == 1 and cats == "f" and c["allow"] is False:
                    ctx.sample({"direction": "spec->code", "path": c["path"], "lang": lang, "adds": inst, "model_says_error": c["err"],
                                "code_raised": repr(err)[:80] if err else None})
                    sample_done = True
                # I-layer prediction: error or not; and which names end up user-owned
                pred_err = bool(c["err"])
                if pred_err != (err is not None) or (err is None and expected_user(c, mapping) != usr):
                    drift += 1
                    if drift <= 3:
                        ctx.drift("environment: additions %r (%s, %s, allow=%s): I-layer predicts err=%s user-owned=%s, code gives err=%s user-owned=%s"
                                  % (inst, c["path"], lang, c["allow"], pred_err, expected_user(c, mapping), err is not None, usr))
                ctx.distinct("e|%s|%s|%s|%s" % (c["path"], c["allow"], cats, sorted(inst)), nontrivial=bool(inst))
    # code -> spec: random real names with random prefixes, up to 4 additions, every language
    for i in range(ctx.pick(400, 4000)):
        lang = rng.choice(LANGS)
        path = rng.choice(["builder", "generator"])
        allow = path == "builder" and rng.random() < 0.3
        adds, seen = [], set()
        for _ in range(rng.randint(1, 4)):
            kind = rng.choice(["filters", "tests", "globals"])
            letter = rng.choice("ftmdrjlq")
            real = rng.choice(EP.cat[lang][letter] or ["zz"])
            name = rng.choice(["", "", "filter_", "is_", "uses_"]) + real
            if (kind, name) not in seen and name.isidentifier():
                seen.add((kind, name))
                adds.append((kind, name))
        obs = EP.observe(path, lang, allow, adds)
        ctx.count()
        amb_total += len(obs[2])
        env_record(J, EP, path, lang, allow, adds, obs, "random")
        ctx.distinct("er|%s|%s|%s" % (path, allow, sorted(adds)))
    ctx.cov["environment"] = {"model_cases_single": len(singles), "model_cases_pairs_replayed": len(pairs),
                              "real_names_readded": {k: len(v) for k, v in nreal.items()}, "i_layer_mismatches": drift}
    if amb_total:
        ctx.ambiguous("additional_globals naming a Jinja default global (range, dict, lipsum, cycler, joiner, namespace) replace it without an error "
                      "(%d observations); the documented protection of globals covers the reserved names only, filters and tests are protected "
                      "against every existing name: not asserted for default globals (TLC refutes the strict reading on the I-layer)" % amb_total)
    return EP


# ---------------------------------------------------------------------------------------------------------------------
CANNED = {
    "hist": {"k": "hist", "bases": [[2], [3], [], []], "anyc": 3, "user": [2], "builtin": [3], "fs": True, "pkg": True,
             "steps": [{"c": 1, "got": 2, "cold": 2, "ref": 2, "src": 1}]},
    "inst": {"k": "inst", "bases": [[], [1], [1], [3], []], "roots": [2, 3], "attr": 3, "vcls": 2, "dcls": 0, "res": [0, 1, 0, 0, 0], "resa": [0, 1, 0, 0, 0]},
    "env": {"k": "env", "allow": False, "err": True, "replaced": 0},
    "alias": {"k": "alias", "name": cps("VoidType"), "alias": cps("void"), "has_name": True, "has_alias": True},
}


def selftests(ctx, J, emitted, H, rej0):
    """the binding is demonstrated: corrupted observations must be rejected, a perturbed expectation must be noticed.  The records
    corrupted are recorded observations that the T-layer ACCEPTED (canned ones only where the tree leaves none)."""
    import copy

    pick = {}
    for r in J.recs:
        if r["id"] in rej0:
            continue
        if r["k"] == "hist" and "hist" not in pick and J.info[r["id"]]["hier"].kind == "synthetic":
            hh = J.info[r["id"]]["hier"]
            first = next((s for s in r["steps"] if s["got"]), None)
            if first is not None and first["got"] <= hh.n and hh.anyc in hh.dist[first["got"]]:
                pick["hist"] = r
        if r["k"] == "inst" and "inst" not in pick and r["vcls"] and not r["dcls"] and r["roots"][0] in J.info[r["id"]]["hier"].dist[r["vcls"]]:
            pick["inst"] = r
        if r["k"] == "env" and "env" not in pick and r["err"] and not r["allow"]:
            pick["env"] = r
        if r["k"] == "alias" and "alias" not in pick:
            pick["alias"] = r
    canned = sorted(k for k in CANNED if k not in pick)
    for k in canned:
        pick[k] = CANNED[k]
    if canned:
        ctx.cov["selftest_canned_records"] = canned
    h = copy.deepcopy(pick["hist"])
    for s in h["steps"]:
        if s["got"]:
            s["got"] = s["cold"] = s["ref"] = 0  # "no template" although an ancestor has one
            break
    h["id"] = 0
    h2 = copy.deepcopy(pick["hist"])
    for s in h2["steps"]:
        if s["got"]:
            s["cold"] = 0  # history dependence
            break
    h2["id"] = 1
    it = copy.deepcopy(pick["inst"])
    it["res"][it["vcls"] - 1] = 0  # a value is not an instance of its own class
    it["resa"][it["vcls"] - 1] = 0
    it["id"] = 2
    e = copy.deepcopy(pick["env"])
    e["err"], e["replaced"], e["id"] = False, 1, 3
    a = copy.deepcopy(pick["alias"])
    a["has_alias"], a["id"] = False, 4
    ok = [dict(copy.deepcopy(pick[k]), id=10 + n) for n, k in enumerate(sorted(pick))]
    before = ctx.cov["traces_validated_against_impl"]
    rej = tlc.validate_traces(ctx, "TemplateLookupTrace", [h, h2, it, e, a] + ok)
    ctx.cov["traces_validated_against_impl"] = before  # self-test records are not observations of the tree
    ctx.selftest("the uncorrupted records are accepted", not any(r["id"] in rej for r in ok))
    ctx.selftest("T-layer rejects 'None' where an ancestor has a template", rej.get(0, "").startswith("lookup.nearest"))
    ctx.selftest("T-layer rejects an answer that differs from the cold answer", rej.get(1, "").startswith("lookup.history"))
    ctx.selftest("T-layer rejects a false instance test on the value's own class", rej.get(2, "").startswith("env.test_membership"))
    ctx.selftest("T-layer rejects a silent replacement", rej.get(3, "").startswith("env.no_silent_replace"))
    ctx.selftest("T-layer rejects a missing alias", rej.get(4, "").startswith("env.test_exists"))
    # spec -> code: perturb one expected outcome of an emitted case, the comparison must notice
    cand = [x for x in emitted if x[2] is None and any(s["got"] for s in x[1]["steps"])]
    if not cand:
        ctx.not_exercised("self-test of the replay comparison: no emitted history matches the I-layer on this tree")
        return
    rid, c, mism = cand[0]
    steps = J.recs[rid]["steps"]
    pert = copy.deepcopy(c["steps"])
    for s in pert:
        if s["got"]:
            s["got"] = 0
            break
    noticed = any((s["got"], s["src"], s["cold"]) != (e_["got"], e_["src"], e_["cold"]) for s, e_ in zip(steps, pert))
    ctx.selftest("replay driver notices a perturbed expected answer", noticed)


def run(ctx):
    import time

    t0 = [time.time()]
    ctx.cov["phase_s"] = {}

    def lap(name):
        ctx.cov["phase_s"][name] = round(time.time() - t0[0], 1)
        t0[0] = time.time()

    R = Realizer(ctx)
    variant = probe_variant(R)
    # all TLC work that does not depend on the code: exhaustive checks of the bounded design and emission of the stimuli
    mj, ej = model_jobs(ctx, variant), emission_jobs(ctx, variant)
    res = run_jobs(mj + ej, parallel=ctx.pick(10, 8))
    model_account(ctx, {k: v for k, v in res.items() if len(k) == 4}, variant)
    cases = []
    for key in sorted(k for k in res if len(k) == 3):
        cases += emission_account(ctx, key, res[key], variant)
    env_cases = emission_account(ctx, ("env",), res[("env",)], variant)
    lap("model checking and emission")

    H = real_hier()
    LP = LoaderPath(R)
    J = Judge(ctx)
    fx = Fixture(ctx)
    GP = GenPath(ctx, fx)

    # 1. lookup: spec -> code
    if len(cases) < 5000:
        raise MachineryFailure("too few histories emitted: %d" % len(cases))
    emitted = replay_emitted(ctx, R, LP, J, cases)
    lap("replay of emitted histories")
    mid = cases[len(cases) // 3]
    ctx.sample({"direction": "spec->code", "shape": mid["shape"], "mode": mid["mode"], "user": mid["user"], "builtin": mid["builtin"],
                "lookups": [s["c"] for s in mid["steps"]], "model_answers": [s["got"] for s in mid["steps"]],
                "code_answers": [s["got"] for s in J.recs[emitted[len(cases) // 3][0]]["steps"]]})
    # 2. lookup: code -> spec on the real hierarchy
    rand_real_histories(ctx, R, LP, J, H, ctx.pick(2500, 25000))
    lap("random histories on the pydsdl hierarchy")
    ngen = generator_histories(ctx, R, J, H, GP, ctx.pick(240, 2400))
    nsup = support_templates(ctx, R, J, GP)
    by_name(ctx, R, J, GP)
    lap("generator paths")
    # 3. instance tests, 4. environment additions
    tested = instance_tests(ctx, J, H, GP)
    lap("instance tests")
    env_additions(ctx, J, GP, env_cases)
    lap("environment additions")

    rej = J.run()
    lap("trace validation")
    # drift: the I-layer's prediction differs although P accepts the observation
    nd = 0
    for rid, c, mism in emitted:
        if mism is not None and rid not in rej:
            nd += 1
            ctx.drift("lookup: " + mism)
    ctx.cov["lookup"] = {"model_histories_replayed": len(cases), "i_layer_mismatches_accepted_by_P": nd, "pydsdl_classes": H.n,
                         "generate_all_runs": ngen, "support_generator_runs": nsup}
    selftests(ctx, J, emitted, H, rej)

    ctx.cov["rule"] = ("spec->code: every complete lookup history of TemplateLookup.tla (all pairs of template subsets of 4/5-class chain, diamond, "
                       "tree x lookup sequences <= 3 x {fs, pkg, both}) replayed on real DSDLTemplateLoader objects; every addition scenario of the "
                       "registry model (<= 2 additions x 32 abstract names x 3 kinds x overwrite flag x builder/generator path) instantiated with every "
                       "real filter/test/global name of the four languages; code->spec: seeded random template subsets over the real PyDSDL hierarchy, "
                       "random directory realizations, histories <= 6, public generator paths, every instance test x every fixture value x language. "
                       "distinct = (hierarchy, mode, user set, built-in set, lookup sequence) / (language, value) / (path, overwrite, names); "
                       "non-trivial = at least one template visible / a real name added")
    ctx.cov["exhaustive"] = False
    ctx.assumptions += [
        "TLC and the TemplateLookupP/TemplateLookup specifications",
        "the class hierarchy handed to the T-layer is Python's __bases__ relation of the live classes (exported by the harness)",
        "templates directly inside a templates directory (templates in sub-directories are not part of the statement)",
        "the set a loader object has no loader for (package under FIND_FIRST with directories; directories when none are given) is invisible",
    ]
    ctx.not_exercised("CLASS-named user templates in sub-directories of a templates directory (stem collisions between sub-directories); "
                      "by-name requests into sub-directories are exercised")


# ---------------------------------------------------------------------------------------------------------------------
def replay(ctx, case):
    R = Realizer(ctx)
    J = Judge(ctx)
    kind = case.get("kind")
    if kind == "hist":
        if case["hier"] == "pydsdl":
            H = real_hier()
            ids = lambda names: {H.name2id[n] for n in names}
        else:
            H = synthetic_hier(case["hier"]["bases"], case["hier"]["anyc"])
            ids = set
        user, builtin = ids(case["user"]), ids(case["builtin"])
        mode, flavor = case["mode"], case.get("flavor", 0)
        cdirs = R.user(H.names(user))
        dirs = R.user_layout(case["layout"]) if case.get("layout") else cdirs
        kw = {}
        if case.get("real_package"):
            kw = {"pkg": "nunavut.lang." + case["real_package"], "tpath": "templates"}
            b = "templates"
        else:
            b = R.builtin(H.names(builtin))
        if case["path"] == "loader":
            lookups = [H.name2id[n] for n in case["lookups"]] if case["hier"] == "pydsdl" else list(case["lookups"])
            steps = LoaderPath(R).history(lambda: make_loader(mode, dirs, b, flavor, **kw), H, lookups, dirs, "replay",
                                          "replayref", lambda: make_loader(mode, cdirs, b, flavor, **kw))
            path = "DSDLTemplateLoader"
        else:
            fx = Fixture(ctx)
            GP = GenPath(ctx, fx)
            byd = dict(fx.values)
            g = GP.gen(case["lang"], mode, dirs, b, flavor=flavor)
            steps = []
            if case["path"] == "generate_all":
                g.generate_all(False, True)
                for (t, op) in g.namespace.get_all_datatypes():
                    txt = pathlib.Path(str(op)).read_text().strip()
                    got = H.name2id.get(txt[2:], H.other) if txt.startswith(("U:", "B:")) else H.other
                    cold = GP.lookup(GP.gen(case["lang"], mode, dirs, b, flavor=flavor), H, t, dirs)[0]
                    steps.append({"c": H.id[type(t)], "got": got, "cold": cold, "ref": cold, "src": 1 if txt.startswith("U:") else 3})
            else:
                for d in case["values"]:
                    v = byd[d]
                    got, src = GP.lookup(g, H, v, dirs)
                    cold = GP.lookup(GP.gen(case["lang"], mode, dirs, b, flavor=flavor), H, v, dirs)[0]
                    ref = GP.lookup(GP.gen(case["lang"], mode, cdirs, b, flavor=flavor), H, v, cdirs)[0]
                    steps.append({"c": H.id[type(v)], "got": got, "cold": cold, "ref": ref, "src": src})
            path = "DSDLCodeGenerator/" + case["lang"]
        J.add(hist_record(0, H, user, builtin, mode, steps), hier=H, mode=mode, path=path, case=case)
    elif kind == "name":
        GP = GenPath(ctx, Fixture(ctx))
        name_record(J, case, observe_name(R, GP, case))
    elif kind == "support":
        fx = Fixture(ctx)
        GP = GenPath(ctx, fx)
        J2 = Judge(ctx)
        support_templates(ctx, R, J2, GP)
        for r in J2.recs:
            if J2.info[r["id"]]["case"] == case:
                J.add(dict(r), **J2.info[r["id"]])
    elif kind in ("inst", "alias"):
        H = real_hier()
        fx = Fixture(ctx)
        GP = GenPath(ctx, fx)
        J2 = Judge(ctx)
        instance_tests(ctx, J2, H, GP)
        for r in J2.recs:
            c = J2.info[r["id"]]["case"]
            if all(c.get(k) == case.get(k) for k in ("kind", "lang", "value", "path", "cls")):
                J.add(dict(r), **J2.info[r["id"]])
    elif kind == "env":
        fx = Fixture(ctx)
        GP = GenPath(ctx, fx)
        EP = EnvPath(ctx, GP)
        adds = [tuple(a) for a in case["adds"]]
        env_record(J, EP, case["path"], case["lang"], case["allow"], adds, EP.observe(case["path"], case["lang"], case["allow"], adds), "replay")
    else:
        raise MachineryFailure("unknown replay case kind %r" % kind)
    if not J.recs:
        raise MachineryFailure("replay case could not be reconstructed")
    J.run()
