"""C13 - configuration sources are merged with a fixed precedence; deep union; documents unmodified; earlier contexts stable.

Model:      specs/ConfigMergeP.tla (P operators: Merge, Match, GroupApply, clause theorems), specs/ConfigMerge.tla (P state machine +
            I-layer: _utilities.deep_update step by step on an explicit object heap, builders, contexts, the C++
            _validate_language_options group step).  Exhaustive over all
            (built-in, file/API document, override) triples of nested maps of depth <= 3 with default-marked leaves and with or
            without shared sub-maps (YAML anchors), over both dict iteration orders, and over all histories of <= MaxOps operations on
            two builders that share documents.  Negative controls: CopyMode "shallow" (the original copy.copy) and "deepcopy".
spec->code: every terminal state of the fold model and simulated long histories are replayed into the real code at three levels
            (deep_update, LanguageConfig, LanguageContextBuilder with YAML files / dict API) preserving the exact object sharing of
            the model's heap; after every step all documents, all builders and all contexts are observed.
code->spec: seeded random histories that are larger than the model (deeper maps, real option names, lists, strings, several
            files, C++ language-standard groups, the command line incl. --list-configuration and a probe template) are recorded
            and judged by specs/ConfigMergeTrace.tla (P-layer only).
"""
import collections.abc
import concurrent.futures
import contextlib
import copy
import io
import json
import logging
import multiprocessing
import os
import pathlib
import random
import re
import subprocess
import sys
import time

from ..core import MachineryFailure, REPO, SPECS, NCPU, sha
from .. import tlc

CLAUSE = {"unmod": "merge.doc_unmodified", "stable": "merge.ctx_stable", "union": "merge.deep_union",
          "marker": "merge.default_marker", "prec": "merge.precedence"}
SEC_SYN = "nunavut.lang.zz"
REST = "__rest__"


def _nn():
    import nunavut  # noqa: F401  (from $VERIF_REPO/src via PYTHONPATH)
    import nunavut._utilities as u
    import nunavut.lang as nl

    return u, nl


# ------------------------------------------------------------------------------------------------------------------------------
# values: snapshots, interning, JSON form for the T-layer
# ------------------------------------------------------------------------------------------------------------------------------
def canon(v, strmode=False):
    """identity of a leaf: (python type, JSON text); strmode: the text a template prints (the probe path sees only that)"""
    if strmode:
        return "str:" + json.dumps(str(v))
    return type(v).__name__ + ":" + json.dumps(v, sort_keys=True, default=repr)


def snap(v, DV, strmode=False):
    """deep, immutable-by-convention snapshot: ("m", {key: snap}) | ("x", canon) | ("d", canon)"""
    if isinstance(v, DV):
        return ("d", canon(v.value, strmode))
    if isinstance(v, collections.abc.Mapping):
        return ("m", {str(k): snap(x, DV, strmode) for k, x in v.items()})
    return ("x", canon(v, strmode))


def project(v, keys, DV, strmode=False):
    """snapshot of a big mapping restricted to `keys`; everything else is folded into one digest leaf (keys that no source
    mentions must keep their value: the digest must not change)."""
    if keys is None or not isinstance(v, collections.abc.Mapping):
        return snap(v, DV, strmode)
    m = {}
    rest = {}
    for k, x in v.items():
        if str(k) in keys:
            m[str(k)] = snap(x, DV, strmode)
        else:
            rest[str(k)] = x
    m[REST] = ("x", "rest:" + sha(json.dumps(rest, sort_keys=True, default=repr))[:16])
    return ("m", m)


class Interner:
    def __init__(self):
        self.keys = {}
        self.leaves = {}

    def key(self, k):
        return self.keys.setdefault(k, len(self.keys) + 1)

    def leaf(self, c):
        return self.leaves.setdefault(c, len(self.leaves) + 1)

    def j(self, s):
        if s[0] == "m":
            return {"k": "m", "v": 0, "e": [[self.key(k), self.j(x)] for k, x in sorted(s[1].items())]}
        return {"k": s[0], "v": self.leaf(s[1]), "e": []}


# ------------------------------------------------------------------------------------------------------------------------------
# stimuli: a self-contained JSON description of a history (documents as an object heap so that sharing is exact)
#   heap: [[ [key, cell], ... ], ...]   cell = {"r": node} | {"x": value} | {"d": value}
#   docs: [{"root": cell, "via": "api" | "file"}]      ops: ["new", b, d|-1] ["upd", b, d] ["set", b, key, d] ["create", b] ["obs"]
# ------------------------------------------------------------------------------------------------------------------------------
def build_objects(stim, DV):
    nodes = [dict() for _ in stim["heap"]]

    def cell(c):
        if "r" in c:
            return nodes[c["r"]]
        if "d" in c:
            return DV(copy.deepcopy(c["d"]))
        return copy.deepcopy(c["x"])

    for n, spec in zip(nodes, stim["heap"]):
        for key, c in spec:
            n[key] = cell(c)
    return [cell(d["root"]) for d in stim["docs"]]


def has_shared(obj, seen=None, path=None):
    """the same dict object reachable twice inside obj"""
    seen = {} if seen is None else seen
    if not isinstance(obj, collections.abc.Mapping):
        return False
    if id(obj) in seen:
        return True
    seen[id(obj)] = True
    return any(has_shared(v, seen) for v in obj.values())


def has_nested_map(obj):
    return isinstance(obj, collections.abc.Mapping) and any(isinstance(v, collections.abc.Mapping) for v in obj.values())


def clashes(target, source, out):
    """structural events `a non-mapping of the target is replaced by a mapping of the source` (for signatures only)"""
    if not isinstance(target, collections.abc.Mapping) or not isinstance(source, collections.abc.Mapping):
        return
    for k, sv in source.items():
        if isinstance(sv, collections.abc.Mapping):
            if k in target and not isinstance(target[k], collections.abc.Mapping):
                out.append({"nested": has_nested_map(sv), "shared": has_shared(sv)})
            elif k in target:
                clashes(target[k], sv, out)


# ------------------------------------------------------------------------------------------------------------------------------
# drivers: the real code at four levels
# ------------------------------------------------------------------------------------------------------------------------------
class DuDriver:
    """protected accelerator: nunavut._utilities.deep_update on plain dicts"""
    level = "du"

    def __init__(self, stim, scratch):
        u, _ = _nn()
        self.du = u.deep_update
        self.t, self.p = {}, {}
        self.keys = None
        self.optkey = "options"

    def new(self, b):
        self.t[b], self.p[b] = {}, {}

    def upd(self, b, d, obj, via):
        self.t[b] = self.du(self.t[b], obj)

    def set(self, b, key, obj):
        self.p[b][key] = obj

    def create(self, b):
        self.t[b] = self.du(self.t[b], self.p[b])
        return b

    def cfg(self, b):
        return self.t[b]

    def target_of(self, b):
        return self.t[b]

    def pending_of(self, b):
        return self.p[b]

    def rep(self, h):
        t = self.t[h]
        return t, (t.get("options") if isinstance(t, collections.abc.Mapping) else None)


class LcDriver(DuDriver):
    """public class nunavut.lang.LanguageConfig (update / update_section / update_from_yaml_string / update_from_yaml_file)"""
    level = "lc"

    def __init__(self, stim, scratch):
        _, nl = _nn()
        self.LC = nl.LanguageConfig
        self.t, self.p = {}, {}
        self.keys = None
        self.optkey = "options"
        self.n = 0

    def new(self, b):
        self.t[b] = self.LC()
        self.t[b].add_section(SEC_SYN)
        self.p[b] = {}

    def upd(self, b, d, obj, via):
        import yaml

        self.n += 1
        if via == "file":
            text = yaml.dump({SEC_SYN: obj})
            if self.n % 2:
                self.t[b].update_from_yaml_string(text)
            else:
                self.t[b].update_from_yaml_file(io.StringIO(text))
        elif self.n % 2:
            self.t[b].update({SEC_SYN: obj})
        else:
            self.t[b].update_section(SEC_SYN, obj)

    def create(self, b):
        self.t[b].update_section(SEC_SYN, self.p[b])
        return b

    def cfg(self, b):
        return self.t[b].sections()[SEC_SYN]

    def target_of(self, b):
        return self.t[b].sections()[SEC_SYN]

    def rep(self, h):
        return self.t[h].sections()[SEC_SYN], self.t[h].get_config_value_as_dict(SEC_SYN, "options", {})


class LbDriver:
    """public API: LanguageContextBuilder (add_config_files / config.update / set_target_language_configuration_override /
    create), LanguageContext, Language.get_options.  embed = "top": the documents' keys live in the language section;
    embed = "opt": they live inside its `options` map and contexts are observed through Language.get_options()."""
    level = "lb"

    def __init__(self, stim, scratch):
        _, nl = _nn()
        self.nl = nl
        self.lang = stim.get("lang", "c")
        self.embed = stim.get("embed", "top")
        self.sec = "nunavut.lang." + self.lang
        self.scratch = pathlib.Path(scratch)
        self.b, self.w, self.ctx = {}, {}, []
        self.keys = set(stim["keys"])
        self.optkey = "options" if self.embed == "top" else None
        self.nfile = 0
        # WHEN the target language is named is not a configuration source: after `tl_after` source-giving calls on the builder (0 = first, as
        # nnvg does; large = right before create()).  The effective configuration must not depend on it.
        self.tl_after = stim.get("tl_after", 0)
        self.nsrc, self.named = {}, set()

    def _name_target(self, b, force=False):
        if b not in self.named and (force or self.nsrc.get(b, 0) >= self.tl_after):
            self.b[b].set_target_language(self.lang)
            self.named.add(b)

    def _source_call(self, b):
        self._name_target(b)
        self.nsrc[b] = self.nsrc.get(b, 0) + 1

    def wrap(self, obj):
        return {self.sec: obj} if self.embed == "top" else {self.sec: {"options": obj}}

    def new(self, b):
        self.b[b] = self.nl.LanguageContextBuilder(include_experimental_languages=True)
        self.w[b] = {}
        self._name_target(b)

    def upd(self, b, d, obj, via):
        self._source_call(b)
        if via == "file":
            import yaml

            self.nfile += 1
            p = self.scratch / ("cfg-%d-%d.yaml" % (os.getpid(), self.nfile))
            p.write_text(yaml.dump(self.wrap(obj)))
            try:
                self.b[b].add_config_files(p)
            finally:
                p.unlink()
        else:
            self.b[b].config.update(self.wrap(obj))

    def upd_files(self, b, objs):
        """add_config_files(f1, f2, ...): later files over earlier ones, one call"""
        import yaml

        self._source_call(b)
        ps = []
        for o in objs:
            self.nfile += 1
            p = self.scratch / ("cfg-%d-%d.yaml" % (os.getpid(), self.nfile))
            p.write_text(yaml.dump(self.wrap(o)))
            ps.append(p)
        try:
            self.b[b].add_config_files(*ps)
        finally:
            for p in ps:
                p.unlink()

    def set(self, b, key, obj):
        self._source_call(b)
        if self.embed == "top":
            self.b[b].set_target_language_configuration_override(key, obj)
        else:
            self.w[b][key] = obj
            self.b[b].set_target_language_configuration_override("options", self.w[b])

    def create(self, b):
        self._name_target(b, force=True)
        self.ctx.append(self.b[b].create())
        return len(self.ctx) - 1

    def _sec(self, config):
        s = config.sections()[self.sec]
        return s if self.embed == "top" else s.get("options")

    def cfg(self, b):
        return self._sec(self.b[b].config)

    def target_of(self, b):
        return self._sec(self.b[b].config)

    def pending_of(self, b):
        return self.b[b]._target_language_config if self.embed == "top" else self.w[b]  # signatures only

    def rep(self, h):
        c = self.ctx[h]
        o = c.get_target_language().get_options()
        return (self._sec(c.config), o) if self.embed == "top" else (o, o)


class RefDriver(DuDriver):
    """NOT the code under test: a ten-line functional merge that produces the base traces of the binding self-tests, so that the
    self-tests say something about the machinery whatever state the tree is in.  The T-layer must accept what it produces."""
    level = "ref"

    def __init__(self, stim, scratch):
        u, _ = _nn()
        DV = u.DefaultValue

        def merge(t, s):
            t = dict(t)
            for k, v in s.items():
                if isinstance(v, collections.abc.Mapping):
                    t[k] = merge(t[k] if isinstance(t.get(k), collections.abc.Mapping) else {}, v)
                elif not (isinstance(v, DV) and k in t and not isinstance(t[k], DV)):
                    t[k] = v
            return t

        self.du = merge
        self.t, self.p = {}, {}
        self.keys = None
        self.optkey = "options"
        self.group = stim.get("group", False)

    def create(self, b):
        t = self.du(self.t[b], self.p[b])
        if self.group and t["options"]["std"] in t["defaults"]:
            t["options"] = dict(t["options"], **t["defaults"][t["options"]["std"]])
        self.t[b] = t
        return b


DRIVERS = {"du": DuDriver, "lc": LcDriver, "lb": LbDriver, "ref": RefDriver}


def run_stim(stim, scratch, rid=0):
    """drive the real code through the history; returns {"record": <T-layer record>, "cls": structural class, "obs": [...]}"""
    u, _ = _nn()
    DV = u.DefaultValue
    if stim["level"] == "cli":
        return run_cli(stim, scratch, rid)
    drv = DRIVERS[stim["level"]](stim, scratch)
    objs = build_objects(stim, DV)
    it = Interner()
    docs0 = [snap(o, DV) for o in objs]
    rec = {"id": rid, "docs": [it.j(s) for s in docs0], "steps": []}
    last = {"cfg": {}, "docs": dict(enumerate(docs0)), "rep": {}}
    handles = {}
    events, merges_after = [], []
    truncated = None
    obs_log = []

    def view(o, proj=True):
        return project(o, drv.keys, DV) if proj else snap(o, DV)

    def observe(step, b):
        step["cfg"], step["docs"], step["rep"] = [], [], []
        cur = {}
        for bb in sorted(drv.t if hasattr(drv, "t") else drv.b):
            s = view(drv.cfg(bb))
            cur[bb] = s
            if last["cfg"].get(bb) != s:
                step["cfg"].append([bb, it.j(s)])
                last["cfg"][bb] = s
        for d, o in enumerate(objs):
            if stim["docs"][d].get("via") == "file":
                continue  # parsed by the tool from text that the harness wrote; the file is removed after the call
            s = snap(o, DV)
            if last["docs"][d] != s:
                step["docs"].append([d + 1, it.j(s)])
                last["docs"][d] = s
        for c, h in sorted(handles.items()):
            rc, ro = drv.rep(h)
            s = (view(rc), view(ro, proj=(drv.optkey is None)))
            if last["rep"].get(c) != s:
                step["rep"].append([c, it.j(s[0]), it.j(s[1])])
                last["rep"][c] = s
        obs_log.append({"cfg": cur, "rep": dict(last["rep"])})
        rec["steps"].append(step)

    def base(op, b=0, d=0, c=0, key=0):
        return {"op": op, "b": b, "d": d, "c": c, "key": key, "blind": 0}

    nctx = 0
    for i, op in enumerate(stim["ops"]):
        try:
            if op[0] == "new":
                _, b, d = op
                drv.new(b)
                if d >= 0 and stim.get("combine_new"):   # document d plays the built-in configuration
                    drv.upd(b, d, objs[d], "api")
                    observe(base("new", b, d + 1), b)
                    continue
                observe(base("new", b), b)
                if d >= 0:
                    clashes(drv.target_of(b), objs[d], events)
                    merges_after.append(len(events))
                    drv.upd(b, d, objs[d], stim["docs"][d].get("via", "api"))
                    observe(base("upd", b, d + 1), b)
            elif op[0] == "updn":     # several files in one call: only the last result can be observed
                _, b, ds = op
                for d in ds:
                    clashes(drv.target_of(b), objs[d], events)
                    merges_after.append(len(events))
                drv.upd_files(b, [objs[d] for d in ds])
                for d in ds[:-1]:
                    st = base("upd", b, d + 1)
                    st["blind"] = 1
                    st["cfg"], st["docs"], st["rep"] = [], [], []
                    rec["steps"].append(st)
                    obs_log.append({"cfg": {}})
                observe(base("upd", b, ds[-1] + 1), b)
            elif op[0] == "upd":
                _, b, d = op
                clashes(drv.target_of(b), objs[d], events)
                merges_after.append(len(events))
                drv.upd(b, d, objs[d], stim["docs"][d].get("via", "api"))
                observe(base("upd", b, d + 1), b)
            elif op[0] == "set":
                _, b, key, d = op
                drv.set(b, key, objs[d])
                observe(base("set", b, d + 1, key=it.key(key)), b)
            elif op[0] == "create":
                _, b = op
                clashes(drv.target_of(b), drv.pending_of(b), events)
                merges_after.append(len(events))
                h = drv.create(b)
                nctx += 1
                handles[nctx] = h
                observe(base("create", b, c=nctx), b)
            else:
                observe(base("obs"), 0)
        except Exception as e:  # the tool rejected the configuration (e.g. C++ without `std`): the history ends here
            truncated = "%s at op %d: %s" % (type(e).__name__, i, str(e)[:80])
            break
    rec["optkey"] = it.key(drv.optkey) if drv.optkey else 0
    rec["grp"] = group_info(stim, it)
    # an event counts when at least one merge happened after the one that produced it
    cls = "other:" + stim["level"]
    for j, n_ev in enumerate(merges_after[:-1]):
        evs = events[:n_ev]
        if any(e["shared"] and e["nested"] for e in evs):
            cls = "scalar-replaced-by-shared-submap-then-updated"
            break
        if any(e["nested"] for e in evs):
            cls = "scalar-replaced-by-map-then-updated"
    return {"record": rec, "cls": cls, "truncated": truncated, "obs": obs_log, "keys": dict(it.keys), "nsteps": len(rec["steps"])}


# The DOCUMENTED groups of the C++ language-standard shorthands.  This table is part of the property (the oracle of the clause
# "the shorthands set their documented group of options as a unit"); it is transcribed from docs/languages.rst of the pinned tree
# ("Using a Different Variable-Length Array Type and Allocator": c++17-pmr.yaml / cetl++14-17.yaml) and is deliberately NOT read
# from src/nunavut/lang/properties.yaml of the tree under test.  `std` / `std_flavor` are what the names stand for ("cetl++14-17
# means target C++14 but use the CETL C++17 polyfill types"; uses_pmr / uses_cetl read std_flavor).  A list = accepted values.
# c++14, c++17, c++20 and c11 are plain standards: they stand for no group.  (There is no c++20-pmr in the pinned tree.)
GROUP_KEYS = ["std_flavor", "variable_array_type_include", "variable_array_type_template", "variable_array_type_constructor_args",
              "allocator_include", "allocator_type", "allocator_is_default_constructible", "ctor_convention"]   # model keys 1..8
DOC_GROUPS = {
    "c++17-pmr": {
        "std": ["c++17"], "std_flavor": ["pmr"],
        "variable_array_type_include": ["<vector>"],
        "variable_array_type_template": ["std::vector<{TYPE}, {REBIND_ALLOCATOR}>"],
        "variable_array_type_constructor_args": [""],
        # docs/languages.rst says "<memory>", the pinned properties.yaml "<memory_resource>" (the header that declares
        # std::pmr::polymorphic_allocator): both are accepted, the discrepancy is recorded in the evidence
        "allocator_include": ["<memory_resource>", "<memory>"],
        "allocator_type": ["std::pmr::polymorphic_allocator"],
        "allocator_is_default_constructible": [True],
        "ctor_convention": ["uses-trailing-allocator"],
    },
    "cetl++14-17": {
        "std": ["c++14"], "std_flavor": ["cetl"],
        "variable_array_type_include": ['"cetl/variable_length_array.hpp"'],
        "variable_array_type_template": ["cetl::VariableLengthArray<{TYPE}, {REBIND_ALLOCATOR}>"],
        "variable_array_type_constructor_args": ["{MAX_SIZE}"],
        "allocator_include": ['"cetl/pf17/sys/memory_resource.hpp"'],
        "allocator_type": ["cetl::pf17::pmr::polymorphic_allocator"],
        "allocator_is_default_constructible": [False],
        "ctor_convention": ["uses-trailing-allocator"],
    },
}
SHORTHANDS = {1: "c++17-pmr", 2: "cetl++14-17"}     # model numbering (ConfigMergeGroups.tla)
# what a lower-precedence source may have put there (all valid for the C++ language object, all different from both groups)
GIVEN = {"std_flavor": "std", "variable_array_type_include": '"my/vla.hpp"', "variable_array_type_template": "my::Vla<{TYPE}>",
         "variable_array_type_constructor_args": "{MAX_SIZE}, 7", "allocator_include": '"my/alloc.hpp"', "allocator_type": "my::alloc",
         "allocator_is_default_constructible": None, "ctor_convention": "uses-leading-allocator"}   # None: the opposite of the group's


def given_value(short, key, hi=False):
    if key == "allocator_is_default_constructible":
        return not DOC_GROUPS[short][key][0]
    return GIVEN[key] + ("" if not hi or key == "ctor_convention" else "2")


def group_info(stim, it, strmode=False):
    if (stim.get("lang") != "cpp" or stim.get("embed", "top") != "top") and not stim.get("group"):
        return {"defs": 0, "std": 0, "l2k": [], "table": []}
    table = []
    for short, block in stim.get("doc_groups", DOC_GROUPS).items():
        table.append([it.leaf(canon(short, strmode)), [[it.key(k), [it.leaf(canon(v, strmode)) for v in vals]] for k, vals in block.items()]])
    l2k = []
    for c, lid in it.leaves.items():
        if c.startswith("str:"):
            s = json.loads(c[4:])
            if s in it.keys:
                l2k.append([lid, it.keys[s]])
    return {"defs": it.key("defaults"), "std": it.key("std"), "l2k": l2k, "table": table}


# ------------------------------------------------------------------------------------------------------------------------------
# the command line
# ------------------------------------------------------------------------------------------------------------------------------
FLAGS = {"omit_float_serialization_support": "--omit-float-serialization-support",
         "enable_serialization_asserts": "--enable-serialization-asserts",
         "enable_override_variable_array_capacity": "--enable-override-variable-array-capacity"}


def _listing_loader():
    import yaml

    class L(yaml.SafeLoader):
        pass

    def dv(loader, suffix, node):
        u, _ = _nn()
        m = loader.construct_mapping(node, deep=True)
        return u.DefaultValue(m.get("_value"))

    L.add_multi_constructor("tag:yaml.org,2002:python/object:", dv)
    return L


def cli_inprocess(argv):
    import nunavut.cli

    old = sys.argv
    sys.argv = ["nnvg"] + argv
    out, err = io.StringIO(), io.StringIO()
    lvl = logging.getLogger().level
    try:
        with contextlib.redirect_stdout(out), contextlib.redirect_stderr(err):
            try:
                rc = nunavut.cli.main()
            except SystemExit as e:
                rc = e.code
            except Exception as e:  # what the user would see as a traceback and exit status 1
                rc = 1
                err.write("%s: %s" % (type(e).__name__, e))
    finally:
        sys.argv = old
        logging.getLogger().setLevel(lvl)
    return rc, out.getvalue(), err.getvalue()


def cli_subprocess(argv, cwd):
    env = dict(os.environ)
    env["PYTHONPATH"] = str(REPO / "src") + os.pathsep + env.get("PYTHONPATH", "")
    p = subprocess.run([sys.executable, "-m", "nunavut"] + argv, cwd=str(cwd), env=env, stdout=subprocess.PIPE, stderr=subprocess.PIPE,
                       text=True, timeout=120)
    return p.returncode, p.stdout, p.stderr


_BUILTIN = {}


def run_cli(stim, scratch, rid):
    """one nnvg invocation = one history: built-in < --configuration files in order < flags (store_true flags that are not given
    are merely defaults) ; observation = --list-configuration, or the `options` a probe template sees."""
    import yaml

    u, nl = _nn()
    DV = u.DefaultValue
    lang, sec = stim["lang"], "nunavut.lang." + stim["lang"]
    cli = stim["cli"]
    scratch = pathlib.Path(scratch)
    work = scratch / ("cli-%d-%d" % (os.getpid(), rid))
    work.mkdir(parents=True, exist_ok=True)
    (work / "ns").mkdir(exist_ok=True)
    objs = build_objects(stim, DV)
    it = Interner()
    keys = set(stim["keys"])
    probe = cli.get("observe") == "probe"
    run = cli_subprocess if cli.get("subprocess") else (lambda a, cwd=None: cli_inprocess(a))
    base_args = ["--target-language", lang] + (["--experimental-languages"] if lang != "c" else [])

    def listing(args):
        rc, out, err = run(base_args + args + ["--list-configuration", str(work / "ns")], work)
        if rc != 0 or not out.startswith("target_language:"):
            return None, (err or out)[-200:]
        doc = yaml.load(out.split("\n", 1)[1], Loader=_listing_loader())
        return doc[sec], None

    try:
        if lang not in _BUILTIN:
            b, err = listing([])
            if b is None:
                raise MachineryFailure("nnvg --list-configuration without arguments failed: %s" % err)
            _BUILTIN[lang] = b
        builtin = _BUILTIN[lang]
        # the documents: files first, then the override documents the flags stand for
        files = []
        for d, (o, meta) in enumerate(zip(objs, stim["docs"])):
            if meta.get("via") == "file":
                p = work / ("f%d.yaml" % d)
                p.write_text(yaml.dump({sec: o}))
                files.append((d, p))
        args = []
        # a file may be named more than once (a site file before AND after a board file): every mention is a source at its position
        again = [files[0]] if cli.get("again") and len(files) >= 2 else []
        if files:
            args += ["--configuration"] + [str(p) for _, p in files] + [os.path.join(str(p.parent), ".", p.name) for _, p in again]
        opts = objs[cli["options_doc"]]
        for k, flag in FLAGS.items():
            if k in opts and not isinstance(opts[k], DV):
                args.append(flag)
        if "target_endianness" in opts:
            args += ["--target-endianness", opts["target_endianness"]]
        if "std" in opts:
            args += ["--language-standard", opts["std"]]
        if cli.get("extension_doc") is not None:
            args += ["--output-extension", objs[cli["extension_doc"]]]
        if cli.get("stem_doc") is not None:
            args += ["--namespace-output-stem", objs[cli["stem_doc"]]]
        docs0 = [snap(o, DV, probe) for o in objs]
        rec = {"id": rid, "docs": [it.j(s) for s in docs0], "steps": []}

        def step(op, b=1, d=0, c=0, key=0, blind=1):
            return {"op": op, "b": b, "d": d, "c": c, "key": key, "blind": blind, "cfg": [], "docs": [], "rep": []}

        s0 = step("new", blind=0)
        s0["cfg"] = [[1, it.j(project(builtin, keys, DV, probe))]]
        rec["steps"].append(s0)
        events = []
        for d, p in files + again:
            clashes(builtin, objs[d], events)
            rec["steps"].append(step("upd", d=d + 1))
        rec["steps"].append(step("set", d=cli["options_doc"] + 1, key=it.key("options")))
        if cli.get("extension_doc") is not None:
            rec["steps"].append(step("set", d=cli["extension_doc"] + 1, key=it.key("extension")))
        if cli.get("stem_doc") is not None:
            rec["steps"].append(step("set", d=cli["stem_doc"] + 1, key=it.key("namespace_file_stem")))
        truncated = None
        shown = None
        if probe:
            seen_opts, err = probe_options(run, base_args + args, work, DV)
            if seen_opts is None:
                truncated = "nnvg failed: " + err
            else:
                sc = step("create", c=1)  # the stored section is not observed on this path, only what templates see
                sc["rep"] = [[1, it.j(("m", {})), it.j(seen_opts)]]
                rec["steps"].append(sc)
                shown = seen_opts
        else:
            got, err = listing(args)
            if got is None:
                truncated = "nnvg failed: " + err
            else:
                sc = step("create", c=1, blind=0)
                v = project(got, keys, DV)
                sc["cfg"] = [[1, it.j(v)]]
                sc["rep"] = [[1, it.j(v), it.j(snap(got.get("options"), DV))]]
                rec["steps"].append(sc)
                shown = snap(got.get("options"), DV)
        rec["optkey"] = it.key("options")
        rec["grp"] = group_info(stim, it, probe)
        rec["probe"] = 1 if probe else 0
        cls = "other:cli"
        if len(files) > 0 and any(e["nested"] and e["shared"] for e in events):
            cls = "scalar-replaced-by-shared-submap-then-updated"
        elif len(files) > 0 and any(e["nested"] for e in events):
            cls = "scalar-replaced-by-map-then-updated"
        return {"record": rec, "cls": cls, "truncated": truncated, "obs": [{"cfg": {}, "rep": {1: (None, shown)}}] if shown else [],
                "keys": dict(it.keys), "nsteps": len(rec["steps"]),
                "argv": args}
    finally:
        subprocess.run(["rm", "-rf", str(work)])


PROBE_TEMPLATE = "{% for k, v in options.items() %}{{ k }}\t[{{ v }}]\n{% endfor %}"  # brackets: line post-processors trim


def probe_options(run, args, work, DV):
    """generate one type with a user template that prints the `options` namespace"""
    ns = work / "pns"
    (ns).mkdir(exist_ok=True)
    (ns / "T.1.0.dsdl").write_text("uint8 a\n@sealed\n")
    tpl = work / "tpl"
    tpl.mkdir(exist_ok=True)
    (tpl / "Any.j2").write_text(PROBE_TEMPLATE)
    out = work / "out"
    rc, o, e = run(args + ["--templates", str(tpl), "--generate-support", "never", "--outdir", str(out), str(ns)], work)
    if rc != 0:
        return None, (e or o)[-200:]
    fs = [p for p in out.rglob("*") if p.is_file()]
    if len(fs) != 1:
        raise MachineryFailure("probe template produced %d files" % len(fs))
    m = {}
    for ln in fs[0].read_text().splitlines():
        if "\t" in ln and ln.endswith("]"):
            k, v = ln.split("\t", 1)
            v = v[1:-1]
            mm = re.match(r"^DefaultValue\((.*)\)$", v)
            m[k] = ("d", "str:" + json.dumps(mm.group(1))) if mm else ("x", "str:" + json.dumps(v))
    subprocess.run(["rm", "-rf", str(out)])
    return ("m", m), None


# ------------------------------------------------------------------------------------------------------------------------------
# generators of stimuli
# ------------------------------------------------------------------------------------------------------------------------------
def stim_from_model(case, level, via="api", lang="c", embed="top", keymap=None):
    """TLC-emitted history (heap0, roots, ops with the expected P state) -> stimulus"""
    keymap = keymap or {1: "vk1", 2: "vk2"}
    heap = []
    # the model tags every leaf with the index of its document; here every leaf cell additionally gets its own identity
    # (value = 100 * document + running number) so that a value that arrives through an alias cannot pass for the right one
    n = [0]

    def leafval(v):
        n[0] += 1
        return 100 * v + n[0] % 100

    for node in case["heap0"]:
        heap.append([[keymap[k], ({"r": v - 1} if kind == "r" else {kind: leafval(v)})] for k, kind, v in node])
    docs = [{"root": {"r": r - 1}, "via": "api"} for r in case["roots"]]
    ops = []
    for o in case["ops"]:
        if o["op"] == "new":
            ops.append(["new", o["b"], 0])
        elif o["op"] == "upd":
            ops.append(["upd", o["b"], o["d"] - 1])
        elif o["op"] == "create":
            ops.append(["create", o["b"]])
        else:  # the model's SetOvr(b, d): one override per root entry of document d
            root = case["heap0"][case["roots"][o["d"] - 1] - 1]
            for (k, kind, v), (_, cellv) in zip(root, heap[case["roots"][o["d"] - 1] - 1]):
                docs.append({"root": cellv, "via": "api"})
                ops.append(["set", o["b"], keymap[k], len(docs) - 1])
    stim = {"level": level, "lang": lang, "embed": embed, "heap": heap, "docs": docs, "ops": ops, "keys": sorted(keymap.values())}
    if via == "file":
        # documents without default-marked leaves that are used in `upd` can come from YAML files (anchors keep the sharing)
        def dfree(r, seen=()):
            return all((kind != "d") and (kind != "r" or dfree(v)) for _, kind, v in case["heap0"][r - 1])
        for o in case["ops"]:
            if o["op"] == "upd" and dfree(case["roots"][o["d"] - 1]):
                docs[o["d"] - 1]["via"] = "file"
    return stim


def model_expectation(case, keymap=None):
    """per model operation: {builder: expected snapshot or None}; "any" leaves are wildcards"""
    keymap = keymap or {1: "vk1", 2: "vk2"}

    def conv(j):
        if j["k"] == "m":
            return ("m", {keymap[k]: conv(x) for k, x in j["e"]})
        if j["k"] == "any":
            return ("any", None)
        return (j["k"], j["v"])      # the document the leaf comes from

    return [{b + 1: conv(x) for b, x in enumerate(o["exp"])} for o in case["ops"]], [o["loose"] for o in case["ops"]]


def match_exp(e, o):
    if e[0] == "any":
        return True
    if e[0] == "m":
        if o[0] != "m":
            return False
        om = {k: v for k, v in o[1].items() if k != REST}
        return set(om) == set(e[1]) and all(match_exp(e[1][k], om[k]) for k in e[1])
    # leaf: same marker, and the observed value (100 * document + n, see stim_from_model) comes from the expected document
    return o[0] == e[0] and o[1].startswith("int:") and int(o[1][4:]) // 100 == e[1]


def stim_from_group_case(case, observe="listing", restd=None):
    """a case of ConfigMergeGroups.tla (shorthand, channel, which keys a lower source perturbs, which keys the selecting / a higher
    source gives as well) -> a C++ history with the real option names.
    restd (channel "file" only): the options override, a HIGHER source than the file that names the shorthand, names another standard: the file's
    shorthand is displaced like any other value, and with it its group (the T-layer takes the group of the standard in force)."""
    short = SHORTHANDS[case["sh"]]
    low = {GROUP_KEYS[k - 1]: given_value(short, GROUP_KEYS[k - 1]) for k in case["low"]}
    high = {GROUP_KEYS[k - 1]: given_value(short, GROUP_KEYS[k - 1], hi=True) for k in case["high"]}
    heap = [[[k, {"x": v}] for k, v in low.items()]]
    heap.append([["options", {"r": 0}]])
    docs = [{"root": {"r": 1}, "via": "file" if (case["lowkind"] == "file" or case["chan"] == "cli") else "api"}]
    ops = [["new", 1, -1], ["upd", 1, 0]]
    meta = {"group_case": case, "short": short, "low": low, "high": high}
    if case["chan"] == "cli":
        if case["lowkind"] == "api":     # no API documents on the command line: an unrelated file between the two instead
            heap.append([["vk1", {"x": 1}]])
            docs.append({"root": {"r": len(heap) - 1}, "via": "file"})
        heap.append([[k, {"d": False}] for k in FLAGS] + [["std", {"x": short}]])
        docs.append({"root": {"r": len(heap) - 1}, "via": "api"})
        return dict(meta, level="cli", lang="cpp", embed="top", heap=heap, docs=docs, ops=[],
                    cli={"options_doc": len(docs) - 1, "observe": observe, "subprocess": False},
                    keys=["options", "defaults", "extension", "namespace_file_stem", "vk1", "indent"])
    if case["chan"] == "file":
        heap.append([["std", {"x": short}]])
        heap.append([["options", {"r": len(heap) - 1}]])
        docs.append({"root": {"r": len(heap) - 1}, "via": "file"})
        ops.append(["upd", 1, len(docs) - 1])
        if high or restd:
            heap.append([[k, {"x": v}] for k, v in high.items()] + ([["std", {"x": restd}]] if restd else []))
            docs.append({"root": {"r": len(heap) - 1}, "via": "api"})
            ops.append(["set", 1, "options", len(docs) - 1])
            if restd:
                meta["restd"] = restd
    else:   # the options override names the shorthand (and maybe one option of the group as well)
        heap.append([["std", {"x": short}]] + [[k, {"x": v}] for k, v in high.items()])
        docs.append({"root": {"r": len(heap) - 1}, "via": "api"})
        ops.append(["set", 1, "options", len(docs) - 1])
    ops += [["create", 1], ["obs"]]
    return dict(meta, level="lb", lang="cpp", embed="top", heap=heap, docs=docs, ops=ops, keys=["options", "defaults", "vk1"])


def group_case_matches(stim, res):
    """the symbolic expectation of the model, resolved with the documented table, against what the created language reports"""
    if stim.get("restd"):
        return True   # the model ConfigMergeGroups has no displaced shorthand: nothing to compare (the T-layer judges the run)
    if res["truncated"] or not res["obs"]:
        return False
    rep = res["obs"][-1]["rep"]
    if not rep:
        return False
    opts = rep[max(rep)][1]
    if opts is None or opts[0] != "m":
        return False
    strmode = stim.get("cli", {}).get("observe") == "probe"
    for k, sym in zip(GROUP_KEYS, stim["group_case"]["exp"]):
        got = opts[1].get(k)
        if sym == "doc":
            if got is None or got[1] not in [canon(v, strmode) for v in DOC_GROUPS[stim["short"]][k]]:
                return False
        elif sym == "given":
            if got is None or got[1] != canon(stim["low"][k], strmode):
                return False
    return True


WORDS = ["alpha", "beta", ".h", "c++17", "any", "big", "little", "", "x y"]
CPP_STDS = ["c++14", "c++17", "c++20", "c++17-pmr", "cetl++14-17"]


class Gen:
    """seeded random documents / histories, larger than the model's"""

    def __init__(self, rng):
        self.rng = rng

    def leaf(self, allow_d):
        r = self.rng
        v = r.choice([r.randint(0, 3), r.choice(WORDS), r.random() < 0.5, None, [1, 2], ["a", {"b": 1}], 1.5, 0, False, ""])
        if allow_d and r.random() < 0.35:
            return {"d": v}
        return {"x": v}

    def doc(self, heap, keys, depth, allow_d, share_p=0.25, width=3):
        """allocates a map on `heap`, returns its node index"""
        r = self.rng
        node = []
        idx = len(heap)
        heap.append(node)
        pool = []
        for k in r.sample(keys, r.randint(0, min(width, len(keys)))):
            roll = r.random()
            if depth > 1 and roll < 0.55:
                if pool and r.random() < share_p:
                    node.append([k, {"r": r.choice(pool)}])
                else:
                    sub = self.doc(heap, keys, depth - 1, allow_d, share_p, width)
                    pool.append(sub)
                    # also make nested children candidates for sharing (an anchor used at another level)
                    pool += [c["r"] for _, c in heap[sub] if "r" in c]
                    node.append([k, {"r": sub}])
            else:
                node.append([k, self.leaf(allow_d)])
        return idx

    def history(self, level, nb=None, nops=None):
        r = self.rng
        keys = ["a", "b", "c", "options"] if level != "lb" else ["vk1", "vk2", "vk3", "options", "indent", "extension"]
        lang = "c"
        embed = "top"
        if level == "lb":
            lang = r.choice(["c", "c", "cpp"])
            embed = r.choice(["top", "top", "opt"])
            if embed == "opt":
                keys = ["vk1", "vk2", "target_endianness", "enable_serialization_asserts", "cast_format"]
            if lang == "cpp" and embed == "top":
                keys = ["vk1", "vk2", "vk3", "indent"]  # a broken `options` would end the history at create
        heap, docs = [], []
        ndocs = r.randint(2, 5)
        for d in range(ndocs):
            via = "file" if (level in ("lc", "lb") and r.random() < 0.4) else "api"
            root = self.doc(heap, keys, r.choice([1, 2, 3, 3, 4]), allow_d=(via == "api"))
            docs.append({"root": {"r": root}, "via": via})
        nb = nb or r.choice([1, 2, 2, 3])
        nops = nops or r.randint(3, 10)
        ops, live, made = [], [], set()

        def pick_builder():   # mostly builders that have not created a context yet (reuse is the not-asserted zone)
            fresh = [b for b in live if b not in made]
            return r.choice(fresh) if fresh and r.random() < 0.85 else r.choice(live)

        for _ in range(nops):
            roll = r.random()
            if not live or (len(live) < nb and (roll < 0.2 or all(b in made for b in live))):
                b = len(live) + 1
                live.append(b)
                ops.append(["new", b, r.choice([-1] + list(range(ndocs))) if level != "lb" else -1])
                if level == "lb" and r.random() < 0.5:
                    ops.append(["upd", b, r.randrange(ndocs)])
            elif roll < 0.5:
                fd = [d for d in range(ndocs) if docs[d]["via"] == "file"]
                if level == "lb" and len(fd) >= 2 and r.random() < 0.5:
                    ops.append(["updn", pick_builder(), r.sample(fd, r.randint(2, min(3, len(fd))))])
                else:
                    ops.append(["upd", pick_builder(), r.randrange(ndocs)])
            elif roll < 0.7:
                b = pick_builder()
                d = r.randrange(ndocs)
                if docs[d]["via"] == "file":
                    continue
                node = heap[docs[d]["root"]["r"]]
                if node and r.random() < 0.7:   # override one key with the object stored under it in the document
                    k, c = r.choice(node)
                    if "x" in c and c["x"] is None:
                        continue  # set_target_language_configuration_override ignores None by contract
                    docs.append({"root": c, "via": "api"})
                    ops.append(["set", b, k, len(docs) - 1])
                else:
                    ops.append(["set", b, r.choice(keys), d])
            elif roll < 0.92:
                b = pick_builder()
                made.add(b)
                ops.append(["create", b])
            else:
                ops.append(["obs"])
        ops.append(["obs"])
        return {"level": level, "lang": lang, "embed": embed, "heap": heap, "docs": docs, "ops": ops, "keys": keys}

    def d7_family(self, level, shared, via):
        """the structural class the model's negative controls point at: a scalar is replaced by a map that holds maps, later
        updated (shared: the same sub-map under two keys, i.e. a YAML anchor)"""
        r = self.rng
        k, m, n, x = r.sample(["vk1", "vk2", "ka", "kb", "kc", "kd"], 4)
        lang = "c"
        heap = [
            [[k, {"x": r.choice([5, "scalar", True])}]],                               # 0 built-in-like: scalar at k
            [[x, {"x": 1}]],                                                            # 1 Z
            [[m, {"r": 1}]] + ([[n, {"r": 1}]] if shared else [[n, {"r": 3}]]),         # 2 {m: Z, n: Z | Z2}
            [[x, {"x": 1}]],                                                            # 3 Z2
            [[k, {"r": 2}]],                                                            # 4 doc1 = {k: {m: Z, n: ..}}
            [[x, {"x": 2}]],                                                            # 5
            [[m, {"r": 5}]],                                                            # 6
            [[k, {"r": 6}]],                                                            # 7 doc2 = {k: {m: {x: 2}}}
        ]
        docs = [{"root": {"r": 0}, "via": "api"}, {"root": {"r": 4}, "via": via}, {"root": {"r": 7}, "via": via}]
        kind = r.randrange(3)
        if kind == 0:
            ops = [["new", 1, -1], ["upd", 1, 0], ["upd", 1, 1], ["upd", 1, 2], ["obs"]]
        elif kind == 1:
            docs.append({"root": {"r": 6}, "via": "api"})
            ops = [["new", 1, -1], ["upd", 1, 0], ["upd", 1, 1], ["set", 1, k, 3], ["create", 1], ["obs"]]
        else:  # two builders sharing document 1
            ops = [["new", 1, -1], ["upd", 1, 0], ["upd", 1, 1], ["create", 1], ["new", 2, -1], ["upd", 2, 0], ["upd", 2, 1],
                   ["upd", 2, 2], ["obs"]]
        keys = [k, "options"] if level == "lb" else None
        return {"level": level, "lang": lang, "embed": "top", "heap": heap, "docs": docs, "ops": ops, "keys": keys or [k]}

    def cpp_group(self):
        """LanguageContextBuilder for C++ with a language standard chosen by file or override"""
        r = self.rng
        heap, docs, ops = [], [], [["new", 1, -1]]
        std = r.choice(CPP_STDS)
        optkeys = ["allocator_type", "std_flavor", "variable_array_type_include", "enable_serialization_asserts", "target_endianness",
                   "ctor_convention", "allocator_include", "vk"]

        def optdoc(with_std, allow_d):
            node = []
            if with_std:
                node.append(["std", {"x": std}])
            for k in r.sample(optkeys, r.randint(0, 3)):
                if k == "ctor_convention":
                    node.append([k, {"x": r.choice(["default", "uses-trailing-allocator"])}])
                elif k == "allocator_type":
                    node.append([k, {"x": r.choice(["my::alloc", "std::allocator"])}])
                else:
                    node.append([k, self.leaf(allow_d)])
            r.shuffle(node)
            heap.append(node)
            return len(heap) - 1

        where = r.choice(["file", "api", "set", "none"])
        if r.random() < 0.6:
            o = optdoc(where in ("file", "api"), allow_d=False)
            heap.append([["options", {"r": o}]] + ([["vk1", self.leaf(False)]] if r.random() < 0.5 else []))
            docs.append({"root": {"r": len(heap) - 1}, "via": "file" if where != "api" else "api"})
            ops.append(["upd", 1, len(docs) - 1])
        elif where in ("file", "api"):
            where = "set"
        if r.random() < 0.3:   # a user-defined group
            blk = [["std", {"x": "c++20"}], ["std_flavor", {"x": "mine"}], ["ctor_convention", {"x": "default"}]]
            heap.append(blk)
            heap.append([[std, {"r": len(heap) - 1}]])
            heap.append([["defaults", {"r": len(heap) - 1}]])
            docs.append({"root": {"r": len(heap) - 1}, "via": r.choice(["file", "api"])})
            ops.append(["upd", 1, len(docs) - 1])
        if where == "set" or r.random() < 0.4:
            o = optdoc(where == "set", allow_d=True)
            docs.append({"root": {"r": o}, "via": "api"})
            ops.append(["set", 1, "options", len(docs) - 1])
        ops += [["create", 1], ["obs"]]
        if r.random() < 0.3:
            ops += [["new", 2, -1], ["create", 2], ["obs"]]
        return {"level": "lb", "lang": "cpp", "embed": "top", "heap": heap, "docs": docs, "ops": ops,
                "keys": ["options", "defaults", "vk1"]}

    def doc_example(self):
        """the configuration files of docs/languages.rst (or arbitrary valid values for some keys of a group) as the project's
        configuration, a shorthand on top of it through a later file, the options override or the command line"""
        r = self.rng
        short = r.choice(sorted(DOC_GROUPS))
        if r.random() < 0.5:
            other = r.choice(sorted(DOC_GROUPS))
            low = {k: v[0] for k, v in DOC_GROUPS[other].items() if k not in ("std", "std_flavor")}
        else:
            low = {k: given_value(short, k) for k in r.sample(GROUP_KEYS, r.randint(1, 4))}
        case = {"sh": [k for k, v in SHORTHANDS.items() if v == short][0], "chan": r.choice(["file", "ovr", "cli"]),
                "lowkind": r.choice(["file", "api"]), "low": [], "high": [], "exp": ["doc"] * len(GROUP_KEYS)}
        stim = stim_from_group_case(case, observe=r.choice(["listing", "listing", "probe"]))
        stim["heap"][0] = [[k, {"x": v}] for k, v in low.items()]
        stim["low"] = low
        if stim["level"] == "lb":
            stim["tl_after"] = r.choice([0, 0, 1, 2, 99])
        return stim

    def cli(self, observe="listing", subprocess_=False):
        r = self.rng
        lang = r.choice(["c", "cpp"])
        heap, docs = [], []
        optnames = list(FLAGS) + ["target_endianness", "cast_format", "vk"] + (["allocator_type", "std_flavor"] if lang == "cpp" else [])
        for _ in range(r.choice([0, 1, 1, 2, 3])):
            node = []
            for k in r.sample(optnames, r.randint(0, 4)):
                if k in FLAGS:
                    node.append([k, {"x": r.random() < 0.6}])
                elif k == "target_endianness":
                    node.append([k, {"x": r.choice(["any", "big", "little"])}])
                elif k == "allocator_type":
                    node.append([k, {"x": "my::alloc"}])
                else:
                    node.append([k, {"x": r.choice(WORDS)}])
            if lang == "cpp" and r.random() < 0.3:
                node.append(["std", {"x": r.choice(CPP_STDS)}])
            heap.append(node)
            top = [["options", {"r": len(heap) - 1}]] if node or r.random() < 0.5 else []
            if r.random() < 0.4:
                top.append([r.choice(["extension", "namespace_file_stem", "vk1", "indent"]), {"x": r.choice([".hh", "stem", 7])}])
            if r.random() < 0.25:   # a scalar of the built-in section replaced by a map of maps, maybe with an anchor
                heap.append([["x", {"x": 1}]])
                z = len(heap) - 1
                heap.append([["m", {"r": z}], ["n", {"r": z}]] if r.random() < 0.5 else [["m", {"r": z}]])
                top.append(["indent", {"r": len(heap) - 1}])
            r.shuffle(top)
            heap.append(top)
            docs.append({"root": {"r": len(heap) - 1}, "via": "file"})
        # the flags
        o = []
        for k in FLAGS:
            o.append([k, {"x": True} if r.random() < 0.35 else {"d": False}])
        if r.random() < 0.4:
            o.append(["target_endianness", {"x": r.choice(["any", "big", "little"])}])
        if r.random() < 0.5:
            o.append(["std", {"x": r.choice(CPP_STDS if lang == "cpp" else ["c11"])}])
        heap.append(o)
        docs.append({"root": {"r": len(heap) - 1}, "via": "api"})
        cli = {"options_doc": len(docs) - 1, "observe": observe, "subprocess": subprocess_}
        if sum(1 for d in docs if d.get("via") == "file") >= 2 and r.random() < 0.5:
            cli["again"] = True
        if r.random() < 0.3:
            docs.append({"root": {"x": r.choice([".h", ".hpp", ".foo"])}, "via": "api"})
            cli["extension_doc"] = len(docs) - 1
        if r.random() < 0.2:
            docs.append({"root": {"x": "stem_" + str(r.randint(0, 9))}, "via": "api"})
            cli["stem_doc"] = len(docs) - 1
        return {"level": "cli", "lang": lang, "embed": "top", "heap": heap, "docs": docs, "ops": [], "cli": cli,
                "keys": ["options", "defaults", "extension", "namespace_file_stem", "vk1", "indent"]}


# ------------------------------------------------------------------------------------------------------------------------------
# parallel execution of stimuli (building a LanguageContextBuilder parses the built-in YAML: ~50 ms)
# ------------------------------------------------------------------------------------------------------------------------------
def _work(args):
    stims, scratch, rid0 = args
    logging.disable(logging.CRITICAL)
    out = []
    for i, s in enumerate(stims):
        try:
            out.append(run_stim(s, scratch, rid0 + i))
        except MachineryFailure as e:
            out.append({"failure": str(e)})
    return out


def run_many(ctx, stims, rid0=0, parallel=True):
    if not stims:
        return []
    if not parallel or len(stims) < 32:
        res = _work((stims, str(ctx.scratch), rid0))
    else:
        n = NCPU
        size = (len(stims) + n * 4 - 1) // (n * 4)
        jobs = [(stims[i:i + size], str(ctx.scratch), rid0 + i) for i in range(0, len(stims), size)]
        with concurrent.futures.ProcessPoolExecutor(max_workers=n, mp_context=multiprocessing.get_context("fork")) as ex:
            res = [r for chunk in ex.map(_work, jobs) for r in chunk]
    for r in res:
        if "failure" in r:
            raise MachineryFailure(r["failure"])
    return res


def features(stim, res):
    ops = [o[0] for o in stim["ops"]]
    nb = len({o[1] for o in stim["ops"] if len(o) > 1})
    hasd = any("d" in c for n in stim["heap"] for _, c in n)
    return "|".join([stim["level"], stim.get("lang", "-"), stim.get("embed", "-"), "b%d" % nb, "d" if hasd else "-",
                     res["cls"].split(":")[0], "file" if any(d.get("via") == "file" for d in stim["docs"]) else "api",
                     "c%d" % ops.count("create")])


def judge(ctx, stims, results, what="history"):
    """code -> spec: the T-layer decides.  Returns {index: [clauses]}"""
    recs = [r["record"] for r in results]
    rej = tlc.validate_traces(ctx, "ConfigMergeTrace", recs, batch=ctx.pick(400, 1000), xmx="2g")
    byid = {r["record"]["id"]: i for i, r in enumerate(results)}
    out = {}
    for rid, txt in rej.items():
        i = byid[rid]
        codes, _, first = txt.partition(" ")
        clauses = [CLAUSE.get(c, c) for c in codes.split("+")]
        out[i] = clauses
        for cl in clauses:
            # the structural class of the input groups what one root cause produces under several clauses
            cls = results[i]["cls"]
            ctx.violation("C13|%s|%s" % (cl, cls),
                          "%s of the real code is rejected by the P-layer: clause %s first fails at step %s of the recorded trace "
                          "(level %s%s)" % (what, cl, first, stims[i]["level"],
                                            ", argv " + " ".join(results[i]["argv"]) if results[i].get("argv") else ""),
                          {"stim": stims[i]})
    return out


# ------------------------------------------------------------------------------------------------------------------------------
# TLC: sliced exhaustive runs
# ------------------------------------------------------------------------------------------------------------------------------
def sliced(ctx, cfgname, nslices, name, constants, *, subst=None, emit=False, expect_violation=None, timeout=3000, xmx="2g",
           simulate=None, depth=None):
    text = (SPECS / (cfgname + ".cfg")).read_text()
    for a, b in (subst or {}).items():
        if a not in text:
            raise MachineryFailure("cfg %s has no %r" % (cfgname, a))
        text = text.replace(a, b)
    d = ctx.scratch / ("cfg-%s-%d" % (cfgname, int(time.time() * 1e6) % 10**9))
    d.mkdir()
    jobs = []
    for k in range(nslices):
        t = text.replace("Slice = 0", "Slice = %d" % k).replace("NSlices = 1", "NSlices = %d" % nslices)
        p = d / ("s%02d.cfg" % k)
        p.write_text(t)
        jobs.append(p)

    def one(p):
        return tlc.run_tlc(SPECS / "ConfigMerge.tla", p, ctx.scratch, workers=1, timeout=timeout, xmx=xmx, simulate=simulate, depth=depth,
                           seed=(ctx.seed + 1 if simulate else None))

    t0 = time.time()
    with concurrent.futures.ThreadPoolExecutor(max_workers=NCPU) as ex:
        rs = list(ex.map(one, jobs))
    agg = tlc.TlcResult()
    agg.mode = "simulate" if simulate else "exhaustive (%d slices, one JVM each)" % nslices
    agg.constants = constants
    agg.wall = time.time() - t0
    agg.generated = sum(r.generated for r in rs)
    agg.distinct = sum(r.distinct for r in rs)
    agg.depth = max(r.depth for r in rs)
    violated = sorted({r.violated for r in rs if r.violated})
    if expect_violation is not None:
        if violated != [expect_violation]:
            raise MachineryFailure("negative control %s: expected TLC to refute %s, got %s %s" %
                                   (name, expect_violation, violated, [r.error for r in rs if r.error][:1]))
        return agg, []
    for r in rs:
        if not r.ok:
            raise MachineryFailure("model %s did not pass: %s %s\n%s" % (name, r.error, r.violated, r.out[-2500:]))
    ctx.add_model(agg, name)
    cases = [c for r in rs for c in r.json_lines()] if emit else []
    return agg, cases


# ------------------------------------------------------------------------------------------------------------------------------
def replay_model_cases(ctx, cases, plan, label):
    """spec -> code.  plan: list of (level, via, lang, embed, every)"""
    stims, meta = [], []
    for i, c in enumerate(cases):
        for level, via, lang, embed, every, off in plan:
            if i % every == off % every:
                stims.append(stim_from_model(c, level, via, lang, embed))
                if level == "lb":
                    stims[-1]["tl_after"] = (0, 1, 99, 2)[len(stims) % 4]
                meta.append(i)
    results = run_many(ctx, stims)
    for r in results:
        r["record"]["id"] = 0
    for j, r in enumerate(results):
        r["record"]["id"] = j
    ndrift = 0
    suspects = []
    for j, (s, r) in enumerate(zip(stims, results)):
        ctx.count()
        c = cases[meta[j]]
        exp, loose = model_expectation(c)
        # model operation k corresponds to the k-th observation that is not a `set`/extra step: walk both
        ok = r["truncated"] is None
        if ok:
            obs = r["obs"]
            oi = 0
            for k, o in enumerate(c["ops"]):
                if o["op"] == "new":
                    oi += 2
                elif o["op"] == "set":
                    oi += len(c["heap0"][c["roots"][o["d"] - 1] - 1])
                else:
                    oi += 1
                if oi == 0 or oi > len(obs):
                    ok = False
                    break
                cur = obs[oi - 1]["cfg"]
                for b, e in exp[k].items():
                    if b in cur and not loose[k][b - 1] and not match_exp(e, cur[b]):
                        ok = False
            # documents and contexts are judged by the T-layer below for every suspect; cheap pre-check here:
            if any(st["docs"] for st in r["record"]["steps"]):
                ok = False
        if not ok:
            suspects.append(j)
        ctx.distinct("m|" + features(s, r) + "|" + sha(json.dumps(s["heap"]) + json.dumps(s["ops"]))[:10],
                     nontrivial=len(s["heap"]) > len(s["docs"]) or r["cls"] != "other:" + s["level"])
    # every suspect and a sample of the others go through the T-layer
    pick = sorted(set(suspects) | set(range(0, len(stims), ctx.pick(9, 5))))
    sub_s, sub_r = [stims[j] for j in pick], [results[j] for j in pick]
    rej = judge(ctx, sub_s, sub_r, what="model history (%s)" % label)
    for n, j in enumerate(pick):
        if j in suspects and n not in rej:
            ndrift += 1
            if results[j]["truncated"]:
                ctx.drift("model history could not be completed on the real code: %s" % results[j]["truncated"])
            else:
                ctx.drift("real code differs from the I-layer prediction but satisfies P (%s, level %s): %s" %
                          (label, stims[j]["level"], json.dumps({k: stims[j][k] for k in ("heap", "docs", "ops")})[:700]))
    ctx.validated(len(stims) - len(pick))   # matched the P state computed by TLC after every step
    mid = len(stims) // 2
    ctx.sample({"direction": "spec->code (%s)" % label, "stimulus": {k: stims[mid][k] for k in ("level", "heap", "docs", "ops")},
                "model_expected_state_after_last_op": cases[meta[mid]]["ops"][-1]["exp"],
                "observed_after_last_op": {str(b): v for b, v in results[mid]["obs"][-1]["cfg"].items()} if results[mid]["obs"] else None},
               limit=2 if label == "fold" else 3)
    return stims, results, suspects


def replay_group_cases(ctx, gcases):
    """spec -> code for the clause "a shorthand sets its documented group as a unit": every case of ConfigMergeGroups.tla through
    LanguageContextBuilder (file / API / options override) or nnvg (--language-standard), judged by the T-layer with the documented
    table; the model's symbolic expectation is compared as well (drift)."""
    stims = []
    for i, c in enumerate(gcases):
        stims.append(stim_from_group_case(c))
        if stims[-1]["level"] == "lb":   # the same sources with the target language named later (after 1, 2 source-giving calls / right before create())
            stims.append(dict(stim_from_group_case(c), tl_after=(1, 2, 99)[i % 3]))
            if c["chan"] == "file":     # ... and with the shorthand displaced by a higher source that names another standard
                other = ("c++14", "c++17", "c++20", "c++17-pmr", "cetl++14-17")[i % 5]
                if other != SHORTHANDS[c["sh"]]:
                    stims.append(dict(stim_from_group_case(c, restd=other), tl_after=(0, 2, 1, 99)[i % 4]))
        if c["chan"] == "cli" and i % ctx.pick(6, 2) == 0:
            stims.append(stim_from_group_case(c, observe="probe"))
    results = run_many(ctx, stims)
    for j, r in enumerate(results):
        r["record"]["id"] = j
        ctx.count()
        c = stims[j]["group_case"]
        ctx.distinct("g|%s|%s|%s|%s|%s|%s|%s|%s" % (stims[j]["short"], c["chan"], c["lowkind"], c["low"], c["high"], stims[j].get("cli", {}).get("observe"), stims[j].get("tl_after", 0), stims[j].get("restd")))
    rej = judge(ctx, stims, results, what="language-standard shorthand case")
    ntr = 0
    for j, (st, r) in enumerate(zip(stims, results)):
        if j not in rej and not group_case_matches(st, r):
            if r["truncated"]:
                ntr += 1
            ctx.drift("shorthand case differs from the model's expectation but satisfies P: %s %s" %
                      (json.dumps(st["group_case"]), r["truncated"] or ""))
    mid = len(stims) // 3
    ctx.sample({"direction": "spec->code (shorthand groups)", "case": stims[mid]["group_case"], "shorthand": stims[mid]["short"],
                "lower_source_gives": stims[mid]["low"], "ops": stims[mid]["ops"], "argv": results[mid].get("argv"),
                "reported_options": {k: v[1] for k, v in results[mid]["obs"][-1]["rep"][1][1][1].items() if k in GROUP_KEYS}
                if results[mid]["obs"] and results[mid]["obs"][-1]["rep"] else None}, limit=4)
    return stims, results, rej


def run(ctx):
    u, nl = _nn()
    rng = ctx.rng
    phases = ctx.cov.setdefault("phase_s", {})
    t_ph = [time.time()]

    def phase(name):
        phases[name] = round(time.time() - t_ph[0], 1)
        t_ph[0] = time.time()
    # ---- 1. the bounded design ------------------------------------------------------------------------------------------
    # fold: built-in x document x override, every shape of depth <= 3, with/without anchors; invariants + case emission in one run
    _, cases = sliced(ctx, "ConfigMerge", 16, "ConfigMerge fold (+ case emission)",
                      "CopyMode=rebuild Mode=fold UFoldQ: 8 built-in x 36 file x 117 override shapes, Sharings={none,doc}, "
                      "smallest-key-first", emit=True)
    if len(cases) < 10000:
        raise MachineryFailure("too few cases emitted: %d" % len(cases))
    if not ctx.quick:
        sliced(ctx, "ConfigMerge_fold3", 16, "ConfigMerge fold, all built-in shapes", "CopyMode=rebuild Mode=fold UFold3: 36 x 36 x 117")
    # dict iteration order must not matter (python dicts iterate in insertion order, which the caller controls)
    sliced(ctx, "ConfigMerge_orderq", 16, "ConfigMerge fold, any key order (small)",
           "CopyMode=rebuild Mode=fold UOrderQ (3 x 36 x 13 shapes) AnyOrder=TRUE")
    if not ctx.quick:
        sliced(ctx, "ConfigMerge_order", 16, "ConfigMerge fold, any key order",
               "CopyMode=rebuild Mode=fold UOrder (3 x 36 x 117 shapes) AnyOrder=TRUE")
        sliced(ctx, "ConfigMerge_fold4", 16, "ConfigMerge fold, two files", "CopyMode=rebuild Mode=fold UFold4: 3 x 36 x 36 x 13")
        sliced(ctx, "ConfigMerge_fold3d", 16, "ConfigMerge fold, API document with default markers in the middle",
               "CopyMode=rebuild Mode=fold UFold3D: 8 x 117 x 117")
    # language-standard groups: _validate_language_options writes the selected block over the options (I) vs. GroupApply (P)
    sliced(ctx, "ConfigMerge_group", 16, "ConfigMerge fold with option groups",
           "CopyMode=rebuild Mode=fold Group=update UGroup (1 x 36 x 117 shapes)")
    if not ctx.quick:
        sliced(ctx, "ConfigMerge_group4", 16, "ConfigMerge fold with option groups, a lower file below the selecting one",
               "CopyMode=rebuild Mode=fold Group=update UGroup4 (1 x 36 x 36 x 13 shapes)")
    # the clause itself, small and exhaustive: shorthand x channel x perturbed keys x explicitly given keys; cases are emitted
    gcases = tlc.emit_cases(ctx, "ConfigMergeGroups", ctx.pick("ConfigMergeGroups", "ConfigMergeGroups_2"),
                            name="ConfigMergeGroups (+ case emission)",
                            constants="2 shorthands x 3 channels x 2 lower kinds x <=%d perturbed of 8 keys x <=1 explicit key, Impl=unit" % ctx.pick(1, 2))
    if len(gcases) < 500:
        raise MachineryFailure("too few shorthand cases emitted: %d" % len(gcases))
    # histories: two builders sharing documents, create/update interleaved
    for hcfg, hn, hdesc in ctx.pick([("ConfigMerge_histq", 7, "MaxOps=5 UHistQ (3 x 7 x 7 shapes)")],
                                    [("ConfigMerge_histq6", 7, "MaxOps=6 UHistQ (3 x 7 x 7 shapes)"),
                                     ("ConfigMerge_hist", 13, "MaxOps=5 UHist (3 x 13 x 13 shapes)")]):
        sliced(ctx, hcfg, hn, "ConfigMerge histories " + hcfg, "CopyMode=rebuild Mode=hist NB=2 " + hdesc, timeout=3400)
    # negative controls of the model: the original shallow copy and the insufficient deepcopy repair must be refuted
    neg = []
    for mode, inv, cfg in (("shallow", "DocsUnmodified", "ConfigMerge_neg"), ("deepcopy", "Refines", "ConfigMerge_neg"),
                           ("shallow", "CtxStable", "ConfigMerge_neghist")):
        keep = "INVARIANT " + inv
        text = (SPECS / (cfg + ".cfg")).read_text()
        drop = {ln: "" for ln in text.splitlines() if ln.startswith("INVARIANT") and ln.strip() != keep}
        a, _ = sliced(ctx, cfg, 1, "neg %s %s" % (mode, inv), "", subst={'CopyMode = "rebuild"': 'CopyMode = "%s"' % mode, **drop},
                      expect_violation=inv)
        neg.append("CopyMode=%s refuted by invariant %s after %d states" % (mode, inv, a.distinct))
    a, _ = sliced(ctx, "ConfigMerge_groupneg", 1, "neg group setdefault", "",
                  subst={"INVARIANT DocsUnmodified\n": "", "INVARIANT CtxStable\n": "", "INVARIANT NoSharing\n": "",
                         "INVARIANT OracleClauses\n": ""}, expect_violation="Refines")
    neg.append("Group=setdefault (the block only fills gaps) refuted by invariant Refines after %d states" % a.distinct)
    a, _ = sliced(ctx, "ConfigMerge_groupneg", 1, "neg group partial", "",
                  subst={'Group = "setdefault"': 'Group = "partial"', "INVARIANT DocsUnmodified\n": "", "INVARIANT CtxStable\n": "",
                         "INVARIANT NoSharing\n": "", "INVARIANT OracleClauses\n": ""}, expect_violation="Refines")
    neg.append("Group=partial (a documented key missing from the shipped block) refuted by invariant Refines after %d states" % a.distinct)
    r = tlc.run_tlc(SPECS / "ConfigMergeGroups.tla", SPECS / "ConfigMergeGroups_neg.cfg", ctx.scratch, workers=1, xmx="1g")
    if r.violated != "Refines":
        raise MachineryFailure("negative control ConfigMergeGroups Impl=partial was not refuted: %s %s" % (r.error, r.violated))
    neg.append("ConfigMergeGroups Impl=partial (group de-duplicated against the stock options: 3 of the documented keys dropped) "
               "refuted by invariant Refines after %d states" % r.distinct)
    ctx.cov["model_negative_control"] = neg
    phase("model checking")

    # ---- 2. spec -> code ----------------------------------------------------------------------------------------------
    # (level, via, lang, embed, every, offset)
    plan = [("du", "api", "c", "top", 1, 0), ("lc", "api", "c", "top", ctx.pick(7, 3), 0), ("lc", "file", "c", "top", ctx.pick(7, 3), 1),
            ("lb", "api", "c", "top", ctx.pick(97, 23), 0), ("lb", "file", "c", "top", ctx.pick(97, 23), 5),
            ("lb", "api", "c", "opt", ctx.pick(197, 41), 7), ("lb", "api", "cpp", "opt", ctx.pick(397, 83), 11)]
    stims, results, suspects = replay_model_cases(ctx, cases, plan, "fold")
    # simulated long histories of the hist model (3 builders)
    _, hcases = sliced(ctx, "ConfigMerge_sim", 1, "ConfigMerge histories (simulation, recorded)",
                       "CopyMode=rebuild Mode=hist NB=3 MaxOps=9 UHist, -simulate", emit=True,
                       simulate="num=%d" % ctx.pick(1500, 12000), depth=200)
    if len(hcases) < 100:
        raise MachineryFailure("too few simulated histories: %d" % len(hcases))
    hplan = [("du", "api", "c", "top", 1, 0), ("lc", "file", "c", "top", 2, 0), ("lb", "api", "c", "top", ctx.pick(5, 3), 0),
             ("lb", "file", "c", "top", ctx.pick(5, 3), 1), ("lb", "api", "c", "opt", ctx.pick(7, 4), 2)]
    replay_model_cases(ctx, hcases, hplan, "hist")
    replay_group_cases(ctx, gcases)
    phase("spec->code")

    # ---- 3. code -> spec ----------------------------------------------------------------------------------------------
    g = Gen(rng)
    rs = []
    for level, n in (("du", ctx.pick(2500, 25000)), ("lc", ctx.pick(1500, 15000)), ("lb", ctx.pick(500, 5000))):
        rs += [g.history(level) for _ in range(n)]
    for level in ("du", "lc", "lb"):
        for shared in (False, True):
            for via in (("api",) if level == "du" else ("api", "file")):
                rs += [g.d7_family(level, shared, via) for _ in range(ctx.pick(4, 20))]
    rs += [g.cpp_group() for _ in range(ctx.pick(250, 2500))]
    rs += [g.doc_example() for _ in range(ctx.pick(60, 600))]
    rs += [g.cli() for _ in range(ctx.pick(250, 2500))]
    rs += [g.cli(observe="probe") for _ in range(ctx.pick(30, 300))]
    rs += [g.cli(subprocess_=True) for _ in range(ctx.pick(6, 40))]
    res = run_many(ctx, rs)
    ntr = 0
    for j, (s, r) in enumerate(zip(rs, res)):
        r["record"]["id"] = j
        ctx.count()
        if r["truncated"]:
            ntr += 1
        ctx.distinct("r|" + features(s, r) + "|" + sha(json.dumps(s["heap"]) + json.dumps(s["ops"]) + json.dumps(s.get("cli")))[:10],
                     nontrivial=r["nsteps"] > 2)
    ctx.cov["histories_ended_by_tool_error"] = ntr
    judge(ctx, rs, res, what="random history")
    k = next(j for j, s in enumerate(rs) if s["level"] == "cli")
    ctx.sample({"direction": "code->spec", "level": "cli", "argv": res[k].get("argv"), "record_steps": res[k]["record"]["steps"][-1]})
    k = next(j for j, s in enumerate(rs) if s["level"] == "lb" and s["lang"] == "cpp")
    ctx.sample({"direction": "code->spec", "level": "lb/cpp", "ops": rs[k]["ops"], "docs": rs[k]["docs"], "heap": rs[k]["heap"]})
    reused = 0
    for s in rs:
        first = {}
        for i, o in enumerate(s["ops"]):
            if o[0] == "create":
                first.setdefault(o[1], i)
        if any(o[0] in ("upd", "updn", "create") and o[1] in first and i > first[o[1]] for i, o in enumerate(s["ops"])):
            reused += 1
    if reused:
        ctx.ambiguous("%d histories use a builder again after it created a context (it shares its LanguageConfig with that context): "
                      "what the builder and its earlier contexts then report is not asserted; the documents, other builders and other "
                      "builders' contexts still are" % reused)
    ctx.ambiguous("an option of a language-standard group (c++17-pmr, cetl++14-17) that the source which names the shorthand, or a "
                  "higher-precedence one, also gives explicitly: whether it survives the group is not asserted (AnyV); given by a "
                  "LOWER-precedence source it must take the documented value")
    ctx.ambiguous("documentation vs pinned tree: docs/languages.rst gives allocator_include \"<memory>\" for c++17-pmr, the pinned "
                  "properties.yaml \"<memory_resource>\" (the header that declares std::pmr::polymorphic_allocator); the documented "
                  "table of the check accepts both for this one key")
    ctx.ambiguous("an explicit scalar met by a later map that consists of default-marked values only: not asserted (Any)")

    phase("code->spec")
    # ---- 4. binding self-tests ------------------------------------------------------------------------------------------
    selftests(ctx)
    phase("self-tests")

    ctx.cov["rule"] = ("spec->code: every terminal state of the fold model (all shapes of depth<=3 x sharing) through deep_update, and "
                       "every 3rd/97th.. through LanguageConfig / LanguageContextBuilder (YAML files with anchors or dict API), simulated "
                       "9-operation histories on 3 builders; code->spec: seeded random histories (depth<=4, lists/strings/None leaves, "
                       "DefaultValue, shared sub-maps, 1-3 builders, files/API), C++ language-standard groups, nnvg command lines observed "
                       "through --list-configuration / a probe template / a subprocess; distinct = (level, language, embedding, builders, "
                       "default markers, structural class, file/API, creates, stimulus hash); non-trivial = has nested or shared maps, or "
                       "more than two recorded steps")
    ctx.cov["exhaustive"] = False
    ctx.assumptions += ["TLC and the ConfigMergeP/ConfigMerge/ConfigMergeTrace specifications",
                        "PyYAML: yaml.dump/yaml.load keep values and object sharing (anchors) of the documents the harness writes",
                        "the table of documented language-standard groups in vf/props/c13.py (transcribed from docs/languages.rst of the "
                        "pinned tree; std/std_flavor from the shorthand names)",
                        "the harness's reading of the command line (flag given = explicit True, flag absent = default-marked False, "
                        "--configuration files in the order given, flags over files)",
                        "snapshots compare leaves by (python type, JSON text); lists are atomic leaves"]
    ctx.not_exercised("py target (its Language forces enable_serialization_asserts=True by design), js/html targets")
    ctx.not_exercised("cetl++14-17 is exercised at configuration level only (no code is generated with it)")


def selftests(ctx, g=None):
    """binding: one recorded field is corrupted and the T-layer must reject the trace with the clause that speaks about it.  The
    base traces come from RefDriver (not from the tree), so a broken tree cannot turn a self-test into a machinery failure."""
    def check(name, stim, mutate, expect):
        res = run_stim(stim, ctx.scratch, 0)
        base = res["record"]
        if tlc.validate_traces(ctx, "ConfigMergeTrace", [base]):
            raise MachineryFailure("self-test '%s': the reference trace is rejected by the T-layer" % name)
        ctx.cov["traces_validated_against_impl"] -= 1
        rec = copy.deepcopy(base)
        if mutate.__code__.co_argcount == 2:
            mutate(rec, res["keys"])
        else:
            mutate(rec)
        got = tlc.validate_traces(ctx, "ConfigMergeTrace", [rec]).get(0, "")
        ctx.selftest(name, expect in got.split(" ")[0].split("+"))

    s = {"level": "ref", "heap": [[["a", {"x": 1}], ["b", {"x": 2}]], [["a", {"x": 3}]]],
         "docs": [{"root": {"r": 0}, "via": "api"}, {"root": {"r": 1}, "via": "api"}],
         "ops": [["new", 1, 0], ["create", 1], ["new", 2, 0], ["upd", 2, 1], ["obs"]], "keys": ["a", "b"]}

    def m_value(rec):   # builder 2 shows the old value of `a` after the update
        st = [x for x in rec["steps"] if x["op"] == "upd" and x["b"] == 2][-1]
        st["cfg"][0][1]["e"][0][1]["v"] = rec["docs"][0]["e"][0][1]["v"]
    check("stale value after an update is rejected (merge.precedence)", s, m_value, "prec")

    def m_sibling(rec):  # the sibling key `b` changes although document 2 does not mention it
        st = [x for x in rec["steps"] if x["op"] == "upd" and x["b"] == 2][-1]
        st["cfg"][0][1]["e"][1][1]["v"] = 77
    check("changed unmentioned sibling is rejected (merge.deep_union)", s, m_sibling, "union")

    def m_doc(rec):
        rec["steps"][-1]["docs"] = [[1, {"k": "m", "v": 0, "e": []}]]
    check("modified source document is rejected (merge.doc_unmodified)", s, m_doc, "unmod")

    def m_ctx(rec):      # context 1 (builder 1) reports something else after builder 2 was updated
        c = copy.deepcopy([x for x in rec["steps"] if x["op"] == "create"][0]["rep"][0])
        c[1]["e"][0][1]["v"] = 99
        rec["steps"][-1]["rep"] = [c]
    check("earlier context changed by another builder is rejected (merge.ctx_stable)", s, m_ctx, "stable")

    # a default-marked override that displaces an explicit file value
    s2 = {"level": "ref", "heap": [[["options", {"r": 1}]], [["flag", {"x": True}]], [["flag", {"d": False}]]],
          "docs": [{"root": {"r": 0}, "via": "api"}, {"root": {"r": 2}, "via": "api"}],
          "ops": [["new", 1, 0], ["set", 1, "options", 1], ["create", 1], ["obs"]], "keys": ["options"]}

    def m_marker(rec):   # the created configuration shows the default-marked False of the override instead of the file's True
        st = [x for x in rec["steps"] if x["op"] == "create"][0]
        f = rec["docs"][1]["e"][0][1]["v"]
        shown = copy.deepcopy([x for x in rec["steps"] if x["cfg"]][-1]["cfg"][0][1])
        node = shown
        while node["k"] == "m":
            node = node["e"][0][1]
        node["v"] = f
        st["cfg"] = [[1, shown]]
    check("default-marked value displacing an explicit one is rejected (merge.default_marker)", s2, m_marker, "marker")

    # a language-standard group that is not applied as a unit
    # the documented table is the oracle, not the `defaults` of the configuration: a lower source gave `incl`, the override names
    # the shorthand; a report in which `incl` keeps the lower source's value (a shipped block without that key) must be rejected
    s4 = {"level": "ref", "group": True, "combine_new": True,
          "doc_groups": {"S-pmr": {"std": ["s17"], "alloc": ["pmr::alloc"], "incl": ["<vector>", "<vec>"]}},
          "heap": [[["options", {"r": 1}], ["defaults", {"r": 2}]],
                   [["std", {"x": "s14"}], ["alloc", {"x": ""}], ["incl", {"x": "<vector>"}]],
                   [["S-pmr", {"r": 3}]],
                   [["std", {"x": "s17"}], ["alloc", {"x": "pmr::alloc"}], ["incl", {"x": "<vector>"}]],
                   [["options", {"r": 5}]], [["incl", {"x": "other.hpp"}]],
                   [["std", {"x": "S-pmr"}]]],
          "docs": [{"root": {"r": 0}, "via": "api"}, {"root": {"r": 4}, "via": "api"}, {"root": {"r": 6}, "via": "api"}],
          "ops": [["new", 1, 0], ["upd", 1, 1], ["set", 1, "options", 2], ["create", 1], ["obs"]], "keys": ["options", "defaults"]}

    def m_unit(rec, keys):
        st = [x for x in rec["steps"] if x["op"] == "create"][0]
        low = [e for e in rec["docs"][1]["e"][0][1]["e"] if e[0] == keys["incl"]][0][1]["v"]
        ent = [e for e in st["rep"][0][2]["e"] if e[0] == keys["incl"]][0]
        assert ent[1]["v"] != low
        ent[1]["v"] = low
    check("a documented group key that keeps a lower-precedence value is rejected (documented table, merge.precedence)", s4, m_unit, "prec")

    s3 = {"level": "ref", "group": True, "combine_new": True, "doc_groups": {},
          "heap": [[["options", {"r": 1}], ["defaults", {"r": 2}]],
                   [["std", {"x": "s14"}], ["alloc", {"x": ""}], ["flavor", {"x": "std"}], ["other", {"x": 1}]],
                   [["s17-pmr", {"r": 3}]],
                   [["std", {"x": "s17"}], ["alloc", {"x": "pmr::alloc"}], ["flavor", {"x": "pmr"}]],
                   [["std", {"x": "s17-pmr"}]]],
          "docs": [{"root": {"r": 0}, "via": "api"}, {"root": {"r": 4}, "via": "api"}],
          "ops": [["new", 1, 0], ["set", 1, "options", 1], ["create", 1], ["obs"]], "keys": ["options", "defaults"]}

    def m_group(rec, keys):    # `alloc` keeps its built-in value although the selected group documents another one
        st = [x for x in rec["steps"] if x["op"] == "create"][0]
        builtin_opts = [e for e in rec["docs"][0]["e"] if e[0] == keys["options"]][0][1]
        builtin_alloc = [e for e in builtin_opts["e"] if e[0] == keys["alloc"]][0][1]["v"]
        ent = [e for e in st["rep"][0][2]["e"] if e[0] == keys["alloc"]][0]
        assert ent[1]["v"] != builtin_alloc
        ent[1]["v"] = builtin_alloc
    check("an option of a language-standard group that is not set as a unit is rejected (merge.precedence)", s3, m_group, "prec")

    # spec -> code comparison: a perturbed expectation must not match, a wildcard must
    ctx.selftest("perturbed model expectation is noticed by the replay comparison",
                 not match_exp(("m", {"vk1": ("x", 1)}), ("m", {"vk1": ("x", canon(205)), REST: ("x", "r")}))
                 and match_exp(("m", {"vk1": ("x", 2)}), ("m", {"vk1": ("x", canon(205)), REST: ("x", "r")}))
                 and match_exp(("m", {"vk1": ("any", None)}), ("m", {"vk1": ("x", canon(205)), REST: ("x", "r")})))


def replay(ctx, case):
    stim = case["stim"]
    r = run_stim(stim, ctx.scratch, 0)
    judge(ctx, [stim], [r], what="replayed history")
