"""C08 - listing and dry-run modes tell the build system the truth.

Model:   specs/GenListing.tla.  Part 1 (P-layer): the three clauses over observations of invocations (list.outputs_eq,
         list.passive_no_effect, list.inputs_cover).  Part 2 (I-layer): ArgparseRunner step by step -- argument check, set-up,
         dispatch, and per mode the calls with the arguments it forwards (_should_generate_support, get_templates(omit),
         generate_all(is_dryrun, omit), the namespace-template look-up that can fail).  TLC checks I => P over the full option
         product (4 languages x generate-support x omit x namespace types x --templates x --support-templates x lookup x
         extension x stem) x all interleavings of the four modes (+ emptying the output directory), and, in a second
         configuration, x directory-name shape (lookup folder named <root>+suffix / root named <lookup>+suffix as siblings, output
         directory <root>_out) x one perturbed input class with run sequences long enough to establish influence.  Three switches
         model the code as found, a fourth the hazard of telling own files from dependencies by a path-string prefix; each must
         be refuted (negative controls = predictions of D1, D12, D15 and of the prefix mutation).
spec->code: TLC emits one case per option combination (expected: rejected / succeeds / created classes / listed classes /
         influencer classes).  Every case is executed against the real CLI (`python -m nunavut`, one subprocess per invocation,
         private copy of $VERIF_REPO/src so that built-in templates can be perturbed) in all four modes on a scratch tree, with a
         recursive snapshot (path, type, size, mtime_ns, mode, sha256) of the whole tree around every invocation; passive modes
         are run on an absent/empty and on a populated output directory; influence is established empirically (perturb one
         candidate input, regenerate, compare bytes; confirmed by a second perturbed and a second baseline run).
code->spec: seeded random namespace sets (nested, services, unions, chains through several lookup roots, unused definitions)
         x random options incl. ones outside the model (relative --outdir, DSDL_INCLUDE_PATH, post-processors, file mode,
         --no-overwrite, language options) x shuffled mode order.
Both directions record histories as ndjson and are JUDGED by specs/GenListingTrace.tla (P-layer operators only); python
compares the I-layer predictions (drift notes) and explains rejections (signature, message).
"""
import concurrent.futures
import hashlib
import json
import os
import pathlib
import queue
import re
import shutil
import stat
import subprocess
import sys
import time

from ..core import MachineryFailure, REPO, NCPU, sha
from .. import tlc

PYEXE = sys.executable or "/venv/bin/python"
EXT_OVR = ".c08x"
STEM_OVR = "c08ns"
MARK = "C08PROBE"
LANG_DEFAULT = {  # fall-back when the real language object cannot be asked (then a drift note is written)
    "c": {"ext": ".h", "stem": "_namespace_", "sup_ser": ["nunavut/support/serialization"], "sup_type": [], "supsrc": ["serialization.j2"]},
    "cpp": {"ext": ".hpp", "stem": "_namespace_", "sup_ser": ["nunavut/support/serialization"], "sup_type": [], "supsrc": ["serialization.j2"]},
    "py": {"ext": ".py", "stem": "__init__", "sup_ser": [], "sup_type": ["nunavut_support"], "supsrc": ["nunavut_support.j2"]},
    "html": {"ext": ".html", "stem": "index", "sup_ser": [], "sup_type": [], "supsrc": []},
}
SPEC_FACTS = {  # the language facts transcribed in GenListing.tla part 2
    "c": {"ser": True, "tsup": False, "stdns": False, "nstpl": False}, "cpp": {"ser": True, "tsup": False, "stdns": False, "nstpl": False},
    "py": {"ser": False, "tsup": True, "stdns": True, "nstpl": True}, "html": {"ser": False, "tsup": False, "stdns": True, "nstpl": True},
}
TRACE_CONSTANTS = {"Langs": '{"c"}', "Exts": '{"def"}', "Stems": '{"def"}', "SupTpls": "{FALSE}", "NsVals": "{FALSE}", "Shapes": '{"plain"}', "OwnByPrefix": "FALSE", "Wipes": "FALSE",
                   "PFiles": "{}", "MaxLo": 0, "MaxLi": 0, "MaxDry": 0, "MaxRun": 0, "Linear": "FALSE", "QuickOnly": "FALSE",
                   "FwdOmitToList": "TRUE", "ListDeps": "TRUE", "ListUserSup": "TRUE"}

# ------------------------------------------------------------------------------------------------ fixture
FIX_ROOT = {
    "vnd/Top.1.0.dsdl": "uint8 a\nvnd.sub.Inner.1.0 inner\n@sealed\n",
    "vnd/sub/Inner.1.0.dsdl": "uint16 x\nfloat32[<=3] ys\n@extent 64 * 8\n",
    "vnd/sub/gap/deep/Leaf.1.0.dsdl": "@union\nuint8 p\nint16 q\n@sealed\n",
    "vnd/Svc.1.0.dsdl": "vnd.sub.gap.deep.Leaf.1.0 req\n@sealed\n---\nbool done\n@extent 16 * 8\n",
}
FIX_ROOT_LOOKUP = dict(FIX_ROOT)
FIX_ROOT_LOOKUP["vnd/Top.1.0.dsdl"] = "uint8 a\nvnd.sub.Inner.1.0 inner\ndep.Ext.1.0 ext\n@sealed\n"
FIX_LOOKUP = {
    "dep/Ext.1.0.dsdl": "dep.more.Base.1.0 b\nuint8 n\n@sealed\n",
    "dep/more/Base.1.0.dsdl": "uint32 v\n@sealed\n",
    "dep/Unused.1.0.dsdl": "uint8 z\n@sealed\n",
}
USER_TPL = {
    "Any.j2": "{% from 'macros.j2' import banner %}{{ banner(T) }}namespace {{ T.full_namespace }}\n"
              "{% for t in T.data_types %}  has {{ t.full_name }}.{{ t.version.major }}.{{ t.version.minor }}\n{% endfor %}",
    "CompositeType.j2": "{% from 'macros.j2' import banner %}{% from 'serialization.j2' import wire %}{{ banner(T) }}{{ wire(T) }}"
                        "{% include 'inc/fields.j2' %}\nend\n",
    # a user template may carry any name, also one the built-in sets give a special role
    "serialization.j2": "{% macro wire(t) %}wire image of {{ t.full_name }}: {{ t.bit_length_set.min }}..{{ t.bit_length_set.max }} bits\n{% endmacro %}\n",
    "ServiceType.j2": "{% from 'macros.j2' import banner %}{{ banner(T) }}request max {{ T.request_type.bit_length_set.max }} bits, "
                      "response extent {{ T.response_type.extent }} bits\n",
    "macros.j2": "{% macro banner(t) %}generated for {{ t.full_name }}\n{% endmacro %}\n",
    "inc/fields.j2": "extent {{ T.extent }} bits, at most {{ T.bit_length_set.max }} bits\n"
                     "{% for f in T.fields %}  {{ f.name }}: {{ f.data_type }} (at most {{ f.data_type.bit_length_set.max }} bits)\n{% endfor %}"
                     "{% include 'inc/tail.txt' %}",
    "inc/tail.txt": "tail of an included file that does not carry the template suffix\n",
    "Unused.j2": "never used {{ T.full_name }}\n",
}


def user_sup_tpl(facts):
    d = {"lonely.j2": "a support template that shadows nothing\n", "part.j2": "included part of the user's support template\n"}
    for n in facts["supsrc"]:
        d[n] = "user support template %s\n{%% include 'part.j2' %%}\n" % n
    return d


SHAPES = {  # GenListing!ShapeOf: name of the lookup root, its parent folder below in/, the output directory
    "plain": ("dep", "lookup0", "out"),
    "sibling": ("vndx", "dsdl", "in/dsdl/vnd_out"),  # in/dsdl/vnd + in/dsdl/vndx (+ in/dsdl/vnd_out)
    "rsibling": ("vn", "dsdl", "in/dsdl/vnd_out"),  # in/dsdl/vn + in/dsdl/vnd
}


def fixture_nsset(lookup, shape="plain"):
    name, parent, out = SHAPES[shape]
    ren = lambda d: {k.replace("dep/", name + "/", 1) if k.startswith("dep/") else k: v.replace("dep.", name + ".") for k, v in d.items()}
    return {"root": "vnd", "rootfiles": ren(FIX_ROOT_LOOKUP) if lookup else FIX_ROOT, "out": out,
            "lookups": [{"root": name, "dir": parent, "files": ren(FIX_LOOKUP)}] if lookup else []}


def lk_dir(i, lk):
    return lk.get("dir", "lookup%d" % i)


def input_prefixes(nsset):
    """(prefix of the root namespace's files, [prefixes of the lookup roots]) relative to the sandbox"""
    return "in/dsdl/%s/" % nsset["root"], ["in/%s/%s/" % (lk_dir(i, lk), lk["root"]) for i, lk in enumerate(nsset["lookups"])]


# ------------------------------------------------------------------------------------------------ language facts
_facts_cache = {}


def lang_facts(ctx, lang):
    """ext / namespace stem / support targets of the real tree (path concretisation of the I-layer's file classes)"""
    if lang in _facts_cache:
        return _facts_cache[lang]
    f = dict(LANG_DEFAULT[lang])
    try:
        from nunavut.lang import LanguageContextBuilder
        from nunavut._utilities import ResourceType

        tl = LanguageContextBuilder(include_experimental_languages=True).set_target_language(lang).create().get_target_language()
        res = sorted(pathlib.Path(p) for p in tl.get_support_files(ResourceType.SERIALIZATION_SUPPORT))
        rest = sorted(pathlib.Path(p) for p in tl.get_support_files(ResourceType.TYPE_SUPPORT))
        sub = [x for x in tl.support_namespace if x]
        f = {"ext": tl.extension, "stem": tl.namespace_output_stem, "sup_ser": ["/".join(sub + [p.stem]) for p in res],
             "sup_type": ["/".join(sub + [p.stem]) for p in rest], "supsrc": [p.name for p in res + rest]}
        tdir = REPO / "src" / "nunavut" / "lang" / lang / "templates"
        real = {"ser": bool(res), "tsup": bool(rest), "stdns": bool(tl.has_standard_namespace_files),
                "nstpl": (tdir / "Namespace.j2").exists() or (tdir / "Any.j2").exists()}
        if real != SPEC_FACTS[lang]:
            ctx.drift("language facts of %s differ from GenListing.tla part 2: tree %r, spec %r" % (lang, real, SPEC_FACTS[lang]))
    except Exception as ex:  # public API moved: fall back
        ctx.drift("cannot read language facts of %s through the public API (%s); using transcribed defaults" % (lang, type(ex).__name__))
    _facts_cache[lang] = f
    return f


# ------------------------------------------------------------------------------------------------ sandbox
class Intern:
    def __init__(self):
        self.d = {}

    def __call__(self, v):
        i = self.d.get(v)
        if i is None:
            i = self.d[v] = len(self.d) + 1
        return i


def _sha_file(p):
    h = hashlib.sha256()
    with open(p, "rb") as f:
        for b in iter(lambda: f.read(1 << 16), b""):
            h.update(b)
    return h.hexdigest()


def _walk(base, rel=""):
    """yield (relative posix path, lstat) for base/rel and everything below, sorted"""
    p = os.path.join(base, rel) if rel else base
    try:
        st = os.lstat(p)
    except FileNotFoundError:
        return
    yield rel or ".", st
    if stat.S_ISDIR(st.st_mode):
        for n in sorted(os.listdir(p)):
            yield from _walk(base, (rel + "/" + n) if rel else n)


class Sandbox:
    """src/nunavut (private copy of the tree under test), in/ (DSDL + user templates of the current history), cwd/, out/"""

    def __init__(self, root):
        self.root = pathlib.Path(root)
        self.root.mkdir(parents=True)
        shutil.copytree(REPO / "src" / "nunavut", self.root / "src" / "nunavut", ignore=shutil.ignore_patterns("__pycache__", "*.pyc"))
        (self.root / "cwd").mkdir()
        self.env = {k: v for k, v in os.environ.items() if k not in ("DSDL_INCLUDE_PATH", "PYTHONPATH", "NUNAVUT_VERIF")}
        self.env.update({"PYTHONPATH": str(self.root / "src"), "PYTHONDONTWRITEBYTECODE": "1", "PYTHONHASHSEED": "0"})
        self.nruns = 0
        self.outrel = "out"
        self.out = self.root / "out"
        self._src_rest = None

    # -- inputs of one history
    def install(self, nsset, lang, facts):
        d = self.root / "in"
        self.wipe()
        if d.exists():
            shutil.rmtree(d)
        self.outrel = nsset.get("out", "out")
        self.out = self.root / self.outrel
        files = {}
        for rel, txt in nsset["rootfiles"].items():
            files["dsdl/" + rel] = txt
        for i, lk in enumerate(nsset["lookups"]):
            for rel, txt in lk["files"].items():
                files["%s/%s" % (lk_dir(i, lk), rel)] = txt
        for rel, txt in USER_TPL.items():
            files["tpl/" + rel] = txt
        for rel, txt in user_sup_tpl(facts).items():
            files["suptpl/" + rel] = txt
        for rel, txt in files.items():
            p = d / rel
            p.parent.mkdir(parents=True, exist_ok=True)
            p.write_text(txt)
        self.lang = lang

    def wipe(self):
        o = self.out
        if o.exists():
            for dp, dn, fn in os.walk(o):
                os.chmod(dp, 0o755)
            shutil.rmtree(o)

    def mkout(self):
        self.out.mkdir(exist_ok=True)

    # -- observation
    def snapshot(self):
        """{relpath: (kind, zone, attrs)}; the part of src/ outside lang/<lang> is folded into one entry"""
        snap = {}
        for top in ("in", "cwd") + (() if self.outrel.startswith("in/") else (self.outrel,)):
            for rel, st in _walk(str(self.root), top):
                snap[rel] = self._entry(rel, st, 1 if self.in_out(rel) else 0)
        langdir = "src/nunavut/lang/" + self.lang
        for rel, st in _walk(str(self.root), langdir):
            snap[rel] = self._entry(rel, st, 0)
        h = hashlib.sha256()
        for rel, st in _walk(str(self.root), "src"):
            if rel == langdir or rel.startswith(langdir + "/"):
                continue
            h.update(repr((rel,) + self._entry(rel, st, 0)).encode())
        snap["src/*"] = (1, 0, ("fold", h.hexdigest()))
        st = os.lstat(self.root)
        snap["."] = (0, 0, ("dir", stat.S_IMODE(st.st_mode), tuple(sorted(os.listdir(self.root)))))
        return snap

    def in_out(self, rel):
        return rel == self.outrel or rel.startswith(self.outrel + "/")

    def _entry(self, rel, st, zone):
        p = os.path.join(self.root, rel)
        if stat.S_ISREG(st.st_mode):
            return (1, zone, ("file", st.st_size, st.st_mtime_ns, stat.S_IMODE(st.st_mode), _sha_file(p)))
        if stat.S_ISDIR(st.st_mode):
            return (0, zone, ("dir", st.st_mtime_ns, stat.S_IMODE(st.st_mode)))
        if stat.S_ISLNK(st.st_mode):
            return (2, zone, ("link", os.readlink(p)))
        return (2, zone, ("other", st.st_mode))

    def out_digest(self):
        h = hashlib.sha256()
        o = str(self.out)
        for rel, st in _walk(o):
            if stat.S_ISREG(st.st_mode):
                h.update(rel.encode() + b"\0" + _sha_file(os.path.join(o, rel)).encode() + b"\n")
        return h.hexdigest()

    # -- the tool
    def run(self, argv, env_extra=None):
        env = dict(self.env)
        if env_extra:
            env.update(env_extra)
        p = subprocess.run([PYEXE, "-m", "nunavut"] + argv, cwd=str(self.root / "cwd"), env=env, stdout=subprocess.PIPE, stderr=subprocess.PIPE,
                           timeout=600)
        self.nruns += 1
        return p.returncode, p.stdout.decode("utf-8", "replace"), p.stderr.decode("utf-8", "replace")[-1500:]

    def norm(self, s):
        """a printed path -> path relative to the sandbox root (posix) or the absolute real path outside it"""
        p = os.path.realpath(os.path.join(str(self.root / "cwd"), s))
        r = os.path.realpath(str(self.root))
        return os.path.relpath(p, r).replace(os.sep, "/") if (p == r or p.startswith(r + os.sep)) else p


# ------------------------------------------------------------------------------------------------ perturbation
_RE_OPEN = re.compile(r"(\{%-?\s*(?:macro|block)\s[^%]*?%\})")


def perturbed_text(rel, txt, level):
    """an edit of an input file that should show in the output if the file is used at all"""
    if rel.endswith(".dsdl"):  # one more field, after the leading directives / comments
        lines = txt.split("\n")
        i = 0
        while i < len(lines) and (not lines[i].strip() or lines[i].lstrip().startswith(("#", "@union", "@deprecated"))):
            i += 1
        return "\n".join(lines[:i] + ["uint8 c08probe"] + lines[i:])
    if rel.endswith(".j2") and level == 0:
        return _RE_OPEN.sub(lambda m: m.group(1) + MARK, txt) + "\n" + MARK + "\n"
    return txt + "\n" + MARK + "\n"


class Perturb:
    def __init__(self, sb, rel, level=0):
        self.p = sb.root / rel
        self.rel = rel
        self.level = level

    def __enter__(self):
        self.st = os.stat(self.p)
        self.orig = self.p.read_bytes()
        os.chmod(self.p, self.st.st_mode | 0o200)
        self.p.write_text(perturbed_text(self.rel, self.orig.decode("utf-8"), self.level))
        return self

    def __exit__(self, *a):
        self.p.write_bytes(self.orig)
        os.chmod(self.p, stat.S_IMODE(self.st.st_mode))
        os.utime(self.p, ns=(self.st.st_atime_ns, self.st.st_mtime_ns))
        return False


CLASS_AMBIGUOUS = ("include:user-non-j2", "include:builtin-non-j2")


def candidates(sb, case):
    """every template / DSDL file (and non-.j2 file of a template directory) that could conceivably matter: (relpath, class)"""
    res = []
    o = case["o"]
    rootp, lkps = input_prefixes(case["nsset"])
    for rel, st in _walk(str(sb.root), "in"):
        if not stat.S_ISREG(st.st_mode) or sb.in_out(rel):
            continue
        if rel.startswith(rootp):
            res.append((rel, "dsdl:root"))
        elif any(rel.startswith(p) for p in lkps):
            if o["lookup"]:
                res.append((rel, "dsdl:lookup"))
        elif rel.startswith("in/tpl/"):
            if o["tpl"]:
                res.append((rel, "template:user" if rel.endswith(".j2") else "include:user-non-j2"))
        elif rel.startswith("in/suptpl/"):
            if o["suptpl"]:
                res.append((rel, "template:user-support"))
    ld = "src/nunavut/lang/" + o["lang"]
    for rel, st in _walk(str(sb.root), ld + "/templates"):
        if stat.S_ISREG(st.st_mode) and not rel.endswith(".py"):
            res.append((rel, "template:builtin" if rel.endswith(".j2") else "include:builtin-non-j2"))
    for rel, st in _walk(str(sb.root), ld + "/support"):
        if stat.S_ISREG(st.st_mode) and not rel.endswith(".py"):
            res.append((rel, "template:builtin-support"))
    return res


# ------------------------------------------------------------------------------------------------ one history
def build_argv(sb, case, mode):
    o = case["o"]
    x = case.get("x", {})
    out = os.path.relpath(str(sb.out), str(sb.root / "cwd")) if x.get("outrel") else str(sb.out)
    a = ["--target-language", o["lang"], "--experimental-languages", "--outdir", out]
    if o["gs"] != "as-needed" or not x.get("gs_default"):
        a += ["--generate-support", o["gs"]]
    if o["omit"]:
        a.append("--omit-serialization-support")
    if o["ns"]:
        a.append("--generate-namespace-types")
    if o["tpl"]:
        a += ["--templates", str(sb.root / "in" / "tpl")]
    if o["suptpl"]:
        a += ["--support-templates", str(sb.root / "in" / "suptpl")]
    if o["ext"] == "ovr":
        a += ["--output-extension", EXT_OVR]
    if o["stem"] == "ovr":
        a += ["--namespace-output-stem", STEM_OVR]
    env = {}
    lks = [str(sb.root / "in" / lk_dir(i, lk) / lk["root"]) for i, lk in enumerate(case["nsset"]["lookups"])] if o["lookup"] else []
    if x.get("envlookup") and lks:
        env["DSDL_INCLUDE_PATH"] = os.pathsep.join(lks)
    else:
        for l in lks:
            a += ["--lookup-dir", l]
    a += list(x.get("extra", []))
    a.append(("../in/dsdl/" if x.get("rootrel") else str(sb.root / "in" / "dsdl") + "/") + case["nsset"]["root"])
    a += {"lo": ["--list-outputs"], "li": ["--list-inputs"], "dry": ["--dry-run"], "run": []}[mode]
    return a, env


class History:
    def __init__(self, ctx, sb, case):
        self.ctx, self.sb, self.case = ctx, sb, case
        self.pid, self.aid, self.did = Intern(), Intern(), Intern()
        self.steps = []  # for the T-layer
        self.raw = []  # for explanations
        self.pert = set()
        self.notes = []
        self.unstable = False
        self.outrel = case["nsset"].get("out", "out")

    def _enc(self, snap):
        return [[self.pid(rel), self.aid(e[2]), e[0], e[1]] for rel, e in sorted(snap.items())]

    def invoke(self, mode):
        sb = self.sb
        argv, env = build_argv(sb, self.case, mode)
        pre = sb.snapshot()
        rc, so, se = sb.run(argv, env)
        post = sb.snapshot()
        listed = sorted(set(sb.norm(s) for s in so.split(";") if s.strip())) if mode in ("lo", "li") else []
        dig = sb.out_digest() if mode == "run" else ""
        self.steps.append({"m": mode, "ok": rc == 0, "pre": self._enc(pre), "post": self._enc(post), "listed": [self.pid(s) for s in listed],
                           "ver": sorted(self.pid(r) for r in self.pert), "dig": self.did(dig)})
        changes = []
        for p in sorted(set(pre) | set(post)):
            a, b = pre.get(p), post.get(p)
            if a != b:
                changes.append(("created" if a is None else "deleted" if b is None else "modified", p, (b or a)[0] == 0))
        r = {"m": mode, "rc": rc, "listed": listed, "ver": sorted(self.pert), "dig": dig, "stderr": se if rc else "", "changes": changes,
             "created": sorted(p for p, e in post.items() if e[0] == 1 and p not in pre),
             "populated": any(e[0] == 1 and e[1] == 1 for e in pre.values())}
        self.raw.append(r)
        return r

    # the metamorphic probe of one candidate input (a baseline run exists): perturb, regenerate; if the bytes differ, confirm with a
    # second perturbed run and a second baseline run -- only then is influence established (GenListing!Influence)
    def probe(self, rel, base_dig):
        sb = self.sb
        for level in (0, 1):
            p2 = None
            with Perturb(sb, rel, level):
                self.pert.add(rel)
                sb.wipe()
                r1 = self.invoke("run")
                differs = r1["rc"] == 0 and r1["dig"] != base_dig
                if differs:
                    sb.wipe()
                    p2 = self.invoke("run")
                self.pert.discard(rel)
            if r1["rc"] != 0:
                # the edit broke generation: that run is outside the domain and must not count (drop it), try the milder edit
                self.steps.pop()
                self.raw.pop()
                if level == 0 and rel.endswith(".j2"):
                    continue
                self.notes.append("perturbation of %s makes generation fail; influence not established" % rel)
                return False
            if not differs:
                return False
            sb.wipe()
            b2 = self.invoke("run")
            if b2["dig"] != base_dig or p2["rc"] != 0 or p2["dig"] != r1["dig"]:
                self.unstable = True  # output is not reproducible (C07's subject): influence cannot be established
                return False
            return True
        return False


def run_history(ctx, sb, case):
    """executes case['plan'] and returns (record for the T-layer, History)"""
    o = case["o"]
    facts = lang_facts(ctx, o["lang"])
    sb.install(case["nsset"], o["lang"], facts)
    h = History(ctx, sb, case)
    base = None
    listed_in = None
    for op in case["plan"]:
        k = op[0]
        if k == "wipe":
            sb.wipe()
        elif k == "mkout":
            sb.mkout()
        elif k in ("lo", "li", "dry", "run"):
            if k == "run" and op[1:] == ["fresh"]:
                sb.wipe()
            r = h.invoke(k)
            if k == "run":
                if r["rc"] != 0:
                    break  # generation does not succeed: outside the domain, nothing more to learn
                base = r["dig"]
            if k == "li" and listed_in is None:
                listed_in = set(r["listed"])
        elif k == "probes":
            if base is None or listed_in is None:
                continue
            for rel, cls in select_probes(ctx, sb, case, listed_in, op[1]):
                if h.unstable:
                    h.notes.append("output of %s%s%s is not reproducible between two identical runs: influence of inputs cannot be established there"
                                   % (o["lang"], "" if o["tpl"] else " (built-in templates)",
                                      " with --embed-auditing-info" if "--embed-auditing-info" in case.get("x", {}).get("extra", []) else ""))
                    break
                infl = h.probe(rel, base)
                h.raw.append({"m": "probe", "file": rel, "class": cls, "influences": infl, "listed": rel in listed_in})
        elif k == "probe1":  # one named candidate (ambiguous classes, replay)
            if base is None or listed_in is None:
                continue
            infl = h.probe(op[1], base)
            h.raw.append({"m": "probe", "file": op[1], "class": op[2], "influences": infl, "listed": op[1] in listed_in})
    sb.wipe()
    return {"id": case["id"], "steps": h.steps}, h


def select_probes(ctx, sb, case, listed, policy):
    """unlisted candidates are what can falsify the clause: all of the likely classes, a few of the others; plus a few listed ones
    (they show that the probe has power and feed the self-test)"""
    cands = [(rel, cls) for rel, cls in candidates(sb, case) if cls not in CLASS_AMBIGUOUS]
    per_class = policy.get("unlisted_per_class", 99)
    rot = policy.get("rot", 0)
    chosen, seen = [], {}
    o = case["o"]
    for rel, cls in cands:
        if rel in listed:
            continue
        # cannot matter by construction (FIND_FIRST ignores built-in type templates; "only" generates no types): a token probe
        unlikely = (cls == "template:builtin" and o["tpl"]) or (o["gs"] == "only" and cls in ("dsdl:root", "dsdl:lookup", "template:user", "template:builtin"))
        lim = policy.get("unlikely_per_class", 1) if unlikely else per_class
        if seen.get(cls, 0) < lim:
            chosen.append((rel, cls))
            seen[cls] = seen.get(cls, 0) + 1
    ls = [(rel, cls) for rel, cls in cands if rel in listed]
    n = min(policy.get("listed", 2), len(ls))
    for i in range(n):
        chosen.append(ls[(rot * 7 + i * (len(ls) // n if n else 1)) % len(ls)])
    return chosen


# ------------------------------------------------------------------------------------------------ predictions (I-layer) -> concrete
def concrete_outputs(ctx, case, ignore_omit=False):
    """the I-layer's file classes for this namespace set: {'type': set(relpaths), 'ns': ..., 'sup': ...} relative to out/"""
    o = case["o"]
    f = lang_facts(ctx, o["lang"])
    ext = EXT_OVR if o["ext"] == "ovr" else f["ext"]
    stem = STEM_OVR if o["stem"] == "ovr" else f["stem"]
    types, nss = set(), set()
    out = case["nsset"].get("out", "out")
    for rel in case["nsset"]["rootfiles"]:
        d, n = rel.rsplit("/", 1)
        m = re.match(r"^(?:\d+\.)?([A-Za-z_]\w*)\.(\d+)\.(\d+)\.(?:dsdl|uavcan)$", n)
        types.add("%s/%s/%s_%s_%s%s" % (out, d, m.group(1), m.group(2), m.group(3), ext))
        parts = d.split("/")
        for i in range(1, len(parts) + 1):
            nss.add("%s/%s/%s%s" % (out, "/".join(parts[:i]), stem, ext))
    return {"type": types, "ns": nss, "sup": set("%s/%s%s" % (out, s, ext) for s in ([] if o["omit"] and not ignore_omit else f["sup_ser"]) + f["sup_type"])}


def kind_of_output(ctx, case, rel):
    c = concrete_outputs(ctx, case)
    for k in ("sup", "ns", "type"):
        if rel in c[k]:
            return {"sup": "support", "ns": "namespace", "type": "type"}[k]
    if not rel.startswith(case["nsset"].get("out", "out") + "/"):
        return "outside-outdir"
    return "support" if "nunavut" in rel else "other"


def opt_tag(o):
    t = ["generate-support=" + o["gs"]]
    for k, n in (("omit", "omit-serialization-support"), ("ns", "generate-namespace-types"), ("tpl", "templates"), ("suptpl", "support-templates")):
        if o[k]:
            t.append(n)
    return ",".join(t)


# ------------------------------------------------------------------------------------------------ explanation of rejections
def explain(ctx, case, h, clauses):
    """P (the T-layer) rejected this history; work out which observation fails which clause -> (signature, message) list.
    Purely descriptive: if nothing can be pinned down the bare clause is reported."""
    o = case["o"]
    res = []
    raws = [r for r in h.raw if r["m"] != "probe"]
    if "list.outputs_eq" in clauses:
        found = False
        for L in (r for r in raws if r["m"] == "lo"):
            for R in (r for r in raws if r["m"] == "run" and r["rc"] == 0 and r["ver"] == L["ver"]):
                if R["populated"]:
                    continue
                created = set(R["created"])
                extra, missing = set(L["listed"]) - created, created - set(L["listed"])
                for tag, s in (("extra", extra), ("missing", missing)):
                    if s:
                        kinds = sorted(set(kind_of_output(ctx, case, p) for p in s))
                        # the options that select the kind of file concerned (so that one cause gives one signature)
                        rel_opts = (["generate-support=" + o["gs"]] + (["omit-serialization-support"] if o["omit"] else [])
                                    if "support" in kinds or o["gs"] == "only" else []) + \
                                   (["generate-namespace-types"] if o["ns"] and "namespace" in kinds else [])
                        sig = "C08|list.outputs_eq|%s:%s|%s" % (tag, "+".join(kinds), ",".join(rel_opts) or "-")
                        res.append((sig, "--list-outputs (exit %d) %s %s that a real run into an empty directory %s [%s %s]"
                                    % (L["rc"], "names" if tag == "extra" else "does not name", sorted(s)[:4],
                                       "does not create" if tag == "extra" else "creates", o["lang"], opt_tag(o))))
                        found = True
                if found:
                    break
            if found:
                break
        if not found:
            res.append(("C08|list.outputs_eq|unexplained", "listed outputs differ from created files"))
    if "list.passive_no_effect" in clauses:
        found = False
        for r in raws:
            if r["m"] in ("lo", "li", "dry") and r["changes"]:
                # a directory whose only change is its mtime follows from a child being created/deleted: name the children first
                prim = [c[:2] for c in r["changes"] if not (c[0] == "modified" and c[2])] or [c[:2] for c in r["changes"]]
                what = prim[0]
                zone = "outdir" if (what[1] + "/").startswith(h.outrel + "/") else "cwd" if what[1].startswith("cwd") else "inputs"
                state = "populated" if r["populated"] else "empty"
                res.append(("C08|list.passive_no_effect|%s|%s:%s|%s" % ({"lo": "list-outputs", "li": "list-inputs", "dry": "dry-run"}[r["m"]], what[0], zone, state),
                            "%s changed the disk: %s [%s %s]" % (r["m"], prim[:4], o["lang"], opt_tag(o))))
                found = True
        if not found:
            res.append(("C08|list.passive_no_effect|unexplained", "a passive mode changed a snapshot"))
    if "list.inputs_cover" in clauses:
        found = False
        for pr in (r for r in h.raw if r["m"] == "probe"):
            if pr["influences"] and not pr["listed"]:
                shape = ""
                if pr["class"] == "dsdl:lookup":  # textual relation of the two directory paths (a different failure class each)
                    rootp, lkps = input_prefixes(case["nsset"])
                    lp = next((x for x in lkps if pr["file"].startswith(x)), "")
                    shape = "|root-dir-is-prefix-of-lookup-dir" if lp.startswith(rootp[:-1]) else \
                            "|lookup-dir-is-prefix-of-root-dir" if lp and rootp.startswith(lp[:-1]) else "|unrelated-dir-names"
                res.append(("C08|list.inputs_cover|%s%s" % (pr["class"], shape),
                            "editing %s changes the generated files but --list-inputs does not name it [%s %s; root namespace folder in/dsdl/%s]"
                            % (pr["file"], o["lang"], opt_tag(o), case["nsset"]["root"])))
                found = True
        if not found:
            res.append(("C08|list.inputs_cover|unexplained", "an input that influences the output is not listed"))
    return res


# ------------------------------------------------------------------------------------------------ drift (I-layer predictions)
def compare_predictions(ctx, case, h, exp, exp_found=None, drift=None, variant=None, rejected=""):
    """exp = the TLC case record of the repaired I-layer, exp_found = of the I-layer with the three switches off (code as found).
    The lists may follow either; anything else is model drift -- never a violation."""
    report = drift or ctx.drift

    def drift(msg):  # drift is a statement about executions that satisfy P: for a rejected history only the switches are read off
        if not rejected:
            report(msg)

    exp_found = exp_found or exp
    variant = variant if variant is not None else {}
    o = case["o"]
    tag = "%s %s ext=%s stem=%s lookup=%s shape=%s" % (o["lang"], opt_tag(o), o["ext"], o["stem"], o["lookup"], o.get("shape", "plain"))
    rootp, lkps = input_prefixes(case["nsset"])
    raws = [r for r in h.raw if r["m"] != "probe"]
    runs = [r for r in raws if r["m"] == "run" and not r["ver"]]
    if exp["rejected"]:
        if any(r["rc"] != 2 for r in raws):
            drift("I-layer: the CLI was expected to reject %s (exit 2), observed exit codes %r" % (tag, [r["rc"] for r in raws]))
        return
    if runs and (runs[0]["rc"] == 0) != exp["ok"]:
        drift("I-layer: generation for %s was predicted to %s, exit code %d" % (tag, "succeed" if exp["ok"] else "fail", runs[0]["rc"]))
        return
    if not exp["ok"] or not runs:
        return
    conc = concrete_outputs(ctx, case)
    R = runs[0]
    created = set(R["created"])
    want = set().union(*[conc[k] for k in exp["created"]]) if exp["created"] else set()
    if created != want:
        drift("I-layer: files created for %s: predicted %s, observed differs by %s" % (tag, sorted(exp["created"]), sorted(created ^ want)[:4]))
    los = [r for r in raws if r["m"] == "lo"]
    if los and los[0]["rc"] == 0:
        # (as found, the omit flag did not reach the support generator when listing)
        wants = [set().union(*[c[k] for k in e["lo"]]) if e["lo"] else set() for e, c in ((exp, conc), (exp_found, concrete_outputs(ctx, case, True)))]
        listed = set(los[0]["listed"])
        if wants[0] != wants[1] and listed in wants:
            variant.setdefault("FwdOmitToList", set()).add(listed == wants[0])
        elif listed == created and listed not in wants:  # (listed != created is P's business, list.outputs_eq)
            drift("I-layer: --list-outputs for %s: predicted %s (as found: %s), observed differs by %s"
                  % (tag, sorted(exp["lo"]), sorted(exp_found["lo"]), sorted(listed ^ wants[0])[:4]))
    lis = [r for r in raws if r["m"] == "li"]
    if lis and lis[0]["rc"] == 0:
        got = set(lis[0]["listed"])
        cls = {"tplB": lambda p: p.startswith("src/nunavut/lang/%s/templates/" % o["lang"]) and p.endswith(".j2"),
               "tplU": lambda p: p.startswith("in/tpl/") and p.endswith(".j2"),
               "supB": lambda p: p.startswith("src/nunavut/lang/%s/support/" % o["lang"]),
               "supU": lambda p: p.startswith("in/suptpl/"),
               "dsdlR": lambda p: p.startswith(rootp) and p.endswith(".dsdl"),
               "dsdlD": lambda p: any(p.startswith(x) for x in lkps) and p.endswith(".dsdl") and not p.endswith("Unused.1.0.dsdl")}
        seen = set(k for k, f in cls.items() if any(f(p) for p in got))
        pred, predf = set(exp["li"]), set(exp_found["li"])
        # per switch: the classes it moves must follow one of the two settings; everything else must be as predicted
        moved = {"ListDeps": {"dsdlD"}, "ListUserSup": {"supU", "supB"}}
        fixed = set(cls) - moved["ListDeps"] - moved["ListUserSup"]
        if seen & fixed != pred & fixed:
            drift("I-layer: --list-inputs for %s: predicted classes %s, observed %s" % (tag, sorted(pred), sorted(seen)))
        for sw, cl in moved.items():
            if pred & cl != predf & cl:
                if seen & cl == pred & cl:
                    variant.setdefault(sw, set()).add(True)
                elif seen & cl == predf & cl:
                    variant.setdefault(sw, set()).add(False)
                else:
                    drift("I-layer: --list-inputs for %s: classes %s predicted %s (as found: %s), observed %s"
                          % (tag, sorted(cl), sorted(pred & cl), sorted(predf & cl), sorted(seen & cl)))
            elif seen & cl != pred & cl:
                drift("I-layer: --list-inputs for %s: classes %s predicted %s, observed %s" % (tag, sorted(cl), sorted(pred & cl), sorted(seen & cl)))
    for pr in (r for r in h.raw if r["m"] == "probe"):
        if pr["influences"]:
            c = {"dsdl:root": "dsdlR", "dsdl:lookup": "dsdlD", "template:user": "tplU", "template:builtin": "tplB",
                 "template:user-support": "supU", "template:builtin-support": "supB"}.get(pr["class"])
            if c is not None and c not in exp["infl"]:
                drift("I-layer: %s (%s) influences the output of %s but the model says it cannot" % (pr["file"], pr["class"], tag))


# ------------------------------------------------------------------------------------------------ plans
def plan_for(ctx, exp, idx, tier_quick):
    """lo, li, dry on an absent (or empty) output directory, the real run, then -- for a share of the cases -- the passive modes
    again on the populated directory, then the metamorphic probes where the model asks for them"""
    plan = []
    if idx % 2:
        plan.append(["mkout"])
    plan += [["lo"], ["li"], ["dry"], ["run"]]
    if exp["rejected"]:
        return [[["lo"], ["run"]], [["li"], ["run"]], [["dry"], ["run"]], [["run"]]][idx % 4]
    if (not tier_quick and idx % 2 == 0) or (tier_quick and idx % 6 == 0):
        plan += [["lo"], ["li"], ["dry"]]
    if exp["probe_q"] if tier_quick else exp["probe_t"]:
        plan.append(["probes", {"unlisted_per_class": 3 if tier_quick else 99, "unlikely_per_class": 1 if tier_quick else 3,
                                "listed": 1 if tier_quick else 3, "rot": idx}])
    return plan


# ------------------------------------------------------------------------------------------------ random namespace sets (code -> spec)
def random_nsset(rng):
    """a valid DSDL namespace set: a root with nested namespaces, structures (sealed / delimited), unions, services, references to
    earlier types of the root and into a chain of lookup roots (each may depend on the next), plus unused definitions.
    An upper bound of every type's size is tracked so that explicit extents are always large enough (also after a probe field)."""
    prims = [("uint8", 8), ("uint16", 16), ("int32", 32), ("float32", 32), ("bool", 8), ("uint7", 8), ("float64", 64), ("int9", 16)]

    def fields(pool, n0, lo=1):
        b, ub = [], 0
        for fi in range(rng.randint(lo, 3)):
            r = rng.random()
            if pool and r < 0.55:
                t, u = rng.choice(pool)
                b.append("%s f%d" % (t, n0 + fi))
                ub += u + 8
            elif r < 0.7:
                t, u = rng.choice(prims[:5])
                cap = rng.randint(1, 5)
                b.append("%s[<=%d] f%d" % (t, cap, n0 + fi))
                ub += cap * u + 16
            else:
                t, u = rng.choice(prims)
                b.append("%s f%d" % (t, n0 + fi))
                ub += u + 8
        return b, ub + 16

    def end(ub):
        if rng.random() < 0.6:
            return "@sealed", ub + 16
        ext = ((ub + 7) // 8 + 16) * 8
        return "@extent %d" % ext, ext + 48

    nlook = rng.choice([0, 1, 1, 2, 3])
    # directory-name shape: unrelated names in separate folders, or siblings of the root "rt" whose names extend / are extended by it
    related = rng.random() < 0.5
    roots = (rng.sample(["rtx", "rt_b", "r", "rt2"], nlook) if related else ["lk%s" % "abc"[i] for i in range(nlook)])
    sets = []
    later = []  # (type reference, size bound) defined in later lookup roots
    for ri in reversed(range(nlook)):
        files, mine = {}, []
        for ti in range(rng.randint(1, 3)):
            sub = rng.choice(["", "", "n%d" % rng.randint(0, 1), "n0/m%d" % rng.randint(0, 1)])
            name = "L%d%d" % (ri, ti)
            body, ub = fields(mine + later, 0)
            e, ub = end(ub)
            rel = "/".join(x for x in (roots[ri], sub) if x) + "/%s.1.%d.dsdl" % (name, ti % 2)
            files[rel] = "\n".join(body + [e]) + "\n"
            mine.append((".".join(x for x in [roots[ri]] + (sub.split("/") if sub else []) if x) + ".%s.1.%d" % (name, ti % 2), ub))
        sets.insert(0, dict({"root": roots[ri], "files": files}, **({"dir": "dsdl"} if related else {})))
        later = mine + later
    root = "rt"
    files, mine = {}, []
    for ti in range(rng.randint(2, 6)):
        sub = rng.choice(["", "", "s%d" % rng.randint(0, 1), "s0/t%d" % rng.randint(0, 1), "s1/gap/u0"])
        name = "T%d" % ti
        kind = rng.choice(["struct", "struct", "struct", "union", "service"])
        if kind == "struct":
            body, ub = fields(mine + later, 0)
            e, ub = end(ub)
            body.append(e)
        elif kind == "union":
            body, ub = fields(mine + later, 0, 2)
            e, ub = end(ub)
            body = ["@union"] + body + [e]
        else:
            b1, u1 = fields(mine + later, 0)
            b2, u2 = fields(mine + later, 5)
            body = b1 + [end(u1)[0], "---"] + b2 + [end(u2)[0]]
        rel = "/".join(x for x in (root, sub) if x) + "/%s.%d.%d.dsdl" % (name, 1 + ti % 2, ti % 3)
        files[rel] = "\n".join(body) + "\n"
        if kind != "service":
            mine.append((".".join([root] + (sub.split("/") if sub else [])) + ".%s.%d.%d" % (name, 1 + ti % 2, ti % 3), ub))
    return {"root": root, "rootfiles": files, "lookups": sets, "out": rng.choice(["in/dsdl/rt_out", "in/dsdl/rtout", "out"]) if related else "out"}


def random_case(rng, cid):
    lang = rng.choice(["c", "c", "cpp", "py", "html"])
    tpl = rng.random() < 0.35
    ns = rng.random() < 0.4 and (tpl or lang in ("py", "html"))
    gs = rng.choice(["always", "never", "as-needed", "as-needed", "only"])
    omit = rng.random() < 0.35 and gs != "always"
    nsset = random_nsset(rng)
    o = {"lang": lang, "gs": gs, "omit": omit, "ns": ns, "tpl": tpl, "suptpl": rng.random() < 0.3, "lookup": bool(nsset["lookups"]),
         "ext": rng.choice(["def", "def", "ovr"]), "stem": rng.choice(["def", "def", "ovr"])}
    extra = []
    for opt, p in ((["--pp-trim-trailing-whitespace"], 0.3), (["--pp-max-emptylines", "1"], 0.3), (["--file-mode", "0o644"], 0.3),
                   (["--no-overwrite"], 0.15), (["--embed-auditing-info"], 0.2), (["--target-endianness", "little"], 0.2),
                   (["--enable-serialization-asserts"], 0.2), (["--omit-float-serialization-support"], 0.1), (["-v"], 0.1),
                   (["--enable-override-variable-array-capacity"], 0.1)):
        if rng.random() < p:
            extra += opt
    if lang == "cpp" and rng.random() < 0.4:
        extra += ["--language-standard", rng.choice(["c++14", "c++17", "c++17-pmr", "c++20"])]
    if lang == "c" and rng.random() < 0.2:
        extra += ["--language-standard", "c11"]
    x = {"outrel": rng.random() < 0.4, "rootrel": rng.random() < 0.3, "envlookup": rng.random() < 0.3, "gs_default": rng.random() < 0.5, "extra": extra}
    first = [["lo"], ["li"], ["dry"]]
    rng.shuffle(first)
    pos = rng.randint(0, 3)
    plan = ([["mkout"]] if rng.random() < 0.5 else []) + first[:pos] + [["run"]] + first[pos:]
    if "--no-overwrite" not in extra:
        again = [["lo"], ["li"], ["dry"]]
        rng.shuffle(again)
        plan += again[:rng.randint(0, 3)]
    plan.append(["probes", {"unlisted_per_class": 4, "unlikely_per_class": 1, "listed": 2, "rot": cid}])
    return {"id": cid, "kind": "random", "o": o, "x": x, "nsset": nsset, "plan": plan}


# ------------------------------------------------------------------------------------------------ execution / judging
class Pool:
    def __init__(self, ctx, n):
        self.ctx = ctx
        self.q = queue.Queue()
        self.all = []
        base = ctx.scratch / "sb"
        base.mkdir(exist_ok=True)
        for i in range(n):
            sb = Sandbox(base / ("w%02d-%d" % (i, len(os.listdir(base)))))
            self.all.append(sb)
            self.q.put(sb)
        self.n = n

        self.ex = concurrent.futures.ThreadPoolExecutor(max_workers=n)

    def imap(self, cases):
        """results in the order of `cases`, as they become available (all cases are submitted at once)"""
        def one(case):
            sb = self.q.get()
            try:
                return run_history(self.ctx, sb, case)
            finally:
                self.q.put(sb)

        return self.ex.map(one, cases)

    def close(self):
        self.ex.shutdown(wait=True)


def judge(ctx, cases, results):
    """T-layer verdict for every history; explanations and signatures for the rejected ones.  Returns {id: clauses}."""
    recs = [r for r, h in results if any(s["m"] == "run" and s["ok"] for s in r["steps"])]  # others: outside the domain, nothing claimed
    rej = tlc.validate_traces(ctx, "GenListingTrace", recs, batch=max(6, (len(recs) + NCPU - 1) // NCPU), constants=TRACE_CONSTANTS, xmx="2g")
    by_id = {c["id"]: (c, h) for c, (r, h) in zip(cases, results)}
    for rid, clause in sorted(rej.items()):
        case, h = by_id[rid]
        if clause.startswith("harness"):
            raise MachineryFailure("harness produced an inconsistent record for case %r: %s" % (case["id"], clause))
        clauses = [c for c in clause.split("+") if c]
        pub = json.loads(json.dumps({k: v for k, v in case.items() if not k.startswith("_")}))
        if case.get("kind") == "ambiguous":
            for pr in (r for r in h.raw if r["m"] == "probe" and r["influences"] and not r["listed"]):
                ctx.ambiguous("--list-inputs does not name %s (%s), which a template includes and whose content reaches the output; it does not carry "
                              "the template suffix .j2 -- 'every template' read as 'every *.j2 file' is satisfied [%s]" % (pr["file"], pr["class"], case["o"]["lang"]))
            clauses = [c for c in clauses if c != "list.inputs_cover"]
        for sig, what in explain(ctx, case, h, clauses):
            ctx.violation(sig, what, pub)
    return rej


def run_and_judge(ctx, pool, cases, keep=None, slice_size=160):
    """runs all cases on the pool and judges them slice by slice while later ones are still running (bounded memory: the snapshots of a
    judged history are dropped).  keep(case, rec, h, rejected_clauses) may retain records for the self-tests.  Returns ([History], {id: clauses})."""
    hs, rej, buf = [], {}, []

    def flush():
        cs = [c for c, r, h in buf]
        rs = [(r, h) for c, r, h in buf]
        account(ctx, cs, rs)
        rj = judge(ctx, cs, rs)
        rej.update(rj)
        for c, r, h in buf:
            if keep is not None:
                keep(c, r, h, rj.get(c["id"], ""))
            h.steps = None
            r["steps"] = None
        del buf[:]

    for case, (rec, h) in zip(cases, pool.imap(cases)):
        hs.append(h)
        buf.append((case, rec, h))
        if len(buf) >= slice_size:
            flush()
    if buf:
        flush()
    return hs, rej


def account(ctx, cases, results):
    for case, (rec, h) in zip(cases, results):
        o = case["o"]
        nt = any(r["m"] == "run" and r["rc"] == 0 for r in h.raw)
        ctx.count(len(rec["steps"]))
        ctx.distinct("%s|%s" % (case.get("kind", "model"), json.dumps(o, sort_keys=True)) + ("|" + sha(json.dumps(case["nsset"], sort_keys=True))[:8] if case.get("kind") == "random" else ""), nontrivial=nt)
        for pr in (r for r in h.raw if r["m"] == "probe"):
            ctx.distinct("probe|%s|%s|%s|%s" % (o["lang"], opt_tag(o), pr["class"], pr["influences"]))
        for n in h.notes:
            if n not in ctx.cov["not_exercised"] and len(ctx.cov["not_exercised"]) < 16:
                ctx.not_exercised(n)


def to_case(exp, idx, ctx):
    o = exp["o"]
    return {"id": idx, "kind": "model", "o": o, "x": {}, "nsset": fixture_nsset(o["lookup"], o.get("shape", "plain")), "plan": plan_for(ctx, exp, idx, ctx.quick),
            "expect_rejected": exp["rejected"]}


def run(ctx):
    t0 = time.time()
    # ---- 1. the bounded design: I => P over the option product x interleavings; negative controls; vacuity guards
    tlc.check_model(ctx, "GenListing", ctx.pick("GenListing", "GenListing_big"), timeout=3000,
                    constants="4 languages x gs x omit x ns x tpl x suptpl x lookup x ext x stem; all interleavings of lo/li/dry/run (+wipe), "
                              "MaxLo/Li/Dry/Run=%s" % ctx.pick("1/1/1/2", "2/1/2/2"))
    tlc.check_model(ctx, "GenListing", ctx.pick("GenListing_infl", "GenListing_inflbig"), timeout=3000,
                    constants="%s x option product (ext, stem default) x directory-name shape (3, where there is a lookup) x one perturbed input class of 8 x li + up to 4 runs" % ctx.pick("languages {c, html}, ns off", "4 languages"))
    controls = []
    for cfg, inv, what in (("GenListing_d1", "RefinesOutputs", "omit_serialization_support not forwarded by _list_outputs_only (D1)"),
                           ("GenListing_d12", "RefinesInputs", "lookup-dir dependencies not named by _list_inputs_only (D12)"),
                           ("GenListing_d15", "RefinesInputs", "shadowing --support-templates file not named by _list_inputs_only (D15)"),
                           ("GenListing_prefix", "RefinesInputs", "own files told from dependencies by a path-string prefix: a lookup folder named <root>+suffix vanishes (hazard OwnByPrefix)"),
                           ("GenListing_vac1", "NeverInfluence", "influence can be established in the model (vacuity guard)"),
                           ("GenListing_vac2", "NeverPopulatedPassive", "passive modes run on a populated directory in the model (vacuity guard)")):
        neg = tlc.run_tlc(tlc.SPECS / "GenListing.tla", tlc.SPECS / (cfg + ".cfg"), ctx.scratch, timeout=1800)
        if neg.violated != inv:
            raise MachineryFailure("negative control %s: expected %s to be refuted, got %s %s" % (cfg, inv, neg.violated, neg.error))
        controls.append("%s: %s refuted after %d states" % (what, inv, neg.distinct))
    ctx.cov["model_negative_controls"] = controls

    # ---- 2. spec -> code: every emitted option combination against the real CLI
    exps = tlc.emit_cases(ctx, "GenListing", ctx.pick("GenListing_emitq", "GenListing_emit"), constants="case emission, linear schedule")
    found = tlc.emit_cases(ctx, "GenListing", ctx.pick("GenListing_emitq_found", "GenListing_emit_found"),
                           constants="case emission, switches FwdOmitToList/ListDeps/ListUserSup off (code as found)")
    found = {json.dumps(e["o"], sort_keys=True): e for e in found}
    if len(found) != len(exps):
        raise MachineryFailure("the two emissions enumerate different option combinations")
    if len(exps) < ctx.pick(500, 2300) or len(set(e["o"]["shape"] for e in exps if e["probe_q" if ctx.quick else "probe_t"] and e["o"]["lookup"])) < 3:
        raise MachineryFailure("too few cases emitted: %d" % len(exps))
    if not all(e["accept"] for e in exps):
        raise MachineryFailure("emitted case not accepted by P in the repaired model")
    for l in ("c", "cpp", "py", "html"):
        lang_facts(ctx, l)
    pool = Pool(ctx, NCPU)
    cases = [to_case(e, i, ctx) for i, e in enumerate(exps)]
    kept = {}

    def keep(c, r, h, rejected):  # material for the binding self-tests: accepted, complete histories
        if rejected or not all(x["m"] == "probe" or x["rc"] == 0 for x in h.raw):
            return
        if "modes" not in kept and any(s["m"] == "lo" and s["listed"] for s in r["steps"]) and any(s["m"] == "dry" for s in r["steps"]) \
                and any(s["m"] == "run" for s in r["steps"]):
            kept["modes"] = (c, json.loads(json.dumps(r)), h, h.pid)
        if "infl" not in kept and any(x["m"] == "probe" and x["influences"] and x["listed"] for x in h.raw):
            kept["infl"] = (c, json.loads(json.dumps(r)), h, h.pid)

    order = sorted(range(len(cases)), key=lambda i: -len(cases[i]["plan"]) - (20 if any(op[0] == "probes" for op in cases[i]["plan"]) else 0))
    hs_sorted, rej = run_and_judge(ctx, pool, [cases[i] for i in order], keep)
    hs = [None] * len(cases)
    for i, h in zip(order, hs_sorted):
        hs[i] = h
    variant = {}
    for case, exp, h in zip(cases, exps, hs):
        compare_predictions(ctx, case, h, exp, found[json.dumps(exp["o"], sort_keys=True)], variant=variant, rejected=rej.get(case["id"], ""))
    ctx.cov["i_layer_switches_matching_tree"] = {k: ("repaired" if v == {True} else "as found" if v == {False} else "mixed") for k, v in sorted(variant.items())}
    nrej = sum(1 for e in exps if e["rejected"])
    nfail = sum(1 for e in exps if not e["rejected"] and not e["ok"])
    ctx.cov["spec_to_code"] = {"cases": len(cases), "cli_rejects": nrej, "generation_fails": nfail,
                               "invocations": sum(1 for h in hs for x in h.raw if x["m"] != "probe"),
                               "probes": sum(1 for h in hs for x in h.raw if x["m"] == "probe"),
                               "influence_established": sum(1 for h in hs for x in h.raw if x["m"] == "probe" and x["influences"])}
    k = next(i for i, e in enumerate(exps) if e["ok"] and e["o"]["gs"] == "as-needed" and e["o"]["lookup"] and not e["o"]["tpl"])
    ctx.sample({"direction": "spec->code", "case": exps[k], "observed": [{kk: r[kk] for kk in ("m", "rc", "listed")} for r in hs[k].raw if r["m"] != "probe"][:4]})

    # ---- 3. ambiguous reading: files that templates include but that do not carry the template suffix
    amb = []
    for lang, tplflag, rel, cls in (("html", False, "src/nunavut/lang/html/templates/namespace_base.js", "include:builtin-non-j2"),
                                    ("html", False, "src/nunavut/lang/html/templates/assets/bootstrap.min.css", "include:builtin-non-j2"),
                                    ("c", True, "in/tpl/inc/tail.txt", "include:user-non-j2"),
                                    ("py", True, "in/tpl/inc/tail.txt", "include:user-non-j2")):
        if not (pool.all[0].root / rel).exists() and rel.startswith("src/"):
            ctx.not_exercised("ambiguous probe %s: file no longer exists" % rel)
            continue
        o = {"lang": lang, "gs": "as-needed", "omit": False, "ns": True, "tpl": tplflag, "suptpl": False, "lookup": False, "ext": "def", "stem": "def"}
        amb.append({"id": 100000 + len(amb), "kind": "ambiguous", "o": o, "x": {}, "nsset": fixture_nsset(False),
                    "plan": [["li"], ["run"], ["probe1", rel, cls]]})
    run_and_judge(ctx, pool, amb)

    # ---- 4. code -> spec: random namespace sets x random options x shuffled mode order
    n_rand = ctx.pick(32, 400)
    rcases = [random_case(ctx.rng, 200000 + i) for i in range(n_rand)]
    rhs, _ = run_and_judge(ctx, pool, rcases)
    indom = sum(1 for h in rhs if any(x["m"] == "run" and x["rc"] == 0 for x in h.raw))
    ctx.cov["code_to_spec"] = {"histories": n_rand, "generation_succeeded": indom, "invocations": sum(1 for h in rhs for x in h.raw if x["m"] != "probe"),
                               "influence_established": sum(1 for h in rhs for x in h.raw if x["m"] == "probe" and x["influences"])}
    if indom < n_rand * 0.8:
        raise MachineryFailure("random namespace generator produces too many failing inputs: %d of %d succeed (%s)" %
                               (indom, n_rand, next((x["stderr"][-300:] for h in rhs for x in h.raw if x["m"] == "run" and x["rc"] != 0), "")))
    kk = next((i for i, h in enumerate(rhs) if any(x["m"] == "probe" and x["influences"] for x in h.raw)), 0)
    ctx.sample({"direction": "code->spec", "options": rcases[kk]["o"], "extra": rcases[kk]["x"], "dsdl_files": sorted(rcases[kk]["nsset"]["rootfiles"]) +
                [f for lk in rcases[kk]["nsset"]["lookups"] for f in sorted(lk["files"])], "plan": [op[0] for op in rcases[kk]["plan"]],
                "probes": [{a: x[a] for a in ("file", "class", "influences", "listed")} for x in rhs[kk].raw if x["m"] == "probe"][:6]})
    pool.close()

    # ---- 5. binding self-tests: corrupt one recorded field of an accepted history, the T-layer must reject with the right clause
    selftests(ctx, kept)

    ctx.cov["cli_invocations"] = sum(sb.nruns for sb in pool.all)
    ctx.cov["rule"] = ("spec->code: every option combination emitted by GenListing.tla (%s) executed in all four modes (passive modes on absent/empty and, "
                       "for a share, populated output directories) + metamorphic influence probes where the model asks; code->spec: %d seeded random "
                       "namespace sets x random options x shuffled mode order; all histories judged by GenListingTrace.tla; distinct = option "
                       "combination (+ namespace-set hash for random ones) and (language, options, candidate class, influences?) per probe; "
                       "non-trivial = generation succeeded" % (ctx.pick("quick subset InQuick: 448 valid of 1792, one directory-name shape each", "full product: 1792 valid, one directory-name shape each + 224 with the other shapes"), n_rand))
    ctx.cov["exhaustive"] = False
    ctx.assumptions += ["TLC and the GenListing / GenListingTrace specifications",
                        "the snapshot (type, size, mtime_ns, mode, sha256, link target; not atime) sees every effect on disk inside the scratch tree; "
                        "effects outside the scratch tree are not observed",
                        "PYTHONDONTWRITEBYTECODE=1 and PYTHONHASHSEED=0 in every invocation; the CLI runs from a private copy of $VERIF_REPO/src/nunavut",
                        "influence is established for one edit per file (DSDL: one more uint8 field; templates: a marker after every macro/block "
                        "opening and at the end); an input that matters only through other edits is not detected",
                        "language facts (support resources, standard namespace files, built-in Namespace template) transcribed in the I-layer are "
                        "compared with the tree on every run (drift note on mismatch)"]
    ctx.not_exercised("--pp-run-program, --configuration files, --list-configuration; js target (no templates)")
    ctx.not_exercised("a lookup root nested inside the root namespace folder (PyDSDL rejects it: NestedRootNamespaceError)")
    ctx.not_exercised("effects of a passive mode outside the scratch tree (e.g. in $HOME or /tmp)")
    ctx.cov["phase_wall_s"] = round(time.time() - t0, 1)


def selftests(ctx, kept):
    def verdict(rec):
        n0 = ctx.cov["traces_validated_against_impl"]
        rej = tlc.validate_traces(ctx, "GenListingTrace", [rec], constants=TRACE_CONSTANTS, xmx="1g")
        ctx.cov["traces_validated_against_impl"] = n0
        return rej.get(rec["id"], "ok")

    for need in ("modes", "infl"):
        if need not in kept:
            if ctx.violations or ctx.known_hit:
                # the tree is so broken that no history of this kind was accepted: the rejections above are the demonstration
                ctx.not_exercised("binding self-test (%s): no accepted history to corrupt on this tree" % need)
                continue
            raise MachineryFailure("self-test: no accepted history (%s) although nothing was rejected" % need)
    if "modes" in kept:
        c, r, h, pid = kept["modes"]
        # (a) drop a path from the printed output list
        bad = json.loads(json.dumps(r))
        s = next(s for s in bad["steps"] if s["m"] == "lo" and s["listed"])
        s["listed"] = s["listed"][:-1]
        ctx.selftest("a path removed from the recorded --list-outputs output is rejected (list.outputs_eq)", "list.outputs_eq" in verdict(bad))
        # (b) change one attribute id in the snapshot taken after a dry run
        bad = json.loads(json.dumps(r))
        s = next(s for s in bad["steps"] if s["m"] == "dry")
        s["post"][0][1] = s["post"][0][1] + 100000
        ctx.selftest("one changed attribute in the snapshot after --dry-run is rejected (list.passive_no_effect)", "list.passive_no_effect" in verdict(bad))
        # (d) spec -> code: perturb an expected outcome (the model's created classes); the comparison must notice
        noticed = []
        exp = {"rejected": False, "ok": True, "created": [], "lo": [], "li": [], "infl": []}
        compare_predictions(ctx, c, h, exp, None, drift=noticed.append)
        ctx.selftest("a perturbed expected outcome (no files created) is noticed by the spec->code comparison", len(noticed) > 0)
    if "infl" in kept:
        c, r, h, pid = kept["infl"]
        # (c) remove an influencing input from the recorded --list-inputs output
        bad = json.loads(json.dumps(r))
        pr = next(x for x in h.raw if x["m"] == "probe" and x["influences"] and x["listed"])
        fid = pid(pr["file"])
        for s in bad["steps"]:
            if s["m"] == "li":
                s["listed"] = [x for x in s["listed"] if x != fid]
        ctx.selftest("an influencing input removed from the recorded --list-inputs output is rejected (list.inputs_cover)", "list.inputs_cover" in verdict(bad))


def replay(ctx, case):
    pool = Pool(ctx, 1)
    case = dict(case)
    case.setdefault("id", 1)
    hs, rej = run_and_judge(ctx, pool, [case])
    pool.close()
    for r in hs[0].raw:
        if r["m"] != "probe":
            print("  %-4s exit %d ver=%s listed=%s created=%s changed=%s" % (r["m"], r["rc"], r["ver"], r["listed"][:6], r["created"][:6], [c[:2] for c in r["changes"]][:4] if r["m"] != "run" else "-"))
        else:
            print("  probe %s (%s): influences=%s listed=%s" % (r["file"], r["class"], r["influences"], r["listed"]))


# ---- system-level run spec (specs/NnvgRun*.tla): the recorded runs of the repository's own test suite and of a driver, judged for this property's clauses
from .. import suite as g1  # noqa: E402

_run_own, _replay_own = run, replay


def run(ctx):  # noqa: F811
    _run_own(ctx)
    g1.run_suite_traces(ctx, g1.clauses_of("C08"))


def replay(ctx, case):  # noqa: F811
    if g1.is_case(case):
        return g1.replay(ctx, case, g1.clauses_of("C08"))
    return _replay_own(ctx, case)
