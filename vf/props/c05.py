"""C05 - exported size bounds and type metadata.

Model:   DsdlWire.tla MaxBitsBody / BufBytes / ExtentBytes (computed from the descriptor by the TLA+ operators, nothing is taken from PyDSDL),
         WireDesign.tla theorem SizeBounds (serialized size <= buffer size <= extent for every value of the bounded universe).
code->spec: `meta` records (exported extent / serialization-buffer-size constants of generated C, C++, Python), `ser` records with output buffers of
         size 0, need-1, need, need+1 (too-small buffers must be refused, sufficient ones never), judged by CodecTrace.
"""
from .. import codec

PROP = "C05"


def run(ctx):
    codec.design_model(ctx)
    types = codec.universe(ctx, ctx.pick(120, 1500), ctx.pick(1, 2))
    codec.mark_services(types)
    specs = codec.std_specs(ctx, variants=not ctx.quick)
    if ctx.quick:  # the little-endian option set switches on the whole-storage fast paths: what they write must still fit the advertised size
        specs.append(codec.spec("c", "c/little", {"target_endianness": "little"}, frac=0.5))
    camp = codec.Campaign(ctx, types, specs, with_py=True, batch=ctx.pick(40, 60))
    camp.build()
    codec.report_gen_failures(camp, ctx, PROP)
    camp.meta_events(range(len(types)))
    vcases = codec.value_cases(camp, ctx.rng, 2, 1, n_boundary=2)
    order = {}

    def buf_of(c, need):
        k = order.setdefault(c["case"], len(order) % 4)
        return [need, max(need - 1, 0), need + 1, 0][k]

    camp.py_saved, camp.py = camp.py, None  # the Python serializer allocates its own buffer
    camp.ser_events(vcases, buf_of=buf_of)
    camp.py = camp.py_saved
    metadata(ctx)
    regeneration(ctx)
    rej = camp.judge()
    codec.report(camp, ctx, rej, PROP, also=lambda clause, info: clause in ("ser.rc", "ser.size", "ser.guard") and info.get("ev") == "ser")
    codec.count_distinct(camp, ctx)
    codec.selftest_binding(ctx, camp)
    r = next(x for x in camp.records if x["ev"] == "meta")
    ctx.sample({"record": {k: r[k] for k in r if k != "t"}, "type": camp.describe(r["id"])["type"], "target": camp.stim[r["id"]]["target"]})
    ctx.cov["rule"] = ("every type of the universe x every target: exported extent and buffer size vs the TLA+ size arithmetic; serialization of zero/max/random/"
                       "invalid objects into buffers of size need, need-1, need+1, 0 (guard bytes checked); distinct = (event, target, type shape, class, hash)")
    ctx.assumptions += ["TLC + DsdlWire size arithmetic is the oracle"]
    ctx.not_exercised("C++ does not export names / array capacities and Python exports neither buffer size, names nor capacities: only what a target exports is compared")


def regeneration(ctx, only=None):
    """histories: revision 1 of a namespace is generated, then ONLY a nested type's definition is edited (its container's file stays untouched
    and older than the generated output) and the namespace is generated again into the same directory.  The constants exported for the
    CONTAINER by the regenerated output must be those of revision 2, and a buffer of the advertised size must suffice for its largest value."""
    import copy
    import os
    import time
    from .. import tlc
    from ..harness_c import CTarget
    from ..harness_py import generate

    d = codec.dsdl
    S, U, I, B, VA, FA, UN = d.S, d.U, d.I, d.B, d.VA, d.FA, d.UN
    # (inner revision 1, inner revision 2, container built around the inner type)
    shapes = [
        (S([VA(U(8), 4)]), S([VA(U(8), 60)]), lambda i: S([U(8), i, B()])),
        (S([U(8)]), S([U(8), I(33), VA(B(), 9)]), lambda i: S([FA(i, 2)])),
        (UN([U(8), I(16)]), UN([U(8), FA(U(32), 5)]), lambda i: S([VA(i, 2), U(3)])),
        (S([U(8)], sealed=False, slack=1), S([U(8)], sealed=False, slack=40), lambda i: UN([i, U(16)])),
        (S([VA(U(8), 4)]), S([VA(U(8), 2)]), lambda i: S([B(), S([i, U(8)])])),   # two levels, and the bounds SHRINK
    ]
    records, stim = [], {}
    for k, (v1, v2, wrap) in enumerate(shapes):
        if only is not None and only != k:
            continue
        outer1, outer2 = wrap(copy.deepcopy(v1)), wrap(copy.deepcopy(v2))

        def first_revision(tg, nsdir, out, outer1=outer1):
            ts1 = d.TypeSet(tg.ts.ns)
            ts1.add(copy.deepcopy(outer1))
            rev2 = {p.name: p.read_text() for p in nsdir.glob("*.dsdl")}
            ts1.write(nsdir.parent)
            rev1 = {p.name: p.read_text() for p in nsdir.glob("*.dsdl")}
            if set(rev1) != set(rev2):
                raise codec.MachineryFailure("regeneration history: the two revisions do not have the same files")
            generate("c", nsdir, out, language_options=tg.options)
            old = time.time() - 3600
            for p in nsdir.glob("*.dsdl"):
                os.utime(p, (old, old))  # every definition is older than the generated output ...
            changed = [n for n in rev2 if rev2[n] != rev1[n]]
            for n in changed:
                (nsdir / n).write_text(rev2[n])  # ... and then the nested type (only) is edited
            tg.history = {"changed": changed, "unchanged": sorted(set(rev2) - set(changed))}

        for name, options in (("c/any", {}), ("c/little", {"target_endianness": "little"})):
            tg = CTarget(ctx.scratch, [copy.deepcopy(outer2)], options=options, tag="regen%d%s_" % (k, name[2]), before_generate=first_revision)
            if len(tg.history["changed"]) != 1 or not tg.history["unchanged"]:
                raise codec.MachineryFailure("regeneration history %d: expected exactly the nested definition to change: %r" % (k, tg.history))
            t = tg.types[0]
            need = d.max_bits_body(t) // 8
            res = tg.run([tg.cmd_meta(1, 0), tg.cmd_ser(2, 0, d.boundary_value(t, 1), need, prefill=0xA5)])
            m, r = res.get(1), res.get(2)
            if not m or "crash" in m or not r or "crash" in r:
                ctx.violation("C05|c|regen.noret", "the regenerated code did not answer: %r" % ((m or r or {}).get("crash", "")[:300],), {"regen": k, "target": name})
                continue
            rid = len(records) + 1
            records.append({"id": rid, "case": 2 * 10 ** 7 + rid, "ev": "meta", "t": d.strip(t), "extent": m["extent"], "bufsize": m["bufsize"]})
            stim[rid] = (k, name, "meta")
            rid += 1
            records.append({"id": rid, "case": 2 * 10 ** 7 + rid, "ev": "ser", "L": "c", "t": d.strip(t), "v": d.encode(t, d.boundary_value(t, 1), "c"), "buf": need, "err": r["err"],
                            "size": r["size"], "bytes": list(bytes.fromhex(r["bytes"])), "guard": r["guard"], "kinds": True, "det": True})
            stim[rid] = (k, name, "ser")
            ctx.count(2)
            ctx.distinct("regen|%d|%s" % (k, name))
    rej = tlc.validate_traces(ctx, "CodecTrace", records, batch=200)
    for rid, clause in sorted(rej.items()):
        k, name, ev = stim[rid]
        ctx.violation("C05|c|regen|%s" % clause, "after editing only the nested type and regenerating into the same directory, %s of the CONTAINER is wrong (%s, history %d, %s)"
                      % ("an exported size constant" if ev == "meta" else "serialization into a buffer of the advertised size", clause, k, name), {"regen": k, "target": name})
    ctx.cov["regeneration_histories"] = len(records) // 2


def metadata(ctx, only=None):
    """names, versions, port-IDs, capacities, option counts and constants of every primitive kind (exact rationals, BigNat comparison in TLA+)"""
    from .. import meta, tlc

    defs = meta.build_universe(__import__("random").Random(7), ctx.quick)
    probes = [("c", {}, "c", None), ("cpp", {}, "cpp14", "c++14"), ("cpp", {"std": "c++17"}, "cpp17", "c++17")]
    records, stim = [], {}
    for lang, opts, tag, std in probes:
        if only and only != tag:
            continue
        res, log = meta.run_native_probe(ctx.scratch, lang, defs, opts, tag, std or "c++14")
        if res is None:
            ctx.violation("C05|%s|meta.probe_does_not_compile" % lang, "metadata probe does not compile against the generated %s headers: %s" % (tag, log[-600:]), {"target": tag, "ev": "metad"})
            continue
        _collect(defs, res, "c" if lang == "c" else "cpp", tag, records, stim)
    if not only or only == "py":
        _collect(defs, meta.run_py_probe(ctx, defs), "py", "py", records, stim)
    for i, r in enumerate(records):
        r["id"] = i + 1
        r["case"] = 10 ** 7 + i
        ctx.count()
        ctx.distinct("metad|%s|%s" % (stim[i]["target"], stim[i]["name"]))
    rej = tlc.validate_traces(ctx, "CodecTrace", records, batch=200)
    for rid, clause in sorted(rej.items()):
        info = stim[rid - 1]
        rec = records[rid - 1]
        bad = [bytes(c["name"]).decode() for c, o in zip(rec["exp"]["consts"], rec["obs"]["consts"])] if clause == "meta.const" else []
        ctx.violation("C05|%s|%s|%s" % (info["target"].rstrip("0123456789"), clause, info["name"] if clause != "meta.const" else "consts-of-" + info["name"]),
                      "%s for %s on %s (constants in this definition: %s)" % (clause, info["name"], info["target"], ",".join(bad)),
                      {"ev": "metad", "target": info["target"], "name": info["name"], "observed": rec["obs"]})
    if records:
        ctx.sample({"metadata_record": {"target": stim[0]["target"], "name": stim[0]["name"], "exp_consts": [bytes(c["name"]).decode() for c in records[0]["exp"]["consts"]],
                                         "obs": records[0]["obs"]}})
    ctx.cov["metadata_definitions"] = len(defs)


def _collect(defs, res, lang, tag, records, stim):
    from .. import meta

    k = 0
    for d in defs:
        for suffix, desc, consts in meta.parts(d):
            if k < len(res):
                stim[len(records)] = {"target": tag, "name": "%s.%s%s.%d.%d" % (d.ns, d.name, "." + suffix if suffix else "", d.ver[0], d.ver[1])}
                records.append(meta.to_record(d, suffix, desc, consts, res[k], lang))
            k += 1


def replay(ctx, case):
    if "regen" in case:
        regeneration(ctx, only=case["regen"])
        return
    if case.get("ev") == "metad":
        metadata(ctx, only=case["target"])
        return
    codec.replay_generic(ctx, case, PROP)
