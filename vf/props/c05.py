"""C05 - exported size bounds and type metadata.

Model:   DsdlWire.tla MaxBitsBody / BufBytes / ExtentBytes (computed from the descriptor by the TLA+ operators, nothing is taken from PyDSDL),
         WireDesign.tla theorem SizeBounds (serialized size <= buffer size <= extent for every value of the bounded universe).
code->spec: `meta` records (exported extent / serialization-buffer-size constants of generated C, C++, Python), `ser` records with output buffers of
         size 0, need-1, need, need+1 (too-small buffers must be refused, sufficient ones never), judged by CodecTrace.
"""
from .. import codec

PROP = "C05"


def run(ctx):
    codec.design_model(ctx)
    types = codec.universe(ctx, ctx.pick(120, 1500), ctx.pick(1, 2))
    camp = codec.Campaign(ctx, types, codec.std_specs(ctx, variants=not ctx.quick), with_py=True, batch=ctx.pick(40, 60))
    camp.build()
    codec.report_gen_failures(camp, ctx, PROP)
    camp.meta_events(range(len(types)))
    vcases = codec.value_cases(camp, ctx.rng, 3, 1)
    order = {}

    def buf_of(c, need):
        k = order.setdefault(c["case"], len(order) % 4)
        return [need, max(need - 1, 0), need + 1, 0][k]

    camp.py_saved, camp.py = camp.py, None  # the Python serializer allocates its own buffer
    camp.ser_events(vcases, buf_of=buf_of)
    camp.py = camp.py_saved
    rej = camp.judge()
    codec.report(camp, ctx, rej, PROP, also=lambda clause, info: clause in ("ser.rc", "ser.size", "ser.guard") and info.get("ev") == "ser")
    codec.count_distinct(camp, ctx)
    codec.selftest_binding(ctx, camp)
    r = next(x for x in camp.records if x["ev"] == "meta")
    ctx.sample({"record": {k: r[k] for k in r if k != "t"}, "type": camp.describe(r["id"])["type"], "target": camp.stim[r["id"]]["target"]})
    ctx.cov["rule"] = ("every type of the universe x every target: exported extent and buffer size vs the TLA+ size arithmetic; serialization of zero/max/random/"
                       "invalid objects into buffers of size need, need-1, need+1, 0 (guard bytes checked); distinct = (event, target, type shape, class, hash)")
    ctx.assumptions += ["TLC + DsdlWire size arithmetic is the oracle"]
    ctx.not_exercised("constants, port identifiers, names, array capacities and union option counts (metadata probe not built yet)")


def replay(ctx, case):
    codec.replay_generic(ctx, case, PROP)
