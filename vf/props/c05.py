"""C05 - exported size bounds and type metadata.

Model:   DsdlWire.tla MaxBitsBody / BufBytes / ExtentBytes (computed from the descriptor by the TLA+ operators, nothing is taken from PyDSDL),
         WireDesign.tla theorem SizeBounds (serialized size <= buffer size <= extent for every value of the bounded universe).
code->spec: `meta` records (exported extent / serialization-buffer-size constants of generated C, C++, Python), `ser` records with output buffers of
         size 0, need-1, need, need+1 (too-small buffers must be refused, sufficient ones never), judged by CodecTrace.
"""
from .. import codec

PROP = "C05"


def run(ctx):
    codec.design_model(ctx)
    types = codec.universe(ctx, ctx.pick(120, 1500), ctx.pick(1, 2))
    codec.mark_services(types)
    camp = codec.Campaign(ctx, types, codec.std_specs(ctx, variants=not ctx.quick), with_py=True, batch=ctx.pick(40, 60))
    camp.build()
    codec.report_gen_failures(camp, ctx, PROP)
    camp.meta_events(range(len(types)))
    vcases = codec.value_cases(camp, ctx.rng, 2, 1, n_boundary=2)
    order = {}

    def buf_of(c, need):
        k = order.setdefault(c["case"], len(order) % 4)
        return [need, max(need - 1, 0), need + 1, 0][k]

    camp.py_saved, camp.py = camp.py, None  # the Python serializer allocates its own buffer
    camp.ser_events(vcases, buf_of=buf_of)
    camp.py = camp.py_saved
    metadata(ctx)
    rej = camp.judge()
    codec.report(camp, ctx, rej, PROP, also=lambda clause, info: clause in ("ser.rc", "ser.size", "ser.guard") and info.get("ev") == "ser")
    codec.count_distinct(camp, ctx)
    codec.selftest_binding(ctx, camp)
    r = next(x for x in camp.records if x["ev"] == "meta")
    ctx.sample({"record": {k: r[k] for k in r if k != "t"}, "type": camp.describe(r["id"])["type"], "target": camp.stim[r["id"]]["target"]})
    ctx.cov["rule"] = ("every type of the universe x every target: exported extent and buffer size vs the TLA+ size arithmetic; serialization of zero/max/random/"
                       "invalid objects into buffers of size need, need-1, need+1, 0 (guard bytes checked); distinct = (event, target, type shape, class, hash)")
    ctx.assumptions += ["TLC + DsdlWire size arithmetic is the oracle"]
    ctx.not_exercised("C++ does not export names / array capacities and Python exports neither buffer size, names nor capacities: only what a target exports is compared")


def metadata(ctx, only=None):
    """names, versions, port-IDs, capacities, option counts and constants of every primitive kind (exact rationals, BigNat comparison in TLA+)"""
    from .. import meta, tlc

    defs = meta.build_universe(__import__("random").Random(7), ctx.quick)
    probes = [("c", {}, "c", None), ("cpp", {}, "cpp14", "c++14"), ("cpp", {"std": "c++17"}, "cpp17", "c++17")]
    records, stim = [], {}
    for lang, opts, tag, std in probes:
        if only and only != tag:
            continue
        res, log = meta.run_native_probe(ctx.scratch, lang, defs, opts, tag, std or "c++14")
        if res is None:
            ctx.violation("C05|%s|meta.probe_does_not_compile" % lang, "metadata probe does not compile against the generated %s headers: %s" % (tag, log[-600:]), {"target": tag, "ev": "metad"})
            continue
        _collect(defs, res, "c" if lang == "c" else "cpp", tag, records, stim)
    if not only or only == "py":
        _collect(defs, meta.run_py_probe(ctx, defs), "py", "py", records, stim)
    for i, r in enumerate(records):
        r["id"] = i + 1
        r["case"] = 10 ** 7 + i
        ctx.count()
        ctx.distinct("metad|%s|%s" % (stim[i]["target"], stim[i]["name"]))
    rej = tlc.validate_traces(ctx, "CodecTrace", records, batch=200)
    for rid, clause in sorted(rej.items()):
        info = stim[rid - 1]
        rec = records[rid - 1]
        bad = [bytes(c["name"]).decode() for c, o in zip(rec["exp"]["consts"], rec["obs"]["consts"])] if clause == "meta.const" else []
        ctx.violation("C05|%s|%s|%s" % (info["target"].rstrip("0123456789"), clause, info["name"] if clause != "meta.const" else "consts-of-" + info["name"]),
                      "%s for %s on %s (constants in this definition: %s)" % (clause, info["name"], info["target"], ",".join(bad)),
                      {"ev": "metad", "target": info["target"], "name": info["name"], "observed": rec["obs"]})
    if records:
        ctx.sample({"metadata_record": {"target": stim[0]["target"], "name": stim[0]["name"], "exp_consts": [bytes(c["name"]).decode() for c in records[0]["exp"]["consts"]],
                                         "obs": records[0]["obs"]}})
    ctx.cov["metadata_definitions"] = len(defs)


def _collect(defs, res, lang, tag, records, stim):
    from .. import meta

    k = 0
    for d in defs:
        for suffix, desc, consts in meta.parts(d):
            if k < len(res):
                stim[len(records)] = {"target": tag, "name": "%s.%s%s.%d.%d" % (d.ns, d.name, "." + suffix if suffix else "", d.ver[0], d.ver[1])}
                records.append(meta.to_record(d, suffix, desc, consts, res[k], lang))
            k += 1


def replay(ctx, case):
    if case.get("ev") == "metad":
        metadata(ctx, only=case["target"])
        return
    codec.replay_generic(ctx, case, PROP)
