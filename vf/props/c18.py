"""C18 - generated Python data objects validate, reflect and convert faithfully.

Model:      specs/PyObject.tla.  P-layer: the data-object contract over an abstract object obj : Field -> Label | None (candidate
            classes valid / range / wtype / amb, allowed outcomes, prescribed post-state, union holds exactly one option, an exception
            never changes the object).  I-layer: the generated __init__ and property setters of lang/py/templates/base.j2 step by step
            (constructor loop with _init_cnt_, validate -> store -> clear-other-options, the three paths of assign_array).  TLC checks
            I => P (Refines, StateKept, UnionAlwaysOne, NeverOutOfRange) for 3-field structures and 3-option unions over three kind
            vectors, every constructor call and every history of <= 3 actions.  Negative controls: ParseDigits (numpy parses an
            all-digit bytes/str as one integer: the original code) and ClearFirst (clear the other options before validating).
spec->code: every complete history TLC emits (actions, P-allowed outcomes, I-predicted outcome, prescribed abstract post-state) is
            replayed on generated classes of many concrete types (each abstract kind has a pool of DSDL types, each abstract candidate
            several concrete forms: list, tuple, ndarray, bytes, bytearray, memoryview, str); outcome and projected state are
            compared after every step.
code->spec: seeded random DSDL types (nested, delimited, unions, services, reserved-word field names, utf8/byte) x random candidate
            values; every constructor call / assignment is recorded (types, value, pre, outcome, post) and judged by
            specs/PyObjectTrace.tla, which re-states Valid(type, value) over concrete 64-bit integers and binary64 fields; so are the
            `model` events (structural digest of Class._MODEL_ vs. the PyDSDL model the generator was given, plus `==`) and the `rt`
            events (bytes of serialize(o) and of serialize(update_from_builtin(Class(), to_builtin(o)))).
"""
import concurrent.futures
import importlib
import json
import math
import struct
import sys
import warnings

from ..core import MachineryFailure, REPO, NCPU, sha
from .. import tlc

# ------------------------------------------------------------------------------------------------------------------------------
# packages: DSDL text -> PyDSDL models -> generated package (from the working tree) -> imported classes
# ------------------------------------------------------------------------------------------------------------------------------
_pk = [0]
ABSENT = type("Absent", (), {"__repr__": lambda self: "<absent>"})()


class GeneratedCodeBroken(Exception):
    def __init__(self, what, exc, clause="pyobj.import"):
        super().__init__(what)
        self.exc = exc
        self.sig = "C18|%s|%s" % (clause, exc)


class Foreign:
    """an object of a type no field accepts"""

    def __repr__(self):
        return "<foreign object>"


def cps(s):
    return [ord(c) for c in s]


def new_lctx():
    from nunavut.lang import LanguageContextBuilder

    return LanguageContextBuilder(include_experimental_languages=True).set_target_language("py").create()


def _generate(models, nsdir, out, lctx=None):
    import nunavut

    try:
        lctx = lctx or new_lctx()
        tree = nunavut.build_namespace_tree(models, str(nsdir), str(out), lctx)
        from nunavut._generators import create_default_generators

        gen, sup = create_default_generators(tree)
        sup.generate_all(False, True, False, False)
        gen.generate_all(False, True, False, False)
        return True
    except (AttributeError, TypeError, ImportError):  # the library API moved: the one-call public helper still exists
        nunavut.generate_types("py", nsdir, out, omit_serialization_support=False, allow_unregulated_fixed_port_id=True,
                               include_experimental_languages=True)
        return False


class Comp:
    """one generated data class: PyDSDL model, class object, fields [(python attribute, dsdl name, descriptor)]"""

    def __init__(self, model, cls, src_model):
        import pydsdl

        self.model = model  # the model the generator was given (for Request/Response: the service's member)
        self.cls = cls
        self.name = str(model)
        inner = model.inner_type if isinstance(model, pydsdl.DelimitedType) else model
        self.union = isinstance(inner, pydsdl.UnionType)
        self.fields = []
        for f in model.fields_except_padding:
            py = f.name if isinstance(getattr(cls, f.name, None), property) else f.name + "_"
            if not isinstance(getattr(cls, py, None), property):
                raise GeneratedCodeBroken("class %s has no property for field '%s' of its source model %s" % (cls.__qualname__, f.name, model),
                                          "missing-field", "pyobj.model.fields")
            self.fields.append((py, f.name, descr(f.data_type)))


def descr(t):
    import pydsdl

    if isinstance(t, pydsdl.BooleanType):
        return {"k": "bool"}
    if isinstance(t, pydsdl.UnsignedIntegerType):
        return {"k": "uint", "w": t.bit_length, "utf8": isinstance(t, getattr(pydsdl, "UTF8Type", ()))}
    if isinstance(t, pydsdl.SignedIntegerType):
        return {"k": "int", "w": t.bit_length}
    if isinstance(t, pydsdl.FloatType):
        return {"k": "float", "w": t.bit_length}
    if isinstance(t, pydsdl.FixedLengthArrayType):
        return {"k": "farr", "n": t.capacity, "e": descr(t.element_type)}
    if isinstance(t, pydsdl.VariableLengthArrayType):
        return {"k": "varr", "cap": t.capacity, "wcap": t.capacity, "e": descr(t.element_type)}
    if isinstance(t, pydsdl.CompositeType):
        return {"k": "comp", "name": str(t)}
    raise MachineryFailure("unexpected field type %r" % (t,))


def write_files(nsdir, files):
    for rel, text in files.items():
        p = nsdir / rel
        p.parent.mkdir(parents=True, exist_ok=True)
        p.write_text(text)


class Pkg:
    def __init__(self, ctx, ns, files, attach=None):
        """files: {path relative to the root namespace directory: DSDL text};  attach=(nsdir, out): the package was generated
        earlier (by another process), only read the source models and import the classes"""
        import pydsdl

        _pk[0] += 1
        self.ns = ns
        if attach is None:
            self.root = ctx.scratch / ("pkg%d" % _pk[0])
            nsdir = self.root / "dsdl" / ns
            write_files(nsdir, files)
            self.out = self.root / "out"
        else:
            nsdir, self.out = attach
        with warnings.catch_warnings():
            warnings.simplefilter("ignore")
            self.models = pydsdl.read_namespace(str(nsdir), [], allow_unregulated_fixed_port_id=True)
            self.fine_api = _generate(self.models, nsdir, self.out) if attach is None else True
        sys.path.insert(0, str(self.out))
        importlib.invalidate_caches()
        try:
            import numpy  # noqa: F401
        except ImportError:
            raise MachineryFailure("numpy is not importable (run ./setup.sh)")
        if "nunavut_support" in sys.modules and not str(getattr(sys.modules["nunavut_support"], "__file__", "")).startswith(str(ctx.scratch)):
            del sys.modules["nunavut_support"]
        with warnings.catch_warnings():
            warnings.simplefilter("ignore")
            self.comps = {}  # str(model) -> Comp   (messages, Request, Response)
            self.services = []  # (model, class)
            try:
                self.support = importlib.import_module("nunavut_support")
                for m in self.models:
                    cls = self._find(m)
                    if isinstance(m, pydsdl.ServiceType):
                        self.services.append((m, cls))
                        for half, mm in (("Request", m.request_type), ("Response", m.response_type)):
                            self.comps[str(mm)] = Comp(mm, getattr(cls, half), m)
                    else:
                        self.comps[str(m)] = Comp(m, cls, m)
            except (MachineryFailure, GeneratedCodeBroken):
                raise
            except Exception as ex:  # noqa  the generated package itself raises while being imported
                raise GeneratedCodeBroken("importing the generated package %s raised %s: %s" % (ns, type(ex).__name__, ex), type(ex).__name__)

    @staticmethod
    def _find(m):
        mod = None
        for comp in m.name_components[:-1]:
            name = (mod.__name__ + "." + comp) if mod else comp
            try:
                mod = importlib.import_module(name)
            except ImportError:
                mod = importlib.import_module(name + "_")
        cname = "%s_%d_%d" % (m.short_name, m.version.major, m.version.minor)
        try:
            return getattr(mod, cname)
        except AttributeError:
            raise MachineryFailure("generated package %s has no class %s" % (mod.__name__, cname))


# ------------------------------------------------------------------------------------------------------------------------------
# value helpers
# ------------------------------------------------------------------------------------------------------------------------------
FMAX = {16: 65504.0, 32: 3.4028234663852886e38, 64: 1.7976931348623157e308}


def np_():
    import numpy

    return numpy


def storage_dtype(d):
    np = np_()
    k = d["k"]
    if k == "bool":
        return np.bool_
    if k in ("uint", "int"):
        sw = next(s for s in (8, 16, 32, 64) if d["w"] <= s)
        return getattr(np, ("uint" if k == "uint" else "int") + str(sw))
    if k == "float":
        return getattr(np, "float%d" % d["w"])
    return np.object_


def int_range(d):
    return (0, (1 << d["w"]) - 1) if d["k"] == "uint" else (-(1 << (d["w"] - 1)), (1 << (d["w"] - 1)) - 1)


def is_bytelike(d):
    return d["k"] in ("farr", "varr") and d["e"]["k"] == "uint" and d["e"]["w"] <= 8


def valid_value(reg, d, v, strict_elems=True):
    """python-side validity of a READ-BACK value (used for the labels conv / loose of the spec->code direction)"""
    np = np_()
    k = d["k"]
    if k in ("uint", "int"):
        lo, hi = int_range(d)
        return isinstance(v, (int, np.integer)) and not isinstance(v, (bool, np.bool_)) and lo <= int(v) <= hi
    if k == "float":
        return isinstance(v, (float, np.floating)) and (not math.isfinite(v) or abs(float(v)) <= FMAX[d["w"]])
    if k == "bool":
        return isinstance(v, (bool, np.bool_))
    if k == "comp":
        return isinstance(v, reg[d["name"]].cls)
    if not (isinstance(v, np.ndarray) and v.ndim == 1):
        return False
    n = len(v)
    if not (n == d["n"] if k == "farr" else n <= d["cap"]):
        return False
    return (not strict_elems) or all(valid_value(reg, d["e"], e) for e in v.tolist())


def same_value(d, x, v):
    """does read-back v hold exactly the supplied valid candidate x?"""
    np = np_()
    k = d["k"]
    if x is None:
        return False
    if k in ("uint", "int"):
        return isinstance(v, (int, np.integer)) and not isinstance(v, (bool, np.bool_)) and int(v) == int(x)
    if k == "float":
        if not isinstance(v, (float, np.floating)):
            return False
        return (math.isnan(v) and math.isnan(x)) or float(v) == float(x)
    if k == "bool":
        return isinstance(v, (bool, np.bool_)) and bool(v) == bool(x)
    if k == "comp":
        return v is x
    if not (isinstance(v, np.ndarray) and v.ndim == 1):
        return False
    xs = seq_items(d, x)
    if xs is None or len(xs) != len(v):
        return False
    return all(same_value(d["e"], a, b) for a, b in zip(xs, v.tolist()))


def seq_items(d, x):
    """the element list a one-dimensional candidate stands for (None: not a one-dimensional sequence)"""
    np = np_()
    if isinstance(x, (list, tuple)):
        return list(x)
    if isinstance(x, np.ndarray):
        return x.tolist() if x.ndim == 1 else None
    if isinstance(x, (bytes, bytearray, memoryview)):
        return list(bytes(x)) if is_bytelike(d) else None
    if isinstance(x, str):
        return list(x.encode()) if d["e"].get("utf8") else None
    if isinstance(x, range):
        return list(x)
    return None


def default_ok(reg, d, v):
    np = np_()
    k = d["k"]
    if k in ("uint", "int"):
        return same_value(d, 0, v)
    if k == "float":
        return same_value(d, 0.0, v)
    if k == "bool":
        return same_value(d, False, v)
    if k == "comp":
        return isinstance(v, reg[d["name"]].cls)
    if not (isinstance(v, np.ndarray) and v.ndim == 1):
        return False
    if k == "varr":
        return len(v) == 0
    return len(v) == d["n"] and all(default_ok(reg, d["e"], e) for e in v.tolist())


def snapshot(comp, o):
    np = np_()
    res = []
    for py, _, _ in comp.fields:
        v = getattr(o, py)
        if isinstance(v, np.ndarray):
            res.append((str(v.dtype), v.shape, tuple(map(id, v.tolist())) if v.dtype == object else v.tobytes()))  # content, not identity
        elif isinstance(v, (int, float, bool)) or v is None:
            res.append((type(v).__name__, repr(v)))
        else:
            res.append((id(v),))
    return res


def outcome_of(fn):
    """run fn; -> (outcome class, exception or result)"""
    with warnings.catch_warnings():
        warnings.simplefilter("ignore")
        try:
            return "stored", fn()
        except ValueError as ex:
            return "verr", ex
        except Exception as ex:  # noqa
            return "rej", ex


# ------------------------------------------------------------------------------------------------------------------------------
# spec -> code: concrete pools for the abstract kinds, concretization of abstract candidates
# ------------------------------------------------------------------------------------------------------------------------------
KVEC = {1: ("int", "barr", "comp"), 2: ("float", "farr", "bool"), 3: ("varr", "carr", "int")}
POOL = {
    "int": ["saturated uint1", "truncated uint3", "saturated uint8", "truncated uint13", "saturated uint16", "saturated uint31",
            "truncated uint32", "saturated uint33", "saturated uint64", "saturated int2", "saturated int8", "saturated int13",
            "saturated int32", "saturated int64", "truncated uint64", "saturated int63"],
    "float": ["saturated float16", "truncated float16", "saturated float32", "truncated float32", "saturated float64",
              "truncated float64"],
    "bool": ["bool"],
    "comp": ["{ns}.In.1.0", "{ns}.Ind.1.0", "{ns}.InU.1.0", "{ns}.InE.1.0"],
    "farr": ["saturated uint3[3]", "saturated uint8[3]", "saturated int16[2]", "saturated float16[2]", "truncated float32[3]", "bool[3]",
             "saturated uint64[2]", "saturated int7[1]", "truncated uint8[1]", "saturated float64[2]", "truncated uint12[2]",
             "saturated int64[2]", "byte[4]"],
    "varr": ["saturated uint3[<=4]", "saturated int16[<=2]", "saturated float16[<=2]", "truncated float32[<=3]", "bool[<=3]",
             "saturated uint64[<=2]", "saturated int64[<=2]", "saturated float64[<=2]", "truncated uint13[<=1]", "saturated int5[<=3]",
             "saturated uint16[<=300]", "bool[<=9]"],
    "barr": ["saturated uint8[<=3]", "utf8[<=5]", "saturated uint7[<=4]", "byte[<=2]", "truncated uint8[<=1]", "saturated uint1[<=9]",
             "utf8[<=1]", "truncated uint5[<=3]", "utf8[<=8]", "utf8[<=2]", "utf8[<=3]"],
    "carr": ["{ns}.In.1.0[2]", "{ns}.In.1.0[<=2]", "{ns}.InU.1.0[<=1]", "{ns}.Ind.1.0[1]", "{ns}.InE.1.0[<=3]"],
}
TWIN = {"In": "InX", "Ind": "IndX", "InU": "InUX", "InE": "InEX"}
NVAR = 16
ARRAY_KINDS = ("farr", "varr", "barr", "carr")


def sig_kind(kind):
    return "array" if kind in ARRAY_KINDS else kind


def abstract_files(ns):
    body = {"In": "uint8 a\nint13 b\n@sealed\n", "Ind": "uint8 a\nint13 b\n@extent 64\n", "InU": "@union\nuint8 a\nfloat32 b\n@sealed\n",
            "InE": "@sealed\n"}
    files = {}
    for n, t in body.items():
        files["%s.1.0.dsdl" % n] = t
        files["%s.1.0.dsdl" % TWIN[n]] = t
    for ks, kinds in KVEC.items():
        for union in (False, True):
            for j in range(NVAR):
                lines = ["@union"] if union else []
                for g, k in enumerate(kinds):
                    lines.append("%s f%d" % (POOL[k][j % len(POOL[k])].format(ns=ns), g))
                lines.append("@sealed" if j % 2 == 0 else "@extent 65536")
                files["%s%d%s%d.1.0.dsdl" % ("U" if union else "S", ks, "v", j)] = "\n".join(lines) + "\n"
    return files


def elem_samples(reg, e, n, salt):
    """n valid element values (boundaries first), exactly representable in the storage type"""
    k = e["k"]
    if k in ("uint", "int"):
        lo, hi = int_range(e)
        base = [hi, lo, (lo + hi) // 2, min(hi, 1), hi - (hi > lo)]
    elif k == "float":
        m = FMAX[e["w"]]
        base = [m, -m, 1.5, -0.0, math.inf, 0.333251953125, math.nan]
    elif k == "bool":
        base = [True, False, True, True, False]
    else:
        cls = reg[e["name"]].cls
        with warnings.catch_warnings():
            warnings.simplefilter("ignore")
            return [cls() for _ in range(n)]
    return [base[(i + salt) % len(base)] for i in range(n)]


def concretize(reg, ns, d, kind, c, salt):
    """abstract candidate c for a field of descriptor d (abstract kind `kind`) -> python value, or NotImplemented if the
    candidate does not exist for this concrete type (e.g. max+1 of float64)."""
    np = np_()
    NA = NotImplemented
    k = d["k"]
    if c == "none":
        return None
    if kind == "int":
        lo, hi = int_range(d)
        if c in ("min", "max"):
            v = lo if c == "min" else hi
            return storage_dtype(d)(v) if salt % 3 == 1 else v
        if c == "below":
            return lo - 1 if salt % 2 == 0 else lo - (1 << (salt % 70))
        if c == "above":
            return hi + 1 if salt % 2 == 0 else hi + (1 << (salt % 70))
        return [Foreign(), [1], {}][salt % 3]
    if kind == "float":
        m = FMAX[d["w"]]
        if c in ("min", "max"):
            v = -m if c == "min" else m
            return np.float64(v) if salt % 3 == 1 else v
        if c == "inf":
            return math.inf if salt % 2 == 0 else -math.inf
        if c == "nan":
            return math.nan
        if c in ("below", "above"):
            if d["w"] == 64:
                return NA
            v = [math.nextafter(m, math.inf), m * 2, m * 1.0000001, 1e39][salt % 4]
            return -v if c == "below" else v
        return [Foreign(), [1.0], {}][salt % 3]
    if kind == "bool":
        if c in ("min", "max"):
            return c == "max"
        if c == "above":
            return [2, -1, 2.5][salt % 3]
        return [Foreign(), "abc", [1, 2]][salt % 3]
    if kind == "comp":
        cls = reg[d["name"]].cls
        with warnings.catch_warnings():
            warnings.simplefilter("ignore")
            if c == "ok":
                return cls()
            if c == "wclass":
                short = d["name"].split(".")[-3]
                return reg["%s.%s.1.0" % (ns, TWIN[short])].cls()
        return [5, {"a": 1}, Foreign()][salt % 3]
    # arrays
    e = d["e"]
    fixed = k == "farr"
    cap = d["n"] if fixed else d["cap"]
    dt = storage_dtype(e)
    if c == "wtype":
        if is_bytelike(d) and cap >= 2 and salt % 3:
            # buffers whose len() is NOT their byte count (16-bit items, a 2-D view): len() fits the capacity, the bytes do not
            import array

            raw = bytes((7 * i + salt) % 251 for i in range(2 * cap))
            return memoryview(array.array("H", raw)) if salt % 3 == 1 else memoryview(raw).cast("B", (2, cap))
        return Foreign()
    if c == "empty":
        return [[], (), np.array([], dt)][salt % 3]
    if c in ("ok", "full", "ok_nd", "full_nd", "full_b"):
        vals = elem_samples(reg, e, cap, salt)
        if c in ("ok_nd", "full_nd"):
            return np.array(vals, dt)
        if c == "full_b":
            b = bytes(vals)
            if e.get("utf8") and salt % 4 == 3:
                return "".join(chr(97 + (i + salt) % 26) for i in range(cap))
            return [b, bytearray(b), b][salt % 3]
        return [vals, tuple(vals), vals][salt % 3]
    if c in ("short", "long", "long_nd"):
        n = cap - 1 if c == "short" else cap + 1 + (salt % 3 == 2)
        vals = elem_samples(reg, e, n, salt)
        if c == "long_nd":
            return np.array(vals, dt)
        form = salt % 5
        if form == 1:
            return tuple(vals)
        if form == 2 and e["k"] in ("uint", "int") and all(abs(v) < 2 ** 62 for v in vals):
            return np.array(vals, np.int64)
        if form == 3 and e["k"] in ("uint", "int", "float", "bool") and n % 2 == 0 and n > 0:
            return np.array(vals, dt).reshape((2, n // 2))
        if form == 4 and is_bytelike(d):
            return memoryview(bytes(vals))
        return vals
    if c in ("full_s", "long_s"):  # str counted in characters vs. UTF-8 bytes (utf8 fields only: str is a documented input there)
        if not e.get("utf8") or fixed:
            return NA
        wide = ["\u00e9", "\u20ac", "\U0001f600"][salt % 3]  # 2, 3, 4 bytes per character
        w = len(wide.encode())
        if c == "full_s":  # byte count within capacity (exact fit when possible), at least one non-ASCII character if it fits
            nch = cap // w if salt % 2 == 0 else max(cap // w - 1, 0)
            txt = wide * nch
            return txt + "a" * ((cap - len(txt.encode())) if salt % 4 < 2 else 0)
        nch = [cap // w + 1, cap, (cap + w) // w][salt % 3]  # characters <= capacity < bytes
        nch = max(1, min(nch, cap))
        txt = wide * nch
        return txt if len(txt.encode()) > cap else NA
    if c == "long_b":
        n = cap + 1 + (salt % 3 == 2)
        txt = "".join("xyzw"[(i + salt) % 4] for i in range(n))
        if e.get("utf8") and salt % 2 == 1:
            return txt
        return [txt.encode(), bytearray(txt.encode()), memoryview(txt.encode())][(salt // 2) % 3]
    if c == "long_digits":
        n = cap + 1 + (salt % 3 == 2)
        txt = "0" * (n - 1) + "7"
        if e.get("utf8") and salt % 2 == 1:
            return txt
        return txt.encode()
    if c == "eover":
        if e["k"] in ("uint", "int"):
            if e["w"] in (8, 16, 32, 64):
                return NA
            lo, hi = int_range(e)
            bad = hi + 1 if (salt % 2 == 0 or e["k"] == "uint") else lo - 1
        elif e["k"] == "float":
            if e["w"] == 64:
                return NA
            bad = [FMAX[e["w"]] * 2, -FMAX[e["w"]] * 1.5][salt % 2]
        elif e["k"] == "bool":
            bad = 2
        else:
            return NA
        vals = elem_samples(reg, e, max(cap, 1), salt)[:cap]
        vals[salt % len(vals)] = bad
        return vals
    if c == "ehuge":
        if e["k"] in ("uint", "int"):
            sw = np.dtype(dt).itemsize * 8
            bad = -1 if (e["k"] == "uint" and salt % 2 == 0) else (1 << sw)
        elif e["k"] == "float":
            bad = 10 ** 400
        else:
            return NA
        vals = elem_samples(reg, e, max(cap, 1), salt)[:cap]
        vals[salt % len(vals)] = bad
        return vals
    if c == "ewtype":
        return [Foreign() for _ in range(cap if fixed else 1)]
    if c == "ewclass":
        short = e["name"].split(".")[-3]
        with warnings.catch_warnings():
            warnings.simplefilter("ignore")
            return [reg["%s.%s.1.0" % (ns, TWIN[short])].cls() for _ in range(cap if fixed else 1)]
    raise MachineryFailure("unknown abstract candidate %r for kind %r" % (c, kind))


VALID_LABELS = {"min", "max", "inf", "nan", "ok", "ok_nd", "empty", "full", "full_nd", "full_b", "full_s"}


def check_label(reg, d, label, x, v):
    """does read-back v satisfy the abstract label (x: the concrete candidate that was stored)?  -> clause or None"""
    if label == "None":
        return None if v is None else "pyobj.union_one"
    if label == "default":
        return None if default_ok(reg, d, v) else "pyobj.default"
    if label == "conv":
        return None if valid_value(reg, d, v) else "pyobj.valid"
    if label == "loose":
        return None if valid_value(reg, d, v, strict_elems=False) else "pyobj.valid"
    if label in VALID_LABELS:
        return None if same_value(d, x, v) else "pyobj.stored"
    raise MachineryFailure("unexpected label %r in an emitted post-state" % (label,))


class Finding:
    def __init__(self, kind, clause, sig, what, step):
        self.kind, self.clause, self.sig, self.what, self.step = kind, clause, sig, what, step


def akey(st):
    return json.dumps([st["op"], st.get("kw"), st.get("f"), st.get("c")])


def build_trie(histories):
    """emitted histories -> trie over (action, outcome): node = {action key: {outcome: {"pa", "post", "next": node}}}.
    Histories that share actions but differ in outcomes are the branches of the I-layer's nondeterminism."""
    root = {}
    for h in histories:
        node = root
        for st in h:
            e = node.setdefault(akey(st), {}).setdefault(st["out"], {"pa": st["pa"], "post": st["post"], "next": {}})
            node = e["next"]
    return root


def run_history(reg, ns, comp, kinds, trie, actions, salt):
    """Replay one action sequence on the generated class `comp`, following in the trie the branch the real code takes.
    -> (Finding or None, number of steps executed, skipped?)"""
    node = trie
    o = None
    nsteps = 0
    for i, st in enumerate(actions):
        outs = node.get(akey(st))
        if outs is None:  # the real code took a sibling branch whose continuation the model does not have (e.g. no object)
            return None, nsteps, False
        pa = next(iter(outs.values()))["pa"]
        if st["op"] == "ctor":
            kw, xs, culprit = {}, {}, None
            for g, c in enumerate(st["kw"]):
                if c == "absent":
                    continue
                x = concretize(reg, ns, comp.fields[g][2], kinds[g], c, salt + g)
                if x is NotImplemented:
                    return None, nsteps, True
                kw[comp.fields[g][0]] = x
                xs[g] = x
                if culprit is None and c != "none" and c not in VALID_LABELS:
                    culprit = (kinds[g], c)
            npresent = sum(1 for g, c in enumerate(st["kw"]) if c not in ("absent", "none"))
            if culprit is None:
                culprit = ("ctor", "multi-option" if (comp.union and npresent > 1) else "all-valid")
            out, res = outcome_of(lambda: comp.cls(**kw))
            before = None
            desc = "%s(%s)" % (comp.name, ", ".join("%s=%s" % (k, _short(v)) for k, v in kw.items()))
        else:
            if o is None:
                return None, nsteps, False
            g = st["f"] - 1
            culprit = (kinds[g], st["c"])
            x = concretize(reg, ns, comp.fields[g][2], kinds[g], st["c"], salt + 3 * i)
            if x is NotImplemented:
                return None, nsteps, True
            xs = {g: x}
            before = snapshot(comp, o)
            obj = o
            out, res = outcome_of(lambda: setattr(obj, comp.fields[g][0], x))
            desc = "%s.%s = %s" % (comp.name, comp.fields[g][0], _short(x))
        nsteps += 1
        sigtail = "%s:%s" % (sig_kind(culprit[0]), culprit[1])
        excname = type(res).__name__ if out != "stored" else ""
        if out not in pa:
            if out == "stored":
                clause = "pyobj.union_one" if culprit == ("ctor", "multi-option") else "pyobj.reject"
            elif pa == ["stored"]:
                clause = "pyobj.accept"
            else:
                clause = "pyobj.reject.valueerror"
            extra = ""
            if out != "stored" and before is not None and snapshot(comp, o) != before:
                extra = " AND the object changed"
                clause = "pyobj.state_kept"  # the graver clause names the finding
                if comp.union and sum(1 for f in comp.fields if getattr(o, f[0]) is not None) != 1:
                    extra += " (the union no longer holds exactly one option)"
                    clause = "pyobj.union_one"
            return Finding("violation", clause, "C18|%s|%s" % (clause, sigtail),
                           "%s: P allows %s, the generated code %s%s" % (desc, "/".join(pa), "stored it" if out == "stored" else "raised %s: %s" % (excname, res), extra),
                           i), nsteps, False
        if out not in outs:
            return Finding("drift", "", "%s|%s" % (sigtail, out),
                           "%s: the I-layer predicts %s, the generated code %s (allowed by P)" % (desc, "/".join(sorted(outs)), out if out == "stored" else "raised " + excname),
                           i), nsteps, False
        post = outs[out]["post"]
        node = outs[out]["next"]
        if out != "stored":
            if st["op"] == "ctor":
                return None, nsteps, False  # no object: the history ends here
            if snapshot(comp, o) != before:
                return Finding("violation", "pyobj.state_kept", "C18|pyobj.state_kept|" + sigtail,
                               "%s raised %s but the object changed" % (desc, excname), i), nsteps, False
            continue
        if st["op"] == "ctor":
            o = res
        after = snapshot(comp, o)
        vals = [getattr(o, f[0]) for f in comp.fields]
        bad = None
        if comp.union and sum(1 for v in vals if v is not None) != 1:
            bad = "pyobj.union_one"
        for g, label in enumerate(post):
            if bad:
                break
            if g in xs and label not in ("None", "default"):
                bad = check_label(reg, comp.fields[g][2], label, xs[g], vals[g])
            elif st["op"] == "ctor" or label == "None":
                bad = check_label(reg, comp.fields[g][2], label, None, vals[g])
            elif before[g] != after[g]:
                bad = "pyobj.state_kept"
        if bad:
            return Finding("violation", bad, "C18|%s|%s" % (bad, sigtail),
                           "%s: afterwards the object is %r, the P-layer prescribes %r" % (desc, [_short(v) for v in vals], post), i), nsteps, False
    return None, nsteps, False


def compatible(histories, actions):
    """the emitted histories whose actions are a prefix of (or equal to) `actions`: enough to rebuild the trie along this path"""
    keys = [akey(a) for a in actions]
    return [h for h in histories if len(h) <= len(keys) and all(akey(st) == keys[i] for i, st in enumerate(h))]


def _short(v):
    s = repr(v)
    return s if len(s) < 90 else s[:87] + "..."


def emit_all(ctx, prefix, what):
    """run the six emission configurations in parallel; -> {(ksel, union): [histories (lists of steps)]}"""
    jobs = [(ks, u) for ks in KVEC for u in (False, True)]

    def one(job):
        ks, u = job
        cfg = tlc.SPECS / ("%s_%s%d.cfg" % (prefix, "u" if u else "s", ks))
        return tlc.run_tlc(tlc.SPECS / "PyObject.tla", cfg, ctx.scratch, workers=1, timeout=3000,
                           constants="KSel=%d IsUnion=%s %s" % (ks, u, what))

    res = {}
    with concurrent.futures.ThreadPoolExecutor(max_workers=min(6, NCPU)) as ex:
        for job, r in zip(jobs, ex.map(one, jobs)):
            if not r.ok:
                raise MachineryFailure("case emission PyObject %r failed: %s %s\n%s" % (job, r.error, r.violated, r.out[-2000:]))
            ctx.add_model(r, "%s_%s%d.cfg" % (prefix, "u" if job[1] else "s", job[0]))
            cases = r.json_lines()
            if len(cases) < 1000:
                raise MachineryFailure("too few histories emitted for %r: %d" % (job, len(cases)))
            res[job] = [c["steps"] for c in cases]
    return res


def check_models(ctx, prefix, what, workers):
    jobs = [(ks, u) for ks in KVEC for u in (False, True)]

    def one(job):
        ks, u = job
        cfg = tlc.SPECS / ("%s_%s%d.cfg" % (prefix, "u" if u else "s", ks))
        return tlc.run_tlc(tlc.SPECS / "PyObject.tla", cfg, ctx.scratch, workers=workers, timeout=3000,
                           constants="KSel=%d IsUnion=%s %s" % (ks, u, what))

    with concurrent.futures.ThreadPoolExecutor(max_workers=max(1, NCPU // workers)) as ex:
        for job, r in zip(jobs, ex.map(one, jobs)):
            if not r.ok:
                raise MachineryFailure("model PyObject %r did not pass: %s %s\n%s" % (job, r.error, r.violated, r.out[-2000:]))
            ctx.add_model(r, "%s_%s%d.cfg" % (prefix, "u" if job[1] else "s", job[0]))


def report(ctx, finding, case):
    if finding.kind == "violation":
        ctx.violation(finding.sig, finding.what, case)
    else:
        ctx.drift(finding.what)


def spec_to_code(ctx, pkg, hists, n_inst, full_single):
    """replay the emitted histories on the generated classes"""
    ns = pkg.ns
    nsteps = nhist = nskip = 0
    drift_seen = set()
    for (ks, union), hl in sorted(hists.items()):
        kinds = KVEC[ks]
        comps = [pkg.comps["%s.%s%dv%d.1.0" % (ns, "U" if union else "S", ks, j)] for j in range(NVAR)]
        trie = build_trie(hl)
        seen = set()
        for h in hl:
            actions = [{k: st[k] for k in ("op", "kw", "f", "c") if k in st} for st in h]
            key = json.dumps(actions)
            if key in seen:
                continue
            seen.add(key)
            hi = len(seen)
            plain_ctor = all(c == "absent" for c in actions[0]["kw"])  # default-constructed object: replay on EVERY concrete class
            variants = range(NVAR) if (plain_ctor and full_single) else [(hi * 5 + m * 7) % NVAR for m in range(n_inst)]
            for vi, j in enumerate(variants):
                salt = hi + 3 * vi + j
                f, n, skipped = run_history(pkg.comps, ns, comps[j], kinds, trie, actions, salt)
                nsteps += n
                nskip += skipped
                nhist += not skipped
                if f is not None:
                    first = f.sig not in drift_seen  # the self-contained case is built once per signature (it is costly)
                    drift_seen.add(f.sig)
                    if f.kind == "drift" and not first:
                        continue
                    case = {"dir": "spec->code", "ksel": ks, "union": union, "variant": j, "salt": salt, "actions": actions}
                    if first:
                        case["histories"] = compatible(hl, actions)
                    report(ctx, f, case)
            cands = [a.get("c") for a in actions[1:]] + [c for c in actions[0]["kw"] if c != "absent"]
            ctx.distinct("h|%d|%d|%s" % (ks, union, sha(key)[:12]), nontrivial=any(c not in VALID_LABELS for c in cands) or len(actions) > 1)
    ctx.count(nsteps)
    ctx.validated(nhist)
    return nhist, nsteps, nskip


# ------------------------------------------------------------------------------------------------------------------------------
# code -> spec: random types, random candidates, recorded events
# ------------------------------------------------------------------------------------------------------------------------------
RESERVED_NAMES = ["if", "def", "class", "min", "max", "lambda", "print", "id", "is", "yield", "str", "pass", "list", "in"]


def rand_prim_expr(rng, in_array=False):
    r = rng.random()
    if r < 0.38:
        w = rng.choice([1, 2, 3, 7, 8, 9, 13, 16, 17, 31, 32, 33, 63, 64, rng.randint(1, 64)])
        return "%s uint%d" % (rng.choice(["saturated", "truncated"]), w)
    if r < 0.62:
        return "saturated int%d" % rng.choice([2, 3, 7, 8, 9, 15, 16, 17, 32, 33, 63, 64, rng.randint(2, 64)])
    if r < 0.72:
        return "bool"
    if r < 0.92:
        return "%s float%d" % (rng.choice(["saturated", "truncated"]), rng.choice([16, 32, 64]))
    return rng.choice(["utf8", "byte"]) if in_array else "saturated uint8"


EXTENT_BYTES = [4096, 65536, 1000000]  # by nesting depth (a delimited type must be able to hold what it nests)


def rand_files(rng, ns, ntypes):
    """random root namespace: leaf composites first, later types may nest earlier ones (depth <= 2); services, nested namespaces,
    reserved-word field names, constants, deprecation, fixed port-IDs, minor versions other than 0"""
    files = {}
    known = []  # (full reference, nesting depth)
    port = rng.randint(20, 200)
    for i in range(ntypes):
        sub = rng.choice(["", "", "", "sub.", "sub.deep."])
        short = "T%d" % i
        depth = [0]

        def body(allow_union=True):
            union = allow_union and rng.random() < 0.28
            nf = rng.randint(2, 4) if union else rng.randint(0 if rng.random() < 0.06 else 1, 5)
            lines = ["@union"] if union else []
            names = ["f%d" % g for g in range(nf)]
            if rng.random() < 0.15:
                names = rng.sample(RESERVED_NAMES, nf)
            if not union and rng.random() < 0.3:
                lines.append("%s C%d = %d" % (rng.choice(["uint8", "int16", "uint64"]), i, rng.randint(0, 100)))
            if not union and rng.random() < 0.15:
                lines.append("float32 K%d = %s" % (i, rng.choice(["3.5", "-1.25e3", "1/3"])))
            nestable = [kn for kn in known if kn[1] < 2]
            for g in range(nf):
                r = rng.random()
                if nestable and r < 0.22:
                    ref, dd = rng.choice(nestable)
                    depth[0] = max(depth[0], dd + 1)
                    ex = ref
                elif r < 0.55:
                    ex = rand_prim_expr(rng)
                elif nestable and rng.random() < 0.25:
                    ref, dd = rng.choice(nestable)
                    depth[0] = max(depth[0], dd + 1)
                    ex = "%s[%s%d]" % (ref, rng.choice(["", "<="]), rng.choice([1, 2, 3]))
                else:
                    el = rand_prim_expr(rng, in_array=True)
                    n = rng.choice([1, 2, 3, 4, 5, 9])
                    if rng.random() < 0.07 and not el.endswith(("32", "64", "33", "63")):
                        n = rng.choice([255, 256, 300])
                    ex = "%s[%s%d]" % (el, "" if (rng.random() < 0.4 and el != "utf8") else "<=", n)
                lines.append("%s %s" % (ex, names[g]))
                if not union and rng.random() < 0.1:
                    lines.append("void%d" % rng.choice([1, 3, 7, 8]))
            lines.append("@sealed" if rng.random() < 0.55 else "@extent %d" % (8 * EXTENT_BYTES[depth[0]]))
            return "\n".join(lines) + "\n"

        dep = "@deprecated\n" if rng.random() < 0.08 else ""
        prefix = ""
        if rng.random() < 0.12:
            port += 1
            prefix = "%d." % port
        if rng.random() < 0.12:
            files["%s%s%s.1.0.dsdl" % (sub.replace(".", "/"), prefix, short)] = dep + body(False) + "---\n" + body()
            continue  # services cannot be nested
        minor = rng.choice([0, 0, 0, 3])
        files["%s%s%s.1.%d.dsdl" % (sub.replace(".", "/"), prefix, short, minor)] = dep + body()
        if not dep:
            known.append(("%s.%s%s.1.%d" % (ns, sub, short, minor), depth[0]))
    return files


def build_valid(rng, reg, comp, depth=0):
    """an object of class comp with random VALID content, through the constructor"""
    kw = {}
    fields = comp.fields
    if comp.union:
        fields = [rng.choice(fields)]
    for py, _, d in fields:
        if rng.random() < 0.12 and not comp.union:
            continue
        kw[py] = valid_cand(rng, reg, d, depth)
    with warnings.catch_warnings():
        warnings.simplefilter("ignore")
        return comp.cls(**kw)


def valid_scalar(rng, d, in_array):
    k = d["k"]
    if k in ("uint", "int"):
        lo, hi = int_range(d)
        if d.get("utf8") and in_array:
            return rng.choice([rng.randint(32, 126), rng.randint(48, 57), rng.randint(0, 255)])
        return rng.choice([lo, hi, 0, 1 if hi else 0, rng.randint(lo, hi), rng.randint(lo, hi)])
    if k == "bool":
        return rng.random() < 0.5
    w = d["w"]
    m = FMAX[w]
    r = rng.random()
    if r < 0.12:
        return rng.choice([math.inf, -math.inf, math.nan])
    if r < 0.3:
        return rng.choice([m, -m, 0.0, -0.0, 1.0])
    if in_array or r < 0.6:  # exactly representable in the declared width
        if w == 16:
            x = struct.unpack("<e", struct.pack("<H", rng.getrandbits(16)))[0]
        elif w == 32:
            x = struct.unpack("<f", struct.pack("<I", rng.getrandbits(32)))[0]
        else:
            x = struct.unpack("<d", struct.pack("<Q", rng.getrandbits(64)))[0]
        return math.nan if math.isnan(x) else x
    x = rng.uniform(-m, m) if w < 64 else struct.unpack("<d", struct.pack("<Q", rng.getrandbits(64)))[0]
    return math.nan if math.isnan(x) else x


def valid_cand(rng, reg, d, depth=0):
    np = np_()
    k = d["k"]
    if k in ("uint", "int", "bool", "float"):
        return valid_scalar(rng, d, False)
    if k == "comp":
        return build_valid(rng, reg, reg[d["name"]], depth + 1)
    e = d["e"]
    cap = d["n"] if k == "farr" else d["cap"]
    n = cap if k == "farr" else rng.choice([0, 1, cap, cap, rng.randint(0, cap)])
    n = min(n, cap)
    if cap > 40 and k == "varr":
        n = rng.choice([0, 1, 7, cap])
    if e["k"] == "comp":
        return [build_valid(rng, reg, reg[e["name"]], depth + 1) for _ in range(n)]
    vals = [valid_scalar(rng, e, True) for _ in range(n)]
    form = rng.randint(0, 7)
    if form == 0:
        return tuple(vals)
    if form == 1:
        return np.array(vals, storage_dtype(e))
    if form == 2 and is_bytelike(d):
        return rng.choice([bytes, bytearray])(vals)
    if form == 3 and e.get("utf8"):
        try:
            s = bytes(vals).decode()
            if len(s.encode()) == len(vals):
                return s
        except UnicodeError:
            pass
    if form == 4 and e["k"] in ("uint", "int") and all(abs(v) < 2 ** 62 for v in vals):
        return np.array(vals, np.int64)
    return vals


def rand_cand(rng, reg, comp, d, wrong):
    """-> (candidate value, tag).  `wrong`: instance of another generated class."""
    np = np_()
    k = d["k"]
    r = rng.random()
    if r < 0.34:
        return valid_cand(rng, reg, d), "in"
    if r < 0.40:
        return None, "none"
    if r < 0.46:
        return rng.choice([Foreign(), {}, [Foreign()], Foreign]), "wtype"
    if k in ("uint", "int"):
        lo, hi = int_range(d)
        t = rng.choice(["min", "max", "below", "above", "far", "npscalar"])
        if t == "npscalar":
            v = rng.choice([lo, hi])
            return storage_dtype(d)(v), "in"
        return {"min": lo, "max": hi, "below": lo - 1, "above": hi + 1,
                "far": rng.choice([hi + (1 << rng.randint(1, 70)), lo - (1 << rng.randint(1, 70)), -1 if lo == 0 else hi * 2 + 5])}[t], t
    if k == "float":
        m = FMAX[d["w"]]
        t = rng.choice(["min", "max", "below", "above", "far", "inf", "nan", "int"])
        if t == "int":
            return rng.randint(-1000, 1000), "in"
        if t in ("below", "above", "far") and d["w"] == 64:
            return rng.choice([m, -m]), "max"
        return {"min": -m, "max": m, "below": -math.nextafter(m, math.inf), "above": math.nextafter(m, math.inf),
                "far": rng.choice([m * 2, -m * 16, 1e300, -1e39 if d["w"] == 32 else -7e4]), "inf": rng.choice([math.inf, -math.inf]),
                "nan": math.nan}[t], t
    if k == "bool":
        return rng.choice([(2, "above"), (-1, "above"), (0, "int01"), (1, "int01"), (0.0, "int01")])
    if k == "comp":
        return (wrong, "wclass") if wrong is not None else (5, "wtype")
    # arrays
    e = d["e"]
    fixed = k == "farr"
    cap = d["n"] if fixed else d["cap"]
    t = rng.choice(["long", "long", "long2", "short", "long_b", "long_digits", "eover", "ehuge", "ewclass", "two_d", "scalar"])
    if e.get("utf8") and not fixed and rng.random() < 0.45:  # str: the capacity counts UTF-8 bytes, not characters
        wide = rng.choice(["\u00e9", "\u00fc", "\u20ac", "\u4e2d", "\U0001f600"])
        w = len(wide.encode())
        if rng.random() < 0.5:
            nch = rng.randint(0, cap // w)
            txt = wide * nch + "z" * rng.choice([0, cap - nch * w, rng.randint(0, cap - nch * w)])
            return "".join(rng.sample(txt, len(txt))), "in"
        nch = rng.randint(cap // w + 1, cap) if cap // w + 1 <= cap else 0
        txt = wide * nch + "z" * rng.randint(0, max(0, cap - nch))
        if nch and len(txt) <= cap < len(txt.encode()):
            return "".join(rng.sample(txt, len(txt))), "long_s"
    if t == "short" and not fixed:
        t = "long"
    if t in ("long", "long2", "short"):
        n = {"long": cap + 1, "long2": cap + rng.randint(2, 5), "short": rng.randint(0, cap - 1)}[t]
        if e["k"] == "comp":
            return [build_valid(rng, reg, reg[e["name"]]) for _ in range(n)], t
        vals = [valid_scalar(rng, e, True) for _ in range(n)]
        form = rng.randint(0, 5)
        if form == 0:
            return tuple(vals), t
        if form == 1:
            return np.array(vals, storage_dtype(e)), t
        if form == 2 and is_bytelike(d):
            return rng.choice([bytearray, memoryview])(bytes(vals)), t
        return vals, t
    if t in ("long_b", "long_digits"):
        if not is_bytelike(d):
            return Foreign(), "wtype"
        n = cap + rng.randint(1, 3) if not fixed else rng.choice([cap + 1, max(cap - 1, 0) or cap + 1])
        if t == "long_b":
            txt = "".join(rng.choice("abcxyz _-") for _ in range(n))
            if txt.strip().isdigit() or not txt.strip():
                txt = "q" * n
        else:
            txt = "0" * (n - 1) + str(rng.randint(0, 1 if e["w"] < 4 else 7))
        if e.get("utf8") and rng.random() < 0.5:
            return txt, t
        return txt.encode(), t
    if t == "eover" and e["k"] in ("uint", "int", "float") and cap >= 1:
        n = cap if fixed else rng.randint(1, cap)
        vals = [valid_scalar(rng, e, True) for _ in range(n)]
        if e["k"] == "float":
            if e["w"] == 64:
                return vals, "in"
            vals[rng.randrange(n)] = FMAX[e["w"]] * rng.choice([2, -4])
        else:
            lo, hi = int_range(e)
            vals[rng.randrange(n)] = rng.choice([hi + 1, lo - 1, hi + 200])
        return vals, "eover"
    if t == "ehuge" and e["k"] in ("uint", "int") and cap >= 1:
        n = cap if fixed else rng.randint(1, cap)
        vals = [valid_scalar(rng, e, True) for _ in range(n)]
        vals[rng.randrange(n)] = rng.choice([1 << 64, -(1 << 64), -1 if e["k"] == "uint" else (1 << 63)])
        return vals, "ehuge"
    if t == "ewclass" and e["k"] == "comp" and wrong is not None and cap >= 1:
        return [wrong] * (cap if fixed else 1), "ewclass"
    if t == "two_d" and e["k"] in ("uint", "int", "bool", "float"):
        return np.zeros((2, max(1, (cap + 1) // 2)), storage_dtype(e)), "two_d"
    return (valid_scalar(rng, e, True) if e["k"] != "comp" else 7), "scalar"


def enc_int(x):
    x = int(x)
    m = -x - 1 if x < 0 else x
    return {"c": "int", "neg": int(x < 0), "bits": [(m >> i) & 1 for i in range(m.bit_length())]}


def enc_float(x):
    x = float(x)
    if math.isnan(x):
        return {"c": "float", "s": 0, "e": 2047, "mh": 1 << 25, "ml": 0}
    q = struct.unpack("<Q", struct.pack("<d", x))[0]
    man = q & ((1 << 52) - 1)
    return {"c": "float", "s": q >> 63, "e": (q >> 52) & 0x7FF, "mh": man >> 26, "ml": man & ((1 << 26) - 1)}


class Oids:
    def __init__(self):
        self.m = {}
        self.keep = []

    def __call__(self, o):
        if id(o) not in self.m:
            self.m[id(o)] = len(self.m) + 1
            self.keep.append(o)
        return self.m[id(o)]


def enc_cand(d, x, oid):
    """abstract form of a candidate / of a read-back value for the T-layer (independent of the python container type)"""
    np = np_()
    if x is None:
        return {"c": "none"}
    if x is ABSENT:
        return {"c": "absent"}
    k = d["k"]
    if k in ("uint", "int", "float", "bool"):
        if isinstance(x, (bool, np.bool_)):
            return {"c": "bool", "v": int(x)}
        if isinstance(x, (int, np.integer)):
            if k == "float":
                return enc_float(float(x)) if abs(int(x)) < 2 ** 53 else {"c": "other"}
            return enc_int(x)
        if isinstance(x, (float, np.floating)):
            return enc_float(x)
        return {"c": "other"}
    if k == "comp":
        m = getattr(type(x), "_MODEL_", None)
        if m is None or isinstance(x, type):
            return {"c": "other"}
        return {"c": "obj", "name": cps(str(m)), "oid": oid(x)}
    items = seq_items(d, x)
    if items is None:
        return {"c": "other"}
    return {"c": "arr", "items": [enc_cand(d["e"], i, oid) if i is not None else {"c": "none"} for i in items]}


def ttype(d):
    k = d["k"]
    if k in ("uint", "int", "float"):
        return {"k": k, "w": d["w"]}
    if k == "bool":
        return {"k": "bool"}
    if k == "comp":
        return {"k": "comp", "name": cps(d["name"])}
    if k == "farr":
        return {"k": "farr", "n": d["n"], "e": ttype(d["e"])}
    return {"k": "varr", "cap": d["cap"], "wcap": d["cap"], "e": ttype(d["e"])}


def read_state(comp, o, oid):
    return [enc_cand(d, getattr(o, py), oid) for py, _, d in comp.fields]


def tag_kind(d):
    return "array" if d["k"] in ("farr", "varr") else ("int" if d["k"] in ("uint", "int") else d["k"])


def random_events(ctx, pkg, recs, meta, n_obj, n_assign):
    rng = ctx.rng
    reg = pkg.comps
    names = sorted(reg)
    for name in names:
        comp = reg[name]
        if not comp.fields:
            continue
        ft = [ttype(d) for _, _, d in comp.fields]
        others = [reg[n] for n in names if n != name]
        for _ in range(n_obj):
            oid = Oids()
            wrong = None
            if others and rng.random() < 0.8:
                wrong = build_valid(rng, reg, rng.choice(others))
            # constructor
            kw, tags = {}, []
            npick = rng.choice([0, 1, 1, 2, len(comp.fields)]) if comp.union else len(comp.fields)
            chosen = set(rng.sample(range(len(comp.fields)), min(npick, len(comp.fields))))
            for g, (py, _, d) in enumerate(comp.fields):
                if g not in chosen or rng.random() < 0.25:
                    continue
                if rng.random() < (0.75 if not comp.union else 0.6):
                    kw[py], t = valid_cand(rng, reg, d), "in"
                else:
                    kw[py], t = rand_cand(rng, reg, comp, d, wrong)
                tags.append("%s:%s" % (tag_kind(d), t))
            out, res = outcome_of(lambda: comp.cls(**kw))
            rid = len(recs)
            recs.append({"id": rid, "ev": "ctor", "union": comp.union, "ft": ft,
                         "kw": [enc_cand(d, kw.get(py, ABSENT), oid) for py, _, d in comp.fields], "out": out,
                         "post": read_state(comp, res, oid) if out == "stored" else []})
            bad = [t for t in tags if not t.endswith(":in")]
            meta[rid] = {"type": name, "op": "ctor", "kw": {k: _short(v) for k, v in kw.items()}, "tag": (bad or ["ctor:all-valid"])[0]
                         if not (comp.union and len(kw) > 1 and not bad) else "ctor:multi-option", "exc": "" if out == "stored" else repr(res)}
            ctx.count()
            ctx.distinct("r|c|%s|%s|%s" % (sha(name)[:8], ",".join(sorted(tags)), out), nontrivial=bool(bad) or comp.union)
            if out != "stored":
                continue
            o = res
            for _ in range(n_assign):
                g = rng.randrange(len(comp.fields))
                py, _, d = comp.fields[g]
                x, t = rand_cand(rng, reg, comp, d, wrong)
                pre = read_state(comp, o, oid)
                xe = enc_cand(d, x, oid)
                out, res = outcome_of(lambda: setattr(o, py, x))
                rid = len(recs)
                recs.append({"id": rid, "ev": "assign", "union": comp.union, "ft": ft, "f": g + 1, "x": xe, "pre": pre, "out": out,
                             "post": read_state(comp, o, oid)})
                meta[rid] = {"type": name, "op": "assign", "field": py, "x": _short(x), "tag": "%s:%s" % (tag_kind(d), t),
                             "exc": "" if out == "stored" else repr(res)}
                ctx.count()
                ctx.distinct("r|a|%s|%d|%s|%s" % (sha(name)[:8], g, t, out), nontrivial=t != "in")


# ------------------------------------------------------------------------------------------------------------------------------
# reflection: the embedded model against the source model
# ------------------------------------------------------------------------------------------------------------------------------
def type_text(t):
    import pydsdl

    if isinstance(t, pydsdl.CompositeType):
        return "{%s}" % sha(json.dumps(model_digest(t), sort_keys=True))[:20]
    if isinstance(t, pydsdl.ArrayType):
        return "[%s;%s%d]" % (type_text(t.element_type), "<=" if isinstance(t, pydsdl.VariableLengthArrayType) else "==", t.capacity)
    if isinstance(t, pydsdl.VoidType):
        return "void:%d" % t.bit_length
    if isinstance(t, pydsdl.BooleanType):
        return "bool"
    if isinstance(t, pydsdl.PrimitiveType):
        return "%s:%d:%s" % (type(t).__name__, t.bit_length, t.cast_mode.name)
    return "?" + repr(t)


def model_digest(m):
    """structural digest of a PyDSDL composite model; text as code points, numbers < 2^31"""
    import pydsdl

    if isinstance(m, pydsdl.ServiceType):
        kind, sealed, extent, fields, consts = "service", 1, 0, [], []
        inner = cps(sha(json.dumps([model_digest(m.request_type), model_digest(m.response_type)], sort_keys=True)))
    else:
        it = m.inner_type if isinstance(m, pydsdl.DelimitedType) else m
        kind = "union" if isinstance(it, pydsdl.UnionType) else "struct"
        sealed = int(not isinstance(m, pydsdl.DelimitedType))
        extent = int(m.extent)
        fields = [cps("%s %s" % (f.name, type_text(f.data_type))) for f in m.fields]
        consts = [cps("%s %s = %s" % (c.name, type_text(c.data_type), c.value.native_value)) for c in m.constants]
        inner = cps(sha("%s|%s" % (m.bit_length_set.min, m.bit_length_set.max)))
    docs = [getattr(m, "doc", "")] + [getattr(a, "doc", "") for a in getattr(m, "attributes", [])]
    return {"kind": cps(kind), "name": cps(m.full_name), "ver": [int(m.version.major), int(m.version.minor)], "sealed": sealed,
            "extent": extent, "deprecated": int(bool(m.deprecated)), "port": 65536 if m.fixed_port_id is None else int(m.fixed_port_id),
            "fields": fields, "consts": consts, "inner": inner, "doc": cps(sha(json.dumps(docs)))}


def model_events(ctx, pkg, recs, meta):
    import pydsdl

    todo = [(c.model, c.cls) for c in pkg.comps.values()] + list(pkg.services)
    for m, cls in todo:
        emb = getattr(cls, "_MODEL_", None)
        rid = len(recs)
        try:
            ok = isinstance(emb, pydsdl.CompositeType)
            with warnings.catch_warnings():
                warnings.simplefilter("ignore")
                eq = int(ok and (emb == m) and (m == emb) and str(emb) == str(m))
                why = ""
                try:  # reflection: get_class is the inverse of get_model (for the source model and for the embedded one)
                    back = int(pkg.support.get_model(cls) is emb and pkg.support.get_class(m) is cls and pkg.support.get_class(emb) is cls)
                except Exception as ex:  # noqa
                    back = 0
                    why = "(get_class raised %s: %s)" % (type(ex).__name__, ex)
            embd = model_digest(emb) if ok else dict(model_digest(m), kind=cps("not-a-model"))
        except Exception as ex:  # noqa
            raise MachineryFailure("cannot digest the model of %s: %r" % (cls, ex))
        # convenience alias <Name>_<major> of the package = newest minor version (Namespace.j2; not part of the statement)
        same = [x for x in pkg.models if x.full_name == m.full_name and x.version.major == m.version.major]
        if same and max(same, key=lambda x: x.version.minor) is m:
            try:
                mod = sys.modules[cls.__module__.rsplit(".", 1)[0]]
                if getattr(mod, "%s_%d" % (m.short_name, m.version.major), None) is not cls:
                    ctx.drift("package alias %s_%d is not the newest minor version %s" % (m.short_name, m.version.major, m))
            except Exception:  # noqa
                pass
        recs.append({"id": rid, "ev": "model", "src": model_digest(m), "emb": embd, "eq": eq, "back": back})
        meta[rid] = {"type": str(m), "op": "model", "exc": why, "tag": "service" if isinstance(m, pydsdl.ServiceType) else
                     ("delimited" if isinstance(m, pydsdl.DelimitedType) else "sealed")}
        ctx.count()
        ctx.distinct("m|" + sha(json.dumps(recs[-1]["src"]))[:12])


# ------------------------------------------------------------------------------------------------------------------------------
# conversion: to_builtin / update_from_builtin
# ------------------------------------------------------------------------------------------------------------------------------
def is_plain(b, top=True):
    if top and type(b) is not dict:
        return False
    if type(b) is dict:
        return all(type(k) is str and is_plain(v, False) for k, v in b.items())
    if type(b) is list:
        return all(is_plain(v, False) for v in b)
    return type(b) in (str, bool, int, float)


def full_cand(reg, d):
    """deterministic valid value that populates everything: arrays at capacity (<= 4 elements), nested unions on their LAST option"""
    k = d["k"]
    if k in ("uint", "int"):
        return int_range(d)[1]
    if k == "float":
        return 1.5
    if k == "bool":
        return True
    if k == "comp":
        c = reg[d["name"]]
        return build_full(reg, c, len(c.fields) - 1 if c.union else None)
    n = d["n"] if k == "farr" else min(d["cap"], 4)
    return [full_cand(reg, d["e"]) for _ in range(n)]


def build_full(reg, comp, option=None):
    fields = comp.fields if option is None else [comp.fields[option]]
    with warnings.catch_warnings():
        warnings.simplefilter("ignore")
        return comp.cls(**{py: full_cand(reg, d) for py, _, d in fields})


def rt_events(ctx, pkg, recs, meta, n_obj):
    rng = ctx.rng
    sup = pkg.support
    for name in sorted(pkg.comps):
        comp = pkg.comps[name]
        # every union option once and every array (of composites) populated, then seeded random objects
        objs = [build_full(pkg.comps, comp, g) for g in range(len(comp.fields))] if comp.union else [build_full(pkg.comps, comp)]
        for i in range(len(objs) + n_obj):
            o = objs[i] if i < len(objs) else build_valid(rng, pkg.comps, comp)
            rec = {"id": len(recs), "ev": "rt", "a": [], "b": [], "erra": "none", "errb": "none", "plain": 1}
            info = {"type": name, "op": "rt", "tag": "union" if comp.union else "struct", "obj": _short(o)}
            with warnings.catch_warnings():
                warnings.simplefilter("ignore")
                try:
                    rec["a"] = list(b"".join(bytes(x) for x in sup.serialize(o)))
                except Exception as ex:  # noqa
                    rec["erra"] = type(ex).__name__
                if rec["erra"] == "none":
                    try:
                        b = sup.to_builtin(o)
                        info["builtin"] = _short(b)
                        rec["plain"] = int(is_plain(b) and set(b) <= {dn for _, dn, _ in comp.fields})
                        o2 = sup.update_from_builtin(comp.cls(), b)
                        rec["b"] = list(b"".join(bytes(x) for x in sup.serialize(o2)))
                    except Exception as ex:  # noqa
                        rec["errb"] = "%s: %s" % (type(ex).__name__, ex)
                        info["exc"] = rec["errb"]
                        rec["errb"] = type(ex).__name__
            recs.append(rec)
            meta[rec["id"]] = info
            ctx.count()
            ctx.distinct("t|%s|%s" % (sha(name)[:8], sha(bytes(rec["a"]))[:10]), nontrivial=len(rec["a"]) > 0)


# ------------------------------------------------------------------------------------------------------------------------------
# verdicts of the T-layer
# ------------------------------------------------------------------------------------------------------------------------------
def judge(ctx, recs, meta):
    rej = tlc.validate_traces(ctx, "PyObjectTrace", recs, batch=ctx.pick(1200, 2500))
    for rid, clause in sorted(rej.items()):
        info = meta[rid]
        if clause.startswith("harness"):
            raise MachineryFailure("harness produced an inconsistent record (%s): %r" % (clause, info))
        sig = "C18|%s|%s" % (clause, info["tag"])
        if "history" in info:
            sig = ("C18|pyobj.model_eq|history|" + clause.split(".")[-1]) if clause.startswith("pyobj.model") else "C18|%s|history|%s" % (clause, info["tag"])
        what = {"ctor": "constructor %(type)s(%(kw)s) -> %(exc)s", "assign": "%(type)s.%(field)s = %(x)s -> %(exc)s",
                "model": "%(type)s: _MODEL_ / get_class(get_model(cls)) does not reflect the source model %(exc)s", "rt": "%(type)s: %(obj)s"}[info["op"]] % dict({"exc": "", "kw": ""}, **info)
        if "history" in info:
            what = "%s -- %s" % (info["history"], what)
        ctx.violation(sig, "%s  [T-layer clause %s]" % (what, clause), {"dir": "code->spec", "seed": ctx.seed, "tier": ctx.tier, "record": recs_by_id(recs, rid), "info": info})
    return rej


def recs_by_id(recs, rid):
    for r in recs:
        if r["id"] == rid:
            return r
    return None


# ------------------------------------------------------------------------------------------------------------------------------
def selftests(ctx, pkg, hists, recs, rejected):
    def unavailable(name):
        """a self-test needs an execution on which the property holds; on a tree that violates the property everywhere the
        self-test would use, it is skipped (the run already reports violations); on a clean tree that is a machinery failure"""
        if not ctx.violations:
            raise MachineryFailure("self-test '%s': no suitable execution found" % name)
        ctx.cov["binding_selftests"].append({"name": name, "skipped": "no execution without a violation available on this tree"})

    # (1) spec -> code: perturb one expected outcome of an emitted history, the driver must report the mismatch
    done = 0
    for (ks, union), hl in sorted(hists.items()):
        kinds = KVEC[ks]
        comp = pkg.comps["%s.%s%dv2.1.0" % (pkg.ns, "U" if union else "S", ks)]
        tried = 0
        for h in hl:
            if not (len(h) >= 2 and h[0]["out"] == "stored" and h[1]["op"] == "assign" and h[1]["pa"] == ["verr"]):
                continue
            tried += 1
            if tried > 400:
                break
            actions = [{k: st[k] for k in ("op", "kw", "f", "c") if k in st} for st in h]
            good = compatible(hl, actions)
            f0, n0, sk = run_history(pkg.comps, pkg.ns, comp, kinds, build_trie(good), actions, 0)
            if sk or f0 is not None or n0 < 2:
                continue  # not applicable to this class / fails on the tree under test / the real code took another branch
            bad = json.loads(json.dumps(good))
            for v in bad:
                if len(v) >= 2:
                    v[1]["pa"] = ["stored"]
                    v[1]["out"] = "stored"
            f, _, _ = run_history(pkg.comps, pkg.ns, comp, kinds, build_trie(bad), actions, 0)
            ctx.selftest("perturbed expected outcome (out of range -> stored) is reported by the replay driver",
                         f is not None and f.kind == "violation" and f.clause == "pyobj.accept")
            bad2 = json.loads(json.dumps(good))
            for v in bad2:
                v[0]["post"][0] = "None" if v[0]["post"][0] != "None" else "default"  # a wrong prescribed state after construction
            f2, _, _ = run_history(pkg.comps, pkg.ns, comp, kinds, build_trie(bad2), actions, 0)
            ctx.selftest("perturbed expected post-state is reported by the replay driver", f2 is not None and f2.kind == "violation")
            done = 1
            break
        if done:
            break
    if not done:
        unavailable("perturbed expected outcome is reported by the replay driver")

    # (2) code -> spec: corrupt one recorded field, the T-layer must reject exactly that record
    def first(pred):
        for r in recs:
            if r["id"] not in rejected and pred(r):  # only records the T-layer accepted are corrupted
                return json.loads(json.dumps(r))
        return None

    bad = []
    def corrupt(clause, pred, fn):
        r = first(pred)
        if r is None:
            unavailable("corrupted record is rejected by PyObjectTrace with " + clause)
            return
        fn(r)
        r["id"] = len(bad)
        bad.append((r, clause))

    corrupt("pyobj.reject", lambda r: r["ev"] == "assign" and r["out"] == "verr" and r["x"]["c"] == "int"
            and r["ft"][r["f"] - 1]["k"] in ("uint", "int"), lambda r: r.update(out="stored"))
    corrupt("pyobj.state_kept", lambda r: r["ev"] == "assign" and r["out"] == "verr" and not r["union"] and len(r["ft"]) > 1,
            lambda r: r.update(post=[r["post"][-1]] + r["post"][:-1] if r["post"][0] != r["post"][-1] else [{"c": "none"}] + r["post"][1:]))

    def two_options(r):
        r["post"][0 if r["f"] != 1 else 1] = r["post"][r["f"] - 1]

    corrupt("pyobj.union_one", lambda r: r["ev"] == "assign" and r["union"] and r["out"] == "stored" and len(r["ft"]) > 1, two_options)
    corrupt("pyobj.builtin_rt", lambda r: r["ev"] == "rt" and r["erra"] == "none" and r["errb"] == "none" and len(r["b"]) > 0,
            lambda r: r.update(b=[r["b"][0] ^ 1] + r["b"][1:]))
    corrupt("pyobj.model.extent", lambda r: r["ev"] == "model", lambda r: r.update(emb=dict(r["emb"], extent=r["emb"]["extent"] + 8)))
    corrupt("pyobj.model.fields", lambda r: r["ev"] == "model" and r["src"]["fields"],
            lambda r: r.update(emb=dict(r["emb"], fields=r["emb"]["fields"][:-1] + [r["emb"]["fields"][-1] + [33]])))

    def other_value(r):
        r["post"][r["f"] - 1] = enc_int(1 if r["x"]["bits"] == [] else 0)

    corrupt("pyobj.stored", lambda r: r["ev"] == "assign" and r["out"] == "stored" and r["x"]["c"] == "int" and not r["union"]
            and r["ft"][r["f"] - 1]["k"] in ("uint", "int"), other_value)
    if not bad:
        return
    before = ctx.cov["traces_validated_against_impl"]
    rej = tlc.validate_traces(ctx, "PyObjectTrace", [b for b, _ in bad])
    ctx.cov["traces_validated_against_impl"] = before
    for i, (_, clause) in enumerate(bad):
        ctx.selftest("corrupted record is rejected by PyObjectTrace with %s" % clause, rej.get(i) == clause)


NS_KEYWORDS = ["global", "if", "def", "class", "lambda", "import"]           # Python keywords that are legal DSDL names
NS_BUILTINS = ["filter", "input", "range", "format", "id", "map", "list", "set"]  # stropped by the generator, not keywords
NS_PLAIN = ["plain", "sensor"]
NS_ROOTS = ["filter", "global", "c18n"]


def namespace_files(root):
    """types in root / nested namespaces named after keywords, non-keyword builtins and ordinary words; arrays of composites and
    unions whose options are composites from those namespaces (update_from_builtin has to find their classes by model)"""
    subs = NS_KEYWORDS + NS_BUILTINS + NS_PLAIN
    files = {"Tap.1.0.dsdl": "int16 gain\nuint8 delay\n@sealed\n"}
    bank = ["uint8 channel", "%s.Tap.1.0[<=2] taps" % root]
    choice = ["@union", "uint8 raw", "%s.Tap.1.0 tap" % root]
    for i, sub in enumerate(subs):
        files["%s/Leaf.1.0.dsdl" % sub] = "uint8 a\nint8[<=2] b\n@sealed\n"
        files["%s/deep/Un.1.0.dsdl" % sub] = "@union\nuint8 raw\n%s.%s.Leaf.1.0 leaf\n%s.Tap.1.0[<=2] taps\n@sealed\n" % (root, sub, root)
        files["%s/%s/Inner.1.0.dsdl" % (sub, NS_BUILTINS[i % len(NS_BUILTINS)])] = "%s.%s.Leaf.1.0[2] pair\n@extent 512\n" % (root, sub)
        bank.append("%s.%s.Leaf.1.0[<=2] a%d" % (root, sub, i))
        bank.append("%s.%s.%s.Inner.1.0[1] i%d" % (root, sub, NS_BUILTINS[i % len(NS_BUILTINS)], i))
        choice.append("%s.%s.Leaf.1.0 o%d" % (root, sub, i))
        choice.append("%s.%s.deep.Un.1.0 u%d" % (root, sub, i))
    files["Bank.1.0.dsdl"] = "\n".join(bank + ["@sealed"]) + "\n"
    files["Choice.1.0.dsdl"] = "\n".join(choice + ["@sealed"]) + "\n"
    files["77.Svc.1.0.dsdl"] = "%s.Bank.1.0[<=1] banks\n@sealed\n---\n%s.Choice.1.0 c\n%s.filter.Leaf.1.0[<=2] l\n@extent 65536\n" % (root, root, root)
    return files


# ------------------------------------------------------------------------------------------------------------------------------
# generation histories (specs/PyObjectGen.tla): several revisions of the same definitions rendered by ONE process
# ------------------------------------------------------------------------------------------------------------------------------
def revision_files(root, rev):
    """revision `rev` (1..3) of one definition set: same full names, versions and size profiles (PyDSDL's ==/hash cannot tell the
    revisions apart); field names, signedness, constant values and documentation differ"""
    n = {1: ("x", "y", "small", "big", "req", "code", "p", "data", "v"),
         2: ("a", "b", "tiny", "large", "q", "status", "point", "raw", "w"),
         3: ("x", "y", "small", "big", "req", "code", "p", "data", "v")}[rev]
    u, i = ("uint", "int") if rev != 2 else ("int", "uint")
    k = {1: 10, 2: 20, 3: 30}[rev]
    doc = {1: "# first wording\n", 2: "# renamed fields, other signedness\n", 3: "# third wording: only constants and comments differ\n"}[rev]
    return {
        "Pt.1.0.dsdl": "%suint8 LIMIT = %d\nfloat32 SCALE = %d.5\n%s16 %s\n%s16 %s  # field %d\n@sealed\n" % (doc, k, k, u, n[0], i, n[1], rev),
        "Sel.1.0.dsdl": "%s@union\n%s8 %s\n%s32 %s\n%s.Pt.1.0 pt%s\n@sealed\n" % (doc, u, n[2], i, n[3], root, "" if rev != 2 else "2"),
        "7.Svc.1.0.dsdl": "%suint8 K = %d\n%s8 %s\n%s.Pt.1.0[<=2] pts\n@sealed\n---\n@union\n%s16 %s\n%s.Sel.1.0 sel\n@extent 256\n"
                          % (doc, k, u, n[4], root, i, n[5], root),
        "Box.1.0.dsdl": "%s%s.Pt.1.0 %s\n%s8[<=3] %s\n%s.sub.Deep.1.0[<=2] deep\n@extent 1024\n" % (doc, root, n[6], u, n[7], root),
        "sub/Deep.1.0.dsdl": "%sint64 BIG = -%d\n%s64 %s\nbool flag\n@sealed\n" % (doc, k, i, n[8]),
    }


class _ProbeCtx:
    """what model_events / rt_events need of a context when they run in the probe interpreter"""

    def __init__(self):
        import random

        self.rng = random.Random(18)
        self.drifts = []

    def count(self, n=1):
        pass

    def distinct(self, key, nontrivial=True):
        pass

    def drift(self, what):
        self.drifts.append(what)


def probe_main(spec_path):
    """fresh interpreter: import packages that another process generated and record model / rt events for them"""
    import pathlib

    spec = json.loads(open(spec_path).read())
    ctx = _ProbeCtx()
    ctx.scratch = pathlib.Path(spec["scratch"])
    res = []
    for item in spec["items"]:
        recs, meta, broken = [], {}, None
        try:
            pkg = Pkg(ctx, item["root"], None, attach=(pathlib.Path(item["nsdir"]), pathlib.Path(item["out"])))
            model_events(ctx, pkg, recs, meta)
            rt_events(ctx, pkg, recs, meta, 2)
        except GeneratedCodeBroken as ex:
            broken = {"sig": ex.sig, "what": str(ex)}
        res.append({"item": item, "recs": recs, "meta": {str(k): v for k, v in meta.items()}, "broken": broken})
    print("PROBE-RESULT " + json.dumps({"results": res, "drifts": ctx.drifts}))


def history_events(ctx, recs, meta):
    """spec -> code for PyObjectGen.tla: every emitted run history is executed in THIS process (each history under its own root
    namespace, so that it starts from a state that knows nothing about its names); every written package is then imported by
    a fresh interpreter and its embedded models / conversions are recorded against the source models of ITS revision."""
    import os
    import subprocess
    import pydsdl

    for cfg, flag in (("PyObjectGen_neg_process", "process"), ("PyObjectGen_neg_context", "context")):
        neg = tlc.run_tlc(tlc.SPECS / "PyObjectGen.tla", tlc.SPECS / (cfg + ".cfg"), ctx.scratch, workers=1)
        if neg.violated != "EmbeddedEqSource":
            raise MachineryFailure("negative control Memo=%s was not refuted (%s)" % (flag, neg.error))
        ctx.cov.setdefault("model_negative_controls", []).append("PyObjectGen Memo=%s refuted by EmbeddedEqSource after %d states" % (flag, neg.distinct))
    tlc.check_model(ctx, "PyObjectGen", "PyObjectGen", constants="NRev=3 NTypes=2 MaxGen=3 Memo=none")
    hists = [c["runs"] for c in tlc.emit_cases(ctx, "PyObjectGen", ctx.pick("PyObjectGen_emit", "PyObjectGen_emit3"),
                                               constants="NRev=3 NTypes=2 MaxGen=%d Memo=none (emission)" % ctx.pick(2, 3))]
    if len(hists) < 18:
        raise MachineryFailure("too few generation histories emitted: %d" % len(hists))
    base = ctx.scratch / "hist"
    items = []
    for hi, runs in enumerate(hists):
        root = "c18h%d" % hi
        lctx = None
        for si, run in enumerate(runs):
            files = revision_files(root, run["rev"])
            nsdir = base / ("h%d" % hi) / ("run%d" % si) / "dsdl" / root
            out = base / ("h%d" % hi) / ("run%d" % si) / "out"
            write_files(nsdir, files)
            with warnings.catch_warnings():
                warnings.simplefilter("ignore")
                models = pydsdl.read_namespace(str(nsdir), [], allow_unregulated_fixed_port_id=True)
                if not (run["reuse"] and lctx is not None):
                    lctx = new_lctx()
                _generate(models, nsdir, out, lctx)
            ctx.count()
            items.append({"root": root, "nsdir": str(nsdir), "out": str(out), "hist": hi, "step": si, "rev": run["rev"],
                          "runs": runs[:si + 1]})
    # one fresh interpreter per step index (packages of one history share their root name, those of different histories do not)
    env = dict(os.environ)
    jobs = []
    for si in sorted({it["step"] for it in items}):
        sp = base / ("probe%d.json" % si)
        sp.write_text(json.dumps({"scratch": str(ctx.scratch), "items": [it for it in items if it["step"] == si]}))
        jobs.append(sp)

    def one(sp):
        return subprocess.run([sys.executable, "-c", "import sys; from vf.props import c18; c18.probe_main(sys.argv[1])", str(sp)],
                              stdout=subprocess.PIPE, stderr=subprocess.PIPE, text=True, env=env, timeout=1800)

    nrec = 0
    with concurrent.futures.ThreadPoolExecutor(max_workers=4) as ex:
        for r in ex.map(one, jobs):
            line = next((ln for ln in r.stdout.splitlines() if ln.startswith("PROBE-RESULT ")), None)
            if r.returncode != 0 or line is None:
                raise MachineryFailure("probe interpreter failed: %s" % (r.stderr[-1500:],))
            doc = json.loads(line[len("PROBE-RESULT "):])
            for d in doc["drifts"]:
                ctx.drift(d)
            for res in doc["results"]:
                it = res["item"]
                hdesc = "run %d of history %s (revisions rendered by one process, reuse = same LanguageContext)" % (
                    it["step"] + 1, [(x["rev"], "reuse" if x["reuse"] else "new") for x in it["runs"]])
                if res["broken"]:
                    ctx.violation("C18|pyobj.model_eq|history|" + res["broken"]["sig"].split("|")[-1], "%s: %s" % (hdesc, res["broken"]["what"]),
                                  {"dir": "history", "runs": it["runs"]})
                    continue
                for rec in res["recs"]:
                    info = dict(res["meta"][str(rec["id"])], history=hdesc, runs=it["runs"])
                    rec["id"] = len(recs)
                    recs.append(rec)
                    meta[rec["id"]] = info
                    nrec += 1
            ctx.distinct("g|%s" % sha(json.dumps(doc["results"][0]["item"]["runs"]))[:10])
    for runs in hists:
        ctx.distinct("g|" + json.dumps(runs), nontrivial=len({r["rev"] for r in runs}) > 1)
    ctx.cov["generation_histories"] = {"histories": len(hists), "runs": len(items), "records": nrec}


def special_files():
    """hand-written definitions: everything the embedded model must reflect"""
    return {
        "sub/In.1.0.dsdl": "uint8 a\nint13 b\n@sealed\n",
        "4000.Msg.1.2.dsdl": ("@deprecated\nuint8 A = 200\nint64 BIG = -9223372036854775808\nfloat32 PI = 3.14159\nfloat64 E = 2.718281828459045\n"
                              "bool FLAG = true\nuint8 CH = 'x'\ntruncated uint3 a\nvoid5\n{ns}.sub.In.1.0 c\n{ns}.sub.In.1.0[<=2] ac\nutf8[<=5] s\n"
                              "byte[3] by\n@extent 1024\n"),
        "Msg.1.0.dsdl": "uint8 a\n@extent 1024\n",
        "Kw.1.0.dsdl": "uint8 if\nint8 def\nfloat32 lambda\nbool[<=2] min\nutf8[<=9] str\n@sealed\n",
        "300.Srv.1.0.dsdl": "uint8 X = 3\nuint8 q\n{ns}.sub.In.1.0[<=2] arr\n@sealed\n---\n@union\nuint8 ok\n{ns}.sub.In.1.0 err\nutf8[<=4] msg\n@extent 64\n",
        "Empty.1.0.dsdl": "@sealed\n",
        "EmptyD.1.0.dsdl": "@extent 32\n",
        "sub/deep/Un.2.1.dsdl": "@union\n{ns}.Empty.1.0 e\nfloat16[<=3] h\n{ns}.Kw.1.0 kw\n{ns}.sub.In.1.0[2] pair\n@extent 2048\n",
    }


def part_model(ctx):
    """the bounded design: I => P for every constructor call and every history; negative controls"""
    check_models(ctx, "PyObject", "MaxHist=3 CtorSpecial=3 (every constructor call, free histories)", 2)
    if not ctx.quick:
        check_models(ctx, "PyObject4", "MaxHist=4 CtorSpecial=1", 8)
    for cfg, flag in (("PyObject_neg_digits", "ParseDigits=TRUE"), ("PyObject_neg_clear", "ClearFirst=TRUE")):
        neg = tlc.run_tlc(tlc.SPECS / "PyObject.tla", tlc.SPECS / (cfg + ".cfg"), ctx.scratch, workers=1)
        if neg.violated not in ("Refines", "StateKept"):
            raise MachineryFailure("negative control %s was not refuted (%s)" % (flag, neg.error))
        ctx.cov.setdefault("model_negative_controls", []).append("%s refuted by invariant %s after %d states" % (flag, neg.violated, neg.distinct))


def part_spec_to_code(ctx, pkg_a):
    groups = emit_all(ctx, ctx.pick("PyObject_emitq", "PyObject_emit"), "MaxHist=3 CtorSpecial=1 (emission)")
    if not pkg_a.fine_api:
        ctx.not_exercised("build_namespace_tree/create_default_generators path (fell back to nunavut.generate_types)")
    nhist, nsteps, nskip = spec_to_code(ctx, pkg_a, groups, ctx.pick(1, 3), True)
    g0 = groups[(1, True)][len(groups[(1, True)]) // 2]
    ctx.sample({"direction": "spec->code", "class": "c18a.U1v*.1.0 (union of int, byte array, composite)", "history": g0})
    ctx.cov["spec_to_code"] = {"histories_replayed": nhist, "steps": nsteps, "instantiations_skipped_candidate_not_applicable": nskip,
                               "action_sequences": sum(len(v) for v in groups.values())}
    return groups


def part_code_to_spec(ctx, pkg_a):
    recs, meta = [], {}
    pkgs = [pkg_a]
    try:
        pkgs.append(Pkg(ctx, "c18s", {k: v.replace("{ns}", "c18s") for k, v in special_files().items()}))
    except GeneratedCodeBroken as ex:
        ctx.violation(ex.sig, str(ex), {"dir": "code->spec", "seed": ctx.seed, "tier": ctx.tier, "files": special_files()})
    for root in NS_ROOTS:
        files = namespace_files(root)
        try:
            pkgs.append(Pkg(ctx, root, files))
        except GeneratedCodeBroken as ex:
            ctx.violation(ex.sig, str(ex), {"dir": "code->spec", "seed": ctx.seed, "tier": ctx.tier, "files": files, "ns": root})
    ntypes = ctx.pick(70, 140)
    for i in range(ctx.pick(3, 10)):
        ns = "c18r%d" % i
        files = rand_files(ctx.rng, ns, ntypes)
        try:
            pkgs.append(Pkg(ctx, ns, files))
        except GeneratedCodeBroken as ex:
            ctx.violation(ex.sig, str(ex), {"dir": "code->spec", "seed": ctx.seed, "tier": ctx.tier, "files": files})
    for p in pkgs:
        model_events(ctx, p, recs, meta)
    for p in pkgs[1:]:
        random_events(ctx, p, recs, meta, ctx.pick(4, 8), ctx.pick(8, 10))
        rt_events(ctx, p, recs, meta, ctx.pick(5, 12))
    rt_events(ctx, pkg_a, recs, meta, 2)
    history_events(ctx, recs, meta)
    for ev in ("ctor", "assign", "model", "rt"):
        ex = next((r for r in recs if r["ev"] == ev and (ev != "assign" or r["out"] == "verr")), None)
        if ex is not None:
            ctx.sample({"direction": "code->spec", "event": {k: (v if len(json.dumps(v)) < 400 else "...") for k, v in ex.items()}, "info": meta[ex["id"]]})
    ctx.cov["code_to_spec"] = {ev: sum(1 for r in recs if r["ev"] == ev) for ev in ("ctor", "assign", "model", "rt")}
    ctx.cov["code_to_spec"]["generated_classes"] = sum(len(p.comps) + len(p.services) for p in pkgs)
    rej = judge(ctx, recs, meta)
    return recs, set(rej)


def run(ctx):
    part_model(ctx)
    try:
        pkg_a = Pkg(ctx, "c18a", abstract_files("c18a"))
    except GeneratedCodeBroken as ex:  # no class can honour its contract
        ctx.violation(ex.sig, str(ex), {"dir": "spec->code", "files": "abstract_files"})
        ctx.not_exercised("everything after the import of the generated package")
        return
    groups = part_spec_to_code(ctx, pkg_a)
    recs, rejected = part_code_to_spec(ctx, pkg_a)
    selftests(ctx, pkg_a, groups, recs, rejected)

    ctx.cov["rule"] = ("spec->code: every complete history emitted by PyObject.tla (3 kind vectors x struct/union, constructor + 2 actions) on "
                       "%d concrete classes; distinct = action sequence per configuration, non-trivial = contains a non-valid candidate or "
                       "more than one action; code->spec: seeded random types x tagged random candidates; distinct = (type, field, candidate "
                       "tag, outcome) resp. (model digest) resp. (type, serialized bytes)" % (6 * NVAR))
    ctx.cov["exhaustive"] = False
    ctx.assumptions += ["TLC and the PyObject / PyObjectTrace specifications", "PyDSDL as the front end (the source model is what read_namespace returns)",
                        "numpy %s from .pydeps; python-side concretization of abstract candidates and encoding of values" % np_().__version__]
    ctx.ambiguous("array ELEMENTS outside the declared range (8 in uint3[<=4] is stored; 300 in uint8[] raises OverflowError under NumPy 2; "
                  "7e4 in float16[] is stored as inf; a composite element of another class is stored): the statement names 'a value outside the "
                  "field's range' and array length/capacity only; asserted: rejected with the object unchanged, or a 1-D array of legal length")
    ctx.ambiguous("bool fields accept anything (bool(x), documented as saturation): asserted only that a bool is stored")
    ctx.ambiguous("foreign types (None, arbitrary objects): any exception with the object unchanged, or conversion to a valid value")
    ctx.not_exercised("NaN payloads / signalling NaNs in conversions (class only)")
    ctx.not_exercised("objects obtained from deserialize() as the source of to_builtin (objects are built through constructors)")


def replay(ctx, case):
    if "files" in case:  # the generated package could not be imported
        try:
            if "ns" in case:
                Pkg(ctx, case["ns"], case["files"])
            else:
                Pkg(ctx, "c18x", abstract_files("c18x") if case["files"] == "abstract_files" else
                    {k: v.replace("{ns}", "c18x").replace("c18s", "c18x") for k, v in case["files"].items()})
        except GeneratedCodeBroken as ex:
            ctx.violation(ex.sig, str(ex), case)
        return
    if case.get("dir") == "spec->code":
        pkg = Pkg(ctx, "c18a", abstract_files("c18a"))
        ks, union = case["ksel"], case["union"]
        comp = pkg.comps["c18a.%s%dv%d.1.0" % ("U" if union else "S", ks, case["variant"])]
        f, _, _ = run_history(pkg.comps, "c18a", comp, KVEC[ks], build_trie(case["histories"]), case["actions"], case["salt"])
        if f is not None:
            report(ctx, f, case)
        return
    # code->spec: the random types and candidates are a function of (seed, tier): regenerate them and judge again
    import random

    ctx.tier = case.get("tier", ctx.tier)
    ctx.seed = case.get("seed", ctx.seed)
    ctx.rng = random.Random(ctx.seed * 1000003 + sum(map(ord, ctx.pid)))
    part_code_to_spec(ctx, Pkg(ctx, "c18a", abstract_files("c18a")))
