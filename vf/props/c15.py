"""C15 - line post-processing is chunking-independent.

Model:   specs/LineBuffer.tla (I-layer: the chunk loop, refinement to LinePP!Whole), exhaustive over all texts <= MaxLen over
         {x, space, CR, LF} x all chunkings (incl. empty chunks, cut between CR and LF) x processor lists.
spec->code: every terminal state of the model (text, chunks, pps, expected file) is replayed through the real
         CodeGenerator._generate_with_line_buffer / _generate_code.
code->spec: longer random + unicode texts with random chunkings through the real code (protected fast path and the public
         DSDLCodeGenerator.generate_all path with a user template that yields one chunk per loop iteration); the recorded
         (text, chunks, pps, written) records are judged by specs/LineBufferTrace.tla (P-layer operator Whole).
"""
import io
import pathlib
import re
import sys

from ..core import MachineryFailure, sha
from .. import tlc

ALPHA = [120, 32, 13, 10]
UNI = [0x85, 0xA0, 0x2028, 0x2029, 0x3000, 0x0B, 0x0C, 0x1C, 0x1F, 0x09, 0xE9, 0x1F600, 0x200B, 0xFEFF]
WS_SPEC = {9, 10, 11, 12, 13, 28, 29, 30, 31, 32, 133, 160, 5760, 8232, 8233, 8239, 8287, 12288} | set(range(8192, 8203))


def mk_pps(desc):
    import nunavut._postprocessors as pp

    res = []
    for d in desc:
        if d["k"] == "trim":
            res.append(pp.TrimTrailingWhitespace())
        else:
            res.append(pp.LimitEmptyLines(d["n"]))
    return res


class ChunkIter:
    def __init__(self, chunks):
        self.chunks = chunks
        self.pulled = 0

    def __iter__(self):
        for c in self.chunks:
            self.pulled += 1
            yield c


def run_linebuffer(chunks_s, ppdesc):
    """protected accelerator path: the real loop on harness file/iterator objects"""
    import nunavut.jinja as nj

    out = io.StringIO()
    nj.CodeGenerator._generate_with_line_buffer(out, ChunkIter(chunks_s).__iter__(), mk_pps(ppdesc))
    return out.getvalue()


class PublicPath:
    """public path: DSDLCodeGenerator.generate_all with a user template yielding one chunk per loop iteration"""

    def __init__(self, ctx):
        import pydsdl
        import nunavut
        from nunavut.lang import LanguageContextBuilder

        self.root = ctx.scratch / "pub"
        (self.root / "dsdl" / "ns").mkdir(parents=True)
        (self.root / "tpl").mkdir()
        (self.root / "dsdl" / "ns" / "T.1.0.dsdl").write_text("uint8 a\n@sealed\n")
        (self.root / "tpl" / "Any.j2").write_text("{% for c in chunks %}{{ c }}{% endfor %}")
        self.types = pydsdl.read_namespace(str(self.root / "dsdl" / "ns"), [])
        self.lctx = {l: LanguageContextBuilder(include_experimental_languages=True).set_target_language(l).create() for l in ("c", "cpp")}
        self.nunavut = nunavut
        self.n = 0

    def run(self, chunks_s, ppdesc, lang="cpp"):
        """returns (file text, processor list in force).  For `c` the language configuration appends its own limiter/trimmer
        (limit_empty_lines / trim_trailing_whitespace) when the caller's list has none: the list in force is read back."""
        from nunavut.jinja import DSDLCodeGenerator
        import nunavut._postprocessors as pp

        self.n += 1
        out = self.root / ("out%d" % self.n)
        ns = self.nunavut.build_namespace_tree(self.types, str(self.root / "dsdl" / "ns"), str(out), self.lctx[lang])
        gen = DSDLCodeGenerator(ns, templates_dir=self.root / "tpl", additional_globals={"chunks": chunks_s},
                                post_processors=mk_pps(ppdesc) or None)
        eff = []
        for p in (gen._post_processors or []):
            if isinstance(p, pp.TrimTrailingWhitespace):
                eff.append({"k": "trim"})
            elif isinstance(p, pp.LimitEmptyLines):
                eff.append({"k": "limit", "n": int(p._max_empty_lines)})
        if lang == "cpp" and eff != list(ppdesc):
            raise MachineryFailure("processor list in force differs from the one supplied: %r vs %r" % (eff, ppdesc))
        gen.generate_all(False)
        files = [p for p in out.rglob("*") if p.is_file()]
        if len(files) != 1:
            raise MachineryFailure("public path produced %d files" % len(files))
        with open(files[0], "r", encoding="utf-8", newline="") as f:
            txt = f.read()
        files[0].unlink()
        return txt, eff


class MultiFile:
    """several files written one after the other through ONE processor list in one process: two type files (user template Any.j2) and the
    support header (user support template serialization.j2), each yielding the chunks given for it.  Every written file is an execution of
    its own: the file must equal Whole(the text of THAT file, pps) whatever was written before it with the same processor objects."""

    def __init__(self, ctx):
        import pydsdl
        from nunavut.lang import LanguageContextBuilder

        self.root = ctx.scratch / "multi"
        (self.root / "dsdl" / "ns").mkdir(parents=True)
        (self.root / "tpl").mkdir()
        (self.root / "sup").mkdir()
        (self.root / "dsdl" / "ns" / "A.1.0.dsdl").write_text("uint8 a\n@sealed\n")
        (self.root / "dsdl" / "ns" / "B.1.0.dsdl").write_text("uint8 b\n@sealed\n")
        (self.root / "tpl" / "Any.j2").write_text("{% for c in texts[T.short_name] %}{{ c }}{% endfor %}")
        (self.root / "sup" / "serialization.j2").write_text("{% for c in texts['support'] %}{{ c }}{% endfor %}")
        self.types = pydsdl.read_namespace(str(self.root / "dsdl" / "ns"), [])
        self.lctx = LanguageContextBuilder(include_experimental_languages=True).set_target_language("cpp").create()
        self.n = 0

    def run(self, texts, ppdesc, order, out=None, keep=False):
        """texts: {"A": chunks, "B": chunks, "support": chunks}; order: sequence of "types" / "support" generator runs.
        returns [(name, chunks, file text)] in the order the files were written.  out / keep: regenerate in place over what an earlier run left"""
        import nunavut
        from nunavut._generators import create_default_generators

        self.n += 1
        out = out or self.root / ("out%d" % self.n)
        ns = nunavut.build_namespace_tree(self.types, str(self.root / "dsdl" / "ns"), str(out), self.lctx)
        cg, sg = create_default_generators(ns, templates_dir=self.root / "tpl", support_templates_dir=self.root / "sup",
                                           additional_globals={"texts": texts}, post_processors=mk_pps(ppdesc) or None)
        res = []
        for step in order:
            written = list((cg if step == "types" else sg).generate_all(False, True))
            for pth in written:
                name = "support" if step == "support" else pathlib.Path(pth).name[0]
                with open(pth, "r", encoding="utf-8", newline="") as f:
                    res.append((name, texts[name], f.read()))
        import shutil

        if not keep:
            shutil.rmtree(out, ignore_errors=True)
        return res


def rewrite_variants(rng, chunks):
    """texts that differ from `chunks` only in what a careless "is the file already up to date?" comparison overlooks: line terminators,
    trailing white space, a final newline, letter case"""
    t = "".join(chunks)
    res = [t.replace("\r\n", "\n").replace("\r", "\n"), t.replace("\r\n", "\n").replace("\n", "\r\n"), t.replace("\n", "\r"), t.rstrip("\r\n"),
           t + "\n", t.replace(" \n", "\n"), t.replace("x", "X", 1)]
    res = [x for x in res if x != t]
    rng.shuffle(res)
    return [[x] for x in res[:3]]


LONG_MARK = "L"  # stands for a run of K non-white-space characters in the core text of a long-line case


def long_cases(rng, quick):
    """lines far longer than any buffer size one might choose: core texts over {L, x, SP, CR, LF} in which L is expanded to K copies of 'y'
    (K around powers of two), delivered in chunkings that cut right before / after / inside the runs and around the blanks and terminators.
    Post-processing commutes with expanding a run of non-white-space characters, so the written file with every run of exactly K 'y'
    contracted back to L must be Whole(core text, pps): the T-layer decides on the CORE text."""
    cores = ["L L\n", "L \nL\n", "L \r\nx \n", " L\n\n\nL", "xL \n\n L \n", "L\n \n\nL \n", "L  L  \n\nx", "L\r\n\r\n\r\nL "]
    ks = [4095, 4096, 4097, 65535, 65536, 65537] + ([] if quick else [8191, 8193, 32768, 131071, 131073, 262145])
    ppl = [[{"k": "trim"}], [{"k": "limit", "n": 0}], [{"k": "limit", "n": 1}], [{"k": "trim"}, {"k": "limit", "n": 1}], [{"k": "limit", "n": 0}, {"k": "trim"}], []]
    res = []
    for core in cores:
        for K in ks:
            for pps in ppl:
                # chunkings of the expanded text, described on the core: cut points between core characters, optionally inside a run
                cuts_all = list(range(1, len(core)))
                styles = [cuts_all, [c for c in cuts_all if core[c - 1] == LONG_MARK], [c for c in cuts_all if core[c - 1] in " "], rng.sample(cuts_all, min(2, len(cuts_all)))]
                for st, cuts in enumerate(styles):
                    inside = st % 2 == 0  # also split every run in the middle and one character before its end
                    chunks, cur = [], ""
                    for i, ch in enumerate(core):
                        if i in cuts and cur:
                            chunks.append(cur)
                            cur = ""
                        if ch == LONG_MARK:
                            if inside:
                                chunks += [cur + "y" * (K // 2), "y" * (K - K // 2 - 1)]
                                cur = "y"
                            else:
                                cur += "y" * K
                        else:
                            cur += ch
                    chunks.append(cur)
                    res.append((core, K, pps, [c for c in chunks if c != ""] or [""]))
    if quick:
        res = [r for i, r in enumerate(res) if i % 3 == 0]
    return res


def contract(text, K):
    """every maximal run of 'y' of length exactly K -> L (other run lengths stay: the T-layer then sees characters the core text lacks)"""
    return re.sub(r"y+", lambda m: LONG_MARK if len(m.group(0)) == K else m.group(0)[:50], text)


def cps(s):
    return [ord(c) for c in s]


def to_s(cp):
    return "".join(map(chr, cp))


def record(rid, chunks_s, ppdesc, out_s, path):
    return {"id": rid, "path": path, "text": cps("".join(chunks_s)), "chunks": [cps(c) for c in chunks_s], "pps": ppdesc, "out": cps(out_s)}


def rand_case(rng, maxlen, alphabet):
    n = rng.randint(0, maxlen)
    # bias towards newline-rich texts
    weights = [3 if a not in (10, 13, 32) else 5 for a in alphabet]
    text = rng.choices(alphabet, weights=weights, k=n)
    cuts = sorted(set(rng.randint(0, n) for _ in range(rng.randint(0, max(1, n // 2)))))
    chunks, prev = [], 0
    for c in cuts:
        chunks.append(text[prev:c])
        prev = c
    chunks.append(text[prev:])
    if rng.random() < 0.5:
        chunks = [c for c in chunks if c] or [[]]
    kind = rng.randint(0, 5)
    N = rng.choice([0, 0, 1, 1, 2, 3, 5])
    pps = [[], [{"k": "trim"}], [{"k": "limit", "n": N}], [{"k": "trim"}, {"k": "limit", "n": N}], [{"k": "limit", "n": N}, {"k": "trim"}],
           [{"k": "limit", "n": N}, {"k": "limit", "n": rng.choice([0, 1, 2])}]][kind]
    return [to_s(c) for c in chunks], pps


def classify(chunks_s, pps):
    t = "".join(chunks_s)
    split_crlf = any(c.endswith("\r") and i + 1 < len(chunks_s) and "".join(chunks_s[i + 1:]).startswith("\n") for i, c in enumerate(chunks_s))
    return "|".join([
        "pps=" + ",".join(p["k"] for p in pps),
        "crlf" if "\r\n" in t else ("lf" if "\n" in t else "nonl"),
        "splitcrlf" if split_crlf else "-",
        "uni" if any(ord(c) > 127 for c in t) else "ascii",
    ])


def signature(chunks_s, pps, path):
    t = "".join(chunks_s)
    split_crlf = any(c.endswith("\r") and "".join(chunks_s[i + 1:]).startswith("\n") for i, c in enumerate(chunks_s))
    return "C15|chunk.whole|%s|%s" % ("crlf-split-across-chunks" if split_crlf else "other", ",".join(p["k"] for p in pps) or "none")


def selfcheck_ws():
    bad = [c for c in range(0x110000) if (re.match(r"\s", chr(c)) is not None) != (c in WS_SPEC)]
    if bad:
        raise MachineryFailure("LinePP!WS differs from this interpreter's \\s: %r" % bad[:10])


def judge(ctx, recs, stim):
    rej = tlc.validate_traces(ctx, "LineBufferTrace", recs, batch=ctx.pick(1500, 3000))
    for rid, clause in rej.items():
        chunks_s, pps, path = stim[rid]
        if clause.startswith("harness"):
            raise MachineryFailure("harness produced an inconsistent record %r" % (stim[rid],))
        ctx.violation(signature(chunks_s, pps, path), "file written through line post-processors differs from Whole(text, pps) [%s]" % clause,
                      {"chunks": chunks_s, "pps": pps, "path": path})
    return rej


def run(ctx):
    selfcheck_ws()
    # 1. the bounded design: I-layer refines P for every text/chunking/processor list
    tlc.check_model(ctx, "LineBuffer", ctx.pick("LineBuffer", "LineBuffer_6"),
                    constants="Alphabet={x,SP,CR,LF} MaxLen=%d MaxLimit=2 HoldCR=TRUE" % ctx.pick(5, 6), timeout=3000)
    # negative control of the model: the original code (no hold-back of a chunk-final CR) must be refuted by TLC
    neg = tlc.run_tlc(tlc.SPECS / "LineBuffer.tla", tlc.SPECS / "LineBuffer_orig.cfg", ctx.scratch)
    if neg.violated != "Refines":
        raise MachineryFailure("negative control: model of the unrepaired loop was not refuted (%s)" % neg.error)
    ctx.cov["model_negative_control"] = "HoldCR=FALSE refuted by invariant Refines after %d states" % neg.distinct

    # 2. spec -> code: replay every terminal state of the model through the real loop
    cases = tlc.emit_cases(ctx, "LineBuffer", ctx.pick("LineBuffer_emit3", "LineBuffer_emit4"),
                           constants="MaxLen=%d (emission)" % ctx.pick(3, 4))
    if len(cases) < 1000:
        raise MachineryFailure("too few cases emitted: %d" % len(cases))
    pub = PublicPath(ctx)
    npub = 0
    for i, c in enumerate(cases):
        chunks_s = [to_s(x) for x in c["chunks"]]
        exp = to_s(c["out"])
        got = run_linebuffer(chunks_s, c["pps"])
        ctx.count()
        paths = [("linebuffer", got)]
        if i % ctx.pick(23, 7) == 0:
            paths.append(("generate_all", pub.run(chunks_s, c["pps"])[0]))
            npub += 1
            ctx.count()
        for path, g in paths:
            if g != exp:
                ctx.violation(signature(chunks_s, c["pps"], path), "model terminal state says file=%r, real code wrote %r" % (exp, g),
                              {"chunks": chunks_s, "pps": c["pps"], "path": path})
        ctx.distinct("m|" + classify(chunks_s, c["pps"]) + "|" + sha("".join(chunks_s))[:6] + str(len(chunks_s)), nontrivial=bool("".join(chunks_s)))
    ctx.validated(len(cases) + npub)
    ctx.sample({"direction": "spec->code", "chunks": [to_s(x) for x in cases[len(cases) // 2]["chunks"]], "pps": cases[len(cases) // 2]["pps"],
                "expected_file": to_s(cases[len(cases) // 2]["out"])})

    # 3. code -> spec: larger / unicode / long random cases, judged by the T-layer
    n_rand = ctx.pick(6000, 60000)
    recs, stim = [], {}
    for i in range(n_rand):
        alphabet = ALPHA if i % 3 else ALPHA + UNI
        chunks_s, pps = rand_case(ctx.rng, ctx.rng.choice([8, 20, 60]), alphabet)
        path = "linebuffer" if i % ctx.pick(15, 10) else ("generate_all" if i % 2 else "generate_all_c")
        if path == "linebuffer":
            if not pps and i % 2:
                continue
            out = run_linebuffer(chunks_s, pps)
        else:
            out, pps = pub.run(chunks_s, pps, "c" if path.endswith("_c") else "cpp")
        ctx.count()
        rid = len(recs)
        recs.append(record(rid, chunks_s, pps, out, path))
        stim[rid] = (chunks_s, pps, path)
        ctx.distinct("r|" + classify(chunks_s, pps) + "|" + sha(repr(chunks_s))[:8])
    ctx.sample({"direction": "code->spec", **{k: recs[7][k] for k in ("path", "chunks", "pps", "out")}})
    judge(ctx, recs, stim)

    # 3b. size boundaries: very long lines (expanded runs) in many chunkings; judged on the core text
    lrecs, lstim = [], {}
    for core, K, pps, chunks in long_cases(ctx.rng, ctx.quick):
        out = run_linebuffer(chunks, pps)
        ctx.count()
        rid = len(lrecs)
        core_chunks = [contract(c, K) for c in chunks]
        # chunks that end inside a run cannot be contracted one by one: describe the chunking of the core by its cut points only
        lrecs.append({"id": rid, "path": "linebuffer-long", "text": cps(core), "chunks": [cps(core)], "pps": pps, "out": cps(contract(out, K))})
        lstim[rid] = (chunks, pps, "linebuffer")
        ctx.distinct("long|%s|%d|%s|%d" % (sha(core)[:6], K, ",".join(p["k"] for p in pps), len(chunks)))
    rej = tlc.validate_traces(ctx, "LineBufferTrace", lrecs, batch=3000)
    for rid, clause in rej.items():
        chunks, pps, path = lstim[rid]
        ctx.violation("C15|chunk.whole|long-line|%s" % (",".join(p["k"] for p in pps) or "none"),
                      "a file with a line of more than %d characters differs from Whole(text, pps) [%s]; chunk lengths %r" % (max(len(c) for c in chunks), clause, [len(c) for c in chunks][:12]),
                      {"chunks_rle": [[c[:1], len(c)] if len(set(c)) == 1 else c for c in chunks], "chunks": None, "pps": pps, "path": "linebuffer-long",
                       "core": to_s(lrecs[rid]["text"]), "K": max(len(c) for c in chunks)})
    ctx.cov["long_line_cases"] = len(lrecs)

    # 3c. histories: several files (two types, the support header) written one after the other through one processor list
    multi = MultiFile(ctx)
    mrecs, mstim = [], {}
    orders = [("types", "support"), ("support", "types"), ("support", "support"), ("types", "types"), ("types", "support", "types")]
    for i in range(ctx.pick(120, 1200)):
        texts, pps = {}, None
        for name in ("A", "B", "support"):
            ch, p = rand_case(ctx.rng, ctx.rng.choice([6, 14]), ALPHA)
            # files that begin and end with empty lines are the delicate ones: state carried from one file into the next shows there
            if ctx.rng.random() < 0.6:
                ch = [ctx.rng.choice(["\n", "\n\n", " \n"])] + ch + [ctx.rng.choice(["\n", "\n\n\n", "\r\n\r\n"])]
            texts[name] = ch
            pps = pps or p
        if not pps:
            pps = [{"k": "limit", "n": ctx.rng.choice([0, 1, 2])}]
        order = orders[i % len(orders)]
        for pos, (name, chunks, written) in enumerate(multi.run(texts, pps, order)):
            ctx.count()
            rid = len(mrecs)
            mrecs.append(record(rid, chunks, pps, written, "multi-file"))
            mstim[rid] = (texts, pps, order, name, pos)
            ctx.distinct("multi|%s|%s|%d|%s" % ("-".join(order), name, pos, sha(repr(chunks))[:6]), nontrivial=pos > 0)
    rej = tlc.validate_traces(ctx, "LineBufferTrace", mrecs, batch=3000)
    for rid, clause in rej.items():
        texts, pps, order, name, pos = mstim[rid]
        if clause.startswith("harness"):
            raise MachineryFailure("harness produced an inconsistent multi-file record %r" % (mstim[rid],))
        ctx.violation("C15|chunk.whole|file-%s-written-after-others|%s" % ("support" if name == "support" else "type", ",".join(p["k"] for p in pps)),
                      "file %d of a run sequence %s (%s) differs from Whole(its own text, pps): state of a processor was carried over from the file before [%s]"
                      % (pos + 1, "+".join(order), name, clause), {"multi": True, "texts": texts, "pps": pps, "order": list(order), "name": name, "pos": pos})
    ctx.cov["multi_file_records"] = len(mrecs)

    # 3d. histories: the same paths written again, in place, with a text that differs only in terminators / trailing blanks / final newline / case
    wrecs, wstim = [], {}
    for i in range(ctx.pick(60, 600)):
        first = {}
        for name in ("A", "B", "support"):
            ch, p = rand_case(ctx.rng, ctx.rng.choice([6, 14]), ALPHA)
            first[name] = [ctx.rng.choice(["x\r\n", "x \n", "\n"])] + ch + [ctx.rng.choice(["\n", "\r\n", "x"])]
        pps = [[], [{"k": "trim"}], [{"k": "limit", "n": 1}], [{"k": "trim"}, {"k": "limit", "n": 2}]][i % 4]
        outdir = multi.root / ("inplace%d" % i)
        multi.run(first, pps, ("types", "support"), out=outdir, keep=True)
        variants = {name: rewrite_variants(ctx.rng, first[name]) for name in first}
        for k in range(max(len(v) for v in variants.values())):
            second = {name: (variants[name][k] if k < len(variants[name]) else first[name]) for name in first}
            last = k + 1 >= max(len(v) for v in variants.values())
            for pos, (name, chunks, written) in enumerate(multi.run(second, pps, ("types", "support"), out=outdir, keep=not last)):
                ctx.count()
                rid = len(wrecs)
                wrecs.append(record(rid, chunks, pps, written, "rewritten-in-place"))
                wstim[rid] = (first, second, pps, name)
                ctx.distinct("rewrite|%s|%s|%s" % (name, ",".join(p["k"] for p in pps), sha(repr(chunks))[:6]))
    rej = tlc.validate_traces(ctx, "LineBufferTrace", wrecs, batch=3000)
    for rid, clause in rej.items():
        first, second, pps, name = wstim[rid]
        if clause.startswith("harness"):
            raise MachineryFailure("harness produced an inconsistent rewrite record %r" % (wstim[rid],))
        ctx.violation("C15|chunk.whole|file-rewritten-in-place|%s" % (",".join(p["k"] for p in pps) or "none"),
                      "a file regenerated in place (earlier text %r, new text %r) differs from Whole(new text, pps) [%s]" % ("".join(first[name])[:60], "".join(second[name])[:60], clause),
                      {"rewrite": True, "first": first, "second": second, "pps": pps, "name": name})
    ctx.cov["rewritten_in_place_records"] = len(wrecs)

    # 4. binding self-test: corrupt one recorded field, the T-layer must reject exactly that record
    bad = dict(recs[11])
    bad["out"] = bad["out"] + [120]
    bad["id"] = 0
    rej = tlc.validate_traces(ctx, "LineBufferTrace", [bad])
    ctx.cov["traces_validated_against_impl"] -= 0
    ctx.selftest("corrupted written text is rejected by LineBufferTrace", rej.get(0) == "chunk.whole")

    ctx.cov["rule"] = ("spec->code: every terminal state of LineBuffer.tla (all texts<=%d over {x,SP,CR,LF} x all chunkings x 11 processor lists); "
                       "code->spec: seeded random texts<=60 chars incl. unicode white space with random chunkings via the protected loop and the public "
                       "generate_all path; distinct = (processor list, terminator style, CRLF split across chunks, ascii/unicode, text hash); "
                       "non-trivial = non-empty text" % ctx.pick(3, 4))
    ctx.cov["exhaustive"] = False
    ctx.assumptions += ["TLC and the LinePP/LineBuffer specifications", "Python re `\\s` = LinePP!WS (self-checked each run)",
                        "jinja yields one chunk per for-loop iteration (recorded chunks are those of the stimulus)"]
    ctx.not_exercised("SupportGenerator._copy_header_using_line_pps (unreachable with built-in support files: all are templates)")


def replay(ctx, case):
    if case.get("rewrite"):
        multi = MultiFile(ctx)
        outdir = multi.root / "inplace-replay"
        multi.run(case["first"], case["pps"], ("types", "support"), out=outdir, keep=True)
        for name, chunks, written in multi.run(case["second"], case["pps"], ("types", "support"), out=outdir):
            if tlc.validate_traces(ctx, "LineBufferTrace", [record(0, chunks, case["pps"], written, "rewritten-in-place")]):
                ctx.violation("C15|chunk.whole|file-rewritten-in-place|%s" % (",".join(p["k"] for p in case["pps"]) or "none"), "file %s regenerated in place differs from Whole(new text, pps)" % name, case)
        return
    if case.get("multi"):
        hit = False
        for pos, (name, chunks, written) in enumerate(MultiFile(ctx).run(case["texts"], case["pps"], case["order"])):
            rej = tlc.validate_traces(ctx, "LineBufferTrace", [record(0, chunks, case["pps"], written, "multi-file")])
            if rej:
                ctx.violation("C15|chunk.whole|file-%s-written-after-others|%s" % ("support" if name == "support" else "type", ",".join(p["k"] for p in case["pps"])),
                              "file %d (%s) differs from Whole(its own text, pps)" % (pos + 1, name), case)
        return
    if case.get("path") == "linebuffer-long":
        chunks = ["".join(x[0] * x[1] if isinstance(x, list) else x for x in [c])for c in case["chunks_rle"]]
        out = run_linebuffer(chunks, case["pps"])
        K = max(len(m) for c in chunks for m in re.findall(r"y+", c)) if any("y" in c for c in chunks) else 0
        K = max([len(m) for m in re.findall(r"y+", "".join(chunks))] or [0])
        rec = {"id": 0, "path": "linebuffer-long", "text": cps(case["core"]), "chunks": [cps(case["core"])], "pps": case["pps"], "out": cps(contract(out, K))}
        if tlc.validate_traces(ctx, "LineBufferTrace", [rec]):
            ctx.violation("C15|chunk.whole|long-line|%s" % (",".join(p["k"] for p in case["pps"]) or "none"), "long line differs from Whole(text, pps)", case)
        return
    chunks_s, pps, path = case["chunks"], case["pps"], case.get("path", "linebuffer")
    if path == "linebuffer":
        out = run_linebuffer(chunks_s, pps)
    else:
        out, pps = PublicPath(ctx).run(chunks_s, pps, "c" if path.endswith("_c") else "cpp")
    recs = [record(0, chunks_s, pps, out, path)]
    judge(ctx, recs, {0: (chunks_s, pps, path)})
