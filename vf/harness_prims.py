"""Drivers for the support-library bit primitives (C14): C (any / little), C++ (bitspan / const_bitspan), Python (Serializer / Deserializer).
Commands are whitespace separated hex tokens on one line; results are JSON lines (buffers in hex)."""
import json
import pathlib
import struct
import subprocess

from .core import MachineryFailure
from .harness_py import generate

C_SRC = r"""
#include <stdio.h>
#include <stdlib.h>
#include <string.h>
#include <stdint.h>
#include <stdbool.h>
#ifdef VF_WATCH_ON
/* pointer watch: the instrumented COPY of the generated header (NativePrims(watch=True)) reports every source pointer the aligned branch of
   nunavutCopyBits forms, as a byte offset from the source buffer it was formed from */
static long vf_psrc = -1;
#define VF_WATCH(p, b) do { long vf_d_ = (long) ((intptr_t) (p) - (intptr_t) (b)); if (vf_d_ > vf_psrc) vf_psrc = vf_d_; } while (0)
#define VF_RESET() (vf_psrc = -1)
#define VF_REPORT() printf(",\"psrc\":%ld", vf_psrc)
#else
#define VF_RESET() ((void) 0)
#define VF_REPORT() ((void) 0)
#endif
#include "nunavut/support/serialization.h"
static char* cur;
static uint64_t tok(void) { while (*cur == ' ') cur++; char* e; uint64_t v = strtoull(cur, &e, 16); cur = e; return v; }
static void hex(const void* p, size_t n) { const uint8_t* b = (const uint8_t*) p; putchar('"'); for (size_t i = 0; i < n; i++) printf("%02x", b[i]); putchar('"'); }
static uint8_t* rd(size_t n) { uint8_t* b = (uint8_t*) malloc(n ? n : 1); for (size_t i = 0; i < n; i++) b[i] = (uint8_t) tok(); return b; }
static const char* kind(int rc) { return rc >= 0 ? "none" : (-rc == NUNAVUT_ERROR_SERIALIZATION_BUFFER_TOO_SMALL ? "too_small" : "other"); }
int main(void) {
    char* line = NULL; size_t cap = 0;
    while (getline(&line, &cap, stdin) > 0) {
        cur = line; char op = *cur++; unsigned long id = (unsigned long) tok();
        printf("{\"id\":%lu,", id);
        if (op == 'C') { size_t dn = tok(), doff = tok(), len = tok(), sn = tok(), soff = tok(); uint8_t* d = rd(dn); uint8_t* s = rd(sn);
            nunavutCopyBits(d, doff, len, s, soff); printf("\"out\":"); hex(d, dn); free(d); free(s); }
        else if (op == 'c') { size_t dn = tok(), doff = tok(), len = tok(), sn = tok(), soff = tok(); uint8_t* s = (uint8_t*) malloc(sn ? sn : 1); uint8_t* d = rd(dn);
            for (size_t i = 0; i < sn; i++) s[i] = (uint8_t) tok();   /* the source buffer was allocated FIRST: other address order */
            nunavutCopyBits(d, doff, len, s, soff); printf("\"out\":"); hex(d, dn); free(d); free(s); }
        else if (op == 'G') { size_t on = tok(), phys = tok(), size = tok(), off = tok(), len = tok(); uint8_t* o = rd(on); uint8_t* b = rd(phys);
            VF_RESET(); nunavutGetBits(o, b, size, off, len); printf("\"out\":"); hex(o, on); VF_REPORT(); free(o); free(b); }
        else if (op == 'U' || op == 'I') { size_t phys = tok(), size = tok(), off = tok(), len = tok(); uint64_t v = tok(); uint8_t* b = rd(phys);
            int rc = op == 'U' ? nunavutSetUxx(b, size, off, v, (uint8_t) len) : nunavutSetIxx(b, size, off, (int64_t) v, (uint8_t) len);
            printf("\"rc\":\"%s\",\"out\":", kind(rc)); hex(b, phys); free(b); }
        else if (op == 'B') { size_t phys = tok(), size = tok(), off = tok(); int bit = (int) tok(); uint8_t* b = rd(phys);
            int rc = nunavutSetBit(b, size, off, bit != 0); printf("\"rc\":\"%s\",\"out\":", kind(rc)); hex(b, phys); free(b); }
        else if (op == 'g') { int W = (int) tok(), sg = (int) tok(); size_t phys = tok(), size = tok(), off = tok(), len = tok(); uint8_t* b = rd(phys);
            uint64_t v = 0; VF_RESET();
            if (!sg) { v = W == 8 ? nunavutGetU8(b, size, off, (uint8_t) len) : W == 16 ? nunavutGetU16(b, size, off, (uint8_t) len) : W == 32 ? nunavutGetU32(b, size, off, (uint8_t) len) : nunavutGetU64(b, size, off, (uint8_t) len); }
            else { v = W == 8 ? (uint64_t)(uint8_t) nunavutGetI8(b, size, off, (uint8_t) len) : W == 16 ? (uint64_t)(uint16_t) nunavutGetI16(b, size, off, (uint8_t) len) : W == 32 ? (uint64_t)(uint32_t) nunavutGetI32(b, size, off, (uint8_t) len) : (uint64_t) nunavutGetI64(b, size, off, (uint8_t) len); }
            printf("\"val\":"); hex(&v, (size_t) W / 8); VF_REPORT(); free(b); }
        else if (op == 'b') { size_t phys = tok(), size = tok(), off = tok(); uint8_t* b = rd(phys); uint8_t v = nunavutGetBit(b, size, off) ? 1 : 0; printf("\"val\":"); hex(&v, 1); free(b); }
        else if (op == 'P') { uint32_t u = (uint32_t) tok(); float f; memcpy(&f, &u, 4); uint16_t h = nunavutFloat16Pack(f); printf("\"h\":"); hex(&h, 2); }
        else if (op == 'Q') { uint16_t h = (uint16_t) tok(); float f = nunavutFloat16Unpack(h); printf("\"f\":"); hex(&f, 4); uint16_t h2 = nunavutFloat16Pack(f); printf(",\"h2\":"); hex(&h2, 2); }
        else if (op == 'F') { int W = (int) tok(); size_t phys = tok(), size = tok(), off = tok(); uint64_t v = tok(); uint8_t* b = rd(phys); int rc;
            if (W == 64) { double d; memcpy(&d, &v, 8); rc = nunavutSetF64(b, size, off, d); } else { uint32_t u = (uint32_t) v; float f; memcpy(&f, &u, 4); rc = W == 32 ? nunavutSetF32(b, size, off, f) : nunavutSetF16(b, size, off, f); }
            printf("\"rc\":\"%s\",\"out\":", kind(rc)); hex(b, phys); free(b); }
        else if (op == 'f') { int W = (int) tok(); size_t phys = tok(), size = tok(), off = tok(); uint8_t* b = rd(phys); VF_RESET();
            if (W == 64) { double d = nunavutGetF64(b, size, off); printf("\"val\":"); hex(&d, 8); } else { float f = W == 32 ? nunavutGetF32(b, size, off) : nunavutGetF16(b, size, off); printf("\"val\":"); hex(&f, 4); }
            VF_REPORT(); free(b); }
        printf("}\n");
    }
    return 0;
}
"""

CPP_SRC = r"""
#include <cstdio>
#include <cstdlib>
#include <cstring>
#include <cstdint>
#include <sys/types.h>
#include "nunavut/support/serialization.hpp"
using namespace nunavut::support;
static char* cur;
static std::uint64_t tok() { while (*cur == ' ') cur++; char* e; std::uint64_t v = std::strtoull(cur, &e, 16); cur = e; return v; }
static void hex(const void* p, std::size_t n) { const std::uint8_t* b = static_cast<const std::uint8_t*>(p); std::putchar('"'); for (std::size_t i = 0; i < n; i++) std::printf("%02x", b[i]); std::putchar('"'); }
static std::uint8_t* rd(std::size_t n) { std::uint8_t* b = static_cast<std::uint8_t*>(std::malloc(n ? n : 1)); for (std::size_t i = 0; i < n; i++) b[i] = static_cast<std::uint8_t>(tok()); return b; }
static const char* kind(const VoidResult& r) { return r ? "none" : (r.error() == Error::SerializationBufferTooSmall ? "too_small" : "other"); }
int main() {
    char* line = nullptr; std::size_t cap = 0;
    while (getline(&line, &cap, stdin) > 0) {
        cur = line; char op = *cur++; unsigned long id = static_cast<unsigned long>(tok());
        std::printf("{\"id\":%lu,", id);
        if (op == 'C') { std::size_t dn = tok(), doff = tok(), len = tok(), sn = tok(), soff = tok(); std::uint8_t* d = rd(dn); std::uint8_t* s = rd(sn);
            const_bitspan(s, sn, soff).copyTo(bitspan(d, dn, doff), len); std::printf("\"out\":"); hex(d, dn); std::free(d); std::free(s); }
        else if (op == 'c') { std::size_t dn = tok(), doff = tok(), len = tok(), sn = tok(), soff = tok(); std::uint8_t* s = static_cast<std::uint8_t*>(std::malloc(sn ? sn : 1)); std::uint8_t* d = rd(dn);
            for (std::size_t i = 0; i < sn; i++) s[i] = static_cast<std::uint8_t>(tok());
            const_bitspan(s, sn, soff).copyTo(bitspan(d, dn, doff), len); std::printf("\"out\":"); hex(d, dn); std::free(d); std::free(s); }
        else if (op == 'G') { std::size_t on = tok(), phys = tok(), size = tok(), off = tok(), len = tok(); std::uint8_t* o = rd(on); std::uint8_t* b = rd(phys);
            const_bitspan(b, size, off).getBits(bytespan(o, on), len); std::printf("\"out\":"); hex(o, on); std::free(o); std::free(b); }
        else if (op == 'U' || op == 'I') { std::size_t phys = tok(), size = tok(), off = tok(), len = tok(); std::uint64_t v = tok(); std::uint8_t* b = rd(phys);
            bitspan sp(b, size, off); const auto r = op == 'U' ? sp.setUxx(v, static_cast<std::uint8_t>(len)) : sp.setIxx(static_cast<std::int64_t>(v), static_cast<std::uint8_t>(len));
            std::printf("\"rc\":\"%s\",\"out\":", kind(r)); hex(b, phys); std::free(b); }
        else if (op == 'B') { std::size_t phys = tok(), size = tok(), off = tok(); int bit = static_cast<int>(tok()); std::uint8_t* b = rd(phys);
            const auto r = bitspan(b, size, off).setBit(bit != 0); std::printf("\"rc\":\"%s\",\"out\":", kind(r)); hex(b, phys); std::free(b); }
        else if (op == 'g') { int W = static_cast<int>(tok()), sg = static_cast<int>(tok()); std::size_t phys = tok(), size = tok(), off = tok(), len = tok(); std::uint8_t* b = rd(phys);
            const_bitspan sp(b, size, off); std::uint64_t v = 0; const std::uint8_t n = static_cast<std::uint8_t>(len);
            if (!sg) { v = W == 8 ? sp.getU8(n) : W == 16 ? sp.getU16(n) : W == 32 ? sp.getU32(n) : sp.getU64(n); }
            else { v = W == 8 ? static_cast<std::uint64_t>(static_cast<std::uint8_t>(sp.getI8(n))) : W == 16 ? static_cast<std::uint64_t>(static_cast<std::uint16_t>(sp.getI16(n))) : W == 32 ? static_cast<std::uint64_t>(static_cast<std::uint32_t>(sp.getI32(n))) : static_cast<std::uint64_t>(sp.getI64(n)); }
            std::printf("\"val\":"); hex(&v, static_cast<std::size_t>(W) / 8); std::free(b); }
        else if (op == 'b') { std::size_t phys = tok(), size = tok(), off = tok(); std::uint8_t* b = rd(phys); std::uint8_t v = const_bitspan(b, size, off).getBit() ? 1 : 0; std::printf("\"val\":"); hex(&v, 1); std::free(b); }
        else if (op == 'P') { std::uint32_t u = static_cast<std::uint32_t>(tok()); float f; std::memcpy(&f, &u, 4); std::uint16_t h = float16Pack(f); std::printf("\"h\":"); hex(&h, 2); }
        else if (op == 'Q') { std::uint16_t h = static_cast<std::uint16_t>(tok()); float f = float16Unpack(h); std::printf("\"f\":"); hex(&f, 4); std::uint16_t h2 = float16Pack(f); std::printf(",\"h2\":"); hex(&h2, 2); }
        else if (op == 'F') { int W = static_cast<int>(tok()); std::size_t phys = tok(), size = tok(), off = tok(); std::uint64_t v = tok(); std::uint8_t* b = rd(phys); bitspan sp(b, size, off);
            VoidResult r = VoidResult();
            if (W == 64) { double d; std::memcpy(&d, &v, 8); r = sp.setF64(d); } else { std::uint32_t u = static_cast<std::uint32_t>(v); float f; std::memcpy(&f, &u, 4); r = W == 32 ? sp.setF32(f) : sp.setF16(f); }
            std::printf("\"rc\":\"%s\",\"out\":", kind(r)); hex(b, phys); std::free(b); }
        else if (op == 'f') { int W = static_cast<int>(tok()); std::size_t phys = tok(), size = tok(), off = tok(); std::uint8_t* b = rd(phys); const_bitspan sp(b, size, off);
            if (W == 64) { double d = sp.getF64(); std::printf("\"val\":"); hex(&d, 8); } else { float f = W == 32 ? sp.getF32() : sp.getF16(); std::printf("\"val\":"); hex(&f, 4); }
            std::free(b); }
        std::printf("}\n");
    }
    return 0;
}
"""


def _support(scratch, lang, options, tag):
    root = pathlib.Path(scratch) / ("prims_" + tag)
    ns = root / "dsdl" / "pns"
    ns.mkdir(parents=True, exist_ok=True)
    (ns / "T.1.0.dsdl").write_text("uint8 a\n@sealed\n")
    generate(lang, ns, root / "out", language_options=options)
    return root


class NativePrims:
    kinds = True

    def __init__(self, scratch, lang, options, tag, sanitize=False, watch=False):
        self.name = tag
        root = _support(scratch, lang, options, tag)
        self.watching = False
        if watch and lang == "c":
            # instrument a COPY of the generated support header (scratch only): report the source pointer of the aligned copy branch where it is formed
            import re

            hdr = root / "out" / "nunavut" / "support" / "serialization.h"
            text = hdr.read_text()
            new, n = re.subn(r"^([ \t]*)const uint8_t\* const psrc = \(src_offset_bits / 8U\) \+ \(const uint8_t\*\) src;[^\n]*$",
                             lambda m: m.group(0) + "\n" + m.group(1) + "VF_WATCH(psrc, src);", text, flags=re.M)
            if n == 1:
                hdr.write_text(new)
                self.watching = True
        src = root / ("driver.c" if lang == "c" else "driver.cpp")
        src.write_text(C_SRC if lang == "c" else CPP_SRC)
        self.exe = root / "driver"
        if lang == "c":
            cmd = ["clang" if sanitize else "gcc", "-std=c11", "-D_POSIX_C_SOURCE=200809L", "-O1", "-w", "-I", str(root / "out"), str(src), "-o", str(self.exe), "-lm"]
        else:
            cmd = ["clang++" if sanitize else "g++", "-std=c++14", "-O1", "-w", "-I", str(root / "out"), str(src), "-o", str(self.exe)]
        if sanitize:
            cmd[1:1] = ["-fsanitize=address,undefined", "-fno-sanitize-recover=all"]
        if self.watching:
            cmd[1:1] = ["-DVF_WATCH_ON"]
        if options.get("enable_serialization_asserts"):
            cmd[1:1] = ["-DNUNAVUT_ASSERT=assert", "-include", "assert.h" if lang == "c" else "cassert"]
        p = subprocess.run(cmd, stdout=subprocess.PIPE, stderr=subprocess.STDOUT, text=True)
        if p.returncode != 0:
            raise MachineryFailure("primitive driver (%s) does not compile:\n%s" % (tag, p.stdout[-3000:]))

    def run(self, commands):
        """commands: list of (id, line) -> {id: result}; a crash leaves the remaining commands without result"""
        out = {}
        pending = list(commands)
        while pending:
            p = subprocess.run([str(self.exe)], input="\n".join(c for _, c in pending) + "\n", stdout=subprocess.PIPE, stderr=subprocess.PIPE, text=True)
            n = 0
            for ln in p.stdout.splitlines():
                try:
                    r = json.loads(ln)
                except ValueError:
                    break
                out[r["id"]] = r
                n += 1
            if n >= len(pending):
                break
            out[pending[n][0]] = {"id": pending[n][0], "crash": p.stderr[-1500:]}
            pending = pending[n + 1:]
        return out


class PyPrims:
    """Python support library: offset positioning through skip_bits on a zeroed Serializer / on a Deserializer over the declared bytes"""
    kinds = False
    name = "py"

    def __init__(self, ctx):
        import importlib
        import sys

        root = _support(ctx.scratch, "py", {}, "py")
        sys.path.insert(0, str(root / "out"))
        if "nunavut_support" in sys.modules and not str(getattr(sys.modules["nunavut_support"], "__file__", "")).startswith(str(ctx.scratch)):
            del sys.modules["nunavut_support"]
        self.s = importlib.import_module("nunavut_support")

    def set_int(self, size, off, val, length, signed):
        ser = self.s.Serializer.new(size)
        ser.skip_bits(off)
        if signed:
            (ser.add_aligned_signed if off % 8 == 0 else ser.add_unaligned_signed)(val, length)
        else:
            (ser.add_aligned_unsigned if off % 8 == 0 else ser.add_unaligned_unsigned)(val, length)
        return bytes(ser.buffer.tobytes())

    def set_float(self, size, off, W, x):
        ser = self.s.Serializer.new(size)
        ser.skip_bits(off)
        getattr(ser, ("add_aligned_f%d" if off % 8 == 0 else "add_unaligned_f%d") % W)(x)
        return bytes(ser.buffer.tobytes())

    def set_bits(self, size, off, bits):
        import numpy

        ser = self.s.Serializer.new(size)
        ser.skip_bits(off)
        (ser.add_aligned_array_of_bits if off % 8 == 0 else ser.add_unaligned_array_of_bits)(numpy.array(bits, dtype=numpy.bool_))
        return bytes(ser.buffer.tobytes())

    def get_int(self, data, off, length, signed):
        des = self.s.Deserializer.new([memoryview(bytearray(data))])
        des.skip_bits(off)
        if signed:
            return (des.fetch_aligned_signed if off % 8 == 0 else des.fetch_unaligned_signed)(length)
        return (des.fetch_aligned_unsigned if off % 8 == 0 else des.fetch_unaligned_unsigned)(length)

    def get_float(self, data, off, W):
        des = self.s.Deserializer.new([memoryview(bytearray(data))])
        des.skip_bits(off)
        return float(getattr(des, ("fetch_aligned_f%d" if off % 8 == 0 else "fetch_unaligned_f%d") % W)())

    def get_bits(self, data, off, n):
        des = self.s.Deserializer.new([memoryview(bytearray(data))])
        des.skip_bits(off)
        return [int(b) for b in (des.fetch_aligned_array_of_bits if off % 8 == 0 else des.fetch_unaligned_array_of_bits)(n)]


def f32bits(x):
    return struct.unpack("<I", struct.pack("<f", x))[0]
