"""C++ target: same command protocol as the C driver (see harness_c), objects handled through the generated public API."""
import subprocess

from . import dsdl
from .core import MachineryFailure
from .harness_c import CTarget, tokens, unhex  # noqa: F401 (re-exported)
from .harness_py import generate

_counter = [0]

PRELUDE = r"""
#include <cstdio>
#include <cstdlib>
#include <cstring>
#include <cstdint>
#include <cassert>
#include <vector>
#include <array>
#include <bitset>
#include <new>
#include <memory>
#include <sys/types.h>
%(includes)s

static char* cur;
static std::uint64_t tok() {
    while (*cur == ' ') cur++;
    char* e; std::uint64_t v = std::strtoull(cur, &e, 16); cur = e; return v;
}
static void hex(const void* p, std::size_t n) {
    const std::uint8_t* b = static_cast<const std::uint8_t*>(p); std::putchar('"');
    for (std::size_t i = 0; i < n; i++) std::printf("%%02x", b[i]);
    std::putchar('"');
}
template <typename T> static void hexv(const T& v) { hex(&v, sizeof(T)); }
static void hexb(bool b) { std::printf("\"%%02x\"", b ? 1u : 0u); }
static const char* kind(const nunavut::support::SerializeResult& r) {
    if (r) return "none";
    switch (r.error()) {
    case nunavut::support::Error::SerializationBufferTooSmall: return "too_small";
    case nunavut::support::Error::SerializationBadArrayLength: return "bad_len";
    case nunavut::support::Error::RepresentationBadUnionTag: return "bad_tag";
    case nunavut::support::Error::RepresentationBadDelimiterHeader: return "bad_header";
    }
    return "other";
}
template <typename T> static T mkf(std::uint64_t u) { T x; std::memcpy(&x, &u, sizeof(T)); return x; }
#define GUARD 16
"""

MAIN = r"""
int main() {
    char* line = nullptr; std::size_t cap = 0; ssize_t n;
    std::setvbuf(stdout, nullptr, _IOFBF, 1 << 16);
    while ((n = getline(&line, &cap, stdin)) > 0) {
        cur = line;
        char op = *cur++;
        unsigned long id = static_cast<unsigned long>(tok());
        int ti = static_cast<int>(tok());
        std::printf("{\"call\":%lu}\n", id); std::fflush(stdout);
        if (op == 'S') {
            std::size_t bufsize = static_cast<std::size_t>(tok()); int prefill = static_cast<int>(tok());
            std::uint8_t* raw = static_cast<std::uint8_t*>(std::malloc(bufsize + GUARD));
            std::memset(raw, prefill, bufsize); std::memset(raw + bufsize, 0xCD, GUARD);
            std::printf("{\"id\":%lu,", id);
            do_ser(ti, raw, bufsize);
            int guard = 1; for (int i = 0; i < GUARD; i++) if (raw[bufsize + i] != 0xCD) guard = 0;
            std::printf(",\"guard\":%d}\n", guard);
            std::free(raw);
        } else if (op == 'D') {
            std::size_t declared = static_cast<std::size_t>(tok()); std::size_t alloc = static_cast<std::size_t>(tok());
            int isnull = static_cast<int>(tok()); int prior = static_cast<int>(tok());
            std::uint8_t* raw = isnull ? nullptr : static_cast<std::uint8_t*>(std::malloc(alloc ? alloc : 1));
            for (std::size_t i = 0; i < alloc; i++) raw[i] = static_cast<std::uint8_t>(tok());
            std::printf("{\"id\":%lu,", id);
            do_des(ti, raw, declared, prior);
            std::printf("}\n");
            std::free(raw);
        } else if (op == 'M') {
            std::printf("{\"id\":%lu,", id); do_meta(ti); std::printf("}\n");
        } else if (op == 'R') {
            std::size_t declared = static_cast<std::size_t>(tok()); std::size_t alloc = static_cast<std::size_t>(tok());
            int isnull = static_cast<int>(tok()); (void) tok();
            std::uint8_t* raw = isnull ? nullptr : static_cast<std::uint8_t*>(std::malloc(alloc ? alloc : 1));
            for (std::size_t i = 0; i < alloc; i++) raw[i] = static_cast<std::uint8_t>(tok());
            std::printf("{\"id\":%lu,", id); do_rt(ti, raw, declared); std::printf("}\n");
            std::free(raw);
        }
        std::fflush(stdout);
    }
    std::free(line);
    drop_all();
    return 0;
}
"""


class CppGen:
    def __init__(self, ts):
        self.ts = ts
        self.tmp = 0

    def cname(self, t):
        if t.get("svc"):
            return "%s::%s::%s_1_0" % (self.ts.ns, t["name"], t["svc"])
        return "%s::%s_1_0" % (self.ts.ns, t["name"])

    @staticmethod
    def fn(t):
        return t["name"] + (t["svc"] if t.get("svc") else "")

    def stype(self, t):
        k = t["k"]
        if k == "uint":
            return "std::uint%d_t" % dsdl.store_w(t["w"])
        if k == "int":
            return "std::int%d_t" % dsdl.store_w(t["w"])
        if k == "float":
            return "double" if t["w"] == 64 else "float"
        if k == "bool":
            return "bool"
        return self.cname(t)

    def var(self):
        self.tmp += 1
        return "_i%d" % self.tmp

    def rd(self, t):
        """expression reading one leaf value from the token stream"""
        k = t["k"]
        if k == "uint":
            return "static_cast<%s>(tok())" % self.stype(t)
        if k == "int":
            s = dsdl.store_w(t["w"])
            return "static_cast<std::int%d_t>(static_cast<std::uint%d_t>(tok()))" % (s, s)
        if k == "bool":
            return "(tok() != 0)"
        if k == "float":
            return "mkf<%s>(tok())" % self.stype(t)
        raise ValueError(k)

    def fill_field(self, f, lv, out, ind):
        p = "    " * ind
        k = f["k"]
        if k in ("uint", "int", "bool", "float"):
            out.append("%s%s = %s;" % (p, lv, self.rd(f)))
        elif k == "void":
            pass
        elif dsdl.is_comp(f):
            out.append("%sfill_%s(%s);" % (p, self.fn(f), lv))
        elif k == "farr":
            e = f["e"]
            i = self.var()
            out.append("%sfor (std::size_t %s = 0; %s < %d; %s++) {" % (p, i, i, f["n"], i))
            if dsdl.is_comp(e):
                out.append("%s    fill_%s(%s[%s]);" % (p, self.fn(e), lv, i))
            else:
                out.append("%s    %s[%s] = %s;" % (p, lv, i, self.rd(e)))
            out.append("%s}" % p)
        elif k == "varr":
            e = f["e"]
            i = self.var()
            out.append("%s{ std::size_t _count = static_cast<std::size_t>(tok()); std::size_t _n = static_cast<std::size_t>(tok());" % p)
            out.append("%s  %s.clear();" % (p, lv))
            out.append("%s  for (std::size_t %s = 0; %s < _n; %s++) {" % (p, i, i, i))
            if dsdl.is_comp(e):
                out.append("%s    %s.emplace_back(); fill_%s(%s.back());" % (p, lv, self.fn(e), lv))
            else:
                out.append("%s    %s.push_back(%s);" % (p, lv, self.rd(e)))
            out.append("%s  }" % p)
            out.append("%s  for (std::size_t %s = _n; %s < _count; %s++) %s.push_back(%s()); }" % (p, i, i, i, lv, self.stype(e)))

    def fill_fn(self, t):
        out = ["static void fill_%s(%s& o) {" % (self.fn(t), self.cname(t)), "    (void) o;"]
        if t["k"] == "struct":
            for i, f in enumerate(t["fields"]):
                self.fill_field(f, "o.f%d" % i, out, 1)
        else:
            out.append("    switch (tok()) {")
            for i, f in enumerate(t["fields"]):
                out.append("    case %d: { auto& m = o.set_f%d();" % (i, i))
                self.fill_field(f, "m", out, 2)
                out.append("        break; }")
            out.append("    default: break;")
            out.append("    }")
        out.append("}")
        return "\n".join(out)

    def dump_field(self, f, lv, out, ind):
        p = "    " * ind
        k = f["k"]
        if k in ("uint", "int", "float"):
            out.append("%shexv(%s);" % (p, lv))
        elif k == "bool":
            out.append("%shexb(%s);" % (p, lv))
        elif k == "void":
            out.append('%sstd::printf("[]");' % p)
        elif dsdl.is_comp(f):
            out.append("%sdump_%s(%s);" % (p, self.fn(f), lv))
        elif k in ("farr", "varr"):
            e = f["e"]
            i = self.var()
            if k == "farr":
                out.append("%sstd::putchar('[');" % p)
                out.append("%sfor (std::size_t %s = 0; %s < %d; %s++) { if (%s) std::putchar(',');" % (p, i, i, f["n"], i, i))
            else:
                out.append('%sstd::printf("{\\"n\\":%%lu,\\"e\\":[", static_cast<unsigned long>(%s.size()));' % (p, lv))
                out.append("%sfor (std::size_t %s = 0; %s < %s.size(); %s++) { if (%s) std::putchar(',');" % (p, i, i, lv, i, i))
            if dsdl.is_comp(e):
                out.append("%s    dump_%s(%s[%s]);" % (p, self.fn(e), lv, i))
            elif e["k"] == "bool":
                out.append("%s    hexb(%s[%s]);" % (p, lv, i))
            else:
                out.append("%s    { %s _x = %s[%s]; hexv(_x); }" % (p, self.stype(e), lv, i))
            out.append("%s}" % p)
            out.append('%sstd::printf("%s");' % (p, "]" if k == "farr" else "]}"))

    def dump_fn(self, t):
        out = ["static void dump_%s(const %s& o) {" % (self.fn(t), self.cname(t)), "    (void) o;"]
        if t["k"] == "struct":
            out.append("    std::putchar('[');")
            for i, f in enumerate(t["fields"]):
                if i:
                    out.append("    std::putchar(',');")
                self.dump_field(f, "o.f%d" % i, out, 1)
            out.append("    std::putchar(']');")
        else:
            for i, f in enumerate(t["fields"]):
                out.append('    %sif (o.is_f%d()) { std::printf("{\\"tag\\":%d,\\"v\\":");' % ("else " if i else "", i, i))
                self.dump_field(f, "o.get_f%d()" % i, out, 2)
                out.append("        std::putchar('}'); }")
            out.append('    else std::printf("{\\"tag\\":255,\\"v\\":[]}");')
        out.append("}")
        return "\n".join(out)

    def source(self):
        parts = [PRELUDE % {"includes": "\n".join('#include "%s/%s_1_0.hpp"' % (self.ts.ns, t["name"]) for t in self.ts.all)}]
        for t in self.ts.all + [t["partner"] for t in self.ts.all if "partner" in t]:
            parts.append(self.fill_fn(t))
            parts.append(self.dump_fn(t))
        tops = self.ts.tops
        parts.append("static void* keep[%d];" % max(1, len(tops)))
        ser = ["static void do_ser(int ti, std::uint8_t* buf, std::size_t bufsize) {", "    switch (ti) {"]
        des = ["static void do_des(int ti, const std::uint8_t* buf, std::size_t size, int prior) {", "    switch (ti) {"]
        meta = ["static void do_meta(int ti) {", "    switch (ti) {"]
        drop = ["static void drop_all() {"]
        for i, t in enumerate(tops):
            cn = self.cname(t)
            ser.append("    case %d: { std::unique_ptr<%s> o(new %s()); fill_%s(*o);" % (i, cn, cn, self.fn(t)))
            ser.append("        const auto r = serialize(*o, nunavut::support::bitspan(buf, bufsize));")
            ser.append('        std::printf("\\"err\\":\\"%s\\",\\"size\\":%lu,\\"bytes\\":", kind(r), static_cast<unsigned long>(r ? r.value() : 0));')
            ser.append("        hex(buf, (r && r.value() <= bufsize) ? r.value() : 0); break; }")
            des.append("    case %d: { %s* o; if (prior == 2 && keep[%d]) o = static_cast<%s*>(keep[%d]); else { o = new %s();" % (i, cn, i, cn, i, cn))
            des.append("            if (prior == 1) { std::uint8_t junk[%d]; std::memset(junk, 0x01, sizeof junk); junk[0] = 0; (void) deserialize(*o, nunavut::support::const_bitspan(static_cast<const std::uint8_t*>(junk), sizeof junk)); } }"
                       % max(8, min(64, dsdl.max_bits_body(t) // 8 + 1)))
            des.append("        const auto r = deserialize(*o, nunavut::support::const_bitspan(buf, size));")
            des.append('        std::printf("\\"err\\":\\"%s\\",\\"consumed\\":%lu,\\"val\\":", kind(r), static_cast<unsigned long>(r ? r.value() : 0));')
            des.append('        if (r) dump_%s(*o); else std::printf("[]");' % self.fn(t))
            des.append("        if (keep[%d] && keep[%d] != o) delete static_cast<%s*>(keep[%d]); keep[%d] = o; break; }" % (i, i, cn, i, i))
            meta.append('    case %d: std::printf("\\"extent\\":%%lu,\\"bufsize\\":%%lu,\\"sizeof\\":%%lu", static_cast<unsigned long>(%s::_traits_::ExtentBytes), static_cast<unsigned long>(%s::_traits_::SerializationBufferSizeBytes), static_cast<unsigned long>(sizeof(%s))); break;'
                        % (i, cn, cn, cn))
            drop.append("    if (keep[%d]) { delete static_cast<%s*>(keep[%d]); keep[%d] = nullptr; }" % (i, cn, i, i))
        rt = ["static void do_rt(int ti, const std::uint8_t* buf, std::size_t size) {", "    switch (ti) {"]
        for i, t in enumerate(tops):
            cn = self.cname(t)
            rt.append("    case %d: { std::unique_ptr<%s> o(new %s()); const auto r = deserialize(*o, nunavut::support::const_bitspan(buf, size));" % (i, cn, cn))
            rt.append('        std::printf("\\"err\\":\\"%s\\",\\"consumed\\":%lu,", kind(r), static_cast<unsigned long>(r ? r.value() : 0));')
            rt.append("        std::size_t n2 = %s::_traits_::SerializationBufferSizeBytes; std::vector<std::uint8_t> b2(n2 ? n2 : 1, 0x5A);" % cn)
            rt.append("        if (r) { const auto r2 = serialize(*o, nunavut::support::bitspan(b2.data(), n2));")
            rt.append('            std::printf("\\"err2\\":\\"%s\\",\\"bytes2\\":", kind(r2)); hex(b2.data(), r2 ? r2.value() : 0); }')
            rt.append('        else std::printf("\\"err2\\":\\"other\\",\\"bytes2\\":\\"\\""); break; }')
        rt += ["    default: break;", "    }", "}"]
        ser += ["    default: break;", "    }", "}"]
        des += ["    default: break;", "    }", "}"]
        meta += ["    default: break;", "    }", "}"]
        drop += ["}"]
        parts += ["\n".join(ser), "\n".join(des), "\n".join(meta), "\n".join(rt), "\n".join(drop), MAIN]
        return "\n\n".join(parts)


class CppTarget(CTarget):
    L = "c"  # same storage policy as C (smallest standard integer, float16 held in a float)
    kinds = True

    def __init__(self, scratch, types, options=None, sanitize=False, std="c++14", tag="cpp", cc=None, extra_flags=(), uid=None, files=None):
        import copy
        import os
        import pathlib

        _counter[0] += 1
        uid = uid if uid is not None else "%d_%d" % (os.getpid(), _counter[0])
        self.options = dict(options or {})
        self.options.setdefault("std", std)
        self.std = std
        self.ts = dsdl.TypeSet("vcpp%s" % uid)
        self.types = copy.deepcopy(list(types))
        for t in self.types:
            self.ts.add(t)
        self.root = pathlib.Path(scratch) / ("%s%s" % (tag, uid))
        nsdir = self.ts.write(self.root / "dsdl")
        self.out = self.root / "out"
        generate("cpp", nsdir, self.out, language_options=self.options)
        for name, text in (files or {}).items():
            (self.out / name).write_text(text)
        src = self.root / "driver.cpp"
        src.write_text(CppGen(self.ts).source())
        self.exe = self.root / "driver"
        self.sanitize = sanitize
        cc = cc or ("clang++" if sanitize else "g++")
        cstd = "c++17" if std.startswith("c++17") else std
        cmd = [cc, "-std=" + cstd, "-O1", "-g" if sanitize else "-g0", "-I", str(self.out), str(src), "-o", str(self.exe), "-w"]
        if sanitize:
            cmd[1:1] = ["-fsanitize=address,undefined", "-fno-sanitize-recover=all", "-fno-omit-frame-pointer"]
        if self.options.get("enable_serialization_asserts"):
            cmd[1:1] = ["-DNUNAVUT_ASSERT=assert"]
        cmd[1:1] = list(extra_flags)
        p = subprocess.run(cmd, stdout=subprocess.PIPE, stderr=subprocess.STDOUT, text=True)
        self.build_rc = p.returncode
        self.build_log = p.stdout
        if p.returncode != 0:
            from .harness_c import GeneratedCodeDoesNotCompile, _first_error_in

            raise (GeneratedCodeDoesNotCompile if _first_error_in(p.stdout, str(self.out)) else MachineryFailure)(
                "C++ driver does not compile (options %r):\n%s" % (self.options, p.stdout[-3000:]))
