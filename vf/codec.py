"""Shared campaign for the generated-codec properties (C01 C02 C03 C04 C05): type universe, targets built from /repo's working
tree, stimuli shared by all targets, event recording, judgement by the TLA+ trace spec CodecTrace (DsdlWire operators)."""
import concurrent.futures
import copy
import json
import math
import multiprocessing
import struct
import time

from . import dsdl, tlc
from .core import MachineryFailure, NCPU, sha


# ------------------------------------------------------------------ target specs

def spec(kind, name, options=None, sanitize=False, std=None, frac=1.0, flags=(), files=None):
    return {"kind": kind, "name": name, "options": dict(options or {}), "sanitize": sanitize, "std": std, "frac": frac, "flags": list(flags),
            "files": dict(files or {})}


# a user-supplied container for variable-length arrays (documented C++ options variable_array_type_include / _template)
CUSTOM_VLA_HEADER = """#pragma once
#include <vector>
namespace vf {
template <typename T> struct Vec : public std::vector<T> { using std::vector<T>::vector; };
}
"""
CUSTOM_VLA_OPTIONS = {"variable_array_type_include": '"vf_vec.hpp"', "variable_array_type_template": "vf::Vec<{TYPE}>"}


def _build(job):
    """runs in a worker process: generate with nunavut (from $VERIF_REPO) and compile the driver"""
    sp, types, scratch, uid = job
    from .harness_c import CTarget
    from .harness_cpp import CppTarget

    t0 = time.time()
    try:
        if sp["kind"] == "c":
            tg = CTarget(scratch, types, options=sp["options"], sanitize=sp["sanitize"], uid=uid, extra_flags=[f.replace("@NS@", "vc" + uid) for f in sp.get("flags", ())])
        else:
            tg = CppTarget(scratch, types, options=sp["options"], sanitize=sp["sanitize"], std=sp["std"] or "c++14", uid=uid, files=sp.get("files"))
        return ("ok", tg, time.time() - t0)
    except MachineryFailure as e:
        return ("fail", str(e), time.time() - t0)
    except __import__("vf.harness_c", fromlist=["x"]).GeneratedCodeDoesNotCompile as e:
        return ("genfail", "generated code does not compile (C06's clause): " + str(e)[-1500:], time.time() - t0)
    except Exception as e:  # generation itself failed: that is an observation about /repo, reported by the caller
        import traceback

        return ("genfail", "%s: %s\n%s" % (type(e).__name__, e, traceback.format_exc()[-1500:]), time.time() - t0)


class Built:
    """one compiled driver for a batch of types of one target spec"""

    def __init__(self, sp, tg, base):
        self.sp = sp
        self.tg = tg
        self.base = base  # index of the first type of the batch in the universe


# ------------------------------------------------------------------ stimuli

F_MAX = {16: 65504.0, 32: 3.4028234663852886e38}


def f16r(x):
    try:
        return struct.unpack("<e", struct.pack("<e", x))[0]
    except OverflowError:
        return math.copysign(math.inf, x)


def common_value(t, v, in_array=False):
    """restrict an abstract value to what EVERY target can hold: declared integer ranges, floats inside the declared range and
    exactly representable in the storage every target uses (float32 for scalar f16/f32 in C, the declared width inside Python arrays)"""
    k = t["k"]
    if k == "uint":
        return v & ((1 << t["w"]) - 1)
    if k == "int":
        w = t["w"]
        v &= (1 << w) - 1
        return v - (1 << w) if v >> (w - 1) else v
    if k == "float":
        if t["w"] == 64:
            return v
        x = dsdl.f32(v)
        if math.isfinite(x) and abs(x) > F_MAX[t["w"]]:
            x = math.copysign(F_MAX[t["w"]], x)
        if in_array and t["w"] == 16:
            x = f16r(x)
        return x
    if dsdl.is_prim(t):
        return v
    if k == "farr":
        return [common_value(t["e"], x, True) for x in v]
    if k == "varr":
        if isinstance(v, tuple):
            v = v[2]
        return [common_value(t["e"], x, True) for x in v]
    if k == "struct":
        return [common_value(f, x) for f, x in zip(t["fields"], v)]
    tag, x = v
    if tag >= len(t["fields"]):
        tag = 0
        x = dsdl.rand_value(__import__("random").Random(1), t["fields"][0], mode="zero")
    return (tag, common_value(t["fields"][tag], x))


def has_bad_tag(t, v):
    k = t["k"]
    if dsdl.is_prim(t):
        return False
    if k in ("farr", "varr"):
        vs = v[2] if isinstance(v, tuple) else v
        return any(has_bad_tag(t["e"], x) for x in vs)
    if k == "struct":
        return any(has_bad_tag(f, x) for f, x in zip(t["fields"], v))
    return v[0] >= len(t["fields"]) or has_bad_tag(t["fields"][v[0]], v[1])


def byte_strings(rng, valid, maxbytes, n_random, thorough, evolve=None):
    """byte strings for deserialization built from valid encodings: every truncation (sampled when long), extension with
    garbage, single-bit flips (hit length prefixes, tags, delimiter headers), random strings, the empty string"""
    res = []
    seen = set()

    def add(b, why):
        b = bytes(b)
        if (b, why == "null") not in seen and len(b) <= maxbytes + 12:
            seen.add((b, why == "null"))
            res.append((b, why))

    add(b"", "empty")
    add(b"", "null")
    for enc in valid:
        add(enc, "valid")
        if evolve is not None:
            for b, why in evolve(enc):
                if len(b) <= maxbytes + 12:
                    add(b, why)
        cuts = range(len(enc)) if len(enc) <= (40 if thorough else 12) else sorted(set(rng.sample(range(len(enc)), 10 if thorough else 5)) | {1, len(enc) - 1})
        for c in cuts:
            add(enc[:c], "truncated")
        add(enc + bytes(rng.getrandbits(8) for _ in range(rng.randint(1, 5))), "extended")
        if enc:
            for _ in range(6 if thorough else 3):
                b = bytearray(enc)
                pos = rng.randrange(min(len(b), 10)) if rng.random() < 0.7 else rng.randrange(len(b))
                b[pos] ^= 1 << rng.randrange(8)
                add(b, "bitflip")
            b = bytearray(enc)
            b[rng.randrange(len(b))] = rng.choice([0xFF, 0x80, 0x7F, 0x00])
            add(b, "byteset")
    for _ in range(n_random):
        n = rng.randint(0, maxbytes + 2)
        mode = rng.random()
        if mode < 0.3:
            add(bytes(rng.choice([0, 0xFF, 1, 2, 3]) for _ in range(n)), "random-small")
        else:
            add(bytes(rng.getrandbits(8) for _ in range(n)), "random")
    return res


# ------------------------------------------------------------------ the campaign


class Campaign:
    def __init__(self, ctx, types, specs, with_py=True, batch=40):
        self.ctx = ctx
        self.types = types
        self.specs = specs
        self.with_py = with_py
        self.batch = batch
        self.built = {}  # spec name -> list of Built
        self.py = None
        self.gen_failures = []
        self.next_id = 0
        self.records = []  # (case, order, record)
        self.stim = {}  # record id -> info for violation reports
        self.ncase = 0

    # -- building
    def build(self):
        ctx = self.ctx
        jobs = []
        for sp in self.specs:
            n = max(1, int(len(self.types) * sp["frac"]))
            for base in range(0, n, self.batch):
                jobs.append((sp, base, min(base + self.batch, n)))
        t0 = time.time()
        mpctx = multiprocessing.get_context("fork")
        with concurrent.futures.ProcessPoolExecutor(max_workers=NCPU, mp_context=mpctx) as ex:
            futs = [ex.submit(_build, (sp, self.types[a:b], str(ctx.scratch), "%s_%d" % (sha(sp["name"])[:6], a))) for sp, a, b in jobs]
            for (sp, a, b), fu in zip(jobs, futs):
                st, tg, dt = fu.result()
                if st == "ok":
                    self.built.setdefault(sp["name"], []).append(Built(sp, tg, a))
                elif st == "genfail":
                    self.gen_failures.append((sp, a, b, tg))
                else:
                    raise MachineryFailure(tg)
        if self.with_py:
            from .harness_py import PyTarget

            self.py = PyTarget(ctx, self.types)
        ctx.cov.setdefault("build_s", 0)
        ctx.cov["build_s"] = round(ctx.cov["build_s"] + time.time() - t0, 1)
        ctx.cov["targets"] = [sp["name"] for sp in self.specs] + (["py"] if self.with_py else [])

    def new_case(self):
        self.ncase += 1
        return self.ncase

    def nid(self):
        self.next_id += 1
        return self.next_id

    def targets_for(self, ti):
        """(spec, Built, local type index) for every compiled target that contains type ti"""
        res = []
        for sp in self.specs:
            for b in self.built.get(sp["name"], []):
                if b.base <= ti < b.base + len(b.tg.types):
                    res.append((sp, b, ti - b.base))
        return res

    # -- running commands on the compiled drivers
    def run_commands(self, per_built):
        """per_built: {Built: [command strings]} -> {Built: {id: result}}"""
        out = {}
        with concurrent.futures.ThreadPoolExecutor(max_workers=NCPU) as ex:
            futs = {b: ex.submit(b.tg.run, cmds) for b, cmds in per_built.items() if cmds}
            for b, fu in futs.items():
                out[b] = fu.result()
        return out

    def add_record(self, case, rec, info):
        rec["id"] = self.nid()
        rec["case"] = case
        self.records.append(rec)
        self.stim[rec["id"]] = info
        self.ctx.count()

    # -- serialization events
    def ser_events(self, cases, buf_of=None):
        """cases: list of dict(ti, v, klass in common|wild|invalid, case); buf_of(case, need) -> offered buffer size"""
        per = {}
        back = {}
        for c in cases:
            ti, v = c["ti"], c["v"]
            t = self.types[ti]
            need = dsdl.max_bits_body(t) // 8
            for sp, b, li in self.targets_for(ti):
                if sp["kind"] == "cpp" and has_bad_tag(t, v):
                    continue  # not representable: C++ variants are type safe
                buf = need if buf_of is None else buf_of(c, need)
                cid = self.nid()
                per.setdefault(b, []).append(b.tg.cmd_ser(cid, li, v, buf, prefill=c.get("prefill", 0)))
                back[cid] = (c, sp, buf)
        res = self.run_commands(per)
        byid = {}
        for b, rs in res.items():
            for cid, r in rs.items():
                byid[cid] = (r, b)
        out = {}
        for cid, (c, sp, buf) in back.items():
            r, b = byid.get(cid, ({"crash": "no output"}, None))
            t = self.types[c["ti"]]
            info = {"ev": "ser", "target": sp["name"], "ti": c["ti"], "v": c["v"], "buf": buf, "klass": c["klass"]}
            if "crash" in r:
                out.setdefault("crash", []).append((info, r))
                continue
            rec = {"ev": "ser", "L": "c", "t": dsdl.strip(t), "v": dsdl.encode(t, c["v"], "c"), "buf": buf, "err": r["err"], "size": r["size"],
                   "bytes": list(bytes.fromhex(r["bytes"])), "guard": r["guard"], "kinds": True, "det": False}
            self.add_record(c["case"], rec, info)
            out.setdefault((c["case"], sp["name"]), rec)
        if self.py is not None:
            for c in cases:
                if c["klass"] not in ("common", "array-wild"):
                    continue
                t = self.py.types[c["ti"]]
                r = self.py.ser(t, c["v"])
                r.update(ev="ser", t=dsdl.strip(t))
                self.add_record(c["case"], r, {"ev": "ser", "target": "py", "ti": c["ti"], "v": c["v"], "klass": c["klass"]})
                out.setdefault((c["case"], "py"), r)
        return out

    # -- deserialization events
    def des_events(self, cases, op="D"):
        """cases: list of dict(ti, data, why, case, prior (0 zero,1 poison,2 keep), null)"""
        per = {}
        back = {}
        for c in cases:
            ti = c["ti"]
            for sp, b, li in self.targets_for(ti):
                priors = c.get("priors", (0,))
                for prior in priors:
                    if prior == 2 and c.get("populate") is not None:
                        # the object that is reused must hold something ELSE than what is decoded now: first decode a fully populated valid
                        # message of the type into a fresh object (kept by the driver; the result of this extra command is not judged)
                        per.setdefault(b, []).append(b.tg.cmd_des(self.nid(), li, c["populate"], prior=0, op="D"))
                    cid = self.nid()
                    per.setdefault(b, []).append(b.tg.cmd_des(cid, li, c["data"], null=c.get("null", False), prior=prior, op=op))
                    back[cid] = (c, sp, prior)
                    if prior == 2:
                        # "keep": decode the same bytes once more into the object the previous command left behind
                        pass
        res = self.run_commands(per)
        byid = {}
        for b, rs in res.items():
            for cid, r in rs.items():
                byid[cid] = r
        out = {}
        from .harness_c import unhex

        for cid, (c, sp, prior) in back.items():
            r = byid.get(cid, {"crash": "no output"})
            t = self.types[c["ti"]]
            info = {"ev": "des" if op == "D" else "rt", "target": sp["name"], "ti": c["ti"], "data": c["data"].hex(), "why": c["why"], "prior": prior,
                    "null": c.get("null", False)}
            if "crash" in r:
                out.setdefault("crash", []).append((info, r))
                continue
            if op == "D":
                rec = {"ev": "des", "L": "c", "t": dsdl.strip(t), "bytes": list(c["data"]), "err": r["err"], "consumed": r["consumed"],
                       "val": unhex(r["val"]), "kinds": True}
            else:
                rec = {"ev": "rt", "L": "c", "t": dsdl.strip(t), "bytes": list(c["data"]), "err": r["err"], "err2": r["err2"],
                       "bytes2": list(bytes.fromhex(r["bytes2"])), "kinds": True}
            case = c["case"] if not c.get("per_target") else c["case"] * 64 + 1 + [x["name"] for x in self.specs].index(sp["name"])
            self.add_record(case, rec, info)
        if self.py is not None:
            for c in cases:
                if c.get("per_target"):
                    continue
                t = self.py.types[c["ti"]]
                r = self.py.des(t, c["data"])
                o = r.pop("obj", None)
                info = {"ev": "des" if op == "D" else "rt", "target": "py", "ti": c["ti"], "data": c["data"].hex(), "why": c["why"]}
                if op == "D":
                    r.update(ev="des", t=dsdl.strip(t))
                    self.add_record(c["case"], r, info)
                else:
                    rec = {"ev": "rt", "L": "py", "t": dsdl.strip(t), "bytes": list(c["data"]), "err": r["err"], "err2": "other", "bytes2": [], "kinds": False}
                    if o is not None:
                        try:
                            d2 = b"".join(bytes(x) for x in self.py.support.serialize(o))
                            rec.update(err2="none", bytes2=list(d2))
                        except Exception as ex:  # noqa
                            rec.update(err2="error", exc=type(ex).__name__)
                    self.add_record(c["case"], rec, info)
        return out

    def meta_events(self, tis):
        per = {}
        back = {}
        for ti in tis:
            for sp, b, li in self.targets_for(ti):
                cid = self.nid()
                per.setdefault(b, []).append(b.tg.cmd_meta(cid, li))
                back[cid] = (ti, sp)
        res = self.run_commands(per)
        byid = {}
        for b, rs in res.items():
            byid.update(rs)
        for cid, (ti, sp) in back.items():
            r = byid.get(cid)
            if not r or "crash" in r:
                continue
            case = self.new_case()
            self.add_record(case, {"ev": "meta", "t": dsdl.strip(self.types[ti]), "extent": r["extent"], "bufsize": r["bufsize"]},
                            {"ev": "meta", "target": sp["name"], "ti": ti})
        if self.py is not None:
            for ti in tis:
                t = self.py.types[ti]
                case = self.new_case()
                # the Python target exports the extent only
                self.add_record(case, {"ev": "meta", "t": dsdl.strip(t), "extent": self.py.extent(t), "bufsize": -1},
                                {"ev": "meta", "target": "py", "ti": ti})

    # -- judgement
    def judge(self, batch=600):
        """sort by case (records of a case adjacent, first target first), validate, return {record id: clause}"""
        t0 = time.time()
        recs = sorted(self.records, key=lambda r: (r["case"], r["id"]))
        # batches must not split a case
        batches = []
        cur = []
        last = None
        for r in recs:
            if len(cur) >= batch and r["case"] != last:
                batches.append(cur)
                cur = []
            cur.append(r)
            last = r["case"]
        if cur:
            batches.append(cur)
        rej = {}
        with concurrent.futures.ThreadPoolExecutor(max_workers=NCPU) as ex:
            for part in ex.map(lambda b: tlc.validate_traces(self.ctx, "CodecTrace", b, batch=10 ** 9, parallel=1), batches):
                rej.update(part)
        self.ctx.cov["judge_s"] = round(self.ctx.cov.get("judge_s", 0) + time.time() - t0, 1)
        return rej

    def describe(self, rid):
        info = dict(self.stim[rid])
        t = self.types[info["ti"]]
        info["type"] = dsdl.shape(t) + ("/svc-" + t["svc"] if t.get("svc") else "")
        info["descr"] = {k: v for k, v in t.items() if k != "partner"}
        return info


# ------------------------------------------------------------------ shared pieces of the property checks

OWNER = {"ser.guard": "C01", "ser.bytes": "C01", "ser.size": "C01", "ser.rc": "C01", "ser.bad_len": "C01", "ser.bad_tag": "C01",
         "ser.too_small": "C05", "meta.extent": "C05", "meta.bufsize": "C05",
         "des.rc": "C02", "des.value": "C02", "des.consumed": "C02", "des.consumed_le_supplied": "C02", "des.bad_len": "C02",
         "des.bad_tag": "C02", "des.bad_header": "C02",
         "cross.rc": "C03", "cross.bytes": "C03", "cross.value": "C03", "cross.consumed": "C03", "rt.rc": "C03", "rt.bytes": "C03"}


def universe(ctx, n_rand, level, depth=2, big=True):
    """enumerated small universe + seeded random composites.  TLC's cost per record grows faster than linearly with the size of
    the type, so most random types are kept below ~50 bytes and only every 8th may be large (long arrays, deep nesting)."""
    types = dsdl.small_universe(level)
    rng = __import__("random").Random(ctx.seed * 7919 + 17)
    i = 0
    while i < n_rand:
        large = big and i % 8 == 7
        t = dsdl.rand_composite(rng, rng.choice([1, depth, depth]), big=large and i % 16 == 15)
        # (decoding a 3000-byte input of a 24000-bit type costs TLC ~10 s per record: a batch of them ran into the validation timeout)
        limit = (4000 if level == 1 else 8000) if large else 400
        if dsdl.max_bits_body(t) > limit:
            continue
        types.append(t)
        i += 1
    # option-set variants are built for a PREFIX of the list (spec["frac"]) and quick tiers sub-sample it: a fixed shuffle makes every prefix and
    # every stride a fair sample of all shapes (independent of the seed, so the enumerated part of the universe is the same for every seed)
    __import__("random").Random(20260926).shuffle(types)
    return types


def mark_services(types, pairs=6):
    """turn the first `pairs` adjacent pairs of the list (even index = request, odd = response) into services: request and response types go through
    the ServiceType templates of every target.  Batches have even sizes, so a pair is never split."""
    for i in range(0, min(2 * pairs, len(types) - 1), 2):
        types[i]["svc"] = "Request"
        types[i + 1]["svc"] = "Response"
    return types


def std_specs(ctx, sanitize=False, variants=True, cpp=True):
    f = ctx.pick(0.25, 0.5)
    res = [spec("c", "c/any", {}, sanitize)]
    if variants:
        res += [spec("c", "c/little+asserts", {"target_endianness": "little", "enable_serialization_asserts": True}, sanitize, frac=f),
                spec("c", "c/big", {"target_endianness": "big"}, sanitize, frac=f)]
    if cpp:
        res.append(spec("cpp", "cpp/c++14", {}, sanitize, std="c++14"))
        if variants:
            res += [spec("cpp", "cpp/c++17", {}, sanitize, std="c++17", frac=f),
                    spec("cpp", "cpp/c++17-pmr", {}, sanitize, std="c++17-pmr", frac=f),
                    spec("cpp", "cpp/c++20+little+asserts", {"target_endianness": "little", "enable_serialization_asserts": True}, sanitize, std="c++20", frac=f),
                    spec("cpp", "cpp/c++14+custom-vla", CUSTOM_VLA_OPTIONS, sanitize, std="c++14", frac=f, files={"vf_vec.hpp": CUSTOM_VLA_HEADER})]
    return res


def _array_wild(t, v, rng, in_array=False):
    """a common value in which the elements of arrays of TRUNCATED unsigned integers whose storage is wider than the field take values above
    the field's range: every target stores them (C arrays, std containers, NumPy arrays of the storage type) and must truncate.
    returns (value, changed)"""
    k = t["k"]
    if k == "uint" and in_array and not t["sat"] and dsdl.store_w(t["w"]) > t["w"]:
        sm = (1 << dsdl.store_w(t["w"])) - 1
        return rng.choice([sm, (1 << t["w"]) | (v & 1), sm - 1, v | (1 << t["w"])]), True
    if k in ("farr", "varr"):
        res = [_array_wild(t["e"], x, rng, True) for x in v]
        return [r[0] for r in res], any(r[1] for r in res)
    if k == "struct":
        res = [_array_wild(f, x, rng) for f, x in zip(t["fields"], v)]
        return [r[0] for r in res], any(r[1] for r in res)
    if k == "union":
        r = _array_wild(t["fields"][v[0]], v[1], rng)
        return (v[0], r[0]), r[1]
    return v, False


def value_cases(camp, rng, n_common, n_wild, n_boundary=10):
    cases = []
    for ti, t in enumerate(camp.types):
        for j in (1, 2):
            v, changed = _array_wild(t, common_value(t, dsdl.boundary_value(t, j)), rng)
            if changed:
                cases.append({"ti": ti, "v": v, "klass": "array-wild", "case": camp.new_case(), "prefill": 0xFF if j % 2 else 0})
        for j in range(n_boundary):
            cases.append({"ti": ti, "v": common_value(t, dsdl.boundary_value(t, j)), "klass": "common", "case": camp.new_case(), "prefill": 0xFF if j % 2 else 0})
            if n_wild:
                cases.append({"ti": ti, "v": dsdl.boundary_value(t, j, wild=True), "klass": "wild", "case": camp.new_case(), "prefill": 0 if j % 2 else 0xFF})
        for j in range(n_common):
            mode = "zero" if j == 0 else "max" if j == 1 else "rand"
            v = common_value(t, dsdl.rand_value(rng, t, wild=False, f64_ok=False, mode=mode))
            cases.append({"ti": ti, "v": v, "klass": "common", "case": camp.new_case(), "prefill": rng.choice([0, 0xFF])})
        for j in range(n_wild):
            v = dsdl.rand_value(rng, t, wild=True)
            klass = "wild" if dsdl.is_valid_object(t, v) else "invalid"
            cases.append({"ti": ti, "v": v, "klass": klass, "case": camp.new_case(), "prefill": rng.choice([0, 0xFF])})
    return cases


def target_kind(name):
    return name.split("/")[0]


def signature(prop, clause, info):
    feats = sorted(dsdl.features(info["descr"]))
    key = []
    for f in ("struct-delimited", "union-delimited", "union", "varr", "farr-of-composite", "varr-of-composite", "farr-of-bool", "varr-of-bool", "float"):
        if f in feats:
            key.append(f)
    extra = info.get("klass") or info.get("why") or ""
    if info.get("prior"):
        extra += "+prior%d" % info["prior"]
    return "%s|%s|%s|%s|%s" % (prop, target_kind(info["target"]), clause, extra, ",".join(key))


def report(camp, ctx, rej, prop, extra_owner=None, also=None):
    """turn rejected records into verdicts of property `prop`; clauses owned by other properties are only counted"""
    others = {}
    n = 0
    for rid, clause in sorted(rej.items()):
        owner = (extra_owner or {}).get(clause, OWNER.get(clause, "?"))
        info = dict(camp.describe(rid), rid=rid)
        if owner != prop and also is not None and also(clause, info):
            owner = prop
        if owner != prop:
            others[clause] = others.get(clause, 0) + 1
            continue
        n += 1
        case = {k: info[k] for k in info if k != "descr"}
        case["descr"] = info["descr"]
        case["spec"] = next((sp for sp in camp.specs if sp["name"] == info["target"]), {"kind": "py", "name": "py"})
        rec = next((r for r in camp.records if r["id"] == rid), None)
        if rec is not None:
            case["observed"] = {k: rec[k] for k in rec if k not in ("t", "v", "id", "case")}
        ctx.violation(signature(prop, clause, info), "%s on %s: type %s (%s)" % (clause, info["target"], info["type"][:200], info.get("klass") or info.get("why")), case)
    if others:
        ctx.cov["clauses_owned_by_other_checks"] = others
    return n


def report_gen_failures(camp, ctx, prop):
    for sp, a, b, msg in camp.gen_failures:
        ctx.not_exercised("generation failed for %s types %d..%d: %s" % (sp["name"], a, b, msg.splitlines()[0][:200]))
    if camp.gen_failures and not camp.built:
        raise MachineryFailure("no target could be built: %s" % camp.gen_failures[0][3][:2000])


def count_distinct(camp, ctx):
    for r in camp.records:
        info = camp.stim[r["id"]]
        t = camp.types[info["ti"]]
        key = (r["ev"], info["target"], dsdl.shape(t), info.get("klass") or info.get("why"), sha(json.dumps(info.get("v", info.get("data")), default=str))[:8])
        nontrivial = not (r["ev"] == "des" and not r.get("bytes")) or info.get("why") in ("empty", "null")
        ctx.distinct("|".join(map(str, key)), nontrivial)


def replay_generic(ctx, case, prop):
    """re-run one recorded case against the current tree"""
    t = case["descr"]
    sp = case["spec"]
    t.pop("partner", None)
    types, ti0 = [t], 0
    if t.get("svc") == "Request":
        types = [t, dict(dsdl.S([dsdl.U(8)]), svc="Response")]
    elif t.get("svc") == "Response":
        types, ti0 = [dict(dsdl.S([dsdl.U(8)]), svc="Request"), t], 1
    camp = Campaign(ctx, types, [sp] if sp["kind"] != "py" else [], with_py=(sp["kind"] == "py"), batch=2)
    if sp["kind"] != "py":
        sp["frac"] = 1.0
    camp.build()
    report_gen_failures(camp, ctx, prop)
    crashes = []
    if case["ev"] == "ser":
        v = retuple(t, case["v"])
        crashes = camp.ser_events([{"ti": ti0, "v": v, "klass": case.get("klass", "common"), "case": camp.new_case()}],
                                  buf_of=(lambda c, need: case["buf"]) if "buf" in case and case["buf"] is not None and case["buf"] >= 0 else None).get("crash", [])
    elif case["ev"] in ("des", "rt"):
        priors = (0, case["prior"]) if case.get("prior") else (0,)
        data = case["data"]
        crashes = camp.des_events([{"ti": ti0, "data": bytes.fromhex(data) if isinstance(data, str) else bytes(data), "why": case.get("why", "replay"), "case": camp.new_case(),
                                    "priors": priors, "null": case.get("null", False)}], op="D" if case["ev"] == "des" else "R").get("crash", [])
    else:
        camp.meta_events([ti0])
    for info, r in crashes:  # the call still does not return on this tree
        ctx.violation("%s|%s|noret|replay" % (prop, target_kind(sp["name"])), "the call did not return: %s" % (r.get("crash", "").strip().splitlines() or ["?"])[-1][:200], case)
    rej = camp.judge()
    return report(camp, ctx, rej, prop, extra_owner=case.get("extra_owner"))


def _detuple(v):
    """JSON turned tuples into lists: restore ('badcount', n, list) and union (tag, value) using the shapes"""
    return v  # value trees are re-read together with the descriptor in replay_value()


def retuple(t, v):
    k = t["k"]
    if dsdl.is_prim(t):
        return v
    if k == "farr":
        return [retuple(t["e"], x) for x in v]
    if k == "varr":
        if len(v) == 3 and v[0] == "badcount":
            return ("badcount", v[1], [retuple(t["e"], x) for x in v[2]])
        return [retuple(t["e"], x) for x in v]
    if k == "struct":
        return [retuple(f, x) for f, x in zip(t["fields"], v)]
    tag, x = v
    return (tag, retuple(t["fields"][tag], x) if tag < len(t["fields"]) else None)


def design_model(ctx, machine=False):
    """the bounded design theorems of the wire specification itself (about the MODEL, see DESIGN §1)"""
    tlc.check_model(ctx, "WireDesign", ctx.pick("WireDesign", "WireDesign_2"), constants="Level=%d" % ctx.pick(1, 2), timeout=3000)
    if machine:
        # I-layer: the C serializer's cursor machine (static alignment sets, whole-byte fast paths over a non-zeroed buffer) refines Ser
        for cfg, c in ctx.pick([("WireMachine", "Little=TRUE Level=1")],
                               [("WireMachine_2", "Little=TRUE Level=2"), ("WireMachine_any_2", "Little=FALSE Level=2")]):
            tlc.check_model(ctx, "WireMachine", cfg, constants=c, timeout=3000)
        machine_drift(ctx)
        if not ctx.quick:
            for cfg in ("WireMachine_neg1", "WireMachine_neg2"):
                neg = tlc.run_tlc(tlc.SPECS / "WireMachine.tla", tlc.SPECS / (cfg + ".cfg"), ctx.scratch)
                if neg.violated != "Refines":
                    raise MachineryFailure("negative control %s of the serializer machine was not refuted" % cfg)
            ctx.cov["machine_negative_controls"] = "nofinalpad and dynalign variants refuted by Refines"


def selftest_binding(ctx, camp):
    """corrupt one recorded field of accepted records: the T-layer must reject exactly those"""
    import copy as _copy

    picks = []
    for r in camp.records:
        if r["ev"] == "ser" and r["err"] == "none" and r["bytes"] and not any(p["ev"] == "ser" for p in picks):
            bad = _copy.deepcopy(r)
            bad["bytes"][len(bad["bytes"]) // 2] ^= 0x10
            picks.append(bad)
        if r["ev"] == "des" and r["err"] == "none" and r.get("consumed", -1) > 0 and not any(p["ev"] == "des" for p in picks):
            bad = _copy.deepcopy(r)
            bad["consumed"] += 1
            picks.append(bad)
        if r["ev"] == "meta" and not any(p["ev"] == "meta" for p in picks):
            bad = _copy.deepcopy(r)
            bad["extent"] += 1
            picks.append(bad)
    for i, p in enumerate(picks):
        p["id"] = i
        p["case"] = 10 ** 8 + i
    if not picks:
        return
    before = ctx.cov["traces_validated_against_impl"]
    rej = tlc.validate_traces(ctx, "CodecTrace", picks)
    ctx.cov["traces_validated_against_impl"] = before
    ctx.selftest("corrupted %s records are rejected by CodecTrace" % "/".join(p["ev"] for p in picks), len(rej) == len(picks))


def selftest_cross(ctx, camp):
    """two records of one case that disagree (only the second is corrupted consistently with nothing) must give a cross.* rejection"""
    import copy as _copy

    a = next((r for r in camp.records if r["ev"] == "ser" and r["err"] == "none" and len(r["bytes"]) > 1 and r["L"] == "c"), None)
    if a is None:
        return
    first = _copy.deepcopy(a)
    second = _copy.deepcopy(a)
    first.update(id=0, case=10 ** 8)
    second.update(id=1, case=10 ** 8)
    # make the SECOND a different but individually wrong record: the first stays correct, so the only way to flag record 1 with a cross clause is
    # to flip a padding-free bit in both directions; we simply flip one bit and expect SOME rejection of record 1 and none of record 0
    second["bytes"][0] ^= 1
    before = ctx.cov["traces_validated_against_impl"]
    rej = tlc.validate_traces(ctx, "CodecTrace", [first, second])
    ctx.cov["traces_validated_against_impl"] = before
    ctx.selftest("a record disagreeing with the first record of its case is rejected", 1 in rej and 0 not in rej)


def machine_drift(ctx):
    """Bind the I-layer WireMachine to the templates structurally: TLC emits, for every type of the machine's universe, which write path the
    model chooses per field (whole-byte store / memmove / exact bits / nested call); the same sequence is read off the generated C text.
    A difference is model drift (NOTE, exit 0): the fast-path choice of the templates changed and WireMachine.tla should follow."""
    import re
    import tempfile
    from .harness_py import generate

    n = 0
    for cfg, opts in (("WireMachine_plan", {"target_endianness": "little"}), ("WireMachine_plan_any", {})):
        recs = tlc.emit_cases(ctx, "WireMachine", cfg, name=cfg + ".cfg", constants="structural plans, Little=%s" % bool(opts))
        ts = dsdl.TypeSet("wm")
        tops = []
        for r in recs:
            t = _with_wcap(r["t"])
            ts.add(t)
            tops.append((t, r["plan"]))
        root = ctx.scratch / ("wm_" + cfg)
        nsdir = ts.write(root / "dsdl")
        generate("c", nsdir, root / "out", language_options=opts)
        for t, plan in tops:
            text = (root / "out" / "wm" / ("%s_1_0.h" % t["name"])).read_text()
            body = text[text.index("wm_%s_1_0_serialize_(" % t["name"]):text.index("wm_%s_1_0_deserialize_(" % t["name"])]
            got = [_collapse(_ops_of(b)) for b in _field_blocks(body)]     # two-branch single-bit read-modify-write = one exact-bits write
            want = [_collapse(list(p)) for p in plan]
            n += 1
            if got != want:
                ctx.drift("WireMachine plan differs from generated C for %s (%s): model %r, code %r" % (dsdl.shape(t), cfg, want, got))
    ctx.cov["machine_structural_binding"] = "%d generated serializers compared field by field with the machine's write-path plan" % n


def _with_wcap(t):
    if t["k"] == "varr":
        t = dict(t, e=_with_wcap(t["e"]))
    elif t["k"] == "farr":
        t = dict(t, e=_with_wcap(t["e"]))
    elif dsdl.is_comp(t):
        t = dict(t, fields=[_with_wcap(f) for f in t["fields"]])
    return t


def _collapse(ops):
    return [o for i, o in enumerate(ops) if i == 0 or o != ops[i - 1]]


def _field_blocks(body):
    """the `{   // <field>` ... `}` blocks of a generated serializer (brace matched, so padding code between fields is not included)"""
    import re

    res = []
    for m in re.finditer(r"\n\s*\{   // ", body):
        i = body.index("{", m.start())
        depth, j = 0, i
        while j < len(body):
            if body[j] == "{":
                depth += 1
            elif body[j] == "}":
                depth -= 1
                if depth == 0:
                    break
            j += 1
        res.append(body[i:j + 1])
    return res


def _ops_of(block):
    import re

    ops = []
    for ln in block.splitlines():
        if re.search(r"buffer\[offset_bits / 8U\] = \((?:uint8_t|unsigned char)\)\(buffer\[", ln):
            ops.append("bits")
        elif re.search(r"buffer\[offset_bits / 8U\] = ", ln):
            ops.append("byte")
        elif re.search(r"mem(?:move|set)\(&buffer\[", ln):
            ops.append("move")
        elif re.search(r"nunavutSet[UI]xx\(|nunavutSetF\d+\(|nunavutCopyBits\(&buffer", ln):
            ops.append("bits")
        elif re.search(r"_serialize_\($", ln.rstrip()) or re.search(r"= \w+_serialize_\(", ln):
            ops.append("call")
    return ops
