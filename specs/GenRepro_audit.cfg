SPECIFICATION Spec
CONSTANTS
  MaxTypes = 2
  MaxNested = 1
  Langs = {"c", "cpp", "py", "html"}
  Audits = {TRUE}
  OpenSets = {{}}
  SortedWalk = FALSE
  Vary = {"clock", "loc", "cwd"}
INVARIANT Refines
INVARIANT SameEvenWithAudit
CHECK_DEADLOCK FALSE
