SPECIFICATION Spec
CONSTANTS
  Little = TRUE
  Level = 1
  Bug = "dynalign"
INVARIANT Refines
INVARIANT StaysInside
CHECK_DEADLOCK FALSE
