---------------------------- MODULE NnvgRunTrace ----------------------------
(* T-layer of the system-level run specification (growth build G1).  One record per RUN recorded from the   *)
(* real code (vf/suite_plugin.py: the repository's own test-suite, child nnvg processes, and the driver of   *)
(* vf/suite.py); the run's steps are a field and are folded with the operators of the P-layer NnvgRunP.      *)
(*   id, ep (entry point), mode, hasod/od (output directory: interned components of the resolved path),       *)
(*   ovw (allow_overwrite), hasfm/fm (SetFileMode in force and last), ok (no exception), hasrep/rep (paths   *)
(*   returned by the generators' generate_all calls), dup (a path is returned twice: folded names),           *)
(*   plain (only nunavut's own post-processors: the I-layer shape applies), haspr/printed (list-outputs),      *)
(*   haslisted/listed (driver only: what --list-outputs printed for the same arguments), steps.                *)
(* P decides: <<"REJECT", id, first failing clause, bit mask of all failing clauses>> (short: TLC wraps).    *)
(* "drift.*" clauses annotate only (I-layer shape / printed list).                                           *)
EXTENDS NnvgRunP, IOUtils, Json

Trace == ndJsonDeserialize(IOEnv.TRACE_FILE)

VARIABLE l

SetOf(seq) == {seq[i] : i \in DOMAIN seq}
NormSet(seq) == {Norm(seq[i]) : i \in DOMAIN seq}

Say(id, clause, mask) == PrintT(<<"REJECT", id, clause, mask>>)

PArgs(r) == [mode |-> r.mode, hasod |-> r.hasod, od |-> r.od, ovw |-> r.ovw, hasfm |-> r.hasfm, fm |-> r.fm, dup |-> r.dup,
             hasrep |-> r.hasrep]

(* sys.listed_eq_written (C08, driver only): what list-outputs printed for the same arguments is what the run wrote *)
ListedOK(r) ==
    (r.mode = "generate" /\ r.ok /\ r.haslisted /\ r.hasod) => NormSet(r.listed) = Written(Replay(r.steps), r.od)

Drift(r) ==
    IF r.plain /\ ~ShapeOK(PArgs(r), r.steps) THEN "drift.file_steps"
    ELSE IF r.plain /\ r.ok /\ ~ModeLastOK(PArgs(r), r.steps) THEN "drift.mode_last"
    ELSE IF r.haspr /\ r.hasrep /\ NormSet(r.printed) # NormSet(r.rep) THEN "drift.printed"
    ELSE "ok"

TRun(r) ==
    LET bad == FailedClauses(PArgs(r), r.steps, SetOf(r.rep), r.ok)
        lst == IF ListedOK(r) THEN 0 ELSE 64      \* every failed clause is in the mask: each has an owner of its own
    IN
    IF bad # {} THEN Say(r.id, FirstClause(bad), Mask(bad) + lst)
    ELSE IF lst # 0 THEN Say(r.id, "sys.listed_eq_written", 64)
    ELSE IF Drift(r) # "ok" THEN Say(r.id, Drift(r), 0)
    ELSE TRUE

TInit == l = 1
TNext == /\ l <= Len(Trace)
         /\ TRun(Trace[l])
         /\ l' = l + 1
TSpec == TInit /\ [][TNext]_l
Accepted == TLCGet("stats").diameter - 1 = Len(Trace)
=============================================================================
