SPECIFICATION Spec
CHECK_DEADLOCK FALSE
CONSTANTS
  MaxWords = 3
INVARIANT Emit
