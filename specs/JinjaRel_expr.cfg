SPECIFICATION Spec
CONSTANTS
  Profile = "expr"
  MaxW = 1
  MaxWc = 1
  MaxDepth = 0
  Tights = {FALSE, TRUE}
  EmitOpen = FALSE
INVARIANT WellNested
INVARIANT Emit
CHECK_DEADLOCK FALSE
