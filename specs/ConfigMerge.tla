----------------------------- MODULE ConfigMerge -----------------------------
(* C13, P-layer state machine + I-layer.                                                                  *)
(*                                                                                                        *)
(* I-layer: what Nunavut does, on an explicit object HEAP so that aliasing is visible.                     *)
(*   heap      sequence of dict objects; a dict is a function key -> cell, a cell is a leaf                *)
(*             [k |-> "x"|"d", v] or a reference [k |-> "r", v |-> index of another dict]                   *)
(*   docroot   the source documents (python dicts owned by the caller / parsed YAML), doc 1 = built-in      *)
(*   broot[b]  LanguageConfig._sections[<target section>] of builder b (0: builder does not exist yet)      *)
(*   pend[b]   LanguageContextBuilder._target_language_config of builder b (a dict owned by the builder)    *)
(*   ctxs      the LanguageContexts created so far (they hold their builder's LanguageConfig)               *)
(*   stack     the python call stack of _utilities.deep_update, one frame per active call:                  *)
(*                 t = target dict, s = source dict, todo = keys of `for key, value in source.items()`      *)
(*                 not yet visited, pk = the key `target[key] = deep_update(...)` of the caller             *)
(* Actions (one per step of the code):                                                                     *)
(*   New(b)         LanguageClassLoader._load_config: update_section over an empty section                  *)
(*   Upd(b, d)      add_config_files / config.update: LanguageConfig.update_section(section, doc d)          *)
(*   SetOvr(b, d)   set_target_language_configuration_override(key, value) for every root entry of doc d     *)
(*   Create(b)      LanguageContextBuilder.create: update_section(section, _target_language_config), new ctx *)
(*   DULeaf         loop iteration, value is not a Mapping: DefaultValue.assign_to_if_not_default            *)
(*   DUDescend      loop iteration, value is a Mapping: the recursive call (target.get(key, {}) / the copy    *)
(*                  branch when target[key] is not a Mapping, per CopyMode)                                  *)
(*   DUReturn       return to the caller: target[key] = <result>                                             *)
(*   DUReturnRoot   return to update_section: self._sections[section] = <result>; the P-state moves           *)
(*   ValidateOptions  (Group) cpp.Language._validate_language_options: options.update(defaults[options["std"]]) *)
(*                                                                                                        *)
(* P-layer state (the most general system the statement allows): pcfg[b] = Merge-fold of the source VALUES  *)
(* in precedence order, ppend[b] the pending override values, loose[b] = builder b was used again after it   *)
(* had created a context (the statement quantifies over sequences of builders; not asserted).               *)
(* TLC checks I => P:  Refines, DocsUnmodified, CtxStable (+ structural NoSharing for the repaired code).    *)
EXTENDS ConfigMergeP, SequencesExt, TLC, Json

CONSTANTS CopyMode,     \* "rebuild": target = deep_update({}, source)  (repaired code)
                        \* "deepcopy": target = copy.deepcopy(source)    (insufficient repair, negative control)
                        \* "shallow": target = copy.copy(source)         (original code, negative control)
          Mode,         \* "fold": one builder, built-in < files < override; "hist": free histories of builders
          Universe,     \* sequence of sets of document shapes, one per document (doc 1 = built-in)
          Sharings,     \* subset of {"none", "doc"}: equal sub-maps of one document are one object (YAML anchors)
          AnyOrder,     \* TRUE: dict iteration order is arbitrary; FALSE: smallest key first (for case emission)
          NB,           \* builders (hist mode)
          MaxOps,       \* operations per history (hist mode)
          Group,        \* "update" (fold mode): the language has option groups selected by a language standard, like C++:
                        \*   root key 1 = `options`, root key 2 = `defaults`, options key 1 = `std`; the leaf identity of std
                        \*   names the standard, defaults[<that name>] is the documented block of options.
                        \*   "setdefault" / "partial": negative controls (the block only fills gaps / one documented key is
                        \*   missing from the shipped block).  "none": no groups.
          Record,       \* TRUE: keep the history for case emission
          Slice, NSlices \* the shapes of document 2 are split into NSlices parts, this run explores part Slice
                        \* (TLC barely scales with -workers on this model; the harness runs the parts as parallel JVMs)

VARIABLES heap, docroot, doc0, broot, pend, ctxs, stack, op, nops, pcfg, ppend, loose, hist
vars == <<heap, docroot, doc0, broot, pend, ctxs, stack, op, nops, pcfg, ppend, loose, hist>>

NDocs == Len(Universe)
Builders == 1..(IF Mode = "fold" THEN 1 ELSE NB)
Idle == [kind |-> "idle", b |-> 0, d |-> 0]

(* ---------------------------------------------------------------------------------------------------- *)
(* document shapes                                                                                        *)
LeafShapes(withD) == IF withD THEN {X(0), D(0)} ELSE {X(0)}
PartialMaps(keys, Vals(_)) ==
    {M(f) : f \in UNION {{g \in [S -> UNION {Vals(key) : key \in S}] : \A key \in S : g[key] \in Vals(key)} : S \in SUBSET keys}}
(* depth <= 3 over keys {1,2}: root.1 may be a map whose entries may be maps over key 1; root.2 a leaf     *)
Shapes3(withD) ==
    LET l == LeafShapes(withD)
        m3 == PartialMaps({1}, LAMBDA key : l)
        m2 == PartialMaps({1, 2}, LAMBDA key : l \cup m3)
    IN PartialMaps({1, 2}, LAMBDA key : IF key = 1 THEN l \cup m2 ELSE l)
(* a path-shaped family: only what is needed to reach every branch of deep_update, for long histories      *)
ShapesPath(withD) ==
    LET l == LeafShapes(withD)
        m3 == {M(<<>>)} \cup {M(1 :> x) : x \in l}
        m2 == {M(1 :> x) : x \in m3} \cup {M((1 :> x) @@ (2 :> x)) : x \in m3 \ {M(<<>>)}}
    IN {M(<<>>)} \cup {M(1 :> x) : x \in l \cup m2} \cup {M((1 :> x) @@ (2 :> X(0))) : x \in m2}

(* every leaf of document i gets the identity i (+ 10 * the identity given in the shape, 0 except in UGroup) *)
RECURSIVE Tag(_, _)
Tag(v, i) == IF IsMap(v) THEN M([key \in DOMAIN v.m |-> Tag(v.m[key], i)]) ELSE [v EXCEPT !.v = i + 10 * @]

(* ---------------------------------------------------------------------------------------------------- *)
(* allocation of the documents on the heap                                                                *)
RECURSIVE MapPaths(_, _)
MapPaths(v, p) == IF IsMap(v) THEN {p} \cup UNION {MapPaths(v.m[key], Append(p, key)) : key \in DOMAIN v.m} ELSE {}

Ident(sh, i, p, v) == IF sh = "doc" /\ p # <<>> THEN <<i, <<>>, v>> ELSE <<i, p, X(0)>>

AllocDocs(vals, sh) ==
    LET occs == {<<i, p>> : i \in 1..Len(vals), p \in UNION {MapPaths(vals[j], <<>>) : j \in 1..Len(vals)}}
        occ  == {o \in occs : o[2] \in MapPaths(vals[o[1]], <<>>)}
        idOf(o) == Ident(sh, o[1], o[2], Get(vals[o[1]], o[2]))
        order == SetToSeq({idOf(o) : o \in occ})
        refOf(id) == CHOOSE r \in 1..Len(order) : order[r] = id
        node(id) == LET o == CHOOSE o \in occ : idOf(o) = id
                        v == Get(vals[o[1]], o[2])
                    IN [key \in DOMAIN v.m |->
                          IF IsMap(v.m[key]) THEN [k |-> "r", v |-> refOf(Ident(sh, o[1], Append(o[2], key), v.m[key]))]
                          ELSE [k |-> v.m[key].k, v |-> v.m[key].v]]
    IN [heap |-> [r \in 1..Len(order) |-> node(order[r])],
        roots |-> [i \in 1..Len(vals) |-> refOf(Ident(sh, i, <<>>, vals[i]))]]

RECURSIVE Deref(_, _)
Deref(h, r) ==
    M([key \in DOMAIN h[r] |-> LET c == h[r][key] IN IF c.k = "r" THEN Deref(h, c.v) ELSE [k |-> c.k, v |-> c.v, m |-> <<>>]])

RECURSIVE Reach(_, _)
Reach(h, r) == {r} \cup UNION {Reach(h, h[r][key].v) : key \in {x \in DOMAIN h[r] : h[r][x].k = "r"}}

(* copy.deepcopy keeps the sharing inside the copied object graph (its memo)                                *)
Clone(h, r) ==
    LET rs == Reach(h, r)
        n == Len(h)
        new(x) == n + Cardinality({y \in rs : y <= x})
    IN [copies |-> [j \in 1..Cardinality(rs) |->
                       LET x == CHOOSE x \in rs : new(x) = n + j
                       IN [key \in DOMAIN h[x] |-> IF h[x][key].k = "r" THEN [k |-> "r", v |-> new(h[x][key].v)] ELSE h[x][key]]],
        root |-> new(r)]

(* ---------------------------------------------------------------------------------------------------- *)
(* JSON-able forms for case emission                                                                       *)
RECURSIVE V2J(_)
V2J(v) == [k |-> v.k, v |-> v.v, e |-> IF IsMap(v) THEN SetToSeq({<<key, V2J(v.m[key])>> : key \in DOMAIN v.m}) ELSE <<>>]
H2J(h) == [r \in 1..Len(h) |-> SetToSeq({<<key, h[r][key].k, h[r][key].v>> : key \in DOMAIN h[r]})]

RECURSIVE Product(_)
SliceSet(S) == IF NSlices = 1 THEN S ELSE LET q == SetToSeq(S) IN {q[j] : j \in {i \in 1..Len(q) : i % NSlices = Slice}}
Product(i) == IF i > NDocs THEN {<<>>}
              ELSE {<<x>> \o rest : x \in (IF i = 2 THEN SliceSet(Universe[i]) ELSE Universe[i]), rest \in Product(i + 1)}

(* named universes (selected in the cfg files with Universe <- ...) *)
UFold3  == <<Shapes3(FALSE), Shapes3(FALSE), Shapes3(TRUE)>>                    \* built-in, one file, override
(* reduced built-in: a leaf, a map or a map of maps under key 1 *)
BuiltinShapes == {M(<<>>), M(1 :> X(0)), M(2 :> X(0)), M((1 :> X(0)) @@ (2 :> X(0))), M(1 :> M(1 :> X(0))),
                  M((1 :> M(1 :> X(0))) @@ (2 :> X(0))), M(1 :> M(1 :> M(1 :> X(0)))), M(1 :> M((1 :> X(0)) @@ (2 :> X(0))))}
UFoldQ  == <<BuiltinShapes, Shapes3(FALSE), Shapes3(TRUE)>>
UOrder  == <<{M(1 :> X(0)), M((1 :> X(0)) @@ (2 :> X(0))), M(1 :> M((1 :> X(0)) @@ (2 :> X(0))))}, Shapes3(FALSE), Shapes3(TRUE)>>
UFold3D == <<BuiltinShapes, Shapes3(TRUE), Shapes3(TRUE)>>                      \* built-in, API document, override
UFold4  == <<{M(1 :> X(0)), M((1 :> X(0)) @@ (2 :> X(0))), M(1 :> M((1 :> X(0)) @@ (2 :> X(0))))},
             Shapes3(FALSE), Shapes3(FALSE), ShapesPath(TRUE)>>                  \* built-in, two files, override
ShapesPathQ == {M(<<>>), M(1 :> X(0)), M(1 :> D(0)), M(1 :> M(1 :> X(0))), M(1 :> M(1 :> M(1 :> X(0)))),
                M(1 :> M(1 :> M(1 :> D(0)))), M(1 :> M((1 :> M(1 :> X(0))) @@ (2 :> M(1 :> X(0)))))}
UHistQ  == <<{M(<<>>), M(1 :> X(0)), M((1 :> X(0)) @@ (2 :> X(0)))}, ShapesPathQ, ShapesPathQ>>
GroupBuiltin == M((1 :> M((1 :> X(0)) @@ (2 :> X(0)))) @@ (2 :> M((2 :> M((1 :> X(1)) @@ (2 :> X(1)))) @@ (3 :> M((1 :> X(1)) @@ (2 :> X(1)))))))
                \* options {std, k2}, defaults {2: {std, k2}, 3: {std, k2}}
UGroup  == <<{GroupBuiltin}, Shapes3(FALSE), Shapes3(TRUE)>>
UGroup4 == <<{GroupBuiltin}, Shapes3(FALSE), Shapes3(FALSE), ShapesPath(TRUE)>>    \* a lower file, the file that may select, the override
UGroupNeg == <<{GroupBuiltin}, {M(1 :> M(2 :> X(0)))}, {M(1 :> M(1 :> X(0)))}, {M(<<>>)}>>   \* low file perturbs k2, next file selects
UOrderQ == <<{M(1 :> X(0)), M((1 :> X(0)) @@ (2 :> X(0))), M(1 :> M((1 :> X(0)) @@ (2 :> X(0))))}, Shapes3(FALSE), ShapesPath(TRUE)>>
UNegHist == <<{M(1 :> X(0))}, {M(1 :> M(1 :> M(1 :> X(0))))}, {M(1 :> M(1 :> M(1 :> X(0))))}>>
UHist   == <<{M(<<>>), M(1 :> X(0)), M((1 :> X(0)) @@ (2 :> X(0)))}, ShapesPath(TRUE), ShapesPath(TRUE)>>
UTiny   == <<{M(1 :> X(0))}, {M(1 :> M(1 :> M(1 :> X(0)))), M(1 :> M((1 :> M(1 :> X(0))) @@ (2 :> M(1 :> X(0)))))}, {M(1 :> M(1 :> M(1 :> X(0))))}>>

Init ==
    /\ \E vals \in Product(1) : doc0 = [i \in 1..NDocs |-> Tag(vals[i], i)]
    /\ heap = <<>> /\ docroot = <<>> /\ hist = <<>>
    /\ broot = [b \in Builders |-> 0] /\ pend = [b \in Builders |-> 0]
    /\ ctxs = <<>> /\ stack = <<>> /\ op = [kind |-> "boot", b |-> 0, d |-> 0] /\ nops = 0
    /\ pcfg = [b \in Builders |-> <<>>] /\ ppend = [b \in Builders |-> <<>>] /\ loose = [b \in Builders |-> FALSE]

(* the caller builds its documents (python dicts, parsed YAML with or without anchors) *)
Boot ==
    /\ op.kind = "boot"
    /\ \E sh \in Sharings :
          LET a == AllocDocs(doc0, sh)
          IN /\ heap' = a.heap /\ docroot' = a.roots
             /\ hist' = IF Record THEN [heap0 |-> H2J(a.heap), roots |-> a.roots, ops |-> <<>>] ELSE <<>>
    /\ op' = Idle
    /\ UNCHANGED <<doc0, broot, pend, ctxs, stack, nops, pcfg, ppend, loose>>

Top == stack[Len(stack)]
HasCtx(b) == \E i \in 1..Len(ctxs) : ctxs[i].b = b
NCtx(b) == Cardinality({i \in 1..Len(ctxs) : ctxs[i].b = b})

Log(rec) == IF Record THEN [hist EXCEPT !.ops = Append(@, rec)] ELSE hist
Expect == [b \in Builders |-> V2J(M(pcfg[b]))]

(* ---- the operations of the public API ---- *)
Allowed(kind, b, d) ==
    IF Mode = "fold" THEN
        IF kind = "new" THEN nops = 0
        ELSE IF kind = "upd" THEN nops >= 1 /\ nops <= NDocs - 2 /\ d = nops + 1
        ELSE IF kind = "set" THEN nops = NDocs - 1 /\ d = NDocs
        ELSE nops = NDocs
    ELSE /\ nops < MaxOps
         /\ IF kind = "new" THEN (IF b = 1 THEN TRUE ELSE broot[b - 1] # 0)
            ELSE IF kind = "create" THEN NCtx(b) < 2
            ELSE d \in 2..NDocs

New(b) ==
    /\ op = Idle /\ broot[b] = 0 /\ Allowed("new", b, 1)
    /\ heap' = heap \o << <<>>, <<>> >>                      \* the empty section and the builder's override dict
    /\ pend' = [pend EXCEPT ![b] = Len(heap) + 2]
    /\ stack' = << [t |-> Len(heap) + 1, s |-> docroot[1], todo |-> DOMAIN heap[docroot[1]], pk |-> 0] >>
    /\ op' = [kind |-> "new", b |-> b, d |-> 1] /\ nops' = nops + 1
    /\ UNCHANGED <<docroot, doc0, broot, ctxs, pcfg, ppend, loose, hist>>

Upd(b, d) ==
    /\ op = Idle /\ broot[b] # 0 /\ Allowed("upd", b, d)
    /\ stack' = << [t |-> broot[b], s |-> docroot[d], todo |-> DOMAIN heap[docroot[d]], pk |-> 0] >>
    /\ op' = [kind |-> "upd", b |-> b, d |-> d] /\ nops' = nops + 1
    /\ loose' = [loose EXCEPT ![b] = @ \/ HasCtx(b)]
    /\ UNCHANGED <<heap, docroot, doc0, broot, pend, ctxs, pcfg, ppend, hist>>

SetOvr(b, d) ==
    /\ op = Idle /\ broot[b] # 0 /\ Allowed("set", b, d)
    /\ heap' = [heap EXCEPT ![pend[b]] = [key \in (DOMAIN @) \cup DOMAIN heap[docroot[d]] |->
                                              IF key \in DOMAIN heap[docroot[d]] THEN heap[docroot[d]][key] ELSE @[key]]]
    /\ ppend' = [ppend EXCEPT ![b] = [key \in (DOMAIN @) \cup DOMAIN doc0[d].m |->
                                              IF key \in DOMAIN doc0[d].m THEN doc0[d].m[key] ELSE @[key]]]
    /\ nops' = nops + 1
    /\ hist' = Log([op |-> "set", b |-> b, d |-> d, exp |-> Expect, loose |-> loose])
    /\ UNCHANGED <<docroot, doc0, broot, pend, ctxs, stack, op, pcfg, loose>>

Create(b) ==
    /\ op = Idle /\ broot[b] # 0 /\ Allowed("create", b, 0)
    /\ stack' = << [t |-> broot[b], s |-> pend[b], todo |-> DOMAIN heap[pend[b]], pk |-> 0] >>
    /\ op' = [kind |-> "create", b |-> b, d |-> 0] /\ nops' = nops + 1
    /\ loose' = [loose EXCEPT ![b] = @ \/ HasCtx(b)]
    /\ UNCHANGED <<heap, docroot, doc0, broot, pend, ctxs, pcfg, ppend, hist>>

(* ---- _utilities.deep_update, one loop iteration / call / return per step ---- *)
PickKeys == IF AnyOrder THEN Top.todo
            ELSE IF Top.todo = {} THEN {} ELSE {CHOOSE key \in Top.todo : \A other \in Top.todo : key <= other}
Visited(key) == [stack EXCEPT ![Len(stack)].todo = @ \ {key}]

(* DefaultValue.assign_to_if_not_default(target, key, value) *)
Assign(node, key, cell) ==
    IF cell.k = "d" /\ key \in DOMAIN node /\ node[key].k # "d" THEN node ELSE Put(node, key, cell)

DULeaf ==
    /\ stack # <<>>
    /\ \E key \in PickKeys :
          /\ heap[Top.s][key].k # "r"
          /\ heap' = [heap EXCEPT ![Top.t] = Assign(@, key, heap[Top.s][key])]
          /\ stack' = Visited(key)
    /\ UNCHANGED <<docroot, doc0, broot, pend, ctxs, op, nops, pcfg, ppend, loose, hist>>

DUDescend ==
    /\ stack # <<>>
    /\ \E key \in PickKeys :
          LET sc == heap[Top.s][key]
              tn == heap[Top.t]
              frame(t, all) == [t |-> t, s |-> sc.v, todo |-> IF all THEN DOMAIN heap[sc.v] ELSE {}, pk |-> key]
          IN /\ sc.k = "r"
             /\ IF key \in DOMAIN tn /\ tn[key].k = "r"
                THEN (* target.get(key) is a Mapping: recurse into it *)
                     /\ stack' = Append(Visited(key), frame(tn[key].v, TRUE)) /\ UNCHANGED heap
                ELSE IF key \notin DOMAIN tn \/ CopyMode = "rebuild"
                THEN (* target.get(key, {}) -> a new empty dict; the repaired else-branch does the same *)
                     /\ heap' = Append(heap, <<>>)
                     /\ stack' = Append(Visited(key), frame(Len(heap) + 1, TRUE))
                ELSE IF CopyMode = "shallow"
                THEN (* target is not a Mapping: target = copy.copy(source) *)
                     /\ heap' = Append(heap, heap[sc.v])
                     /\ stack' = Append(Visited(key), frame(Len(heap) + 1, FALSE))
                ELSE (* copy.deepcopy(source) *)
                     LET c == Clone(heap, sc.v)
                     IN /\ heap' = heap \o c.copies
                        /\ stack' = Append(Visited(key), frame(c.root, FALSE))
    /\ UNCHANGED <<docroot, doc0, broot, pend, ctxs, op, nops, pcfg, ppend, loose, hist>>

DUReturn ==
    /\ Len(stack) > 1 /\ Top.todo = {}
    /\ heap' = [heap EXCEPT ![stack[Len(stack) - 1].t] = Put(@, Top.pk, [k |-> "r", v |-> Top.t])]
    /\ stack' = SubSeq(stack, 1, Len(stack) - 1)
    /\ UNCHANGED <<docroot, doc0, broot, pend, ctxs, op, nops, pcfg, ppend, loose, hist>>

DUReturnRoot ==
    /\ Len(stack) = 1 /\ Top.todo = {}
    /\ stack' = <<>> /\ op' = IF Group # "none" /\ op.kind = "create" THEN [kind |-> "validate", b |-> op.b, d |-> 0] ELSE Idle
    /\ broot' = [broot EXCEPT ![op.b] = Top.t]
    /\ LET np == Merge(pcfg[op.b], IF op.kind = "create" THEN ppend[op.b] ELSE doc0[op.d].m)
           pc == [pcfg EXCEPT ![op.b] = np]
       IN /\ pcfg' = pc
          /\ hist' = IF Record
                     THEN [hist EXCEPT !.ops = Append(@, [op |-> op.kind, b |-> op.b, d |-> op.d,
                                                           exp |-> [b \in Builders |-> V2J(M(pc[b]))], loose |-> loose])]
                     ELSE hist
    /\ ctxs' = IF op.kind = "create" /\ Group = "none" THEN Append(ctxs, [b |-> op.b, frozen |-> Deref(heap, Top.t)]) ELSE ctxs
    /\ UNCHANGED <<heap, docroot, doc0, pend, nops, ppend, loose>>

(* Language.__init__ -> cpp._validate_language_options(defaults, options): the block of the selected standard is    *)
(* written over the options map of the configuration, in place; then the context exists.                            *)
(* P: every option of the DOCUMENTED block (DocGroups, a constant of the statement - not the `defaults` of the        *)
(* configuration) is set as a unit (GroupApply), whatever lower-precedence sources put there; options that the source   *)
(* which selected the standard, or a higher one, gives explicitly are not fixed (AnyV); if a user source redefines     *)
(* `defaults` nothing is fixed.  The identity of the std leaf is the index of the document that set it.                 *)
DocBlk == (1 :> X(11)) @@ (2 :> X(11))
DocGroups == (2 :> DocBlk) @@ (3 :> DocBlk)
ExplicitOpts(d) ==
    IF 1 \in DOMAIN doc0[d].m /\ IsMap(doc0[d].m[1]) THEN {key \in DOMAIN doc0[d].m[1].m : doc0[d].m[1].m[key].k # "d"} ELSE {}
Protected(stdv) == UNION {ExplicitOpts(d) : d \in (IF stdv \in 2..NDocs THEN stdv ELSE 2)..NDocs}
Redefined == \E d \in 2..NDocs : 2 \in DOMAIN doc0[d].m
ValidateOptions ==
    /\ op.kind = "validate"
    /\ LET r == broot[op.b]
           root == heap[r]
           maps == 1 \in DOMAIN root /\ root[1].k = "r" /\ 2 \in DOMAIN root /\ root[2].k = "r"
           o == root[1].v
           df == root[2].v
           sel == /\ maps /\ 1 \in DOMAIN heap[o] /\ heap[o][1].k # "r"                     \* language_standard = options["std"]
                  /\ heap[o][1].v \in DOMAIN heap[df] /\ heap[df][heap[o][1].v].k = "r"       \* if language_standard in defaults
           blk == heap[heap[df][heap[o][1].v].v]
           nh == IF sel THEN [heap EXCEPT ![o] = [key \in (DOMAIN @) \cup DOMAIN blk |->
                                                       IF /\ key \in DOMAIN blk
                                                          /\ (Group = "update" \/ (Group = "setdefault" /\ key \notin DOMAIN @)
                                                              \/ (Group = "partial" /\ key # 2))
                                                       THEN blk[key] ELSE @[key]]]
                 ELSE heap
           m == pcfg[op.b]
           pmaps == 1 \in DOMAIN m /\ IsMap(m[1]) /\ 1 \in DOMAIN m[1].m
           std == m[1].m[1]
           psel == pmaps /\ std.k \in {"x", "d"} /\ std.v \in DOMAIN DocGroups
           np == IF pmaps /\ (std.k = "any" \/ Redefined) THEN Put(m, 1, AnyV)   \* the statement does not say which group is meant
                 ELSE IF psel THEN Put(m, 1, M(GroupApply(m[1].m, DocGroups[std.v], Protected(std.v))))
                 ELSE m
       IN /\ heap' = nh
          /\ pcfg' = [pcfg EXCEPT ![op.b] = np]
          /\ ctxs' = Append(ctxs, [b |-> op.b, frozen |-> Deref(nh, r)])
          /\ hist' = IF Record THEN [hist EXCEPT !.ops = Append(@, [op |-> "validate", b |-> op.b, d |-> 0,
                                                                    exp |-> [b \in Builders |-> V2J(M(IF b = op.b THEN np ELSE pcfg[b]))],
                                                                    loose |-> loose])]
                     ELSE hist
    /\ op' = Idle
    /\ UNCHANGED <<docroot, doc0, broot, pend, stack, nops, ppend, loose>>

Next ==
    \/ Boot
    \/ \E b \in Builders : New(b) \/ Create(b) \/ \E d \in 2..NDocs : Upd(b, d) \/ SetOvr(b, d)
    \/ DULeaf \/ DUDescend \/ DUReturn \/ DUReturnRoot \/ ValidateOptions

Spec == Init /\ [][Next]_vars

(* ---------------------------------------------------------------------------------------------------- *)
(* I => P                                                                                                 *)
(* merge.precedence / merge.default_marker / merge.deep_union: between operations every builder's section   *)
(* is the Merge-fold of the source values                                                                  *)
Refines ==
    op = Idle => \A b \in Builders : broot[b] # 0 => Match(M(pcfg[b]), Deref(heap, broot[b]), TRUE)
(* merge.doc_unmodified: at every step, also in the middle of an update                                     *)
DocsUnmodified == op.kind # "boot" => \A d \in 1..NDocs : Deref(heap, docroot[d]) = doc0[d]
(* merge.ctx_stable: a context keeps reporting what it reported, whatever other builders do                  *)
CtxStable == \A i \in 1..Len(ctxs) : ~loose[ctxs[i].b] => Deref(heap, broot[ctxs[i].b]) = ctxs[i].frozen
(* why the repaired code satisfies the three for histories of any length: a builder's section is a tree of   *)
(* objects that nobody else can reach                                                                       *)
Owned(b) == IF broot[b] = 0 THEN {} ELSE Reach(heap, broot[b])
Occurrences(h, r) == Cardinality(MapPaths(Deref(h, r), <<>>))       \* number of paths that lead to a dict
NoSharing ==
    op = Idle =>
      \A b \in Builders : broot[b] # 0 =>
          /\ \A d \in 1..NDocs : Owned(b) \cap Reach(heap, docroot[d]) = {}
          /\ \A c \in Builders \ {b} : Owned(b) \cap Owned(c) = {}
          /\ Occurrences(heap, broot[b]) = Cardinality(Owned(b))        \* a tree: every object reached once
(* the P operator itself has the clauses of the statement (sanity of the oracle)                            *)
OracleClauses ==
    \A i \in 2..NDocs :
        LET t == doc0[i - 1].m
            s == doc0[i].m
        IN /\ ClauseKeepsUnmentioned(t, s) /\ ClauseExplicitWins(t, s) /\ ClauseDefaultNeverDisplaces(t, s)
           /\ ClauseDefaultFills(t, s) /\ ClauseLeafOfTKept(t, s)

Terminal == op = Idle /\ (IF Mode = "fold" THEN nops = NDocs + 1 ELSE nops = MaxOps)
Emit == Terminal => PrintT(ToJson(hist))
=============================================================================
