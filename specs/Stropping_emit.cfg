SPECIFICATION Spec
CHECK_DEADLOCK FALSE
INVARIANT Emit
CONSTANTS
  CfgIds = {"c.default"}
  Kinds = {"any", "path", "macro", "typedef", "function", "enum"}
  Alphabet = {105, 102, 110, 116, 111, 65, 69, 49, 95, 32, 45, 233, 178, 65353, 10084}
  MaxLen = 2
  Reverify = FALSE
  WithReask = FALSE
