SPECIFICATION Spec
CONSTANTS
  Langs = {"c"}
  BaseSet = "families"
  MaxMut = 1
  MinMut = 0
  MaxBoth = 1
  Star = FALSE
  HashBits = 1
INVARIANT Refines
CHECK_DEADLOCK FALSE
