SPECIFICATION Spec
CONSTANTS
  Langs = {"c", "cpp"}
  BaseSet = "families"
  MaxMut = 1
  MaxBoth = 1
  Star = FALSE
  HashBits = 1
INVARIANT Refines
CHECK_DEADLOCK FALSE
