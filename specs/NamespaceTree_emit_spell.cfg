SPECIFICATION Spec
CONSTANTS
  Roots <- RootsRIf
  Names <- NamesAIf
  Shorts <- ShortsT
  TwoVer <- TwoVerT
  MaxDepth = 1
  MaxTypes = 2
  StropMode = "prefix"
  GenNsChoices = {FALSE}
  Spellings <- AllSpellings
  CanonNs = FALSE
  SupportFromRootParent = FALSE
INVARIANT Emit
CHECK_DEADLOCK FALSE
