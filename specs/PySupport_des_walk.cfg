SPECIFICATION Spec
CONSTANTS
  Kind = "des"
  MaxCalls = 3
  Level = 1
  FragMode = "walk"
  Bug = "none"
  Emit = FALSE
INVARIANT RefinesDes
INVARIANT FragIndep
CHECK_DEADLOCK FALSE
