----------------------------- MODULE OptionGuard -----------------------------
(* C17 - design model (I-layer) of the language-option guard and its refinement to the P-layer.            *)
(*                                                                                                         *)
(* One behaviour = one attempt to build type headers generated with option set `a` against a support       *)
(* header generated with option set `b`:                                                                   *)
(*   choose      start from a base vector (a = b), then change single options on either side               *)
(*               (MutateTypes / MutateSupport: the two directions of every difference) or on both sides     *)
(*               (MutateBoth: another identical pair),                                                      *)
(*   Validate*   Language._validate_language_options: `options.update(defaults[std])` for a language-       *)
(*               standard short-hand, ValueError for an allocator-aware convention without allocator type,  *)
(*   GenSupport  support/serialization.j2: `for key, value in options.items()` -> one constant per option,  *)
(*   GenTypes    templates/base.j2: `for key, value in options.items()` -> one static_assert per option,    *)
(*   Compile     the compiler evaluates every assertion of every included type header.                      *)
(* The two generator runs are independent (any interleaving).  Invariant Refines: whatever the I-layer      *)
(* computes is accepted by the P-layer verdict (OptionGuardP!PVerdict), i.e. build ok <=> same options and  *)
(* the mismatch is named.  That holds iff the rendering of values is injective on each option's documented  *)
(* values - the CRC-32 collision caveat, checked by invariant Injective (HashBits = 1 is the negative       *)
(* control: with a 1-bit hash TLC must find a mixed pair that builds).                                      *)
EXTENDS OptionGuardP, TLC, Json

CONSTANTS Langs,       \* subset of {"c", "cpp"}
          BaseSet,     \* cpp bases - "core": 7 representatives; "families": all 14 documented families; "commons": families x every
                       \* value of the family-independent options (c bases: always all 48 vectors)
          MaxMut,      \* single-side option changes per behaviour (1: all ordered pairs differing in exactly one option)
          MinMut,      \* generation starts only after this many single-side changes (0; > 0 steers simulation to multi-option pairs)
          MaxBoth,     \* both-side option changes per behaviour (identical pairs of the neighbours of the bases)
          Star,        \* TRUE: a single-side change is made only to an unchanged base pair (the pairs form a star around each base)
          HashBits     \* 32 = CRC-32 as implemented; 1 = a one-bit hash (negative control: collisions must be found)

VARIABLES lang, a, b, nmut, nboth, ea, eb, defs, asrt, out,
          tab      \* the rendering of every documented value (never changes; see OptionGuardP, `Tables`)
vars == <<lang, a, b, nmut, nboth, ea, eb, defs, asrt, out, tab>>

(* ---------------------------------------------------------------------------------------------------- *)
CommonKeys(l) == KeySet(l) \ (IF l = "c" THEN {} ELSE FamilyKeys)
AllVectors(l, ks, base) ==          \* base with every combination of documented values for the keys ks
    {Over(base, f) : f \in {g \in [ks -> UNION {DocVals(l, k) : k \in ks}] : \A k \in ks : g[k] \in DocVals(l, k)}}

\* requested (unexpanded) family vectors of the cpp target, incl. both short-hands by name
CppFamilies ==
    LET d == Default("cpp") IN
    {Over(d, p) : p \in FamilyProfiles}
    \cup {Over(d, [std |-> S(T_cpp17pmr)]), Over(d, [std |-> S(T_cetl1417)])}

CppCore ==          \* one representative per family and per way of naming it (quick conformance runs)
    LET d == Default("cpp") IN
    {d, Over(d, [variable_array_type_include |-> S(T_incVecQ)]), Over(d, [std |-> S(T_cpp20)]),
     Over(d, GroupPmr), Over(d, [std |-> S(T_cpp17pmr)]), Over(d, GroupCetl), Over(d, [std |-> S(T_cetl1417)])}

Bases(l) ==
    IF l = "c" THEN AllVectors("c", KeySet("c"), Default("c"))
    ELSE IF BaseSet = "core" THEN CppCore
    ELSE IF BaseSet = "families" THEN CppFamilies
    ELSE UNION {AllVectors("cpp", CommonKeys("cpp"), f) : f \in CppFamilies}

R(x) == tab[x]
ASSUME HashBits \in {1, 32}

None == <<>>
Some(x) == <<x>>
IsSet(x) == Len(x) = 1

Init ==
    /\ lang \in Langs
    /\ a \in Bases(lang)
    /\ b = a
    /\ nmut = 0 /\ nboth = 0
    /\ ea = None /\ eb = None /\ defs = None /\ asrt = None /\ out = None
    /\ tab = IF HashBits = 32 THEN DocRender ELSE DocRenderWeak

Choosing == ea = None /\ eb = None

MutateBoth(k, x) ==
    /\ Choosing /\ nboth < MaxBoth /\ nmut = 0 /\ a[k] # x
    /\ a' = [a EXCEPT ![k] = x] /\ b' = a' /\ nboth' = nboth + 1
    /\ UNCHANGED <<lang, nmut, ea, eb, defs, asrt, out, tab>>
MutateTypes(k, x) ==
    /\ Choosing /\ nmut < MaxMut /\ (Star => nboth = 0) /\ a[k] # x
    /\ a' = [a EXCEPT ![k] = x] /\ nmut' = nmut + 1
    /\ UNCHANGED <<lang, b, nboth, ea, eb, defs, asrt, out, tab>>
MutateSupport(k, x) ==
    /\ Choosing /\ nmut < MaxMut /\ (Star => nboth = 0) /\ b[k] # x
    /\ b' = [b EXCEPT ![k] = x] /\ nmut' = nmut + 1
    /\ UNCHANGED <<lang, a, nboth, ea, eb, defs, asrt, out, tab>>

Validated(v) ==      \* _validate_language_options: update with the short-hand group, then the allocator check
    LET e == IF IsShorthand(lang, v) THEN Over(v, Group(v["std"].v)) ELSE v
        bad == lang = "cpp" /\ e["ctor_convention"] # S(T_default) /\ e["allocator_type"] = S(T_empty)
    IN [ok |-> ~bad, o |-> e]
ValidateTypes   == ea = None /\ nmut >= MinMut /\ ea' = Some(Validated(a)) /\ UNCHANGED <<lang, a, b, nmut, nboth, eb, defs, asrt, out, tab>>
ValidateSupport == eb = None /\ nmut >= MinMut /\ eb' = Some(Validated(b)) /\ UNCHANGED <<lang, a, b, nmut, nboth, ea, defs, asrt, out, tab>>

GenSupport ==
    /\ IsSet(eb) /\ eb[1].ok /\ defs = None
    /\ defs' = Some([k \in DOMAIN eb[1].o |-> R(eb[1].o[k])])
    /\ UNCHANGED <<lang, a, b, nmut, nboth, ea, eb, asrt, out, tab>>
GenTypes ==
    /\ IsSet(ea) /\ ea[1].ok /\ asrt = None
    /\ asrt' = Some([k \in DOMAIN ea[1].o |-> R(ea[1].o[k])])
    /\ UNCHANGED <<lang, a, b, nmut, nboth, ea, eb, defs, out, tab>>

Headers == {1, 2}        \* every type header carries the same block of assertions
Compile ==
    /\ IsSet(defs) /\ IsSet(asrt) /\ out = None
    /\ LET fired == {k \in DOMAIN asrt[1] : asrt[1][k] # defs[1][k]}
       IN out' = Some([rc |-> IF fired = {} THEN 0 ELSE 1, msg |-> fired # {}, fired |-> fired,
                       headers |-> Headers, fired_headers |-> IF fired = {} THEN {} ELSE Headers])
    /\ UNCHANGED <<lang, a, b, nmut, nboth, ea, eb, defs, asrt, tab>>
Refuse ==        \* the generator raised: nothing to compile together
    /\ out = None /\ ((IsSet(ea) /\ ~ea[1].ok) \/ (IsSet(eb) /\ ~eb[1].ok))
    /\ out' = Some([rc |-> 2, msg |-> FALSE, fired |-> {}, headers |-> {}, fired_headers |-> {}])
    /\ UNCHANGED <<lang, a, b, nmut, nboth, ea, eb, defs, asrt, tab>>

Next ==
    \/ \E k \in KeySet(lang) : \E x \in DocVals(lang, k) : MutateBoth(k, x) \/ MutateTypes(k, x) \/ MutateSupport(k, x)
    \/ ValidateTypes \/ ValidateSupport \/ GenSupport \/ GenTypes \/ Compile \/ Refuse
Spec == Init /\ [][Next]_vars

(* ---------------------------------------------------------------------------------------------------- *)
Built == IsSet(out) /\ out[1].rc # 2

Refines == Built => PVerdict(lang, a, b, out[1]) = "ok"
Iff == Built => ((out[1].rc = 0) <=> Same(lang, a, b))
NamesExactly == Built => out[1].fired = DiffKeys(lang, a, b)            \* the failing assertions are those of the differing options
ValidateAgrees ==
    /\ IsSet(ea) => (ea[1].ok = Valid(lang, a) /\ ea[1].o = Expand(lang, a))
    /\ IsSet(eb) => (eb[1].ok = Valid(lang, b) /\ eb[1].o = Expand(lang, b))
RefuseOnlyInvalid == (IsSet(out) /\ out[1].rc = 2) => (~Valid(lang, a) \/ ~Valid(lang, b))
Injective == \A l \in Langs : \A k \in KeySet(l) : \A x, y \in DocVals(l, k) : x # y => R(x) # R(y)   \* = NoCollision(l, HashBits), on the table
TypeOK == /\ lang \in Langs /\ DOMAIN a = KeySet(lang) /\ DOMAIN b = KeySet(lang)
          /\ \A k \in KeySet(lang) : a[k] \in DocVals(lang, k) /\ b[k] \in DocVals(lang, k)
          /\ nmut \in 0..MaxMut /\ nboth \in 0..MaxBoth

\* spec -> code: one record per finished pair with the outcome the P-layer fixes and what the I-layer predicts
Emit ==
    IsSet(out) =>
        PrintT(ToJson([lang |-> lang, a |-> a, b |-> b, nmut |-> nmut, nboth |-> nboth,
                       valid_a |-> Valid(lang, a), valid_b |-> Valid(lang, b),
                       same |-> Same(lang, a, b), coherent |-> Coherent(lang, a),
                       p_ok |-> PExpect(lang, a, b).ok, p_msg |-> PExpect(lang, a, b).msg,
                       i_rc |-> out[1].rc, i_fired |-> out[1].fired,
                       diff |-> DiffKeys(lang, a, b), reqdiff |-> ReqDiffKeys(a, b)]))

\* constants of the model for the harness (documented values, short-hand groups)
EmitDoc == PrintT(ToJson([doc |-> [c |-> DocC, cpp |-> DocCpp], keys |-> [c |-> Keys("c"), cpp |-> Keys("cpp")],
                          groups |-> [pmr |-> [name |-> T_cpp17pmr, o |-> GroupPmr], cetl |-> [name |-> T_cetl1417, o |-> GroupCetl]]]))
DocInit == /\ lang = "c" /\ a = Default("c") /\ b = a /\ nmut = 0 /\ nboth = 0
           /\ ea = None /\ eb = None /\ defs = None /\ asrt = None /\ out = None /\ tab = <<>>
DocSpec == DocInit /\ [][FALSE]_vars
=============================================================================
