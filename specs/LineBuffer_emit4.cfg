SPECIFICATION Spec
CONSTANTS
  Alphabet = {120, 32, 13, 10}
  MaxLen = 4
  MaxLimit = 2
  HoldCR = TRUE
INVARIANT Emit
CHECK_DEADLOCK FALSE
