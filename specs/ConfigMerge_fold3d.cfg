SPECIFICATION Spec
CONSTANTS
  CopyMode = "rebuild"
  Mode = "fold"
  Universe <- UFold3D
  Sharings = {"none", "doc"}
  AnyOrder = FALSE
  NB = 1
  MaxOps = 0
  Group = "none"
  Record = FALSE
  Slice = 0
  NSlices = 1
INVARIANT Refines
INVARIANT DocsUnmodified
INVARIANT CtxStable
INVARIANT NoSharing
CHECK_DEADLOCK FALSE
