---------------------------- MODULE NamespaceTree ----------------------------
(* C11 - types map one-to-one onto files; the namespace model handed to templates is a tree.                      *)
(*                                                                                                                *)
(* PART 1 (P-layer): the property, stated on a *projection* r of one execution (a record): the DSDL types that    *)
(*   were given, the namespace objects reachable from the returned root through the public API, their links, the *)
(*   type -> path map, the results of path lookup, the file-system entries created below an enclosing sandbox     *)
(*   root, and the include paths found in dependants.  Nothing in part 1 refers to how Nunavut computes anything.*)
(*   Verdict(r) is the only thing that decides VIOLATION; it is evaluated on projections of the real code by      *)
(*   NamespaceTreeTrace.tla and on the projection of the I-layer's final state by the invariant Refines.          *)
(* PART 2 (I-layer): nunavut._namespace.build_namespace_tree step by step + DSDLCodeGenerator.generate_all.       *)
(*                                                                                                                *)
(* Text is Seq(Nat) (code points).  A Name is a text, a Path is a sequence of Names.                              *)
EXTENDS Naturals, Sequences, FiniteSets, TLC, Json

US == 95
DotDot == <<46, 46>>

RECURSIVE Dec(_)
Dec(n) == IF n < 10 THEN <<48 + n>> ELSE Append(Dec(n \div 10), 48 + (n % 10))

(* <ShortName>_<major>_<minor> *)
Stem(short, maj, min) == short \o <<US>> \o Dec(maj) \o <<US>> \o Dec(min)

IsPrefix(p, s) == Len(p) <= Len(s) /\ SubSeq(s, 1, Len(p)) = p
FrontOf(s) == SubSeq(s, 1, Len(s) - 1)
LastOf(s) == s[Len(s)]
Ran(s) == {s[k] : k \in DOMAIN s}
Count(s, x) == Cardinality({k \in DOMAIN s : s[k] = x})

(* ======================================= PART 1: P-layer =============================================== *)
(* r.types   : Seq([ns : Path (root first), short : Name, maj, min : Nat])   the composite types of the root ns     *)
(* r.strop   : Seq([n : Name, s : Name])   the language's documented (one-way) stropping of path identifiers      *)
(* r.ext     : Name                        the definition-file extension in force                                 *)
(* r.nodes   : Seq([dsdl : Path, parent : Nat, kids : Seq(Nat), types : Seq(Nat), paths : Seq(Path), up : Nat,    *)
(*                  rdir, rout, rfind : Path, rpaths : Seq(Path)])                                                 *)
(*             distinct namespace objects reachable from the root (index NN+1 = an object that is not reachable); *)
(*             the r* fields are paths exactly AS THE MODEL SPELLS THEM (not resolved against anything):          *)
(*             output_folder, the namespace's own file, find_output_path_for_type(namespace), nested type paths   *)
(* r.slisted : Seq([raw : Path, rel : Path])  the paths the support generator lists (dry run) / returns / prints,    *)
(*             as spelled (raw) and as the location they denote relative to the output directory (rel)            *)
(* r.given   : Path                        the output directory as the caller spelled it (lexical components)     *)
(* r.denote  : Seq([b : Path, ok : BOOLEAN])  for the spellings met: does b denote the output directory?           *)
(* r.pobs    : BOOLEAN                     parent links were observable                                            *)
(* r.root    : Nat                         the node returned to the caller                                          *)
(* r.walk_types / r.walk_ns / r.walk_any   what get_all_datatypes / get_all_namespaces / get_all_types yield       *)
(* r.find    : [node -> [type -> Path]]    find_output_path_for_type from every node (<<>> = lookup failed)        *)
(* r.generated, r.outdir, r.created : Seq([p : Path, d : BOOLEAN]), r.other : Seq(Path)   file-system observation  *)
(* r.refs    : Seq([deps : Seq(Nat), incs : Seq(Path), how : "path"|"module"])   dependants and what they include  *)
(* All paths of types are relative to the output directory (a path that escapes it starts with ".."); created     *)
(* entries and outdir are relative to the sandbox root.                                                            *)

NT(r) == Len(r.types)
NN(r) == Len(r.nodes)

(* every namespace on the way from the root to a type *)
NSset(r) == UNION {{SubSeq(r.types[i].ns, 1, k) : k \in 1..Len(r.types[i].ns)} : i \in 1..NT(r)}

StropKnown(r, n) == \E k \in DOMAIN r.strop : r.strop[k].n = n
StropOf(r, n) == r.strop[CHOOSE k \in DOMAIN r.strop : r.strop[k].n = n].s
StropPath(r, p) == [k \in DOMAIN p |-> StropOf(r, p[k])]
RawStem(r, i) == Stem(r.types[i].short, r.types[i].maj, r.types[i].min)

(* the projection is usable: every identifier that occurs has a stropped image in the table *)
HarnessOK(r) ==
    /\ \A i \in 1..NT(r) : StropKnown(r, RawStem(r, i)) /\ \A k \in DOMAIN r.types[i].ns : StropKnown(r, r.types[i].ns[k])
    /\ \A i, j \in 1..NT(r) : i # j => r.types[i] # r.types[j]
    /\ Len(r.find) = NN(r) /\ \A n \in 1..NN(r) : Len(r.find[n]) = NT(r) /\ Len(r.nodes[n].paths) = Len(r.nodes[n].types)

(* Names folded onto one identifier by the one-way stropping: two distinct DSDL namespaces, or two distinct     *)
(* types, with the same stropped image.  The property excludes these inputs.                                    *)
StroppedTarget(r, i) == Append(StropPath(r, r.types[i].ns), StropOf(r, RawStem(r, i)))
Folded(r) ==
    \/ \E p, q \in NSset(r) : p # q /\ StropPath(r, p) = StropPath(r, q)
    \/ \E i, j \in 1..NT(r) : i # j /\ StroppedTarget(r, i) = StroppedTarget(r, j)

(* the output paths the model relates to type i (through the namespaces that list it) *)
Obs(r, i) == UNION {{r.nodes[n].paths[k] : k \in {k \in DOMAIN r.nodes[n].types : r.nodes[n].types[k] = i}} : n \in 1..NN(r)}
Holders(r, i) == {n \in 1..NN(r) : i \in Ran(r.nodes[n].types)}

(* tree.type_once: the namespace model contains each type exactly once (in the namespace it belongs to) *)
TypeOnce(r) ==
    /\ Len(r.walk_types) = NT(r)
    /\ \A i \in 1..NT(r) :
          /\ Count(r.walk_types, i) = 1
          /\ Cardinality(Holders(r, i)) = 1
          /\ \A n \in Holders(r, i) : Count(r.nodes[n].types, i) = 1 /\ r.nodes[n].dsdl = r.types[i].ns
          /\ Count(r.walk_any, [k |-> "ty", i |-> i]) = 1
    /\ \A n \in 1..NN(r) : Ran(r.nodes[n].types) \subseteq 1..NT(r)

(* tree.ancestors: every namespace on the way from the root to a type exactly once, and nothing else *)
Ancestors(r) ==
    /\ \A p \in NSset(r) : Cardinality({n \in 1..NN(r) : r.nodes[n].dsdl = p}) = 1
    /\ \A n \in 1..NN(r) : r.nodes[n].dsdl \in NSset(r)
    /\ Len(r.walk_ns) = NN(r)
    /\ \A n \in 1..NN(r) : Count(r.walk_ns, n) = 1 /\ Count(r.walk_any, [k |-> "ns", i |-> n]) = 1
    /\ Len(r.walk_any) = NN(r) + NT(r)

(* tree.links: one root, parent/child links mutually consistent *)
Listers(r, n) == {m \in 1..NN(r) : n \in Ran(r.nodes[m].kids)}
Links(r) ==
    /\ r.root \in 1..NN(r)
    /\ Len(r.nodes[r.root].dsdl) = 1
    /\ Listers(r, r.root) = {}
    /\ r.pobs => r.nodes[r.root].parent = 0
    /\ \A n \in 1..NN(r) :
          /\ r.nodes[n].up = r.root
          /\ \A k \in DOMAIN r.nodes[n].kids :
                LET c == r.nodes[n].kids[k]
                IN /\ c \in 1..NN(r)
                   /\ Count(r.nodes[n].kids, c) = 1
                   /\ Len(r.nodes[c].dsdl) > 1 /\ FrontOf(r.nodes[c].dsdl) = r.nodes[n].dsdl
                   /\ r.pobs => r.nodes[c].parent = n
          /\ n # r.root => Cardinality(Listers(r, n)) = 1

(* tree.path_total: path lookup is total and agrees with the type -> path map, wherever it is started *)
PathTotal(r) ==
    \A n \in 1..NN(r) : \A i \in 1..NT(r) : r.find[n][i] # <<>> /\ r.find[n][i] \in Obs(r, i)

(* tree.path_shape: (stropped) namespace components, then <ShortName>_<major>_<minor><extension>.                *)
(* Both readings of "(stropped)" for the file stem are accepted (see ctx.ambiguous in the driver).                *)
ShapeOK(r, i, p) ==
    /\ Len(p) = Len(r.types[i].ns) + 1
    /\ FrontOf(p) = StropPath(r, r.types[i].ns)
    /\ LastOf(p) \in {RawStem(r, i) \o r.ext, StropOf(r, RawStem(r, i)) \o r.ext}
PathShape(r) == \A i \in 1..NT(r) : \A p \in Obs(r, i) : ShapeOK(r, i, p)

(* tree.injective: distinct types never share a file *)
Injective(r) == \A i, j \in 1..NT(r) : i # j => Obs(r, i) \cap Obs(r, j) = {}

(* tree.inside_outdir: every path is below the output directory and nothing is created outside it               *)
(* (a created directory may also be an ancestor of the output directory)                                         *)
Below(p) == p # <<>> /\ DotDot \notin Ran(p) /\ <<>> \notin Ran(p)
InsideOutdir(r) ==
    /\ \A i \in 1..NT(r) : \A p \in Obs(r, i) : Below(p)
    /\ \A n \in 1..NN(r) : \A i \in 1..NT(r) : r.find[n][i] # <<>> => Below(r.find[n][i])
    /\ \A k \in DOMAIN r.created :
          \/ IsPrefix(r.outdir, r.created[k].p) /\ Below(r.created[k].p)
          \/ r.created[k].d /\ IsPrefix(r.created[k].p, r.outdir)

(* tree.one_file: every type is generated to exactly one file; what is created besides are the namespace and    *)
(* support files the generators report                                                                            *)
Files(r) == {r.created[k].p : k \in {k \in DOMAIN r.created : ~r.created[k].d}}
OneFile(r) ==
    r.generated =>
        LET other == {r.outdir \o q : q \in Ran(r.other)}
            tfiles == {r.outdir \o p : p \in UNION {Obs(r, i) : i \in 1..NT(r)}}
        IN /\ \A i \in 1..NT(r) : \E p \in Obs(r, i) : (r.outdir \o p) \in Files(r)
           /\ (Files(r) \ other) \subseteq tfiles
           /\ Cardinality(Files(r) \ other) = NT(r)

(* tree.ref_eq_gen: a dependant refers to a type by exactly the relative path the type is generated to,         *)
(* whether the dependant lives in the same root namespace or in another one (type only looked up).              *)
(* x.incs are ALL paths the dependant's text refers to (also system / support ones): only "every dependency is  *)
(* referred to by its generated path" is required, so the harness needs no knowledge of which is which.         *)
RefMatch(r, how, gen, inc) ==
    IF how = "path" THEN inc = gen
    ELSE inc # <<>> /\ Len(gen) = Len(inc) /\ FrontOf(gen) = FrontOf(inc) /\ LastOf(gen) = LastOf(inc) \o r.ext
RefEqGen(r) ==
    \A k \in DOMAIN r.refs :
        LET x == r.refs[k]
        IN \A d \in Ran(x.deps) : d \in 1..NT(r) /\ \E g \in Obs(r, d) : \E j \in DOMAIN x.incs : RefMatch(r, x.how, g, x.incs[j])

(* tree.as_given: every namespace path and every type path is ONE spelling of the output directory - the one   *)
(* the caller gave, or at least one that denotes the same directory - followed by the stropped namespace       *)
(* components and a file name.  (A model that spells namespaces one way and types another way is inconsistent:  *)
(* a path of one cannot be expressed relative to a folder of the other.)                                        *)
StripTail(p, k) == SubSeq(p, 1, Len(p) - k)
TailOf(p, k) == SubSeq(p, Len(p) - k + 1, Len(p))
BasesOf(r) ==
    UNION {{StripTail(r.nodes[n].rdir, Len(r.nodes[n].dsdl)), StripTail(r.nodes[n].rout, Len(r.nodes[n].dsdl) + 1),
            StripTail(r.nodes[n].rfind, Len(r.nodes[n].dsdl) + 1)}
           \cup {StripTail(r.nodes[n].rpaths[k], Len(r.nodes[n].paths[k])) : k \in DOMAIN r.nodes[n].rpaths} : n \in 1..NN(r)}
AsGiven(r) ==
    /\ \A n \in 1..NN(r) :
          LET x == r.nodes[n]
          IN /\ x.dsdl \in NSset(r)
             /\ Len(x.rdir) >= Len(x.dsdl) /\ TailOf(x.rdir, Len(x.dsdl)) = StropPath(r, x.dsdl)
             /\ Len(x.rout) = Len(x.rdir) + 1 /\ FrontOf(x.rout) = x.rdir
             /\ x.rfind = x.rout
             /\ Len(x.rpaths) = Len(x.paths)
             /\ \A k \in DOMAIN x.rpaths : Len(x.rpaths[k]) >= Len(x.paths[k]) /\ TailOf(x.rpaths[k], Len(x.paths[k])) = x.paths[k]
    /\ Cardinality(BasesOf(r)) <= 1
    /\ \A b \in BasesOf(r) : b = r.given \/ \E k \in DOMAIN r.denote : r.denote[k].b = b /\ r.denote[k].ok

(* tree.support_inside: every path the support generator lists or creates lies under the output directory as    *)
(* given (the created entries themselves are judged by tree.inside_outdir on the sandbox snapshot, which encloses *)
(* the parent of the output directory)                                                                           *)
SupportInside(r) ==
    \A k \in DOMAIN r.slisted :
        LET x == r.slisted[k]
        IN /\ Below(x.rel)
           /\ Len(x.raw) >= Len(x.rel) /\ TailOf(x.raw, Len(x.rel)) = x.rel
           /\ LET b == StripTail(x.raw, Len(x.rel))
              IN b = r.given \/ \E j \in DOMAIN r.denote : r.denote[j].b = b /\ r.denote[j].ok

(* tree.empty_model: for the empty type set (support-only runs) the model is one namespace object without parent, *)
(* children or types, which is its own root                                                                      *)
EmptyModel(r) ==
    /\ NN(r) = 1 /\ r.root = 1
    /\ r.nodes[1].kids = <<>> /\ r.nodes[1].types = <<>> /\ r.nodes[1].up = 1
    /\ r.pobs => r.nodes[1].parent = 0
    /\ r.walk_types = <<>> /\ r.walk_ns = <<1>> /\ r.walk_any = <<[k |-> "ns", i |-> 1]>>
    /\ Len(r.nodes[1].rout) = Len(r.nodes[1].rdir) + 1 /\ FrontOf(r.nodes[1].rout) = r.nodes[1].rdir /\ r.nodes[1].rfind = r.nodes[1].rout
    /\ r.nodes[1].rdir = r.given \/ \E j \in DOMAIN r.denote : r.denote[j].b = r.nodes[1].rdir /\ r.denote[j].ok

(* A record of a run with `enable_stropping: false` carries lax = TRUE.  What the tool owes to the SPELLING of namespace folders   *)
(* there is stated nowhere (the model strops them, the type paths are not stropped), so the two clauses that read spellings -     *)
(* tree.path_shape, tree.as_given - are not judged; every other clause is independent of the stropping table and is judged:       *)
(* a dependant still has to name the path the type is generated to, one file per type, nothing outside, total lookup.             *)
Lax(r) == "lax" \in DOMAIN r /\ r.lax

(* the clauses in the order that names a rejection (first failed clause) and numbers the bits of the mask *)
Clauses(r) ==
    << <<"tree.inside_outdir", InsideOutdir(r)>>, <<"tree.type_once", TypeOnce(r)>>, <<"tree.ancestors", Ancestors(r)>>,
       <<"tree.links", Links(r)>>, <<"tree.path_total", PathTotal(r)>>, <<"tree.path_shape", Lax(r) \/ PathShape(r)>>,
       <<"tree.injective", Injective(r)>>, <<"tree.one_file", OneFile(r)>>, <<"tree.ref_eq_gen", RefEqGen(r)>>,
       <<"tree.as_given", Lax(r) \/ AsGiven(r)>>, <<"tree.support_inside", SupportInside(r)>>, <<"tree.empty_model", TRUE>> >>

(* the same list for the empty type set: the clauses about types are vacuous, the model is the single empty namespace *)
ClausesEmpty(r) ==
    << <<"tree.inside_outdir", InsideOutdir(r)>>, <<"tree.type_once", TRUE>>, <<"tree.ancestors", TRUE>>, <<"tree.links", TRUE>>,
       <<"tree.path_total", TRUE>>, <<"tree.path_shape", TRUE>>, <<"tree.injective", TRUE>>, <<"tree.one_file", OneFile(r)>>,
       <<"tree.ref_eq_gen", TRUE>>, <<"tree.as_given", TRUE>>, <<"tree.support_inside", SupportInside(r)>>,
       <<"tree.empty_model", EmptyModel(r)>> >>

RECURSIVE FailMask(_, _)
FailMask(cs, k) == IF k > Len(cs) THEN 0 ELSE (IF cs[k][2] THEN 0 ELSE 2 ^ (k - 1)) + FailMask(cs, k + 1)
RECURSIVE FirstFailed(_, _)
FirstFailed(cs, k) == IF k > Len(cs) THEN "ok" ELSE IF cs[k][2] THEN FirstFailed(cs, k + 1) ELSE cs[k][1]

(* THE verdict: <<"ok", 0>>, or <<name of the first failed clause, bit mask of all failed clauses>> (kept short:   *)
(* TLC wraps long printed tuples).  For folded inputs the property only keeps the clause that nothing leaves the  *)
(* output directory.                                                                                               *)
Verdict(r) ==
    IF ~HarnessOK(r) THEN <<"harness.projection", 0>>
    ELSE IF NT(r) = 0 THEN (LET cs == ClausesEmpty(r) IN <<FirstFailed(cs, 1), FailMask(cs, 1)>>)
    ELSE IF Folded(r) THEN (IF InsideOutdir(r) /\ SupportInside(r) THEN <<"ok", 0>>
                            ELSE IF InsideOutdir(r) THEN <<"tree.support_inside", 1024>> ELSE <<"tree.inside_outdir", 1>>)
    ELSE LET cs == Clauses(r) IN <<FirstFailed(cs, 1), FailMask(cs, 1)>>

(* ======================================= PART 2: I-layer =============================================== *)
CONSTANTS Roots,        \* candidate root namespace names
          Names,        \* names of nested namespace components
          Shorts,       \* short names of types (version 1.0)
          TwoVer,       \* short names that additionally exist in version 1.1
          MaxDepth,     \* nesting below the root: 0..MaxDepth
          MaxTypes,     \* 1..MaxTypes types per input
          StropMode,    \* "prefix" (c, cpp: if -> _if) | "suffix" (py: if -> if_) | "none" (html)
          GenNsChoices, \* subset of BOOLEAN: generate namespace files too?
          Spellings,    \* how the caller spells the output directory: subset of {"abs", "rel", "slash", "dot", "dotdot", "symlink"}
          SupportFromRootParent,  \* FALSE: the code as it is (support files below get_support_output_folder() = the base output path).
                        \* TRUE: negative control - a SupportGenerator that takes `root namespace output_folder.parent` instead
          CanonNs       \* FALSE: the code as it is.  TRUE: negative control - a Namespace that canonicalises (resolves) ITS paths only

VARIABLES types,        \* the input list, in the order the caller passes it
          genNs,
          spell,        \* the spelling of the output directory (constant during a behaviour)
          pc, ti, wi,
          first,        \* _NamespaceFactory._namespaces is an insertion-ordered dict keyed by the unstropped full
          made,         \*   namespace; only `next(iter(values()))` reads the order: first = that entry, made = the key set
          index,        \* namespace_index (a Python set of str: iteration order arbitrary)
          linked,       \* elements of namespace_index the second loop has processed
          held,         \* {<<namespace, type#>>}: Namespace._data_type_to_outputs
          par,          \* {<<namespace, parent>>}: Namespace._parent
          kids,         \* {<<namespace, nested>>}: Namespace._nested_namespaces
          out           \* what the caller gets: root and the set of files written

vars == <<types, genNs, spell, pc, ti, wi, first, made, index, linked, held, par, kids, out>>

NmA == <<97>>
NmB == <<98>>
NmR == <<114>>
NmT == <<116>>
NmU == <<117>>
NmIf == <<105, 102>>
NmUIf == <<95, 105, 102>>
NmIfU == <<105, 102, 95>>
ExtM == <<46, 104>>
NsStemM == <<95, 110, 115, 95>>
OutM == <<<<111, 117, 116>>>>

(* The output directory in an abstract sandbox /s (the process's working directory): out, or real/out reached     *)
(* through the symbolic link lnk -> real.  GivenM = the lexical components pathlib keeps of the caller's spelling *)
(* ("out/" and "./out" lose the slash and the dot, ".." stays); CanonM = the resolved absolute path; TrueRelM =    *)
(* where the directory really is, relative to the sandbox.                                                          *)
NmSlash == <<47>>
NmS == <<115>>
NmOut == <<111, 117, 116>>
NmSub == <<115, 117, 98>>
NmLnk == <<108, 110, 107>>
NmReal == <<114, 101, 97, 108>>
TrueRelM(sp) == IF sp = "symlink" THEN <<NmReal, NmOut>> ELSE <<NmOut>>
CanonM(sp) == <<NmSlash, NmS>> \o TrueRelM(sp)
GivenM(sp) == CASE sp = "abs" -> <<NmSlash, NmS, NmOut>>
                [] sp = "dotdot" -> <<NmSub, DotDot, NmOut>>
                [] sp = "symlink" -> <<NmLnk, NmOut>>
                [] OTHER -> <<NmOut>>          \* "rel", "slash", "dot"
(* Namespace.__init__: base_output_path / stropped components;  _add_data_type: base_output_path / make_path *)
NsBaseM(sp) == IF CanonNs THEN CanonM(sp) ELSE GivenM(sp)
(* the support file <support namespace folders>/<name><ext> below the support generator's target folder *)
SupportRelM == <<<<110, 117, 110>>, <<115, 117, 112>>, <<115, 46, 104>>>>
AllSpellings == {"abs", "rel", "slash", "dot", "dotdot", "symlink"}

(* named constant values for the cfg files *)
RootsR == {NmR}
RootsRIf == {NmR, NmIf}
NamesAIf == {NmA, NmIf}
NamesFoldPrefix == {NmIf, NmUIf}
NamesFoldSuffix == {NmIf, NmIfU}
NamesPrefix == {NmA, NmIf, NmUIf}
NamesSuffix == {NmA, NmIf, NmIfU}
ShortsT == {NmT}
ShortsTIf == {NmT, NmIf}
TwoVerT == {NmT}

(* the language's stropping of a path identifier, as far as the pool of names can tell *)
Strop(n) == IF n = NmIf THEN (IF StropMode = "prefix" THEN <<US>> \o n ELSE IF StropMode = "suffix" THEN Append(n, US) ELSE n)
            ELSE n
SS(p) == [k \in DOMAIN p |-> Strop(p[k])]

NsBelow == UNION {[1..k -> Names] : k \in 0..MaxDepth}
TypeU(root) == {[ns |-> <<root>> \o p, short |-> s, maj |-> 1, min |-> 0] : p \in NsBelow, s \in Shorts}
               \cup {[ns |-> <<root>> \o p, short |-> s, maj |-> 1, min |-> 1] : p \in NsBelow, s \in TwoVer}

PrefixesOf(S) == UNION {{SubSeq(t.ns, 1, k) : k \in 1..Len(t.ns)} : t \in S}
(* what the DSDL front end admits: a type may not be named like a namespace beside it *)
ValidInput(S) == \A t \in S : Append(t.ns, t.short) \notin PrefixesOf(S)
Inj(f) == \A a, b \in DOMAIN f : a # b => f[a] # f[b]

Init ==
    /\ \E root \in Roots :
          types \in {f \in UNION {[1..k -> TypeU(root)] : k \in 0..MaxTypes} : Inj(f) /\ ValidInput(Ran(f))}
    /\ genNs \in GenNsChoices
    /\ spell \in Spellings
    /\ pc = (IF Len(types) = 0 THEN "link" ELSE "visit")     \* the empty type set (support-only run): both loops are skipped
    /\ ti = 1 /\ wi = 0
    /\ first = <<>> /\ made = {} /\ index = {} /\ linked = {} /\ held = {} /\ par = {} /\ kids = {}
    /\ out = [root |-> <<>>, files |-> {}, nwrites |-> 0, sfiles |-> {}]

CurNs == types[ti].ns

(* `namespace, did_exist = nsf.get_or_make_namespace(dsdl_type.full_namespace)` *)
VisitType ==
    /\ pc = "visit" /\ ti <= Len(types)
    /\ IF CurNs \in made
       THEN /\ pc' = "add" /\ UNCHANGED <<first, made, wi>>
       ELSE /\ made' = made \cup {CurNs} /\ first' = (IF made = {} THEN CurNs ELSE first)
            /\ wi' = Len(CurNs) /\ pc' = "walk"
    /\ UNCHANGED <<types, genNs, spell, ti, index, linked, held, par, kids, out>>

(* one iteration of `for i in range(len(name_components) - 1, 0, -1)`, with its `break` *)
IndexAncestors ==
    /\ pc = "walk"
    /\ IF wi = 0 THEN pc' = "add" /\ UNCHANGED <<index, wi>>
       ELSE LET anc == SubSeq(CurNs, 1, wi)
            IN IF anc \in index THEN pc' = "add" /\ UNCHANGED <<index, wi>>
               ELSE index' = index \cup {anc} /\ wi' = wi - 1 /\ pc' = "walk"
    /\ UNCHANGED <<types, genNs, spell, ti, first, made, linked, held, par, kids, out>>

(* `namespace._add_data_type(dsdl_type, extension)` *)
AddType ==
    /\ pc = "add"
    /\ held' = held \cup {<<CurNs, ti>>}
    /\ ti' = ti + 1
    /\ pc' = IF ti = Len(types) THEN "link" ELSE "visit"
    /\ UNCHANGED <<types, genNs, spell, wi, first, made, index, linked, par, kids, out>>

KidsOf(n) == {q[2] : q \in {q \in kids : q[1] = n}}
ParentsOf(n) == {q[2] : q \in {q \in par : q[1] = n}}
TypesOf(n) == {q[2] : q \in {q \in held : q[1] = n}}

(* one iteration of `for full_namespace in namespace_index` (any order): lazily make the namespace and its     *)
(* parent, link them.  _nested_namespaces is a set of objects that compare by *stropped* full name.             *)
LinkNamespace ==
    /\ pc = "link"
    /\ \E ns \in index \ linked :
          LET p == FrontOf(ns)
          IN /\ made' = made \cup {ns} \cup (IF Len(ns) > 1 THEN {p} ELSE {})
             /\ linked' = linked \cup {ns}
             /\ IF Len(ns) > 1
                THEN /\ kids' = IF \E e \in KidsOf(p) : SS(e) = SS(ns) THEN kids ELSE kids \cup {<<p, ns>>}
                     /\ par' = par \cup {<<ns, p>>}
                ELSE UNCHANGED <<kids, par>>
    /\ UNCHANGED <<types, genNs, spell, pc, ti, wi, first, index, held, out>>

RECURSIVE UpFrom(_)
UpFrom(n) == IF ParentsOf(n) = {} THEN n ELSE UpFrom(CHOOSE p \in ParentsOf(n) : TRUE)

RECURSIVE SetToSeq(_)
SetToSeq(S) == IF S = {} THEN <<>> ELSE LET x == CHOOSE x \in S : TRUE IN <<x>> \o SetToSeq(S \ {x})

RECURSIVE WalkNs(_), WalkList(_)
WalkNs(n) == <<n>> \o WalkList(SetToSeq(KidsOf(n)))
WalkList(s) == IF s = <<>> THEN <<>> ELSE WalkNs(s[1]) \o WalkList(Tail(s))

RECURSIVE TypesAlong(_)
TypesAlong(ns) == IF ns = <<>> THEN <<>> ELSE SetToSeq(TypesOf(ns[1])) \o TypesAlong(Tail(ns))

(* IncludeGenerator.make_path below the base output path *)
TypePath(i) == Append(SS(types[i].ns), Strop(Stem(types[i].short, types[i].maj, types[i].min)) \o ExtM)
NsPath(n) == Append(SS(n), NsStemM \o ExtM)

(* `return nsf.get_root_namesapce()`: the first namespace ever made, walked up to its root *)
ReturnRoot ==
    /\ pc = "link" /\ index = linked
    /\ out' = [out EXCEPT !.root = IF made = {} THEN <<>> ELSE UpFrom(first)]     \* nothing made: get_empty_namespace() = Namespace("")
    /\ pc' = "gen"
    /\ UNCHANGED <<types, genNs, spell, ti, wi, first, made, index, linked, held, par, kids>>

(* DSDLCodeGenerator.generate_all: one file per (type, path) the tree walk from the root yields *)
Generate ==
    /\ pc = "gen"
    /\ LET nseq == WalkNs(out.root)
           tseq == TypesAlong(nseq)
           tf == {TypePath(tseq[k]) : k \in DOMAIN tseq}
           nf == IF genNs THEN {NsPath(nseq[k]) : k \in DOMAIN nseq} ELSE {}
       IN out' = [out EXCEPT !.files = tf \cup nf, !.nwrites = Len(tseq) + (IF genNs THEN Len(nseq) ELSE 0),
                             !.sfiles = {SupportRelM}]     \* SupportGenerator.generate_all: target folder / support namespace / file
    /\ pc' = "done"
    /\ UNCHANGED <<types, genNs, spell, ti, wi, first, made, index, linked, held, par, kids>>

Next == VisitType \/ IndexAncestors \/ AddType \/ LinkNamespace \/ ReturnRoot \/ Generate

Spec == Init /\ [][Next]_vars

(* ---- the projection of the final state, in the shape part 1 and the trace spec use ---- *)
AllNames == UNION {Ran(types[i].ns) : i \in 1..Len(types)} \cup {Stem(types[i].short, types[i].maj, types[i].min) : i \in 1..Len(types)}
RECURSIVE DirsOf(_)
DirsOf(p) == IF Len(p) <= 1 THEN {} ELSE {FrontOf(p)} \cup DirsOf(FrontOf(p))

Proj ==
    LET nseq == WalkNs(out.root)
        nl == SetToSeq(Ran(nseq))
        Idx(n) == IF n \in Ran(nl) THEN CHOOSE k \in DOMAIN nl : nl[k] = n ELSE Len(nl) + 1
        tseq == TypesAlong(nseq)
        reach == UNION {TypesOf(nl[k]) : k \in DOMAIN nl}
        node(n) == LET ks == SetToSeq(KidsOf(n))
                       ts == SetToSeq(TypesOf(n))
                   IN [dsdl |-> n,
                       parent |-> IF ParentsOf(n) = {} THEN 0 ELSE Idx(CHOOSE p \in ParentsOf(n) : TRUE),
                       kids |-> [k \in DOMAIN ks |-> Idx(ks[k])],
                       types |-> ts,
                       paths |-> [k \in DOMAIN ts |-> TypePath(ts[k])],
                       up |-> Idx(UpFrom(n)),
                       rdir |-> NsBaseM(spell) \o SS(n),
                       rout |-> NsBaseM(spell) \o NsPath(n),
                       rfind |-> NsBaseM(spell) \o NsPath(n),
                       rpaths |-> [k \in DOMAIN ts |-> GivenM(spell) \o TypePath(ts[k])]]
        \* where the support generator puts its files: as spelled / where that is relative to the output directory / in the sandbox
        above == SupportFromRootParent /\ SS(out.root) = <<>>     \* `output_folder.parent` of the empty namespace is the PARENT of the base
        sraw == {(IF above THEN StripTail(NsBaseM(spell), 1) ELSE GivenM(spell)) \o f : f \in out.sfiles}
        srel(f) == IF above THEN <<DotDot>> \o f ELSE f
        sloc == {(IF above THEN StripTail(TrueRelM(spell), 1) ELSE TrueRelM(spell)) \o f : f \in out.sfiles}
        files == {TrueRelM(spell) \o f : f \in out.files} \cup sloc
        dirs == UNION {DirsOf(f) : f \in files}
        names == SetToSeq(AllNames)
    IN [types |-> types,
        strop |-> [k \in DOMAIN names |-> [n |-> names[k], s |-> Strop(names[k])]],
        ext |-> ExtM,
        nodes |-> [k \in DOMAIN nl |-> node(nl[k])],
        pobs |-> TRUE,
        root |-> Idx(out.root),
        walk_types |-> tseq,
        walk_ns |-> [k \in DOMAIN nseq |-> Idx(nseq[k])],
        walk_any |-> [k \in DOMAIN nseq |-> [k |-> "ns", i |-> Idx(nseq[k])]] \o [k \in DOMAIN tseq |-> [k |-> "ty", i |-> tseq[k]]],
        find |-> [n \in DOMAIN nl |-> [i \in 1..Len(types) |-> IF i \in reach \/ i \in TypesOf(nl[n]) THEN TypePath(i) ELSE <<>>]],
        generated |-> TRUE,
        outdir |-> TrueRelM(spell),
        given |-> GivenM(spell),
        denote |-> <<[b |-> GivenM(spell), ok |-> TRUE], [b |-> CanonM(spell), ok |-> TRUE]>>,
        created |-> SetToSeq({[p |-> f, d |-> FALSE] : f \in files} \cup {[p |-> d, d |-> TRUE] : d \in dirs}),
        other |-> SetToSeq((IF genNs THEN {NsPath(nl[k]) : k \in DOMAIN nl} ELSE {}) \cup {srel(f) : f \in out.sfiles}),
        slisted |-> SetToSeq({[raw |-> (IF above THEN StripTail(NsBaseM(spell), 1) ELSE GivenM(spell)) \o f, rel |-> srel(f)] : f \in out.sfiles}),
        refs |-> <<>>]

(* ---- I => P ---- *)
Refines == pc = "done" => Verdict(Proj) = <<"ok", 0>>

(* negative control: WITHOUT the exception for folded names the property is refutable on the model (two sibling   *)
(* namespaces with one stropped image: the second is silently dropped from the set of nested namespaces)          *)
RefinesNoFold == pc = "done" => FailMask(Clauses(Proj), 1) = 0

(* independent sanity theorems on intermediate states *)
IndexClosed ==      \* the `break` in the ancestor walk is sound: the index is always prefix-closed above the walk position
    pc \in {"visit", "add", "link", "gen", "done"} => \A n \in index : Len(n) > 1 => FrontOf(n) \in index
MadeIndexed == pc \in {"visit", "add", "link", "gen", "done"} => made \subseteq index
AtMostOneParent == \A n \in made : Cardinality(ParentsOf(n)) <= 1
OneWritePerFile == pc = "done" /\ ~Folded(Proj) => out.nwrites = Cardinality(out.files)
FoldedOnlyWithKeyword == pc = "done" /\ Folded(Proj) => StropMode # "none"

(* ---- case emission (spec -> code): the stimulus with the outcome the I-layer predicts ---- *)
EmitRec ==
    LET nseq == WalkNs(out.root)
        reach == UNION {TypesOf(nseq[k]) : k \in DOMAIN nseq}
    IN [mode |-> StropMode, types |-> types, gen_ns |-> genNs, spell |-> spell, as_given |-> (NsBaseM(spell) = GivenM(spell)), root |-> out.root, folded |-> Folded(Proj),
        nodes |-> [k \in DOMAIN nseq |-> [dsdl |-> nseq[k],
                                           parent |-> IF ParentsOf(nseq[k]) = {} THEN <<>> ELSE CHOOSE p \in ParentsOf(nseq[k]) : TRUE,
                                           kids |-> SetToSeq(KidsOf(nseq[k])),
                                           types |-> SetToSeq(TypesOf(nseq[k]))]],
        tdirs |-> [i \in 1..Len(types) |-> IF i \in reach THEN SS(types[i].ns) ELSE <<>>],
        tstems |-> [i \in 1..Len(types) |-> Strop(Stem(types[i].short, types[i].maj, types[i].min))],
        nfiles |-> Cardinality({TypePath(i) : i \in reach})]
Emit == pc = "done" => PrintT(ToJson(EmitRec))
=============================================================================
