SPECIFICATION Spec
CONSTANTS
  EscMode = "markupsafe"
  LinkStyle = "fixed"
  MaxTok = 3
  Part = "links"
  ListStyle = "versioned"
  Chains = TRUE
  Configs = {"ext"}
  SampleConfigs = {}
INVARIANT Emit
CHECK_DEADLOCK FALSE
