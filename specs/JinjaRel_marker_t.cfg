SPECIFICATION Spec
CONSTANTS
  Profile = "marker"
  MaxW = 1
  MaxWc = 2
  MaxDepth = 1
  Tights = {FALSE, TRUE}
  EmitOpen = FALSE
INVARIANT Emit
CHECK_DEADLOCK FALSE
