SPECIFICATION Spec
CONSTANTS
  MaxTypes = 4
  MaxNested = 3
  Langs = {"c", "cpp", "py", "html"}
  Audits = {FALSE}
  OpenSets = {{"model_cache"}, {"pp_carry"}, {"include_order"}, {"html_order"}}
  SortedWalk = FALSE
  Vary = {}
INVARIANT EmitWitness
INVARIANT PathsStable
CHECK_DEADLOCK FALSE
