SPECIFICATION Spec
CONSTANTS
  NRev = 3
  NTypes = 2
  MaxGen = 3
  Memo = "none"
INVARIANT EmbeddedEqSource
CHECK_DEADLOCK FALSE
