SPECIFICATION SSpec
CONSTANTS
  MaxLen = 4
INVARIANT NoSpanEverAccepted
CHECK_DEADLOCK FALSE
