SPECIFICATION Spec
CONSTANTS
  Roots <- RootsR
  Names <- NamesSuffix
  Shorts <- ShortsT
  TwoVer <- TwoVerT
  MaxDepth = 2
  MaxTypes = 3
  StropMode = "suffix"
  GenNsChoices = {TRUE}
INVARIANT Emit
CHECK_DEADLOCK FALSE
