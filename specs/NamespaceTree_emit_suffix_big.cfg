SPECIFICATION Spec
CONSTANTS
  Roots <- RootsR
  Names <- NamesSuffix
  Shorts <- ShortsT
  TwoVer <- TwoVerT
  MaxDepth = 2
  MaxTypes = 3
  StropMode = "suffix"
  GenNsChoices = {TRUE}
  Spellings = {"rel"}
  CanonNs = FALSE
  SupportFromRootParent = FALSE
INVARIANT Emit
CHECK_DEADLOCK FALSE
