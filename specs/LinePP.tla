------------------------------ MODULE LinePP ------------------------------
(* P-layer for C15: what "applying line post-processors to the complete text" means.                     *)
(* Text is a sequence of code points.  A processor is [k |-> "trim"] or [k |-> "limit", n |-> N].       *)
EXTENDS Naturals, Sequences

LF == 10
CR == 13

(* Unicode white space as Python's re `\s` sees it on str patterns (checked against the running          *)
(* interpreter by the harness self-test).                                                              *)
WS == {9, 10, 11, 12, 13, 28, 29, 30, 31, 32, 133, 160, 5760, 8232, 8233, 8239, 8287, 12288} \cup (8192..8202)

(* Split the complete text at  \n | \r\n : sequence of <<line, terminator>>; a non-empty rest without   *)
(* terminator is a last line with terminator <<>>.                                                     *)
RECURSIVE SplitFrom(_, _, _)
SplitFrom(t, i, cur) ==
    IF i > Len(t) THEN (IF cur = <<>> THEN <<>> ELSE << <<cur, <<>> >> >>)
    ELSE IF t[i] = LF THEN << <<cur, <<LF>> >> >> \o SplitFrom(t, i + 1, <<>>)
    ELSE IF t[i] = CR /\ i < Len(t) /\ t[i + 1] = LF THEN << <<cur, <<CR, LF>> >> >> \o SplitFrom(t, i + 2, <<>>)
    ELSE SplitFrom(t, i + 1, Append(cur, t[i]))

Lines(t) == SplitFrom(t, 1, <<>>)

RECURSIVE Trim(_)
Trim(s) == IF s # <<>> /\ s[Len(s)] \in WS THEN Trim(SubSeq(s, 1, Len(s) - 1)) ELSE s

(* One processor applied to one line.  st is the processor's private counter (limiter) or 0.           *)
(* Result: <<line', term', st'>>                                                                       *)
Apply1(pp, line, term, st) ==
    IF pp.k = "trim" THEN <<Trim(line), term, st>>
    ELSE LET c == IF line = <<>> THEN st + 1 ELSE 0
         IN IF c > pp.n THEN << <<>>, <<>>, c >> ELSE <<line, term, c>>

(* All processors of the list applied in order to one line; sts is the vector of counters.              *)
RECURSIVE ApplyAll(_, _, _, _, _)
ApplyAll(pps, j, line, term, sts) ==
    IF j > Len(pps) THEN <<line, term, sts>>
    ELSE LET r == Apply1(pps[j], line, term, sts[j])
         IN ApplyAll(pps, j + 1, r[1], r[2], [sts EXCEPT ![j] = r[3]])

RECURSIVE Fold(_, _, _, _)
Fold(ls, i, pps, sts) ==
    IF i > Len(ls) THEN <<>>
    ELSE LET r == ApplyAll(pps, 1, ls[i][1], ls[i][2], sts)
         IN r[1] \o r[2] \o Fold(ls, i + 1, pps, r[3])

ZeroSt(pps) == [j \in 1..Len(pps) |-> 0]

(* THE property: the file content for a complete text and a processor list.                             *)
Whole(t, pps) == IF Len(pps) = 0 THEN t ELSE Fold(Lines(t), 1, pps, ZeroSt(pps))

(* Clauses that hold of any result r = Whole(t, pps); used as independent sanity theorems on the model.  *)
RECURSIVE MaxEmptyRun(_, _, _, _)
MaxEmptyRun(ls, i, cur, best) ==
    IF i > Len(ls) THEN best
    ELSE LET c == IF ls[i][1] = <<>> /\ ls[i][2] # <<>> THEN cur + 1 ELSE 0
         IN MaxEmptyRun(ls, i + 1, c, IF c > best THEN c ELSE best)

NonEmptyLines(t) == SelectSeq(Lines(t), LAMBDA p : p[1] # <<>>)
=============================================================================
