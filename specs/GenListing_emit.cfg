SPECIFICATION Spec
CONSTANTS
  Langs = {"c", "cpp", "py", "html"}
  Exts = {"def", "ovr"}
  Stems = {"def", "ovr"}
  SupTpls = {FALSE, TRUE}
  NsVals = {FALSE, TRUE}
  Shapes = {"plain", "sibling", "rsibling"}
  Wipes = FALSE
  PFiles = {}
  MaxLo = 1
  MaxLi = 1
  MaxDry = 1
  MaxRun = 1
  Linear = TRUE
  QuickOnly = FALSE
  FwdOmitToList = TRUE
  ListDeps = TRUE
  OwnByPrefix = FALSE
  ListUserSup = TRUE
INVARIANT Emit
CHECK_DEADLOCK FALSE
