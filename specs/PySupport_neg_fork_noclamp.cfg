SPECIFICATION Spec
CONSTANTS
  Kind = "des"
  MaxCalls = 3
  Level = 1
  FragMode = "join"
  Bug = "fork_noclamp"
  Emit = FALSE
INVARIANT RefinesDes
CHECK_DEADLOCK FALSE
