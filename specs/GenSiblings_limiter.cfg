SPECIFICATION Spec
CONSTANTS
  NTypes = 3
  MaxRuns = 3
  Shapes <- ShapesLimiter
  Limits = {0, 1, 2, 3}
  DefIds = {1}
  OmitVals = {FALSE}
  Modes = {"fresh", "lctx", "gen", "proc"}
  ResetLimiter = TRUE
  IdentityDepKey = TRUE
  VolatileUniq = TRUE
  FreshModule = TRUE
  Words = {1}
  FullStropKey = TRUE
  Docs = {0}
  PureFilters = TRUE
  Confs = {0}
  PureDerivedNames = TRUE
VIEW View
INVARIANT SibDigest
INVARIANT LimitRespected
INVARIANT OwnLineKept
CHECK_DEADLOCK FALSE
