SPECIFICATION Spec
CONSTANTS
  KSel = 2
  IsUnion = FALSE
  MaxHist = 3
  CtorSpecial = 3
  MidReduced = FALSE
  ParseDigits = FALSE
  ClearFirst = FALSE
INVARIANT Refines
INVARIANT StateKept
INVARIANT UnionAlwaysOne
INVARIANT NeverOutOfRange
CHECK_DEADLOCK FALSE
