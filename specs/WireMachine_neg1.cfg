SPECIFICATION Spec
CONSTANTS
  Little = TRUE
  Level = 1
  Bug = "nofinalpad"
INVARIANT Refines
INVARIANT StaysInside
CHECK_DEADLOCK FALSE
