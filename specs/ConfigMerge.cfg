SPECIFICATION Spec
CONSTANTS
  CopyMode = "rebuild"
  Mode = "fold"
  Universe <- UFoldQ
  Sharings = {"none", "doc"}
  AnyOrder = FALSE
  NB = 1
  MaxOps = 0
  Group = "none"
  Record = TRUE
  Slice = 0
  NSlices = 1
INVARIANT Refines
INVARIANT DocsUnmodified
INVARIANT CtxStable
INVARIANT NoSharing
INVARIANT Emit
CHECK_DEADLOCK FALSE
