SPECIFICATION Spec
CONSTANTS
  Kind = "des"
  MaxCalls = 4
  Level = 1
  FragMode = "join"
  Bug = "none"
  Emit = FALSE
INVARIANT RefinesDes
INVARIANT FragIndep
CHECK_DEADLOCK FALSE
