SPECIFICATION Spec
CONSTANTS
  Langs = {"c", "cpp", "py", "html"}
  Exts = {"def", "ovr"}
  Stems = {"def", "ovr"}
  SupTpls = {FALSE, TRUE}
  NsVals = {FALSE, TRUE}
  Shapes = {"plain"}
  Wipes = TRUE
  PFiles = {}
  MaxLo = 1
  MaxLi = 1
  MaxDry = 1
  MaxRun = 2
  Linear = FALSE
  QuickOnly = FALSE
  FwdOmitToList = TRUE
  ListDeps = TRUE
  OwnByPrefix = FALSE
  ListUserSup = TRUE
INVARIANT Refines
INVARIANT DomainAsPredicted
INVARIANT InfluenceAsPredicted
CHECK_DEADLOCK FALSE
