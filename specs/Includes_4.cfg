SPECIFICATION Spec
CHECK_DEADLOCK FALSE
CONSTANTS
  N = 4
  NRoots = 2
  NestedRoots = {1, 2}
  RefStyle = "file"
  SupportRef = "unless_omitted"
  SupportGen = "unless_omitted"
  ScanResponse = TRUE
  ScanArrays = TRUE
  EmitWorlds = FALSE
INVARIANT TypeOK
INVARIANT Closure
INVARIANT SelfSufficient
