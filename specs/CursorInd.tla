----------------------------- MODULE CursorInd -----------------------------
(* The memory argument of the generated C/C++ codecs, reduced to integers, for buffers of ANY size (TLC checks the     *)
(* implementation-shaped machines WireMachine / WireMachineDes only for buffers of a few bytes).                       *)
(*                                                                                                                       *)
(* A decoder frame works on the bytes [base, base + size) of a message of `total` bytes with a bit cursor `off` that     *)
(* may run past the end of the frame (implicit zero extension).  Steps, as in the generated code:                      *)
(*   Fetch(k)   read k bits at the cursor through the bounded primitive: it touches SatBits(size, off, k) bits           *)
(*   Pad        cursor to the next byte boundary                                                                        *)
(*   Call(h)    nested decode: pointer = base + min(off, 8 size) div 8 (the CLAMPED cursor, fix 1a6933a), size of the    *)
(*              child = min(h, remaining bytes) (delimited, h = header) or the remaining bytes (sealed)                  *)
(*   Return     consumed = min(off, 8 size) div 8                                                                        *)
(* and of an encoder frame: the up-front check 8 size >= maxbits, then Emit(k) with k <= budget left.                    *)
(* IndInv is inductive: Init => IndInv, IndInv /\ Next => IndInv' (Apalache, unbounded integers).                       *)
EXTENDS Integers

VARIABLES
    \* @type: Int;
    total,
    \* @type: Int;
    base,
    \* @type: Int;
    size,
    \* @type: Int;
    off,
    \* @type: Int;
    lo,      \* first byte touched by the last step (absolute), hi: one past the last byte touched
    \* @type: Int;
    hi,
    \* @type: Int;
    consumed,
    \* @type: Bool;
    clamp    \* TRUE: Call uses the clamped cursor (the code); FALSE: the raw cursor (negative control, the defect repaired by 1a6933a)

Min2(a, b) == IF a < b THEN a ELSE b
SatBits(sz, o, len) == Min2(len, (8 * sz) - Min2(8 * sz, o))

Init ==
    /\ total \in Nat /\ base = 0 /\ size = total /\ off = 0 /\ lo = 0 /\ hi = 0 /\ consumed = 0
    /\ clamp \in BOOLEAN

Fetch ==
    \E k \in Nat :
        /\ k <= 64
        /\ LET sat == SatBits(size, off, k) IN
             /\ lo' = IF sat = 0 THEN base ELSE base + (off \div 8)
             /\ hi' = IF sat = 0 THEN base ELSE base + ((off + sat + 7) \div 8)
        /\ off' = off + k
        /\ UNCHANGED <<total, base, size, consumed, clamp>>

Pad ==
    /\ off' = ((off + 7) \div 8) * 8
    /\ lo' = base /\ hi' = base
    /\ UNCHANGED <<total, base, size, consumed, clamp>>

Call ==
    \E h \in Nat :
        LET cur == IF clamp THEN Min2(off, 8 * size) ELSE off
            rem == size - (Min2(off, 8 * size) \div 8)
        IN /\ off % 8 = 0
           /\ base' = base + (cur \div 8)
           /\ size' = Min2(h, rem)
           /\ off' = 0
           /\ lo' = base' /\ hi' = base'
           /\ consumed' = 0
           /\ UNCHANGED <<total, clamp>>

Return ==
    /\ consumed' = Min2(off, 8 * size) \div 8
    /\ lo' = base /\ hi' = base
    /\ UNCHANGED <<total, base, size, off, clamp>>

Next == Fetch \/ Pad \/ Call \/ Return

(* what C04 needs: every touched byte and every pointer handed on lies inside the supplied message; what C02 needs: consumed <= supplied *)
Safe ==
    /\ 0 <= base /\ base <= total          \* pointer inside or one past the end
    /\ base + size <= total                \* the frame the callee is told about exists
    /\ base <= lo /\ lo <= hi /\ hi <= base + size
    /\ consumed <= size

IndInv ==
    /\ total \in Nat /\ base \in Nat /\ size \in Nat /\ off \in Nat /\ lo \in Nat /\ hi \in Nat /\ consumed \in Nat
    /\ clamp = TRUE
    /\ Safe

(* negative control: with the raw cursor the same invariant is NOT inductive *)
IndInvRaw ==
    /\ total \in Nat /\ base \in Nat /\ size \in Nat /\ off \in Nat /\ lo \in Nat /\ hi \in Nat /\ consumed \in Nat
    /\ clamp = FALSE
    /\ Safe
InitClamped == Init /\ clamp = TRUE
=============================================================================
