SPECIFICATION Spec
CONSTANTS
  GenFiles = {1, 2, 3}
  OtherFiles = {}
  Modes = {292, 420}
  Variants = {0, 2}
  ChmodGate = FALSE
  CopyGate = TRUE
  Truncates = TRUE
  PPOrder = "program_first"
  Privileged = TRUE
  OptsSel = "all"
  EnvOn = TRUE
  Record = FALSE
  MaxSteps = 0
INVARIANT TypeOK
INVARIANT RunEndOK
INVARIANT NoTornFile
CHECK_DEADLOCK FALSE
