SPECIFICATION Spec
CONSTANTS
  Kind = "des"
  MaxCalls = 3
  Level = 2
  FragMode = "join"
  Bug = "none"
  Emit = FALSE
INVARIANT RefinesDes
INVARIANT FragIndep
CHECK_DEADLOCK FALSE
