SPECIFICATION TSpec
CHECK_DEADLOCK FALSE
POSTCONDITION Accepted
CONSTANTS
  MaxLen = 0
