SPECIFICATION Spec
CONSTANTS
  NTypes = 3
  MaxRuns = 2
  Shapes <- ShapesNames
  Limits = {0}
  DefIds = {1, 2}
  OmitVals = {FALSE}
  Modes = {"fresh", "lctx", "gen"}
  ResetLimiter = TRUE
  IdentityDepKey = TRUE
  VolatileUniq = TRUE
  FreshModule = TRUE
  Words = {1, 2, 3}
  FullStropKey = FALSE
  Docs = {0}
  PureFilters = TRUE
  Confs = {0}
  PureDerivedNames = TRUE
VIEW View
INVARIANT EmitBad
CHECK_DEADLOCK FALSE
