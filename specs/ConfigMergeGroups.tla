-------------------------- MODULE ConfigMergeGroups --------------------------
(* C13, the clause "the C++ language-standard shorthands such as c++17-pmr set their documented group of     *)
(* options as a unit".                                                                                     *)
(*                                                                                                        *)
(* P: for every shorthand S and every assignment of the group's keys by lower-precedence sources (built-in,  *)
(* configuration file, earlier document), the effective value of EVERY key of S's DOCUMENTED group is S's     *)
(* documented value, unless a source of the same or a higher precedence than the one that selected S gives    *)
(* that key explicitly (then the statement is silent).  The documented group is a constant of the statement   *)
(* (DocBlock), not something the implementation's own configuration is asked about.                           *)
(*                                                                                                        *)
(* I: what cpp.Language._validate_language_options does: options.update(defaults[options["std"]]) with the    *)
(* block ImplBlock that the implementation ships (properties.yaml).  Impl = "unit": ImplBlock = DocBlock;     *)
(* Impl = "partial" (negative control): a block that was "de-duplicated" against the stock options, i.e.      *)
(* some documented keys are missing from it.                                                                *)
(*                                                                                                        *)
(* The options map is flat: key 0 = std, keys 1..NKeys = the options of the group.  Leaf identities:          *)
(*   s              (std)  shorthand s is selected      1000 + k     stock (built-in) value of option k      *)
(*   0              (std)  stock standard, no group     100 * s + k  documented value of option k in group s  *)
(*   2000 + 100*r + k      value that the source of rank r gives to option k                                  *)
(* Sources in precedence order: 0 built-in, 1 lower source (file or API document) that perturbs the keys Pl,   *)
(* 2 the file that selects the shorthand (channel "file"), 3 the override / command line (channels "ovr",      *)
(* "cli").  H: keys that the selecting source itself (channel ovr) or the override above it (channel file)     *)
(* gives explicitly as well.                                                                                *)
EXTENDS ConfigMergeP, TLC, Json, SequencesExt

CONSTANTS NKeys, Shorthands, Impl, Dropped, MaxPert

VARIABLES sh, chan, lowkind, Pl, H, opts, popts, phase
vars == <<sh, chan, lowkind, Pl, H, opts, popts, phase>>

Keys == 1..NKeys
DocBlock(s) == [k \in 0..NKeys |-> IF k = 0 THEN X(50 + s) ELSE X(100 * s + k)]     \* 50 + s: the plain standard behind s
ImplBlock(s) == IF Impl = "unit" THEN DocBlock(s) ELSE [k \in (0..NKeys) \ Dropped |-> DocBlock(s)[k]]
Builtin == [k \in 0..NKeys |-> IF k = 0 THEN X(0) ELSE X(1000 + k)]
Given(r, ks) == [k \in ks |-> X(2000 + 100 * r + k)]
StdRank == IF chan = "file" THEN 2 ELSE 3
StdDoc == (0 :> X(sh)) @@ (IF chan = "ovr" THEN Given(3, H) ELSE <<>>)
HighDoc == IF chan = "file" THEN Given(3, H) ELSE <<>>

Init ==
    /\ sh \in Shorthands /\ chan \in {"file", "ovr", "cli"} /\ lowkind \in {"file", "api"}
    /\ Pl \in {S \in SUBSET Keys : Cardinality(S) >= 1 /\ Cardinality(S) <= MaxPert}
    /\ H \in {S \in SUBSET Keys : Cardinality(S) <= 1 /\ (chan = "cli" => S = {}) /\ (Cardinality(Pl) > 1 => S = {})}
    /\ opts = Builtin /\ popts = Builtin /\ phase = "low"

(* the lower-precedence source: LanguageConfig.update / add_config_files *)
MergeLow ==
    /\ phase = "low"
    /\ opts' = Merge(opts, Given(1, Pl)) /\ popts' = Merge(popts, Given(1, Pl))
    /\ phase' = "std"
    /\ UNCHANGED <<sh, chan, lowkind, Pl, H>>
(* the source that names the shorthand: a later file, the options override or --language-standard *)
MergeStd ==
    /\ phase = "std"
    /\ opts' = Merge(opts, StdDoc) /\ popts' = Merge(popts, StdDoc)
    /\ phase' = IF chan = "file" /\ H # {} THEN "high" ELSE "expand"
    /\ UNCHANGED <<sh, chan, lowkind, Pl, H>>
MergeHigh ==
    /\ phase = "high"
    /\ opts' = Merge(opts, HighDoc) /\ popts' = Merge(popts, HighDoc)
    /\ phase' = "expand"
    /\ UNCHANGED <<sh, chan, lowkind, Pl, H>>
(* the shorthand expansion.  I: options.update(block the implementation ships).  P: GroupApply with the documented block. *)
Expand ==
    /\ phase = "expand"
    /\ opts' = [k \in DOMAIN opts |-> IF k \in DOMAIN ImplBlock(sh) THEN ImplBlock(sh)[k] ELSE opts[k]]
    /\ popts' = GroupApply(popts, DocBlock(sh), H \cup {0})
    /\ phase' = "done"
    /\ UNCHANGED <<sh, chan, lowkind, Pl, H>>

Next == MergeLow \/ MergeStd \/ MergeHigh \/ Expand
Spec == Init /\ [][Next]_vars

(* I => P *)
Refines == phase = "done" => Match(M(popts), M(opts), TRUE)
(* the clause, stated without GroupApply: nothing a lower source did to a key of the group survives *)
UnitClause == phase = "done" => \A k \in Keys \ H : opts[k] = DocBlock(sh)[k]

(* case emission: the expectation is symbolic, the harness resolves it with its table of documented values *)
Sym(v, k) == IF v.k = "any" THEN "any" ELSE IF v.v = 100 * sh + k THEN "doc" ELSE IF v.v = 1000 + k THEN "stock" ELSE "given"
Emit == phase = "done" =>
    PrintT(ToJson([sh |-> sh, chan |-> chan, lowkind |-> lowkind, low |-> SetToSeq(Pl), high |-> SetToSeq(H),
                   exp |-> [k \in Keys |-> Sym(popts[k], k)]]))
=============================================================================
