-------------------------- MODULE GenHistoryTrace --------------------------
(* T-layer for C12.  The trace is a sequence of histories recorded from the real nnvg; the variable fs of   *)
(* GenHistory (the directory) is threaded through the records of one history:                               *)
(*   begin    a new, empty output directory                                                                 *)
(*   foreign / chmod / remove    the environment acted (the harness did it; the snapshot must be what the   *)
(*            model's environment action yields: clause harness.env, a machinery problem)                    *)
(*   run      one nnvg invocation: options o, status st, snapshot post of every file (interned digest c,     *)
(*            permission bits m), fresh = digests of the same invocation into an empty directory (fok: it     *)
(*            succeeded), and for the I-layer: ord = order in which that run generates, ev = audit events    *)
(*            (chmod/open on files of the directory, exec of the --pp-run-program on one), lpp = a line        *)
(*            post-processor is in force, rp = --pp-run-program is given, priv = root.                        *)
(* P decides: REJECT with the first failing clause of GenHistory!FailedClauses (4th field: how many failed).  *)
(* The I-layer only annotates: clause names starting with "drift." (end state or event sequence differ from  *)
(* what the implementation-shaped model predicts, or from the expected state a model behaviour carried).    *)
EXTENDS GenHistory, IOUtils

Trace == ndJsonDeserialize(IOEnv.TRACE_FILE)

VARIABLE l

FsOf(seq) == [p \in {seq[i].p : i \in DOMAIN seq} |->
                LET i == CHOOSE j \in DOMAIN seq : seq[j].p = p IN [c |-> seq[i].c, m |-> seq[i].m]]
(* u: the content of this file is not reproducible between two runs into empty directories (a time stamp, say): *)
(* whatever the run wrote counts as fresh, the other clauses (existence, mode, no-overwrite) stay in force        *)
FreshOf(seq, post) == [p \in {seq[i].p : i \in DOMAIN seq} |->
                         LET i == CHOOSE j \in DOMAIN seq : seq[j].p = p
                         IN IF seq[i].u /\ p \in DOMAIN post THEN post[p].c ELSE seq[i].c]

(* I-layer prediction of a whole run from the shared per-file operators (contents are opaque here, so Write is *)
(* "the file now holds fresh[f]", i.e. the truncating open of the code)                                        *)
TDenied(d, f, priv) == f \in DOMAIN d /\ ~priv /\ ~OwnerWritable(d[f].m)
EvOvw(d, f, o) == IF f \in DOMAIN d /\ Gated(f) /\ ChmodGate THEN <<[e |-> "chmod", p |-> f, a |-> Or(d[f].m, UGW)]>> ELSE <<>>
(* rp: --pp-run-program is given; the chain is the model's: program ("exec" on the file) before SetFileMode    *)
EvChain(f, o, rp) == LET prog == IF rp THEN <<[e |-> "exec", p |-> f, a |-> 0]>> ELSE <<>>
                         mode == <<[e |-> "chmod", p |-> f, a |-> o.fm]>>
                     IN IF PPOrder = "program_first" THEN prog \o mode ELSE mode \o prog
EvRest(f, o, lpp, rp) == <<[e |-> "open", p |-> f, a |-> 1]>>
                     \o (IF Kind(f) = "copy" /\ ~lpp THEN <<[e |-> "chmod", p |-> f, a |-> ResourceMode]>> ELSE <<>>)
                     \o EvChain(f, o, rp)

RECURSIVE IRun(_, _, _, _, _, _, _, _)
IRun(d, o, fresh, q, lpp, rp, priv, ev) ==
    IF q = <<>> THEN [fs |-> d, st |-> "ok", ev |-> ev]
    ELSE LET f == Head(q) IN
         IF OvwRefuses(d, f, o) THEN [fs |-> d, st |-> "error", ev |-> ev]
         ELSE LET d1 == StepOvw(d, f, o) IN
              IF TDenied(d1, f, priv) THEN [fs |-> d1, st |-> "error", ev |-> ev \o EvOvw(d, f, o) \o <<[e |-> "open", p |-> f, a |-> 1]>>]
              ELSE IRun(Put(d1, f, [c |-> fresh[f], m |-> o.fm]), o, fresh, Tail(q), lpp, rp, priv,
                        ev \o EvOvw(d, f, o) \o EvRest(f, o, lpp, rp))

EvJ(seq) == [i \in DOMAIN seq |-> [e |-> seq[i].e, p |-> seq[i].p, a |-> seq[i].a]]

EnvResult(r) ==
    IF r.k = "begin" THEN Empty
    ELSE IF r.k = "foreign" THEN Put(fs, r.p, [c |-> r.c, m |-> r.m])
    ELSE IF r.k = "chmod" THEN (IF r.p \in DOMAIN fs THEN [fs EXCEPT ![r.p].m = r.m] ELSE fs)
    ELSE (IF r.p \in DOMAIN fs THEN Del(fs, r.p) ELSE fs)

Say(id, clause, more) == PrintT(<<"REJECT", id, clause, Cardinality(more)>>)   \* short: TLC wraps long lines

TRun(r) ==
    LET post  == FsOf(r.post)
        fresh == FreshOf(r.fresh, post)
        bad   == FailedClauses(fs, r.o, fresh, r.fok, r.st, post)
        pred  == IRun(fs, r.o, fresh, r.ord, r.lpp, r.rp, r.priv, <<>>)
    IN  /\ IF bad # {} THEN Say(r.id, FirstClause(bad), bad)
           ELSE IF r.hasexp /\ FsOf(r.exp) # post THEN Say(r.id, "drift.model_expected", {})
           ELSE IF r.hasexp /\ r.expst # r.st THEN Say(r.id, "drift.model_status", {})
           ELSE IF r.fok /\ (pred.fs # post \/ pred.st # r.st) THEN Say(r.id, "drift.i_post", {})
           ELSE IF r.fok /\ r.hasev /\ EvJ(r.ev) # pred.ev THEN Say(r.id, "drift.i_events", {})
           ELSE TRUE
        /\ fs' = post

TEnv(r) ==
    LET d == EnvResult(r) IN
    /\ IF FsOf(r.post) # d THEN Say(r.id, "harness.env", {}) ELSE TRUE
    /\ fs' = FsOf(r.post)

TInit == /\ l = 1 /\ fs = Empty /\ pc = "idle" /\ queue = <<>> /\ chain = <<>> /\ opts = NoOpts /\ pre = Empty
         /\ status = "none" /\ hist = <<>> /\ nsteps = 0
TNext == /\ l <= Len(Trace)
         /\ IF Trace[l].k = "run" THEN TRun(Trace[l]) ELSE TEnv(Trace[l])
         /\ l' = l + 1
         /\ UNCHANGED <<pc, queue, chain, opts, pre, status, hist, nsteps>>
TSpec == TInit /\ [][TNext]_<<vars, l>>
Accepted == TLCGet("stats").diameter - 1 = Len(Trace)
=============================================================================
