SPECIFICATION Spec
CONSTANTS
  EscMode = "markupsafe"
  LinkStyle = "fixed"
  MaxTok = 3
  Part = "both"
  Chains = FALSE
INVARIANT Emit
CHECK_DEADLOCK FALSE
