SPECIFICATION Spec
CONSTANTS
  EscMode = "markupsafe"
  LinkStyle = "fixed"
  MaxTok = 3
  Part = "both"
  ListStyle = "versioned"
  Chains = FALSE
  Configs = {"default"}
  SampleConfigs = {"stem", "ext", "both"}
INVARIANT Emit
CHECK_DEADLOCK FALSE
