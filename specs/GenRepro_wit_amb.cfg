SPECIFICATION Spec
CONSTANTS
  MaxTypes = 2
  MaxNested = 1
  Langs = {"c", "cpp", "py", "html"}
  Audits = {FALSE}
  OpenSets = {{"gzip_mtime"}, {"ns_time"}, {"model_abspath"}, {"assert_abspath"}, {"filter_owner"}, {"template_dir_abspath"}, {"template_dir_spelling"}}
  SortedWalk = FALSE
  Vary = {"clock", "loc", "cwd"}
INVARIANT EmitWitness
INVARIANT PathsStable
CHECK_DEADLOCK FALSE
