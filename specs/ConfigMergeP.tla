---------------------------- MODULE ConfigMergeP ----------------------------
(* P-layer for C13, pure operators: what "merging configuration sources with a fixed precedence as a     *)
(* deep union" means, independent of how Nunavut does it.                                                *)
(*                                                                                                       *)
(* A configuration VALUE is a record [k, v, m]:                                                          *)
(*    k = "x"   explicit leaf (scalar or list, atomic), identity v                                      *)
(*    k = "d"   default-marked leaf (nunavut.DefaultValue), identity v                                  *)
(*    k = "m"   map, m = function from a finite set of keys (naturals) to values                         *)
(*    k = "any" (expectations only) the property does not fix this sub-value                             *)
(* Keys and leaf identities are naturals (interned by the harness); values are immutable here:           *)
(* "documents unmodified" and "earlier contexts stable" are statements about the implementation's       *)
(* objects and are decided by comparing their snapshots with these values.                               *)
EXTENDS Naturals, Sequences, FiniteSets

X(n) == [k |-> "x", v |-> n, m |-> <<>>]
D(n) == [k |-> "d", v |-> n, m |-> <<>>]
AnyV  == [k |-> "any", v |-> 0, m |-> <<>>]
OneOf(ids) == [k |-> "in", v |-> 0, m |-> ids]      \* (expectations only) a leaf whose identity is one of the sequence ids
M(f) == [k |-> "m", v |-> 0, m |-> f]
EmptyMap == M(<<>>)

IsMap(v) == v.k = "m"

Put(f, key, val) == [x \in (DOMAIN f) \cup {key} |-> IF x = key THEN val ELSE f[x]]

(* a non-empty map all of whose leaves are default-marked (a source that is "merely defaults")           *)
RECURSIVE AllDefault(_)
AllDefault(v) ==
    IF IsMap(v) THEN DOMAIN v.m # {} /\ \A key \in DOMAIN v.m : AllDefault(v.m[key])
    ELSE v.k = "d"

(* ---- THE property: the later (higher-precedence) source s merged over t ----                           *)
(* t, s are map contents (functions).                                                                    *)
(*  - keys not mentioned by s keep their value                                            (deep union)    *)
(*  - nested maps are merged key-wise                                                     (deep union)    *)
(*  - an explicit leaf of s wins                                                          (precedence)    *)
(*  - a default-marked leaf of s fills a gap or replaces another default, never anything else (marker)    *)
(*  - a map of s over a leaf of t: the later source wins; if that map is merely defaults and the leaf    *)
(*    explicit, the statement is silent (AnyV)                                                            *)
RECURSIVE Merge(_, _)
Merge1(tv, sv) ==
    IF IsMap(sv) THEN
        IF IsMap(tv) THEN M(Merge(tv.m, sv.m))
        ELSE IF tv.k = "any" THEN AnyV
        ELSE IF tv.k = "x" /\ AllDefault(sv) THEN AnyV
        ELSE sv
    ELSE IF sv.k = "d" THEN (IF tv.k = "d" THEN sv ELSE tv)
    ELSE sv
Merge(t, s) ==
    [key \in (DOMAIN t) \cup (DOMAIN s) |->
        IF key \notin DOMAIN s THEN t[key]
        ELSE IF key \notin DOMAIN t THEN s[key]
        ELSE Merge1(t[key], s[key])]

(* fold of a sequence of map contents, lowest precedence first                                            *)
RECURSIVE MergeAll(_, _, _)
MergeAll(t, srcs, i) == IF i > Len(srcs) THEN t ELSE MergeAll(Merge(t, srcs[i]), srcs, i + 1)

(* ---- comparison of an expectation e with an observation o ----                                         *)
(* strict: markers count (model checking of the I-layer); eff: effective values only (real code: reports  *)
(* go through no_default_value, a refactoring may strip the marker earlier or later).                     *)
RECURSIVE Match(_, _, _)
Match(e, o, strict) ==
    IF e.k = "any" THEN TRUE
    ELSE IF e.k = "m" THEN /\ o.k = "m" /\ DOMAIN e.m = DOMAIN o.m
                           /\ \A key \in DOMAIN e.m : Match(e.m[key], o.m[key], strict)
    ELSE IF e.k = "in" THEN o.k \in {"x", "d"} /\ \E i \in DOMAIN e.m : e.m[i] = o.v
    ELSE /\ o.k \in {"x", "d"} /\ e.v = o.v
         /\ (strict => e.k = o.k)

(* paths (sequences of keys) at which o deviates from e; empty iff Match(e, o, strict)                     *)
RECURSIVE Diff(_, _, _, _)
Diff(e, o, strict, p) ==
    IF e.k = "any" THEN {}
    ELSE IF e.k = "m" /\ o.k = "m" THEN
        UNION {IF key \in DOMAIN e.m /\ key \in DOMAIN o.m THEN Diff(e.m[key], o.m[key], strict, Append(p, key))
               ELSE {Append(p, key)} : key \in (DOMAIN e.m) \cup (DOMAIN o.m)}
    ELSE IF e.k = "m" \/ o.k = "m" THEN {p}
    ELSE IF e.k = "in" THEN (IF \E i \in DOMAIN e.m : e.m[i] = o.v THEN {} ELSE {p})
    ELSE IF e.v = o.v /\ (strict => e.k = o.k) THEN {} ELSE {p}

(* value of the longest prefix of path p present in map value v: <<value, length of that prefix>>         *)
RECURSIVE Lookup(_, _, _)
Lookup(v, p, i) ==
    IF i > Len(p) \/ ~IsMap(v) THEN <<v, i - 1>>
    ELSE IF p[i] \in DOMAIN v.m THEN Lookup(v.m[p[i]], p, i + 1)
    ELSE <<v, i - 1>>

(* the clause of the property statement that speaks about path p when source s is merged over something   *)
ClauseAt(s, p) ==
    LET r == Lookup(s, p, 1)
    IN IF IsMap(r[1]) /\ r[2] < Len(p) THEN "merge.deep_union"        \* s does not mention p
       ELSE IF r[1].k = "d" \/ AllDefault(r[1]) THEN "merge.default_marker"
       ELSE "merge.precedence"

(* ---- option groups (C++ language-standard shorthands) ----                                             *)
(* A shorthand (c++17-pmr, cetl++14-17) stands for a DOCUMENTED block of options.  The block is part of the *)
(* statement (a fixed table of the check, from docs/languages.rst), never something read from the            *)
(* configuration of the tree under test.                                                                   *)
(* opts: map contents after the precedence merge; block: documented key -> expectation (a value or OneOf);   *)
(* protected: option keys that a source of the same or a higher precedence than the one that selected the    *)
(* shorthand gives explicitly.  Every key of the block has its documented value whatever built-in, files    *)
(* or earlier documents put there (the group is set as a unit); a protected key is not fixed by the          *)
(* statement (AnyV).                                                                                        *)
GroupApply(opts, block, protected) ==
    [key \in (DOMAIN opts) \cup (DOMAIN block) |->
        IF key \notin DOMAIN block THEN opts[key]
        ELSE IF key \in protected THEN AnyV
        ELSE block[key]]
(* the stored configuration may or may not show the group (it is the created language that reports it)    *)
GroupLoose(opts, block) ==
    [key \in (DOMAIN opts) \cup (DOMAIN block) |-> IF key \in DOMAIN block THEN AnyV ELSE opts[key]]

(* ---- clauses of the statement, stated independently of Merge (sanity theorems checked by TLC) ----     *)
RECURSIVE LeafPaths(_, _)
LeafPaths(v, p) ==
    IF IsMap(v) THEN UNION {LeafPaths(v.m[key], Append(p, key)) : key \in DOMAIN v.m} ELSE {p}
Get(v, p) == Lookup(v, p, 1)[1]
Defined(v, p) == Lookup(v, p, 1)[2] = Len(p)

(* for a merge r = Merge(t, s) without AnyV in r at the inspected place:                                   *)
ClauseKeepsUnmentioned(t, s) ==
    \A key \in DOMAIN t : key \notin DOMAIN s => Merge(t, s)[key] = t[key]
ClauseExplicitWins(t, s) ==
    \A p \in LeafPaths(M(s), <<>>) :
        Get(M(s), p).k = "x" => (Defined(M(Merge(t, s)), p) /\ Get(M(Merge(t, s)), p) = Get(M(s), p))
ClauseDefaultNeverDisplaces(t, s) ==
    \A p \in LeafPaths(M(s), <<>>) :
        (Get(M(s), p).k = "d" /\ Defined(M(t), p) /\ Get(M(t), p).k # "d")
            => Get(M(Merge(t, s)), p) = Get(M(t), p)
ClauseDefaultFills(t, s) ==
    \A p \in LeafPaths(M(s), <<>>) :
        (Get(M(s), p).k = "d" /\ Defined(M(t), p) /\ Get(M(t), p).k = "d")
            => Get(M(Merge(t, s)), p) = Get(M(s), p)
ClauseLeafOfTKept(t, s) ==
    \A p \in LeafPaths(M(t), <<>>) :
        (LET r == Lookup(M(s), p, 1) IN IsMap(r[1]) /\ r[2] < Len(p))   \* s has maps along p but not p itself
            => (Defined(M(Merge(t, s)), p) /\ Get(M(Merge(t, s)), p) = Get(M(t), p))
=============================================================================
