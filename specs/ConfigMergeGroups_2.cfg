SPECIFICATION Spec
CONSTANTS
  NKeys = 8
  Shorthands = {1, 2}
  Impl = "unit"
  Dropped = {2, 4, 7}
  MaxPert = 2
INVARIANT Refines
INVARIANT UnitClause
INVARIANT Emit
CHECK_DEADLOCK FALSE
