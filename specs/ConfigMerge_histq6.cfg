SPECIFICATION Spec
CONSTANTS
  CopyMode = "rebuild"
  Mode = "hist"
  Universe <- UHistQ
  Sharings = {"none", "doc"}
  AnyOrder = FALSE
  NB = 2
  MaxOps = 6
  Group = "none"
  Record = FALSE
  Slice = 0
  NSlices = 1
INVARIANT Refines
INVARIANT DocsUnmodified
INVARIANT CtxStable
INVARIANT NoSharing
CHECK_DEADLOCK FALSE
