SPECIFICATION Spec
CONSTANTS
  Langs = {"c", "cpp"}
  BaseSet = "core"
  MaxMut = 2
  MinMut = 0
  MaxBoth = 1
  Star = FALSE
  HashBits = 32
INVARIANT Refines
INVARIANT Iff
INVARIANT NamesExactly
INVARIANT ValidateAgrees
INVARIANT RefuseOnlyInvalid
INVARIANT Injective
INVARIANT TypeOK
CHECK_DEADLOCK FALSE
