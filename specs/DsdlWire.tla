------------------------------ MODULE DsdlWire ------------------------------
(* P-layer for C01..C05: the Cyphal DSDL wire format as operators on type descriptors, value trees and    *)
(* bit strings.  Nothing here is taken from PyDSDL or from Nunavut: sizes, offsets, paddings, prefixes,    *)
(* headers and casts are computed from the descriptor by these definitions.                               *)
(*                                                                                                       *)
(* Type descriptor (a record tree, produced from JSON):                                                  *)
(*   [k |-> "uint", w, sat]  [k |-> "int", w]  [k |-> "bool"]  [k |-> "float", w, sat]  [k |-> "void", w]  *)
(*   [k |-> "farr", n, e]   [k |-> "varr", cap, wcap, e]                                                  *)
(*   [k |-> "struct" | "union", fields |-> <<descr...>>, sealed |-> BOOLEAN, extent |-> bits]               *)
(* Value tree:                                                                                            *)
(*   primitive leaf: the STORAGE bytes of the field in the target language, little-endian (C: uintN_t /    *)
(*   intN_t / float / double; Python: 8 bytes two's complement resp. the double); bool: <<0|1>>; void <<>>  *)
(*   farr: <<v1..vn>>; varr: [n |-> count, e |-> <<v1..>>]; struct: <<field values>>;                      *)
(*   union: [tag |-> t, v |-> value of the selected member]                                                *)
EXTENDS Ieee

IsComposite(t) == t.k = "struct" \/ t.k = "union"
IsPrim(t) == t.k \in {"uint", "int", "bool", "float", "void"}

Max2(a, b) == IF a > b THEN a ELSE b
Min2(a, b) == IF a < b THEN a ELSE b
PadUp(x, a) == ((x + a - 1) \div a) * a

(* width of the implicit length prefix / union tag: the smallest of 8,16,32,64 bits that can hold the value *)
PrefixW(maxval) == IF maxval < 256 THEN 8 ELSE IF maxval < 65536 THEN 16 ELSE 32
LenW(t) == PrefixW(t.wcap)        \* wcap: capacity of the DSDL definition; cap: capacity of the object (reduced by an override)
TagW(t) == PrefixW(Len(t.fields) - 1)

RECURSIVE Align(_)
Align(t) == IF IsComposite(t) THEN 8 ELSE IF t.k \in {"farr", "varr"} THEN Align(t.e) ELSE 1

PrimW(t) == IF t.k = "bool" THEN 1 ELSE t.w

(* ---- size bounds (bits), for a value placed at an offset that satisfies its alignment ----              *)
RECURSIVE MaxBitsBody(_), MaxBitsField(_), MinBitsBody(_), MinBitsField(_), SeqMax(_, _, _), SeqMin(_, _, _),
          UnionMax(_, _, _), UnionMin(_, _, _)

(* a type used as a field / element: nested delimited composites carry a 32-bit header and count with    *)
(* their EXTENT, not with their own maximum                                                               *)
MaxBitsField(t) ==
    IF IsPrim(t) THEN PrimW(t)
    ELSE IF t.k = "farr" THEN t.n * MaxBitsField(t.e)
    ELSE IF t.k = "varr" THEN LenW(t) + t.cap * MaxBitsField(t.e)
    ELSE IF t.sealed THEN MaxBitsBody(t) ELSE 32 + t.extent
MinBitsField(t) ==
    IF IsPrim(t) THEN PrimW(t)
    ELSE IF t.k = "farr" THEN t.n * MinBitsField(t.e)
    ELSE IF t.k = "varr" THEN LenW(t)
    ELSE IF t.sealed THEN MinBitsBody(t) ELSE 32

SeqMax(fs, i, off) == IF i > Len(fs) THEN PadUp(off, 8)
                      ELSE SeqMax(fs, i + 1, PadUp(off, Align(fs[i])) + MaxBitsField(fs[i]))
SeqMin(fs, i, off) == IF i > Len(fs) THEN PadUp(off, 8)
                      ELSE SeqMin(fs, i + 1, PadUp(off, Align(fs[i])) + MinBitsField(fs[i]))
UnionMax(fs, i, best) == IF i > Len(fs) THEN best ELSE UnionMax(fs, i + 1, Max2(best, MaxBitsField(fs[i])))
UnionMin(fs, i, best) == IF i > Len(fs) THEN best ELSE UnionMin(fs, i + 1, Min2(best, MinBitsField(fs[i])))

MaxBitsBody(t) == IF t.k = "struct" THEN SeqMax(t.fields, 1, 0)
                  ELSE PadUp(TagW(t) + UnionMax(t.fields, 1, 0), 8)
MinBitsBody(t) == IF t.k = "struct" THEN SeqMin(t.fields, 1, 0)
                  ELSE PadUp(TagW(t) + UnionMin(t.fields, 2, MinBitsField(t.fields[1])), 8)

(* exported constants of a top-level composite *)
BufBytes(t) == MaxBitsBody(t) \div 8                       \* serialization buffer size
ExtentBytes(t) == IF t.sealed THEN MaxBitsBody(t) \div 8 ELSE t.extent \div 8

(* ---- casts: storage value -> wire bits ----                                                              *)
CastU(t, v) == LET b == BitsOfBytes(v)
               IN IF t.sat /\ (\E i \in (t.w + 1)..Len(b) : b[i] = 1) THEN Ones(t.w) ELSE Take(b, t.w)
CastS(t, v) == LET b == BitsOfBytes(v)
                   n == Len(b)
               IN IF AllEq(b, t.w, n, b[n]) THEN Take(b, t.w)                   \* fits: bits w-1.. are copies of the sign
                  ELSE IF b[n] = 0 THEN Ones(t.w - 1) \o <<0>> ELSE Zeros(t.w - 1) \o <<1>>
CastB(v) == <<IF v[1] = 0 THEN 0 ELSE 1>>
CastF(t, v, hint) == LET b == BitsOfBytes(v)
                     IN IF Len(b) = t.w THEN b ELSE Narrow(b, t.w, t.sat, hint)
(* does the cast of this float leaf have exactly one acceptable result? (NaN payloads and inexact narrowing do not) *)
CastFDet(t, v) == LET b == BitsOfBytes(v)
                  IN IF Len(b) = t.w THEN ~IsNaN(b)
                     ELSE IF IsNaN(b) THEN FALSE
                     ELSE IF IsInf(b) \/ (t.sat /\ AboveMax(b, t.w)) \/ NarrowLo(b, t.w).over THEN TRUE
                     ELSE NarrowLo(b, t.w).exact

(* ---- serialization ----                                                                                 *)
(* acc = [err |-> "none" | kind, out |-> bits so far]; obs = the observed output (hint for the faithful      *)
(* float narrowing relation only: a narrowing result is taken from the observation iff it is acceptable)     *)
Put(acc, bits) == [acc EXCEPT !.out = @ \o bits]
PutF(acc, bits, det) == [acc EXCEPT !.out = @ \o bits, !.det = @ /\ det]
PadAcc(acc, a) == IF Len(acc.out) % a = 0 THEN acc ELSE Put(acc, Zeros(a - (Len(acc.out) % a)))
Fail(acc, e) == IF acc.err = "none" THEN [acc EXCEPT !.err = e] ELSE acc

RECURSIVE SerV(_, _, _, _), SerSeq(_, _, _, _, _, _), SerBody(_, _, _, _), SerFields(_, _, _, _, _)

SerSeq(te, vs, i, n, acc, obs) ==
    IF i > n \/ acc.err # "none" THEN acc
    ELSE SerSeq(te, vs, i + 1, n, SerV(te, vs[i], PadAcc(acc, Align(te)), obs), obs)

SerFields(fs, vs, i, acc, obs) ==
    IF i > Len(fs) \/ acc.err # "none" THEN acc
    ELSE SerFields(fs, vs, i + 1, SerV(fs[i], vs[i], PadAcc(acc, Align(fs[i])), obs), obs)

SerBody(t, v, acc, obs) ==
    IF t.k = "struct" THEN PadAcc(SerFields(t.fields, v, 1, acc, obs), 8)
    ELSE IF v.tag >= Len(t.fields) THEN Fail(acc, "bad_tag")
    ELSE LET m == t.fields[v.tag + 1]
         IN PadAcc(SerV(m, v.v, PadAcc(Put(acc, OfNat(v.tag, TagW(t))), Align(m)), obs), 8)

SerV(t, v, acc, obs) ==
    IF acc.err # "none" THEN acc
    ELSE IF t.k = "uint" THEN Put(acc, CastU(t, v))
    ELSE IF t.k = "int" THEN Put(acc, CastS(t, v))
    ELSE IF t.k = "bool" THEN Put(acc, CastB(v))
    ELSE IF t.k = "float" THEN PutF(acc, CastF(t, v, IF Len(acc.out) + t.w <= Len(obs) THEN Slice(obs, Len(acc.out), t.w) ELSE <<>>),
                                    CastFDet(t, v))
    ELSE IF t.k = "void" THEN Put(acc, Zeros(t.w))
    ELSE IF t.k = "farr" THEN SerSeq(t.e, v, 1, t.n, acc, obs)
    ELSE IF t.k = "varr" THEN
        IF v.n > t.cap THEN Fail(acc, "bad_len")
        ELSE SerSeq(t.e, v.e, 1, v.n, Put(acc, OfNat(v.n, LenW(t))), obs)
    ELSE (* nested composite *)
        LET a0 == PadAcc(acc, 8)
        IN IF t.sealed THEN SerBody(t, v, a0, obs)
           ELSE LET hpos == Len(a0.out)
                    r == SerBody(t, v, Put(a0, Zeros(32)), obs)
                    nbytes == (Len(r.out) - hpos - 32) \div 8
                IN IF r.err # "none" THEN r
                   ELSE [r EXCEPT !.out = SubSeq(r.out, 1, hpos) \o OfNat(nbytes, 32) \o SubSeq(r.out, hpos + 33, Len(r.out))]

(* top level: no delimiter header *)
(* det: every cast had exactly one acceptable result (so all targets must agree bit for bit) *)
Ser(t, v, obs) == SerBody(t, v, [err |-> "none", out |-> <<>>, det |-> TRUE], obs)

(* ---- deserialization ----                                                                               *)
(* L = storage policy of the target: "c" (smallest of 8/16/32/64 bits; float16 held in a float) or "py"    *)
(* (integers reported as 64-bit two's complement, every float as a double).                                *)
StoreW(L, w) == IF L = "py" THEN 64 ELSE IF w <= 8 THEN 8 ELSE IF w <= 16 THEN 16 ELSE IF w <= 32 THEN 32 ELSE 64
FloatStoreW(L, w) == IF L = "py" THEN 64 ELSE IF w = 16 THEN 32 ELSE w

LeafU(L, t, bits) == BytesOfBits(Take(bits, StoreW(L, t.w)))
LeafS(L, t, bits) == BytesOfBits(SignExtTo(bits, StoreW(L, t.w)))
LeafF(L, t, bits) == BytesOfBits(IF FloatStoreW(L, t.w) = t.w THEN bits ELSE Widen(bits, FloatStoreW(L, t.w)))

(* st = [err, pos, val]; d = the data (its length is the capacity: reads beyond it give zeros)              *)
AlignPos(p, a) == PadUp(p, a)

RECURSIVE DesV(_, _, _, _), DesSeq(_, _, _, _, _, _, _), DesBody(_, _, _, _), DesFields(_, _, _, _, _, _)

DesSeq(L, te, i, n, d, pos, vals) ==
    IF i > n THEN [err |-> "none", pos |-> pos, val |-> vals]
    ELSE LET r == DesV(L, te, d, AlignPos(pos, Align(te)))
         IN IF r.err # "none" THEN r ELSE DesSeq(L, te, i + 1, n, d, r.pos, Append(vals, r.val))

DesFields(L, fs, i, d, pos, vals) ==
    IF i > Len(fs) THEN [err |-> "none", pos |-> pos, val |-> vals]
    ELSE LET r == DesV(L, fs[i], d, AlignPos(pos, Align(fs[i])))
         IN IF r.err # "none" THEN r ELSE DesFields(L, fs, i + 1, d, r.pos, Append(vals, r.val))

DesBody(L, t, d, pos) ==
    IF t.k = "struct" THEN
        LET r == DesFields(L, t.fields, 1, d, pos, <<>>)
        IN IF r.err # "none" THEN r ELSE [r EXCEPT !.pos = AlignPos(@, 8)]
    ELSE
        LET tag == U(Slice(d, pos, TagW(t)))
        IN IF tag >= Len(t.fields) THEN [err |-> "bad_tag", pos |-> pos, val |-> <<>>]
           ELSE LET m == t.fields[tag + 1]
                    r == DesV(L, m, d, AlignPos(pos + TagW(t), Align(m)))
                IN IF r.err # "none" THEN r
                   ELSE [err |-> "none", pos |-> AlignPos(r.pos, 8), val |-> [tag |-> tag, v |-> r.val]]

DesV(L, t, d, pos) ==
    IF t.k = "uint" THEN [err |-> "none", pos |-> pos + t.w, val |-> LeafU(L, t, Slice(d, pos, t.w))]
    ELSE IF t.k = "int" THEN [err |-> "none", pos |-> pos + t.w, val |-> LeafS(L, t, Slice(d, pos, t.w))]
    ELSE IF t.k = "bool" THEN [err |-> "none", pos |-> pos + 1, val |-> Slice(d, pos, 1)]
    ELSE IF t.k = "float" THEN [err |-> "none", pos |-> pos + t.w, val |-> LeafF(L, t, Slice(d, pos, t.w))]
    ELSE IF t.k = "void" THEN [err |-> "none", pos |-> pos + t.w, val |-> <<>>]
    ELSE IF t.k = "farr" THEN DesSeq(L, t.e, 1, t.n, d, pos, <<>>)
    ELSE IF t.k = "varr" THEN
        LET n == U(Slice(d, pos, LenW(t)))
        IN IF n > t.cap THEN [err |-> "bad_len", pos |-> pos, val |-> <<>>]
           ELSE LET r == DesSeq(L, t.e, 1, n, d, pos + LenW(t), <<>>)
                IN IF r.err # "none" THEN r ELSE [r EXCEPT !.val = [n |-> n, e |-> @]]
    ELSE (* nested composite *)
        LET p0 == AlignPos(pos, 8)
        IN IF t.sealed THEN DesBody(L, t, d, p0)
           ELSE LET h == U(Slice(d, p0, 32))                                  \* bytes, zero-extended when cut
                    p1 == p0 + 32
                    remaining == Len(d) - Min2(p1, Len(d))                    \* bits left in the buffer
                IN IF h * 8 > remaining THEN [err |-> "bad_header", pos |-> p0, val |-> <<>>]
                   ELSE (* the nested object lives in EXACTLY h bytes: zero-extended and truncated inside them *)
                        LET r == DesBody(L, t, SubSeq(d, p1 + 1, p1 + 8 * h), 0)
                        IN IF r.err # "none" THEN r ELSE [err |-> "none", pos |-> p1 + 8 * h, val |-> r.val]

Des(L, t, d) == DesBody(L, t, d, 0)
Consumed(t, d, r) == Min2(r.pos, Len(d)) \div 8

(* ---- value comparison up to what no target can preserve (NaN payload) ----                               *)
RECURSIVE ValEq(_, _, _), SeqEq(_, _, _, _, _)
SeqEq(te, a, b, i, n) == i > n \/ (ValEq(te, a[i], b[i]) /\ SeqEq(te, a, b, i + 1, n))
RECURSIVE FieldsEq(_, _, _, _)
FieldsEq(fs, a, b, i) == i > Len(fs) \/ (ValEq(fs[i], a[i], b[i]) /\ FieldsEq(fs, a, b, i + 1))
ValEq(t, a, b) ==
    IF t.k = "float" THEN FloatEq(BitsOfBytes(a), BitsOfBytes(b))
    ELSE IF t.k = "void" THEN TRUE
    ELSE IF IsPrim(t) THEN a = b
    ELSE IF t.k = "farr" THEN Len(a) = t.n /\ Len(b) = t.n /\ SeqEq(t.e, a, b, 1, t.n)
    ELSE IF t.k = "varr" THEN a.n = b.n /\ Len(a.e) = a.n /\ Len(b.e) = b.n /\ SeqEq(t.e, a.e, b.e, 1, a.n)
    ELSE IF t.k = "struct" THEN Len(a) = Len(t.fields) /\ Len(b) = Len(t.fields) /\ FieldsEq(t.fields, a, b, 1)
    ELSE a.tag = b.tag /\ a.tag < Len(t.fields) /\ ValEq(t.fields[a.tag + 1], a.v, b.v)
=============================================================================
