\* both template sets, ONE cache keyed by the class (the code as it is): EXPECTED TO BE REFUTED (RefHistory) - the design finding behind C16|lookup.history|both|*
SPECIFICATION Spec
CHECK_DEADLOCK FALSE
INVARIANT RefHistory
CONSTANTS
  Shape = "chain4"
  Modes = {"both"}
  MaxLookups = 2
  SharedCache = TRUE
  MaxAdds = 1
  StrictGlobals = FALSE
