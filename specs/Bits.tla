-------------------------------- MODULE Bits --------------------------------
(* Bit-sequence algebra used by every wire-format specification.  A bit string is a sequence over {0,1}, *)
(* index 1 = least significant / first on the wire (DSDL is little-endian at bit level).  No integer    *)
(* ever exceeds 2^30: TLC integers are 32-bit.  Bytes travel through JSON as integers 0..255.             *)
EXTENDS Integers, Sequences

P2 == <<1, 2, 4, 8, 16, 32, 64, 128, 256, 512, 1024, 2048, 4096, 8192, 16384, 32768, 65536, 131072, 262144,
        524288, 1048576, 2097152, 4194304, 8388608, 16777216>>
Pow2(n) == P2[n + 1]                       \* n in 0..24

(* TLC keeps [i \in 1..n |-> e] as a lazy function and re-evaluates e (and Len) at every access; SubSeq builds  *)
(* the tuple once.  Every operator below returns a concrete tuple.                                          *)
Force(f, n) == SubSeq(f, 1, n)
Zeros(n) == Force([i \in 1..n |-> 0], n)
Ones(n)  == Force([i \in 1..n |-> 1], n)

ByteBit(b, i) == (b \div P2[i + 1]) % 2    \* bit i (0..7) of byte b

(* bytes (little-endian, first byte first) -> bits *)
(* SubSeq forces TLC to build the tuple once instead of re-evaluating the lazy function at every access *)
BitsOfBytes(bs) == Force([i \in 1..(8 * Len(bs)) |-> ByteBit(bs[((i - 1) \div 8) + 1], (i - 1) % 8)], 8 * Len(bs))

(* bits -> bytes; a trailing partial byte is zero-filled *)
BytesOfBits(b) ==
    LET n == Len(b)
        At(i) == IF i <= n THEN b[i] ELSE 0
    IN Force([j \in 1..((n + 7) \div 8) |->
                At(8 * j - 7) + 2 * At(8 * j - 6) + 4 * At(8 * j - 5) + 8 * At(8 * j - 4)
                + 16 * At(8 * j - 3) + 32 * At(8 * j - 2) + 64 * At(8 * j - 1) + 128 * At(8 * j)], (n + 7) \div 8)

(* n bits starting after `off` bits; positions beyond the end read as zero (implicit zero extension)     *)
Slice(b, off, n) == LET m == Len(b) IN Force([i \in 1..n |-> IF off + i <= m THEN b[off + i] ELSE 0], n)

Take(b, n) == LET m == Len(b) IN Force([i \in 1..n |-> IF i <= m THEN b[i] ELSE 0], n)          \* low n bits, zero-extended
SignExtTo(b, n) == LET m == Len(b) IN Force([i \in 1..n |-> IF i <= m THEN b[i] ELSE b[m]], n)   \* Len(b) >= 1

AllZero(b, from, to) == \A i \in from..to : b[i] = 0
AllEq(b, from, to, x) == \A i \in from..to : b[i] = x

(* unsigned value of a short bit string (<= 24 significant bits); anything larger is reported as 2^24    *)
RECURSIVE UVal(_, _)
UVal(b, i) == IF i > Len(b) \/ i > 24 THEN 0 ELSE b[i] * P2[i] + UVal(b, i + 1)
U(b) == IF \E i \in 25..Len(b) : b[i] = 1 THEN 16777216 ELSE UVal(b, 1)

(* n-bit little-endian representation of a natural < 2^24 *)
OfNat(x, n) == Force([i \in 1..n |-> IF i <= 24 THEN (x \div P2[i]) % 2 ELSE 0], n)

(* increment of a bit string (same length; wraps) *)
RECURSIVE IncFrom(_, _)
IncFrom(b, i) == IF i > Len(b) THEN b
                 ELSE IF b[i] = 0 THEN [b EXCEPT ![i] = 1]
                 ELSE IncFrom([b EXCEPT ![i] = 0], i + 1)
Inc(b) == IncFrom(b, 1)

Rev(b) == LET m == Len(b) IN Force([i \in 1..m |-> b[m + 1 - i]], m)
=============================================================================
