SPECIFICATION Spec
CONSTANTS
  NTypes = 3
  MaxRuns = 2
  Shapes <- ShapesMixed
  Limits = {0, 2}
  DefIds = {1, 2}
  OmitVals = {FALSE, TRUE}
  Modes = {"fresh", "lctx", "gen", "proc"}
  ResetLimiter = TRUE
  IdentityDepKey = TRUE
  VolatileUniq = TRUE
  FreshModule = TRUE
  Words = {1}
  FullStropKey = TRUE
  Docs = {0}
  PureFilters = TRUE
  Confs = {0}
  PureDerivedNames = TRUE
VIEW View
INVARIANT SibDigest
INVARIANT LimitRespected
INVARIANT OwnLineKept
CHECK_DEADLOCK FALSE
