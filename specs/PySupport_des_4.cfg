SPECIFICATION Spec
CONSTANTS
  Kind = "des"
  MaxCalls = 2
  Level = 4
  FragMode = "join"
  Bug = "none"
  Emit = FALSE
INVARIANT RefinesDes
INVARIANT FragIndep
CHECK_DEADLOCK FALSE
