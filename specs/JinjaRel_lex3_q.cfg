SPECIFICATION Spec
CONSTANTS
  Profile = "lex3"
  MaxW = 2
  MaxWc = 0
  MaxDepth = 1
  Tights = {FALSE}
  EmitOpen = TRUE
INVARIANT WellNested
INVARIANT Emit
CHECK_DEADLOCK FALSE
