SPECIFICATION Spec
CONSTANTS
  NRev = 3
  NTypes = 2
  MaxGen = 3
  Memo = "none"
INVARIANT EmbeddedEqSource
INVARIANT Emit
CHECK_DEADLOCK FALSE
