SPECIFICATION Spec
CONSTANTS
  MaxTypes = 4
  MaxNested = 3
  Langs = {"c", "py"}
  Audits = {FALSE}
  OpenSets = {{}}
  SortedWalk = FALSE
  Vary = {}
INVARIANT EmitOrder
CONSTRAINT FirstRunOnly
CHECK_DEADLOCK FALSE
