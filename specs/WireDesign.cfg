SPECIFICATION Spec
CONSTANTS
  Level = 1
INVARIANT SizeBounds
INVARIANT RefusesInvalid
INVARIANT RoundTrip
INVARIANT ZeroExtension
INVARIANT Truncation
INVARIANT PyAgrees
CHECK_DEADLOCK FALSE
