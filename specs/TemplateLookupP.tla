--------------------------- MODULE TemplateLookupP ---------------------------
(* P-layer for C16: what the property demands of template resolution, of the DSDL instance tests and of    *)
(* additions to the template environment -- and nothing more.  Pure operators, no state.                   *)
(*                                                                                                         *)
(* A class hierarchy is a sequence `bases`: classes are 1..Len(bases), bases[c] is the sequence of direct  *)
(* base classes of c (Python's __bases__ without `object`).  Class 0 means "no class / no template".       *)
(* `anyc` is the class the property names as the end of the chain (pydsdl.Any); classes that are only      *)
(* reachable above it (abc.ABC) are not part of "the object's inheritance chain".  anyc = 0: no such cut.  *)
(* Names are sequences of code points.                                                                     *)
EXTENDS Naturals, Sequences, FiniteSets

Range(s) == {s[i] : i \in DOMAIN s}

BasesOf(bases, c) == Range(bases[c])

(* Level sets of the ancestor relation: <<{c}, direct bases, their bases not seen before, ...>>.           *)
(* Level i+1 holds exactly the ancestors at distance i, so "nearest" is "lowest level".                    *)
RECURSIVE Levels(_, _, _)
Levels(bases, frontier, seen) ==
    IF frontier = {} THEN <<>>
    ELSE LET s2  == seen \cup frontier
             nxt == (UNION {BasesOf(bases, c) : c \in frontier}) \ s2
         IN <<frontier>> \o Levels(bases, nxt, s2)

LevelsOf(bases, c) == Levels(bases, {c}, {})
Anc(bases, c)      == UNION Range(LevelsOf(bases, c))              \* reflexive ancestors
IsSub(bases, c, k) == c # 0 /\ k # 0 /\ k \in Anc(bases, c)        \* class membership (isinstance on classes)

(* the inheritance chain of c in the sense of the property: its ancestors up to and including Any          *)
Chain(bases, anyc, c) ==
    IF anyc = 0 THEN Anc(bases, c) ELSE {a \in Anc(bases, c) : anyc \in Anc(bases, a)}

RECURSIVE FirstHit(_, _, _)
FirstHit(levels, i, S) ==
    IF i > Len(levels) THEN {}
    ELSE IF levels[i] \cap S # {} THEN levels[i] \cap S
    ELSE FirstHit(levels, i + 1, S)

(* the classes of S at minimal distance from c ({} if S holds no ancestor of c).  For single inheritance    *)
(* this is at most one class; with multiple inheritance the property does not rank classes at equal       *)
(* distance, so every one of them is acceptable.                                                           *)
NearestIn(bases, c, S) == FirstHit(LevelsOf(bases, c), 1, S)

(* ------------------------------------------------------------------------------------------------------ *)
(* Clause 1+2: template resolution.  U = names of the user's templates that the loader can see, B = names  *)
(* of the built-in templates it can see (both as classes).                                                 *)
(* Two readings of the statement when both sets hold ancestors (DESIGN 3, ambiguity rule):                *)
(*   ReadNearest   : the nearest class having a template in either set                                     *)
(*   ReadUserFirst : the nearest class having a user template; the built-in set only if there is none      *)
(* P accepts what either reading accepts; where they coincide the answer is fixed.                         *)
ReadNearestIn(bases, C, c, U, B) == NearestIn(bases, c, (U \cup B) \cap C)
ReadUserFirstIn(bases, C, c, U, B) ==
    IF U \cap C # {} THEN NearestIn(bases, c, U \cap C) ELSE NearestIn(bases, c, B \cap C)
AllowedIn(bases, C, c, U, B) == ReadNearestIn(bases, C, c, U, B) \cup ReadUserFirstIn(bases, C, c, U, B)

(* A third source of ambiguity: the code treats what lies above Any (abc.ABC) as one more ancestor, the     *)
(* statement ends the chain at Any.  A template named after such a class can only matter when no class of   *)
(* the chain has a USER template; then "user first" and "chain ends at Any" pull in different directions.   *)
(* P accepts both cuts.                                                                                    *)
Allowed(bases, anyc, c, U, B) ==
    AllowedIn(bases, Chain(bases, anyc, c), c, U, B) \cup AllowedIn(bases, Anc(bases, c), c, U, B)
Determined(bases, anyc, c, U, B) ==
    LET C1 == Chain(bases, anyc, c)
        C2 == Anc(bases, c)
    IN /\ ReadNearestIn(bases, C1, c, U, B) = ReadUserFirstIn(bases, C1, c, U, B)
       /\ ReadNearestIn(bases, C1, c, U, B) = ReadNearestIn(bases, C2, c, U, B)
       /\ ReadNearestIn(bases, C1, c, U, B) = ReadUserFirstIn(bases, C2, c, U, B)

(* lookup.nearest : got is 0 (no template) or a class                                                       *)
NearestOK(bases, anyc, c, U, B, got) ==
    IF (U \cup B) \cap Chain(bases, anyc, c) # {}
    THEN got \in Allowed(bases, anyc, c, U, B)
    ELSE \* no class of the chain has a template: the statement names no template; whatever is returned must
         \* at least be the nearest existing template named after an ancestor (beyond Any), or nothing
         got = 0 \/ got \in AllowedIn(bases, Anc(bases, c), c, U, B)

(* lookup.user_first : which set the template text of that name is finally taken from (1 user, 2 built-in, *)
(* 0 nothing): a user template beats a built-in one of the same name                                       *)
SourceOK(U, B, got, src) ==
    IF got = 0 THEN src = 0
    ELSE IF got \in U THEN src = 1
    ELSE IF got \in B THEN src = 2
    ELSE TRUE

(* Clause 1 for ANY name the loader is asked for (type templates, helper templates, plain-text / asset     *)
(* includes, with or without the template suffix, at the top level or in a sub-directory): inU / inB = a  *)
(* file of that name exists in a user directory / in the built-in package, seeU / seeB = the loader can   *)
(* see that set.  The text must come from the user's file if there is one, else from the built-in file,   *)
(* else the name is not resolvable (0).                                                                   *)
NameSrc(inU, inB, seeU, seeB) == IF inU /\ seeU THEN 1 ELSE IF inB /\ seeB THEN 2 ELSE 0
NameOK(inU, inB, seeU, seeB, src) == src = NameSrc(inU, inB, seeU, seeB)

(* lookup.history : the answer does not depend on earlier lookups: it equals the answer of a loader that   *)
(* has never been asked anything (cold).  lookup.order : nor on how the template directories were          *)
(* populated/enumerated: it equals the answer for the canonical realization of the same configuration.     *)
HistoryOK(got, cold) == got = cold
OrderOK(cold, ref)   == cold = ref

(* ------------------------------------------------------------------------------------------------------ *)
(* Clause 3: instance tests.  K the class the test is named after, vcls the class of the value, isattr:    *)
(* the value is an Attribute, dcls the class of its data type (0 otherwise).                               *)
(* "agree with class membership of the value or of an attribute's data type" -- two readings:              *)
(*   InstR1 : attributes are judged by their data type only, everything else by its own class              *)
(*   InstR2 : true iff the value itself is a K, or it is an attribute whose data type is a K               *)
(* They differ only for K in the Attribute subtree applied to attributes.                                  *)
InstR1(bases, K, vcls, isattr, dcls) == IF isattr THEN IsSub(bases, dcls, K) ELSE IsSub(bases, vcls, K)
InstR2(bases, K, vcls, isattr, dcls) == IsSub(bases, vcls, K) \/ (isattr /\ IsSub(bases, dcls, K))
InstOK(bases, K, vcls, isattr, dcls, got) ==
    got \in {InstR1(bases, K, vcls, isattr, dcls), InstR2(bases, K, vcls, isattr, dcls)}
InstDetermined(bases, K, vcls, isattr, dcls) ==
    InstR1(bases, K, vcls, isattr, dcls) = InstR2(bases, K, vcls, isattr, dcls)

(* the classes that must have tests: everything at or below the two roots                                  *)
Tested(bases, roots) == {k \in 1..Len(bases) : \E r \in roots : IsSub(bases, k, r)}

(* "its short lower-case alias": the lower-cased class name without a trailing "type" / "field" (when      *)
(* something is left of the name)                                                                          *)
LowerCp(x) == IF x >= 65 /\ x <= 90 THEN x + 32 ELSE x
Lower(s)   == [i \in 1..Len(s) |-> LowerCp(s[i])]
EndsWith(s, suf) == Len(s) >= Len(suf) /\ SubSeq(s, Len(s) - Len(suf) + 1, Len(s)) = suf
SufType  == <<116, 121, 112, 101>>
SufField == <<102, 105, 101, 108, 100>>
AliasOf(name) ==
    LET l == Lower(name)
    IN IF Len(l) > 4 /\ EndsWith(l, SufType) THEN SubSeq(l, 1, Len(l) - 4)
       ELSE IF Len(l) > 5 /\ EndsWith(l, SufField) THEN SubSeq(l, 1, Len(l) - 5)
       ELSE l

(* ------------------------------------------------------------------------------------------------------ *)
(* Clause 4: additions to the environment.  After user additions made WITHOUT an explicit request to       *)
(* overwrite, either an error was raised or no protected (built-in / reserved) name is bound to a          *)
(* user-supplied object.  `replaced` = number of protected names now bound to a user object.               *)
NoSilentReplace(allow, err, replaced) == (~allow /\ ~err) => replaced = 0
=============================================================================
