----------------------------- MODULE PyObjectGen -----------------------------
(* C18, clause "the type model embedded in each class equals the source DSDL model", history dimension.        *)
(* One generator PROCESS renders several REVISIONS of the same definitions one after the other (same full     *)
(* name, same version, same size profile: PyDSDL's __eq__/__hash__ cannot tell the revisions apart), each      *)
(* into its own output directory, with a new LanguageContext or with the one of the previous run.              *)
(*                                                                                                            *)
(* P-layer: after every run, the model embedded in the module just written is the source model of the          *)
(* revision that was just rendered (EmbeddedEqSource); nothing else about the past may matter.                 *)
(* I-layer: filter_pickle renders `_MODEL_` from the type object it is handed.  Memo says where (if anywhere)   *)
(* the implementation remembers earlier answers under PyDSDL's coarse equality:                                *)
(*    "none"     nothing is remembered (the code as it is)                                                      *)
(*    "process"  a module-level memo (functools.lru_cache on the pickling helper): negative control             *)
(*    "context"  a memo owned by the LanguageContext: wrong only when the context is reused: negative control    *)
EXTENDS Naturals, Sequences, FiniteSets, TLC, Json

CONSTANTS NRev,      \* revisions 1..NRev of the definition set
          NTypes,    \* definitions in the set (all change with the revision)
          MaxGen,    \* runs per process
          Memo

VARIABLES hist,      \* <<[rev, reuse]>> the runs so far
          pmemo,     \* process-wide memo: type -> revision whose blob is remembered (0: none)
          cmemo,     \* memo of the current LanguageContext
          embedded   \* type -> revision whose model the LAST written module embeds
vars == <<hist, pmemo, cmemo, embedded>>

Types == 1..NTypes
None == [t \in Types |-> 0]

Init == hist = <<>> /\ pmemo = None /\ cmemo = None /\ embedded = None

Render(t, r, m) == IF m[t] # 0 THEN m[t] ELSE r          \* a hit under the coarse key returns the remembered blob

Generate(r, reuse) ==
    /\ Len(hist) < MaxGen
    /\ (reuse => hist # <<>>)
    /\ LET cm == IF reuse THEN cmemo ELSE None             \* a new LanguageContext starts with an empty memo
       IN /\ embedded' = [t \in Types |-> IF Memo = "process" THEN Render(t, r, pmemo)
                                          ELSE IF Memo = "context" THEN Render(t, r, cm) ELSE r]
          /\ pmemo' = [t \in Types |-> IF pmemo[t] # 0 THEN pmemo[t] ELSE r]
          /\ cmemo' = [t \in Types |-> IF cm[t] # 0 THEN cm[t] ELSE r]
    /\ hist' = Append(hist, [rev |-> r, reuse |-> reuse])

Next == \E r \in 1..NRev : \E reuse \in BOOLEAN : Generate(r, reuse)
Spec == Init /\ [][Next]_vars

EmbeddedEqSource == hist # <<>> => \A t \in Types : embedded[t] = hist[Len(hist)].rev

(* spec -> code: every complete run history with the revision each module must embed after every run *)
Emit == Len(hist) = MaxGen => PrintT(ToJson([runs |-> hist]))
=============================================================================
