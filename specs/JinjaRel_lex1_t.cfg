SPECIFICATION Spec
CONSTANTS
  Profile = "lex1"
  MaxW = 1
  MaxWc = 5
  MaxDepth = 1
  Tights = {FALSE}
  EmitOpen = FALSE
INVARIANT WellNested
INVARIANT Emit
CHECK_DEADLOCK FALSE
