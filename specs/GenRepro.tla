------------------------------ MODULE GenRepro ------------------------------
(* I-layer for C07 (reproducible output) and the refinement  I => P  over a bounded, exhaustive space.      *)
(*                                                                                                        *)
(* Two runs of the generator over the SAME inputs and options, under independent ambient state:            *)
(*     clock      wall-clock time                        (datetime.utcnow in _generate_code, time.time in   *)
(*                                                         gzip.compress)                                   *)
(*     hash order the order in which a Python `set` is iterated: an arbitrary permutation chosen anew       *)
(*                whenever the code iterates one (namespace_index, Namespace._nested_namespaces,            *)
(*                Dependencies.composite_types, the language-name set of _new_language_map)                 *)
(*     cwd        working directory of the process                                                         *)
(*     loc        absolute location of the input (and output) directories                                   *)
(*     outst      state of the output directory before the run: 1 empty, 2 holds the (longer) output of an     *)
(*                earlier run of the same inputs with other options at the same paths                           *)
(*     hist       history of the process: 1 fresh, 2 has executed a run with other options before               *)
(* One action per critical step of the real code:                                                          *)
(*     IndexType   build_namespace_tree, loop 1: one type -> namespace_index gets its ancestors             *)
(*     Link        build_namespace_tree, loop 2: `for full_namespace in namespace_index` (HASH ORDER)       *)
(*     MakeEnv     CodeGenEnvironment: filters of every supported language are registered, iterating the    *)
(*                 language map built from a set difference (HASH ORDER)                                    *)
(*     GenSupport  SupportGenerator.generate_all                                                            *)
(*     EmitNs / EmitType / Descend / PickChild / Return                                                      *)
(*                 Namespace._recursive_data_type_and_namespace_generator feeding _generate_type:           *)
(*                 namespace file, then the namespace's own types in PyDSDL's (sorted) order, then the      *)
(*                 nested namespaces in the iteration order of the `_nested_namespaces` set (HASH ORDER)    *)
(*     EndRun      process exit                                                                            *)
(* A file's content is a record of ATOMS.  Every place where ambient state is in reach of a template or a   *)
(* filter is a named GATE; a gate in `open` lets the ambient value through, a closed gate substitutes the   *)
(* input-derived value the design intends:                                                                  *)
(*     gzip_mtime      py  filter_pickle: gzip header time stamp            (closed = mtime 0)              *)
(*     ns_time         py  Namespace.j2 "Generated at: now_utc"             (closed = only with auditing)   *)
(*     model_abspath   py  pickled _MODEL_ carries source_file_path         (closed = location-free)        *)
(*     assert_abspath  c/cpp base.j2 static_assert message: T.source_file_path (closed = file name)         *)
(*     model_cache     py  pickled _MODEL_ carries PyDSDL's lazily filled bit-length caches of every type it  *)
(*                         reaches; rendering a type fills its own and its direct dependencies' caches, so    *)
(*                         the pickle tells which INDIRECT dependencies this process has met before           *)
(*                                                                          (closed = cache-free pickle)    *)
(*     pp_carry        LimitEmptyLines counter survives from one file to the next (closed = reset per file)  *)
(*     include_order   c/cpp include list in composite_types iteration order (closed = sorted)               *)
(*     html_order      html nested-namespace listing in set order            (closed = natural_sort)         *)
(*     filter_owner    plain filter name bound to whichever language registered last (closed = ln.<lang>.)   *)
(*     template_dir_abspath   the `nunavut.template_sets` global (printed by the C++ base.j2, in reach of every  *)
(*                     user template) names the user template directory by its resolved absolute path          *)
(*                                                              (closed = package name and version only)       *)
(*     template_dir_spelling  ... or by the path as spelled on the command line, i.e. relative to the cwd      *)
(*                                                              (closed = likewise)                            *)
(*     stale_tail      _generate_code opens the output without truncating it: where the output directory holds a *)
(*                     LONGER file at the same path (left by an earlier, different run) its tail survives        *)
(*                                                              (closed = open(path, "w") truncates)           *)
(*     process_memo_keyed_too_coarsely   a value that depends on the options (the include path of the support   *)
(*                     header: support_namespace) is memoised process-wide under a key that omits them, so an    *)
(*                     earlier run with OTHER options in the same process decides it                             *)
(*                                                              (closed = computed per run)                    *)
(* The header comment (source path, time stamp, platform) is gated by embed_auditing_info in every target.   *)
(* TLC checks  Refines  (the P-layer history machine accepts run 2 after run 1) for every namespace shape,    *)
(* every permutation of every set iteration, every pair of ambient states.                                   *)
EXTENDS GenReproP, Json

CONSTANTS
    MaxTypes,     \* 1..MaxTypes data types
    MaxNested,    \* at most this many nested namespaces below the root namespace
    Langs,        \* targets explored, subset of {"c", "cpp", "py", "html"}
    Audits,       \* values of embed_auditing_info explored, subset of BOOLEAN
    OpenSets,     \* a set of sets of gate names; Init picks one of them as `open`
    SortedWalk,   \* TRUE: nested namespaces are visited in sorted order; FALSE: in set-iteration order
    Vary          \* ambient dimensions in which run 2 may differ from run 1, subset of AmbDims

AmbDims == {"clock", "loc", "cwd", "outst", "hist"}
Gates == {"gzip_mtime", "ns_time", "model_abspath", "assert_abspath", "model_cache", "pp_carry", "include_order",
          "html_order", "filter_owner", "template_dir_abspath", "template_dir_spelling", "stale_tail",
          "process_memo_keyed_too_coarsely"}

(* the targets whose templates / filters sit behind a gate                                                  *)
GateLangs == [g \in Gates |-> CASE g \in {"gzip_mtime", "ns_time", "model_abspath", "model_cache"} -> {"py"}
                                 [] g \in {"assert_abspath", "include_order", "process_memo_keyed_too_coarsely"} -> {"c", "cpp"}
                                 [] g = "html_order" -> {"html"}
                                 [] OTHER -> {"c", "cpp", "py", "html"}]

ASSUME /\ OpenSets \subseteq SUBSET Gates
       /\ Langs \subseteq {"c", "cpp", "py", "html"}
       /\ Audits \subseteq BOOLEAN /\ SortedWalk \in BOOLEAN
       /\ Vary \subseteq AmbDims

VARIABLES types, user, dep, lang, audit, open,   \* the stimulus: inputs, options, which gates are open (fixed by Init)
          amb,                               \* amb[r]: ambient state of run r
          run, pc,                           \* current run (3 = both finished), phase inside the run
          pend,                              \* loop 1: types not yet indexed
          idx,                               \* namespace_index
          todo,                              \* loop 2: names of namespace_index not yet visited
          kids,                              \* kids[n]: Namespace._nested_namespaces of n
          stack,                             \* the recursion of _recursive_data_type_and_namespace_generator
          touched,                           \* process state: types whose model object has its lazy caches filled
          owner,                             \* process state: language whose filter owns the plain filter name
          order,                             \* files written by the current run, in order
          orders,                            \* orders[r]: the order of the completed run r (observation)
          fs                                 \* fs[r]: result of run r,  path |-> content

vars == <<types, user, dep, lang, audit, open, amb, run, pc, pend, idx, todo, kids, stack, touched, owner, order, orders, fs>>

(* ---- the namespace universe: paths below the root namespace (root = <<>>)                               *)
Root == <<>>
NSU == {<<>>, <<1>>, <<1, 1>>, <<1, 1, 1>>, <<1, 2>>, <<2>>, <<3>>}
NsRank == (<<>> :> 1) @@ (<<1>> :> 2) @@ (<<1, 1>> :> 3) @@ (<<1, 1, 1>> :> 4) @@ (<<1, 2>> :> 5) @@ (<<2>> :> 6) @@ (<<3>> :> 7)
Parent(n) == SubSeq(n, 1, Len(n) - 1)
Prefixes(n) == {SubSeq(n, 1, k) : k \in 0..Len(n)}

(* a data type is <<namespace, short-name index>>; the root namespace may hold two types                   *)
Slots == {<<n, 1>> : n \in NSU} \cup {<<Root, 2>>}
TRank(t) == NsRank[t[1]] * 2 + t[2]
NsOf(T) == UNION {Prefixes(t[1]) : t \in T}

Shapes == {T \in SUBSET Slots : /\ Cardinality(T) \in 1..MaxTypes
                                /\ Cardinality(NsOf(T) \ {Root}) <= MaxNested}

(* Dependencies: without a designated type `user` nothing depends on anything; with one, either `user` has a field of  *)
(* every other type (dep = "star") or `user` and the other types in rank order form a chain, each having a field of    *)
(* the next one (dep = "chain").                                                                                       *)
None == <<Root, 0>>
RECURSIVE SortT(_)
SortT(S) == IF S = {} THEN <<>>
            ELSE LET m == CHOOSE x \in S : \A y \in S : TRank(x) <= TRank(y) IN <<m>> \o SortT(S \ {m})
RECURSIVE SortN(_)
SortN(S) == IF S = {} THEN <<>>
            ELSE LET m == CHOOSE x \in S : \A y \in S : NsRank[x] <= NsRank[y] IN <<m>> \o SortN(S \ {m})
Perms(S) == {s \in [1..Cardinality(S) -> S] : \A i, j \in 1..Cardinality(S) : i # j => s[i] # s[j]}

Chain == <<user>> \o SortT(types \ {user})
PosOf(t) == CHOOSE k \in 1..Len(Chain) : Chain[k] = t
Deps(t) == IF dep = "star" THEN (IF t = user THEN types \ {t} ELSE {})
           ELSE IF dep = "chain" THEN (IF PosOf(t) < Len(Chain) THEN {Chain[PosOf(t) + 1]} ELSE {})
           ELSE {}
DepsStar(t) == IF dep = "chain" THEN {Chain[k] : k \in (PosOf(t) + 1)..Len(Chain)} ELSE Deps(t)

NsTypes == lang \in {"py", "html"}           \* a Namespace template exists only for these targets
OtherLangs == {"c", "cpp", "py", "html"} \ {lang}

Ambients == {a \in [clock : {1, 2}, loc : {1, 2}, cwd : {1, 2}, outst : {1, 2}, hist : {1, 2}] :
                \A d \in AmbDims : a[d] = 2 => d \in Vary}
A1 == [clock |-> 1, loc |-> 1, cwd |-> 1, outst |-> 1, hist |-> 1]

Fresh == /\ pc = "index" /\ pend = SortT(types) /\ idx = {} /\ todo = {} /\ kids = [n \in NSU |-> {}]
         /\ stack = <<>> /\ touched = {} /\ owner = lang /\ order = <<>>

Init ==
    /\ types \in Shapes
    /\ user \in types \cup {None}
    /\ dep \in (IF user = None THEN {"none"} ELSE IF Cardinality(types) < 3 THEN {"chain"} ELSE {"star", "chain"})
    /\ lang \in Langs /\ audit \in Audits /\ open \in OpenSets
    /\ open = {} \/ \E g \in open : lang \in GateLangs[g]    \* elsewhere an open gate changes nothing: covered by open = {}
    /\ amb = <<A1, A1>>                          \* the ambient state of run 2 is chosen when run 2 starts
    /\ run = 1 /\ Fresh
    /\ orders = <<>> /\ fs = <<>>

Stim == <<types, user, dep, lang, audit, open>>

(* ---- build_namespace_tree ----                                                                          *)
IndexType ==
    /\ run < 3 /\ pc = "index" /\ pend # <<>>
    /\ idx' = idx \cup Prefixes(Head(pend)[1])
    /\ pend' = Tail(pend)
    /\ UNCHANGED <<Stim, amb, run, pc, todo, kids, stack, touched, owner, order, orders, fs>>

IndexDone ==
    /\ run < 3 /\ pc = "index" /\ pend = <<>>
    /\ todo' = idx /\ pc' = "link"
    /\ UNCHANGED <<Stim, amb, run, pend, idx, kids, stack, touched, owner, order, orders, fs>>

Link ==                                         \* `for full_namespace in namespace_index`: any order
    /\ run < 3 /\ pc = "link"
    /\ \E n \in todo :
          /\ todo' = todo \ {n}
          /\ kids' = IF n = Root THEN kids ELSE [kids EXCEPT ![Parent(n)] = @ \cup {n}]
    /\ UNCHANGED <<Stim, amb, run, pc, pend, idx, stack, touched, owner, order, orders, fs>>

LinkDone ==
    /\ run < 3 /\ pc = "link" /\ todo = {}
    /\ pc' = "env"
    /\ UNCHANGED <<Stim, amb, run, pend, idx, todo, kids, stack, touched, owner, order, orders, fs>>

(* ---- environment: the last language registered wins a plain filter name unless names are prefixed ----  *)
MakeEnv ==
    /\ run < 3 /\ pc = "env"
    /\ \E last \in OtherLangs : owner' = IF "filter_owner" \in open THEN last ELSE lang
    /\ pc' = "support"
    /\ UNCHANGED <<Stim, amb, run, pend, idx, todo, kids, stack, touched, order, orders, fs>>

(* ---- content ----                                                                                       *)
A == amb[run]
Prev == IF order = <<>> THEN 0 ELSE order[Len(order)][3]      \* trailing-blank class of the previous file
Lead == IF "pp_carry" \in open THEN Prev ELSE 0

Header == [src |-> IF audit THEN A.loc ELSE 0, time |-> IF audit THEN A.clock ELSE 0]
StaleTail == IF "stale_tail" \in open THEN A.outst ELSE 1              \* 2: the tail of an older, longer file follows the new text
SupInc == IF lang \in {"c", "cpp"} /\ "process_memo_keyed_too_coarsely" \in open THEN A.hist ELSE 1   \* whose support include path
TSets == [loc |-> IF "template_dir_abspath" \in open THEN A.loc ELSE 0,       \* what nunavut.template_sets renders to
          cwd |-> IF "template_dir_spelling" \in open THEN A.cwd ELSE 0]

TypeContent(t, incl) ==
    [def      |-> t,
     hdr      |-> Header,
     tsets    |-> TSets,
     tail     |-> StaleTail,
     supinc   |-> SupInc,
     assert   |-> IF lang \in {"c", "cpp"} /\ "assert_abspath" \in open THEN A.loc ELSE 0,
     includes |-> IF lang \in {"c", "cpp"} THEN incl ELSE <<>>,
     mpath    |-> IF lang = "py" /\ "model_abspath" \in open THEN A.loc ELSE 0,
     gz       |-> IF lang = "py" /\ "gzip_mtime" \in open THEN A.clock ELSE 0,
     cache    |-> IF lang = "py" /\ "model_cache" \in open THEN touched \cap (DepsStar(t) \ Deps(t)) ELSE {},
     lead     |-> Lead,
     owner    |-> owner]

NsContent(n, nested) ==
    [ns      |-> n,
     tsets   |-> TSets,
     tail    |-> StaleTail,
     members |-> SortT({t \in types : t[1] = n}),
     time    |-> IF lang = "py" /\ (audit \/ "ns_time" \in open) THEN A.clock ELSE 0,
     nested  |-> IF lang = "html" THEN nested ELSE <<>>,
     lead    |-> Lead,
     owner   |-> owner]

Write(path, content, trail) ==
    /\ fs' = IF run \in DOMAIN fs THEN [fs EXCEPT ![run] = @ @@ (path :> content)]
             ELSE fs @@ (run :> (path :> content))
    /\ order' = Append(order, <<path[1], path[2], trail>>)

GenSupport ==
    /\ run < 3 /\ pc = "support"
    /\ IF lang = "html" THEN UNCHANGED <<fs, order>>
       ELSE Write(<<"sup", Root>>, [support |-> lang, lead |-> Lead, tail |-> StaleTail], 0)
    /\ stack' = <<[ns |-> Root, stage |-> "ns", pt |-> <<>>, pk |-> {}]>>
    /\ pc' = "walk"
    /\ UNCHANGED <<Stim, amb, run, pend, idx, todo, kids, touched, owner, orders>>

Top == stack[Len(stack)]
SetTop(f) == [stack EXCEPT ![Len(stack)] = f]

EmitNs ==
    /\ run < 3 /\ pc = "walk" /\ stack # <<>> /\ Top.stage = "ns"
    /\ LET n == Top.ns IN
       /\ IF NsTypes
          THEN \E nested \in (IF "html_order" \in open THEN Perms(kids[n]) ELSE {SortN(kids[n])}) :
                   Write(<<"ns", n>>, NsContent(n, nested), 0)
          ELSE UNCHANGED <<fs, order>>
       /\ stack' = SetTop([Top EXCEPT !.stage = "types", !.pt = SortT({t \in types : t[1] = n})])
    /\ UNCHANGED <<Stim, amb, run, pc, pend, idx, todo, kids, touched, owner, orders>>

EmitType ==
    /\ run < 3 /\ pc = "walk" /\ stack # <<>> /\ Top.stage = "types" /\ Top.pt # <<>>
    /\ LET t == Head(Top.pt) IN
       /\ \E incl \in (IF "include_order" \in open THEN Perms(Deps(t)) ELSE {SortT(Deps(t))}) :
              Write(<<"type", t>>, TypeContent(t, incl), TRank(t) % 2)
       /\ touched' = touched \cup {t} \cup Deps(t)
    /\ stack' = SetTop([Top EXCEPT !.pt = Tail(@)])
    /\ UNCHANGED <<Stim, amb, run, pc, pend, idx, todo, kids, owner, orders>>

Descend ==
    /\ run < 3 /\ pc = "walk" /\ stack # <<>> /\ Top.stage = "types" /\ Top.pt = <<>>
    /\ stack' = SetTop([Top EXCEPT !.stage = "kids", !.pk = kids[Top.ns]])
    /\ UNCHANGED <<Stim, amb, run, pc, pend, idx, todo, kids, touched, owner, order, orders, fs>>

PickChild ==                                    \* `for nested_namespace in namespace.get_nested_namespaces()`
    /\ run < 3 /\ pc = "walk" /\ stack # <<>> /\ Top.stage = "kids" /\ Top.pk # {}
    /\ \E c \in Top.pk :
          /\ SortedWalk => \A d \in Top.pk : NsRank[c] <= NsRank[d]
          /\ stack' = Append(SetTop([Top EXCEPT !.pk = @ \ {c}]), [ns |-> c, stage |-> "ns", pt |-> <<>>, pk |-> {}])
    /\ UNCHANGED <<Stim, amb, run, pc, pend, idx, todo, kids, touched, owner, order, orders, fs>>

Return ==
    /\ run < 3 /\ pc = "walk" /\ stack # <<>> /\ Top.stage = "kids" /\ Top.pk = {}
    /\ stack' = SubSeq(stack, 1, Len(stack) - 1)
    /\ UNCHANGED <<Stim, amb, run, pc, pend, idx, todo, kids, touched, owner, order, orders, fs>>

EndRun ==                                       \* the process ends; the next run starts from fresh process state
    /\ run < 3 /\ pc = "walk" /\ stack = <<>>
    /\ orders' = Append(orders, order)
    /\ run' = run + 1
    /\ pc' = "index" /\ pend' = SortT(types) /\ idx' = {} /\ todo' = {} /\ kids' = [n \in NSU |-> {}]
    /\ touched' = {} /\ owner' = lang /\ order' = <<>>
    /\ IF run = 1 THEN \E a \in Ambients : amb' = <<A1, a>> ELSE UNCHANGED amb
    /\ UNCHANGED <<Stim, stack, fs>>

Next == IndexType \/ IndexDone \/ Link \/ LinkDone \/ MakeEnv \/ GenSupport \/ EmitNs \/ EmitType \/ Descend
        \/ PickChild \/ Return \/ EndRun

Spec == Init /\ [][Next]_vars

(* ---- refinement: the P-layer history machine accepts the second run ----                                *)
Key == <<types, user, dep, lang, audit>>              \* (inputs, options); ambient state and gates are not in it
Done == run = 3
Verdict == Judge(TRUE, fs[1], audit, fs[2])
Refines == Done => Verdict = "ok"

(* Negative control: with auditing information the results DO depend on ambient state (the property's exemption is needed). *)
SameEvenWithAudit == Done => fs[1] = fs[2]

(* Paths never depend on ambient state in this design, whatever gates are open.                            *)
PathsStable == Done => DOMAIN fs[1] = DOMAIN fs[2]

(* build_namespace_tree delivers the nesting relation whatever the iteration order (what C07 needs of it).  *)
TreeStable == pc = "env" => \A n \in NSU : kids[n] = {m \in NsOf(types) : m # Root /\ Parent(m) = n}

(* Every order the walk can produce is accepted by the order predicate the T-layer applies to recorded runs. *)
NsId(n) == NsRank[n]
ParFn == [i \in 1..7 |-> LET n == CHOOSE m \in NSU : NsRank[m] = i IN IF n = Root THEN 0 ELSE NsRank[Parent(n)]]
NodesOf(o) == [i \in 1..Len(o) |-> [k |-> o[i][1], ns |-> IF o[i][1] = "type" THEN NsRank[o[i][2][1]] ELSE NsRank[o[i][2]]]]
OrderOK == (pc = "index" /\ idx = {}) => \A r \in DOMAIN orders : ValidOrder(ParFn, NodesOf(orders[r]), [i \in 1..Len(orders[r]) |-> i])

TypeOK == /\ run \in 1..3 /\ pc \in {"index", "link", "env", "support", "walk"}
          /\ idx \subseteq NSU /\ todo \subseteq idx /\ touched \subseteq types

(* ---- emission (spec -> code) ----                                                                       *)
DimOf == {d \in AmbDims : amb[1][d] # amb[2][d]}
ShapeJson == [types |-> [i \in 1..Cardinality(types) |-> [ns |-> SortT(types)[i][1], k |-> SortT(types)[i][2]]],
              user  |-> IF user = None THEN 0 ELSE CHOOSE i \in 1..Cardinality(types) : SortT(types)[i] = user,
              dep   |-> dep]
PathJson(p) == IF p[1] = "type" THEN [k |-> "type", ns |-> p[2][1], t |-> p[2][2]] ELSE [k |-> p[1], ns |-> p[2], t |-> 0]
OrderJson(o) == [i \in 1..Len(o) |-> PathJson(<<o[i][1], o[i][2]>>)]

(* one record per behaviour in which an open gate makes the two results differ: a targeted stimulus          *)
EmitWitness ==
    (Done /\ Verdict # "ok" /\ ~audit) =>
        PrintT(ToJson([kind |-> "witness", gates |-> open, lang |-> lang, dims |-> DimOf, shape |-> ShapeJson,
                       clause |-> Verdict, differ |-> {PathJson(p) : p \in Differing(fs[1], fs[2])},
                       orders |-> <<OrderJson(orders[1]), OrderJson(orders[2])>>]))

(* one record per (shape, target, possible generation order): the I-layer's prediction of what a real run may do *)
EmitOrder ==
    (run = 2 /\ pc = "index" /\ pend = SortT(types) /\ idx = {}) =>
        PrintT(ToJson([kind |-> "order", lang |-> lang, shape |-> ShapeJson, order |-> OrderJson(orders[1])]))

(* state constraint of the order-emission configuration: stop when the first run has ended                  *)
FirstRunOnly == run = 1 \/ (run = 2 /\ pc = "index" /\ idx = {} /\ order = <<>> /\ pend = SortT(types))
=============================================================================
