SPECIFICATION Spec
CONSTANTS
  Level = 2
INVARIANT Refines
INVARIANT ReadsInside
CHECK_DEADLOCK FALSE
