SPECIFICATION Spec
CONSTANTS
  NKeys = 8
  Shorthands = {1, 2}
  Impl = "partial"
  Dropped = {2, 4, 7}
  MaxPert = 1
INVARIANT Refines
CHECK_DEADLOCK FALSE
