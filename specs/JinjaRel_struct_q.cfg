SPECIFICATION Spec
CONSTANTS
  Profile = "struct"
  MaxW = 2
  MaxWc = 0
  MaxDepth = 2
  Tights = {FALSE}
  EmitOpen = TRUE
INVARIANT WellNested
INVARIANT Emit
CHECK_DEADLOCK FALSE
