SPECIFICATION Spec
CHECK_DEADLOCK FALSE
CONSTANTS
  Bug = "dotdot"
  Writer = "direct"
  Size = "q"
INVARIANT P_inside
