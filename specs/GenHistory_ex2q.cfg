SPECIFICATION Spec
CONSTANTS
  GenFiles = {1, 3, 4}
  OtherFiles = {}
  Modes = {292, 420}
  Variants = {0, 2}
  ChmodGate = TRUE
  CopyGate = TRUE
  Truncates = TRUE
  PPOrder = "program_first"
  Privileged = FALSE
  OptsSel = "t16"
  EnvOn = FALSE
  Record = TRUE
  MaxSteps = 2
INVARIANT RunEndOK
INVARIANT Emit
CHECK_DEADLOCK FALSE
