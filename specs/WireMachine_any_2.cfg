SPECIFICATION Spec
CONSTANTS
  Little = FALSE
  Level = 2
  Bug = "none"
INVARIANT Refines
INVARIANT StaysInside
CHECK_DEADLOCK FALSE
