---------------------------- MODULE TemplateLookup ----------------------------
(* I-layer for C16 (implementation-shaped) and the refinement I => P (P = TemplateLookupP).                *)
(*                                                                                                         *)
(* Part 1 -- DSDLTemplateLoader.type_to_template / _type_to_template_internal / get_source                  *)
(*   Begin(c)      type_to_template(c): start with the file-system set if there is a file-system loader      *)
(*   CacheHit      loop iteration: popped class found in _type_to_template_lookup_cache (probed FIRST)       *)
(*   NameHit       loop iteration: templates[cls.__name__] exists -> cache filled FOR THAT CLASS ONLY        *)
(*   Expand        loop iteration: neither -> bases not in `discovered` are queued, `discovered` += current  *)
(*   ExhaustedFs   queue empty in the file-system set -> None -> same search in the package set              *)
(*   ExhaustedEnd  queue empty in the last set -> None                                                       *)
(*   The cache is ONE dictionary keyed by the class alone and shared by both sets (SharedCache = TRUE is     *)
(*   the code as it is; FALSE is the repaired design: an entry is only valid for the set that produced it).  *)
(*   The cached value is the template's relative name, i.e. it is determined by the class -> cache is a set. *)
(*                                                                                                         *)
(* Part 2 -- CodeGenEnvironment.__init__ (+ DSDLCodeGenerator.__init__) as a registry of names              *)
(*   EAddGlobal, EReserve, ELangGlobals, EAddFilter, EAddTest, EDsdlTests, EGenMethods                       *)
(*                                                                                                         *)
(* The two parts are two specifications over one variable tuple (a generator owns a loader and an           *)
(* environment); each keeps the other part frozen.                                                          *)
EXTENDS TemplateLookupP, TLC, Json

CONSTANTS Shape,        \* name of the class hierarchy (see Bases)
          Modes,        \* subset of {"fs", "pkg", "both"}: which template sets the loader has
          MaxLookups,   \* length of the lookup history
          SharedCache,  \* TRUE: one cache keyed by class (the code); FALSE: an entry is tagged with its set
          MaxAdds,      \* environment part: number of user additions
          StrictGlobals \* environment part: count Jinja's default globals as protected (strict reading)

VARIABLES user, builtin, mode,                    \* lookup stimulus (constant after Init)
          cache, phase, vt, queue, disc, hist,    \* loader state, lookup in progress, observed history
          epath, allow, adds,                     \* environment stimulus
          ai, reg, err, epc                       \* environment state

lvars == <<user, builtin, mode, cache, phase, vt, queue, disc, hist>>
evars == <<epath, allow, adds, ai, reg, err, epc>>
vars  == <<lvars, evars>>

(* ====================================================================================================== *)
(* Part 1: lookup                                                                                          *)
(* ====================================================================================================== *)
Bases ==
    CASE Shape = "chain3"   -> << <<2>>, <<3>>, <<>> >>                       \* 1 -> 2 -> 3
      [] Shape = "chain4"   -> << <<2>>, <<3>>, <<4>>, <<>> >>                \* 1 -> 2 -> 3 (Any) -> 4 (beyond)
      [] Shape = "chain5"   -> << <<2>>, <<3>>, <<4>>, <<5>>, <<>> >>         \* 4 = Any, 5 beyond
      [] Shape = "tree5"    -> << <<3>>, <<3>>, <<5>>, <<5>>, <<>> >>         \* 1,2 -> 3 -> 5 (Any) <- 4
      [] Shape = "tree6"    -> << <<3>>, <<3>>, <<5>>, <<5>>, <<6>>, <<>> >>  \* tree5 + 6 beyond Any
      [] Shape = "diamond4" -> << <<2, 3>>, <<4>>, <<4>>, <<>> >>             \* 1(2,3), 2(4), 3(4)
      [] Shape = "diamond5" -> << <<2, 3>>, <<4>>, <<4>>, <<>>, <<2>> >>      \* + 5(2): shares ancestor 2 with 1
      [] Shape = "lop5"     -> << <<2, 5>>, <<3>>, <<4>>, <<>>, <<4>> >>      \* lopsided: 1(2,5), 2(3), 3(4), 5(4): the SECOND direct base 5 is
                                                                             \* nearer than the ancestors 3, 4 of the first (breadth first /= MRO)
AnyC ==
    CASE Shape = "chain3" -> 3 [] Shape = "chain4" -> 3 [] Shape = "chain5" -> 4
      [] Shape = "tree5" -> 5 [] Shape = "tree6" -> 5 [] Shape = "diamond4" -> 4 [] Shape = "diamond5" -> 4
      [] Shape = "lop5" -> 4

Cls == 1..Len(Bases)

HasFs  == mode \in {"fs", "both"}
HasPkg == mode \in {"pkg", "both"}
U == IF HasFs THEN user ELSE {}
B == IF HasPkg THEN builtin ELSE {}
Tag(ph) == IF SharedCache THEN "x" ELSE ph
Templates(ph) == IF ph = "fs" THEN user ELSE builtin

(* get_source(name): the file-system loader is asked first, TemplateNotFound falls through to the package  *)
GetSource(r) == IF r = 0 THEN 0 ELSE IF HasFs /\ r \in user THEN 1 ELSE IF HasPkg /\ r \in builtin THEN 2 ELSE 0

(* the same search as a function of an EMPTY cache: what a loader that was never asked answers             *)
RECURSIVE BfsFirst(_, _, _)
BfsFirst(q, d, S) ==
    IF q = <<>> THEN 0
    ELSE LET cur == Head(q) IN
         IF cur \in S THEN cur
         ELSE LET app == SelectSeq(Bases[cur], LAMBDA b : b \notin d)
              IN BfsFirst(Tail(q) \o app, IF app # <<>> THEN d \cup {cur} ELSE d, S)
ColdI(c) ==
    LET r1 == IF HasFs THEN BfsFirst(<<c>>, {}, user) ELSE 0
    IN IF r1 # 0 THEN r1 ELSE IF HasPkg THEN BfsFirst(<<c>>, {}, builtin) ELSE 0

EFrozenInit ==
    /\ epath = "none" /\ allow = FALSE /\ adds = <<>> /\ ai = 0 /\ reg = <<>> /\ err = FALSE /\ epc = "frozen"

LInit ==
    /\ user \in SUBSET Cls /\ builtin \in SUBSET Cls /\ mode \in Modes
    \* a set the loader has no loader object for is invisible by construction: not varied in the model (the
    \* conformance driver still puts random templates there)
    /\ (mode = "fs" => builtin = {}) /\ (mode = "pkg" => user = {})
    /\ cache = {} /\ phase = "idle" /\ vt = 0 /\ queue = <<>> /\ disc = {} /\ hist = <<>>

Begin(c) ==
    /\ phase = "idle" /\ Len(hist) < MaxLookups
    /\ vt' = c /\ phase' = (IF HasFs THEN "fs" ELSE "pkg") /\ queue' = <<c>> /\ disc' = {}
    /\ UNCHANGED <<evars, user, builtin, mode, cache, hist>>

Finish(r) ==
    /\ hist' = Append(hist, [c |-> vt, got |-> r, src |-> GetSource(r)])
    /\ phase' = "idle" /\ vt' = 0 /\ queue' = <<>> /\ disc' = {}

Searching == phase \in {"fs", "pkg"} /\ queue # <<>>

CacheHit ==
    /\ Searching /\ <<Tag(phase), Head(queue)>> \in cache
    /\ Finish(Head(queue))
    /\ UNCHANGED <<evars, user, builtin, mode, cache>>

NameHit ==
    /\ Searching /\ <<Tag(phase), Head(queue)>> \notin cache /\ Head(queue) \in Templates(phase)
    /\ cache' = cache \cup {<<Tag(phase), Head(queue)>>}
    /\ Finish(Head(queue))
    /\ UNCHANGED <<evars, user, builtin, mode>>

Expand ==
    /\ Searching /\ <<Tag(phase), Head(queue)>> \notin cache /\ Head(queue) \notin Templates(phase)
    /\ LET cur == Head(queue)
           app == SelectSeq(Bases[cur], LAMBDA b : b \notin disc)
       IN /\ queue' = Tail(queue) \o app
          /\ disc' = IF app # <<>> THEN disc \cup {cur} ELSE disc
    /\ UNCHANGED <<evars, user, builtin, mode, cache, phase, vt, hist>>

ExhaustedFs ==
    /\ phase = "fs" /\ queue = <<>> /\ HasPkg
    /\ phase' = "pkg" /\ queue' = <<vt>> /\ disc' = {}
    /\ UNCHANGED <<evars, user, builtin, mode, cache, vt, hist>>

ExhaustedEnd ==
    /\ queue = <<>> /\ (phase = "pkg" \/ (phase = "fs" /\ ~HasPkg))
    /\ Finish(0)
    /\ UNCHANGED <<evars, user, builtin, mode, cache>>

LNext == (\E c \in Cls : Begin(c)) \/ CacheHit \/ NameHit \/ Expand \/ ExhaustedFs \/ ExhaustedEnd

Spec == LInit /\ EFrozenInit /\ [][LNext]_vars

(* ---- refinement: every answer the loader has given satisfies the property ----                           *)
(* (judged when a lookup returns: the entry just appended; earlier entries were judged in earlier states)   *)
Returned == phase = "idle" /\ hist # <<>>
Last == hist[Len(hist)]
RefNearest == Returned => NearestOK(Bases, AnyC, Last.c, U, B, Last.got)
RefSource  == Returned => SourceOK(U, B, Last.got, Last.src)
RefHistory == Returned => HistoryOK(Last.got, ColdI(Last.c))
(* the cache never holds a class without a template in one of the sets the loader can see                   *)
CacheSound == Returned => \A e \in cache : e[2] \in (U \cup B)
(* in a cold search the first hit is a nearest class of the set searched (BFS = level order); judged once    *)
(* per stimulus                                                                                            *)
BfsIsNearest == (phase = "idle" /\ hist = <<>>) =>
                    \A c \in Cls : \A S \in {user, builtin} :
                        LET r == BfsFirst(<<c>>, {}, S) IN IF r = 0 THEN NearestIn(Bases, c, S) = {} ELSE r \in NearestIn(Bases, c, S)

(* get_source for an arbitrary name (not only class-named templates): the same two-stage fall-through       *)
GetSourceByName(inU, inB) == IF HasFs /\ inU THEN 1 ELSE IF HasPkg /\ inB THEN 2 ELSE 0
NameRefines == (phase = "idle" /\ hist = <<>>) =>
                   \A inU, inB \in BOOLEAN : NameOK(inU, inB, HasFs, HasPkg, GetSourceByName(inU, inB))

(* ---- case emission (spec -> code): one record per complete history ----                                   *)
StepOut(i) ==
    LET h == hist[i] IN
    [c |-> h.c, got |-> h.got, src |-> h.src, cold |-> ColdI(h.c),
     allowed |-> Allowed(Bases, AnyC, h.c, U, B),
     inchain |-> ((U \cup B) \cap Chain(Bases, AnyC, h.c) # {}),
     det |-> Determined(Bases, AnyC, h.c, U, B)]
Emit == (phase = "idle" /\ Len(hist) = MaxLookups) =>
            PrintT(ToJson([shape |-> Shape, bases |-> Bases, anyc |-> AnyC, mode |-> mode, user |-> user, builtin |-> builtin,
                           steps |-> [i \in DOMAIN hist |-> StepOut(i)]]))

(* ====================================================================================================== *)
(* Part 2: additions to the environment                                                                    *)
(* ====================================================================================================== *)
(* Abstract names (code points).  One letter per category of existing name:                                *)
(*   f  filter present when user filters are added (Jinja built-in or language filter)                      *)
(*   t  test present when user tests are added                                                              *)
(*   m  filter the generator adds AFTER the environment was built (filter_xxx methods of DSDLCodeGenerator)  *)
(*   d  test the generator adds AFTER the environment was built (DSDL instance tests, is_xxx methods)        *)
(*   r  reserved global (ln, options, uses_queries, nunavut, now_utc)                                        *)
(*   l  global contributed by the target language (typename_xxx, valuetoken_xxx)                             *)
(*   j  Jinja default global (range, dict, lipsum, cycler, joiner, namespace)                                *)
(*   q  a name nobody uses                                                                                  *)
(* optionally behind one of the conventional prefixes that the environment strips from filter/test names.   *)
Lf == <<102>>  Lt == <<116>>  Lm == <<109>>  Ld == <<100>>  Lr == <<114>>  Ll == <<108>>  Lj == <<106>>  Lq == <<113>>
Letters == {Lf, Lt, Lm, Ld, Lr, Ll, Lj, Lq}
PIs     == <<105, 115, 95>>                          \* "is_"
PFilter == <<102, 105, 108, 116, 101, 114, 95>>      \* "filter_"
PUses   == <<117, 115, 101, 115, 95>>                \* "uses_"
Prefixes == {<<>>, PIs, PFilter, PUses}
Names == {p \o x : p \in Prefixes, x \in Letters}
Kinds == {"globals", "filters", "tests"}

StartsWith(s, p) == Len(s) >= Len(p) /\ SubSeq(s, 1, Len(p)) = p
(* LanguageEnvironment._parse_callable_name: is_ / filter_ / uses_ are tried in this order                  *)
Strip(n) == IF StartsWith(n, PIs) THEN SubSeq(n, Len(PIs) + 1, Len(n))
            ELSE IF StartsWith(n, PFilter) THEN SubSeq(n, Len(PFilter) + 1, Len(n))
            ELSE IF StartsWith(n, PUses) THEN SubSeq(n, Len(PUses) + 1, Len(n))
            ELSE n

(* registry before any user addition: owner "b" (built-in) or "-" (absent)                                   *)
Reg0 == [k \in Kinds |-> [n \in Names |->
            IF k = "filters" /\ n = Lf THEN "b"
            ELSE IF k = "tests" /\ n = Lt THEN "b"
            ELSE IF k = "globals" /\ n = Lj THEN "b"
            ELSE "-"]]

(* all user additions: a sequence of <<kind, name>>, processed in the order globals, filters, tests (the     *)
(* constructor's order), names within one kind distinct (they are dictionary keys)                          *)
KindRank(k) == IF k = "globals" THEN 1 ELSE IF k = "filters" THEN 2 ELSE 3
AddSeqs ==
    {s \in UNION {[1..n -> Kinds \X Names] : n \in 0..MaxAdds} :
        /\ \A i, j \in DOMAIN s : i < j => KindRank(s[i][1]) <= KindRank(s[j][1])
        /\ \A i, j \in DOMAIN s : (i # j /\ s[i][1] = s[j][1]) => s[i][2] # s[j][2]}

LFrozenInit ==
    /\ user = {} /\ builtin = {} /\ mode = "none" /\ cache = {} /\ phase = "frozen" /\ vt = 0 /\ queue = <<>> /\ disc = {}
    /\ hist = <<>>

EInit ==
    /\ epath \in {"builder", "generator"}
    /\ allow \in BOOLEAN /\ (epath = "generator" => allow = FALSE)   \* the generators offer no way to ask for overwrite
    /\ adds \in AddSeqs
    /\ ai = 1 /\ reg = Reg0 /\ err = FALSE /\ epc = "globals"

Set(k, n, o) == reg' = [reg EXCEPT ![k][n] = o]
(* no further user addition of kind k (IF, not \/: TLC splits a disjunction inside an action)                *)
NoMore(k) == IF ai > Len(adds) THEN TRUE ELSE adds[ai][1] # k

(* `for global_name, global_value in additional_globals.items()`: reserved -> RuntimeError, otherwise the    *)
(* name is bound WITHOUT looking whether it exists; the name is taken as it is (no prefix convention)        *)
EAddGlobal ==
    /\ epc = "globals" /\ ai <= Len(adds) /\ adds[ai][1] = "globals"
    /\ IF adds[ai][2] = Lr
       THEN err' = TRUE /\ epc' = "error" /\ UNCHANGED <<reg, ai>>
       ELSE Set("globals", adds[ai][2], "u") /\ ai' = ai + 1 /\ UNCHANGED <<err, epc>>
    /\ UNCHANGED <<lvars, epath, allow, adds>>

(* reserved namespaces and now_utc are (re)bound by the constructor after the user's globals                *)
EReserve ==
    /\ epc = "globals" /\ NoMore("globals")
    /\ Set("globals", Lr, "b") /\ epc' = "langglobals"
    /\ UNCHANGED <<lvars, epath, allow, adds, ai, err>>

(* _update_language_support: self.globals.update(target_language.get_globals()) -- the built-in wins         *)
ELangGlobals ==
    /\ epc = "langglobals"
    /\ Set("globals", Ll, "b") /\ epc' = "filters"
    /\ UNCHANGED <<lvars, epath, allow, adds, ai, err>>

(* _add_to_environment(stripped name): existing -> RuntimeError unless replacements are allowed              *)
AddUser(k) ==
    LET n == Strip(adds[ai][2]) IN
    IF reg[k][n] # "-" /\ ~allow
    THEN err' = TRUE /\ epc' = "error" /\ UNCHANGED <<reg, ai>>
    ELSE Set(k, n, "u") /\ ai' = ai + 1 /\ UNCHANGED <<err, epc>>

EAddFilter ==
    /\ epc = "filters" /\ ai <= Len(adds) /\ adds[ai][1] = "filters"
    /\ AddUser("filters")
    /\ UNCHANGED <<lvars, epath, allow, adds>>
EFiltersDone ==
    /\ epc = "filters" /\ NoMore("filters")
    /\ epc' = "tests" /\ UNCHANGED <<lvars, epath, allow, adds, ai, reg, err>>
EAddTest ==
    /\ epc = "tests" /\ ai <= Len(adds)
    /\ AddUser("tests")
    /\ UNCHANGED <<lvars, epath, allow, adds>>
ETestsDone ==
    /\ epc = "tests" /\ ai > Len(adds)
    /\ epc' = (IF epath = "generator" THEN "dsdltests" ELSE "done")
    /\ UNCHANGED <<lvars, epath, allow, adds, ai, reg, err>>

(* DSDLCodeGenerator.__init__: self._env.add_test(name, test) for every DSDL instance test, then             *)
(* add_conventional_methods_to_environment(self); both go through _add_to_environment                        *)
AddBuiltin(k, n, nextpc) ==
    IF reg[k][n] # "-" /\ ~allow
    THEN err' = TRUE /\ epc' = "error" /\ UNCHANGED reg
    ELSE Set(k, n, "b") /\ epc' = nextpc /\ UNCHANGED err
EDsdlTests ==
    /\ epc = "dsdltests" /\ AddBuiltin("tests", Ld, "genmethods")
    /\ UNCHANGED <<lvars, epath, allow, adds, ai>>
EGenMethods ==
    /\ epc = "genmethods" /\ AddBuiltin("filters", Lm, "done")
    /\ UNCHANGED <<lvars, epath, allow, adds, ai>>

ENext == EAddGlobal \/ EReserve \/ ELangGlobals \/ EAddFilter \/ EFiltersDone \/ EAddTest \/ ETestsDone \/ EDsdlTests \/ EGenMethods

EnvSpec == EInit /\ LFrozenInit /\ [][ENext]_vars

(* protected names: what exists in the finished environment when the user adds nothing, except Jinja's       *)
(* default globals (documented protection of globals covers the reserved names only: ambiguity register)    *)
Protected(k) ==
    IF k = "filters" THEN {Lf} \cup (IF epath = "generator" THEN {Lm} ELSE {})
    ELSE IF k = "tests" THEN {Lt} \cup (IF epath = "generator" THEN {Ld} ELSE {})
    ELSE {Lr, Ll} \cup (IF StrictGlobals THEN {Lj} ELSE {})
Replaced == {<<k, n>> \in Kinds \X Names : n \in Protected(k) /\ reg[k][n] = "u"}
EnvRefines == (epc \in {"done", "error"}) => NoSilentReplace(allow, err, Cardinality(Replaced))
(* an error is only ever raised for a name that is taken                                                     *)
ErrOnlyIfTaken == (epc = "error") => (\E i \in DOMAIN adds : Strip(adds[i][2]) \in (Letters \ {Lq}) \/ adds[i][2] = Lr
                                       \/ \E j \in DOMAIN adds : i # j /\ Strip(adds[i][2]) = Strip(adds[j][2]))

UserNames(k) == {n \in Names : reg[k][n] = "u"}
EnvEmit == (epc \in {"done", "error"}) =>
               PrintT(ToJson([path |-> epath, allow |-> allow, adds |-> adds, err |-> err,
                              ug |-> UserNames("globals"), uf |-> UserNames("filters"), ut |-> UserNames("tests"),
                              replaced |-> Cardinality(Replaced)]))
=============================================================================
