SPECIFICATION Spec
CONSTANTS
  MaxTypes = 2
  MaxNested = 2
  Langs = {"c", "cpp", "py", "html"}
  Audits = {FALSE}
  OpenSets = {{}}
  SortedWalk = FALSE
  Vary = {"outst", "hist"}
INVARIANT Refines
INVARIANT PathsStable
INVARIANT TypeOK
CHECK_DEADLOCK FALSE
