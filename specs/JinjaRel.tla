------------------------------ MODULE JinjaRel ------------------------------
(* C19 -- the quantification domain and the semantics of Nunavut's additions.                              *)
(*                                                                                                        *)
(* Part 1 (GNext): a BUILDER of templates of the stable Jinja2 core.  Every action appends one production  *)
(*   (a concrete-syntax piece) and maintains the stack of open blocks; every reachable state with an empty *)
(*   stack is a template, every state with a non-empty stack an unclosed one (both engines must fail).     *)
(*   TLC enumerates the reachable states of a profile exhaustively; invariant Emit prints them.  Pieces    *)
(*   are TLA+ strings used as opaque atoms (never inspected); rendered text travels as Seq(Nat).           *)
(*   The grammar is FROZEN to productions on which bundled 2.11.dev and stock 3.1.6 agree on the unchanged *)
(*   tree; excluded (version skew, shown by an unpatched copy of the bundled engine to be independent of   *)
(*   Nunavut's patch): exponent float literals `1e3`, `{%+`/`{#+` without lstrip_blocks, `+%}`, `{#+`,     *)
(*   line boundaries other than LF/CR/CRLF in template SOURCE, filters/tests added after 2.11 (`items`,    *)
(*   `is boolean/integer/float/true/false/filter/test`), see vf/props/c19.py SKEW for the recorded list.   *)
(* Part 2 (MNext): marker templates  wrap( pre ws {{* e }} | {%* block %} post )  with their plain twin.   *)
(* Part 3 (ANext, UNext): placements of `assert`, shapes of use-query chains, with the expected outcome.   *)
(* Part 4 (SNext): the I-layer operators of JinjaRelSem refine the P-layer ones on all small texts/chains. *)
EXTENDS JinjaRelSem, TLC, Json

CONSTANTS Profile,    \* "lex1" "lex2" "lex3" "struct" "expr" | "marker" | "assert" | "ifuses" | "sem"
          MaxW,       \* budget of productions that carry weight
          MaxWc,      \* budget of non-default white-space-control attributes ( - + ) per template
          MaxDepth,   \* nesting bound
          Tights,     \* {FALSE} or {FALSE, TRUE}: `{% if c1 %}` vs `{%if c1%}`
          EmitOpen    \* also emit unclosed templates

VARIABLES ps,      \* pieces of the template
          ks,      \* kind of every piece
          stack,   \* open blocks
          w, wc,   \* budgets used
          plus,    \* template uses `{%+` / `{#+`: only meaningful (and only common to both engines) with lstrip_blocks
          tight,
          aux      \* profile specific record (marker: the plain twin; assert/ifuses: expected outcome; sem: the case)

vars == <<ps, ks, stack, w, wc, plus, tight, aux>>

(* ------------------------------------------ concrete syntax ------------------------------------------ *)
sp == IF tight THEN "" ELSE " "
B(l, inner, r) == "{%" \o l \o sp \o inner \o sp \o r \o "%}"
V(l, e, r) == "{{" \o l \o sp \o e \o sp \o r \o "}}"
C(l, body, r) == "{#" \o l \o body \o r \o "#}"

Trails == {"", "-"}
BLeads == {"", "-", "+"}
VLeads == {"", "-"}
Cost(l, r) == (IF l = "" THEN 0 ELSE 1) + (IF r = "" THEN 0 ELSE 1)

IsLex == Profile \in {"lex1", "lex2", "lex3"}

Texts ==
    CASE Profile = "lex1" -> {"x", "\n", "  ", "\t", "\n  ", "x  ", "  \n", "\n\n", "\nx\n", "x\n  ", "  \n  ", "\n\t"}
      [] Profile = "lex2" -> {"x", "\n", "  ", "\n  ", "  \n", "x\n  "}
      [] Profile = "lex3" -> {"\n", "  ", "x\n  "}
      [] Profile = "struct" -> {"x", "\n  "}
      [] Profile = "expr" -> {"<"}
      [] OTHER -> {}
TextW == IF Profile = "struct" THEN 1 ELSE 0

Kinds ==
    CASE IsLex -> {"var", "comment", "raw", "if", "else", "set", "include"}
      [] Profile = "struct" -> {"var", "comment", "raw", "if", "elif", "else", "for", "set", "setblock", "macro", "call", "filter",
                                "block", "extends", "include", "import", "from"}
      [] Profile = "expr" -> {"var"}
      [] OTHER -> {}

(* expressions printed by {{ }}                                                                           *)
Exprs ==
    CASE IsLex -> {"v"}
      [] Profile = "struct" -> {"v", "a", "i", "loop.index", "loop.last", "m(n)", "caller()", "lib.f(n)", "f(v)", "super()", "u"}
      [] Profile = "expr" ->
           {"n + 1", "n - 5", "n * 2", "n / 2", "n // 2", "n % 2", "n ** 2", "-n", "n > 2", "n == 3", "n != 3", "n <= 3",
            "c1 and c2", "c1 or c2", "not c1", "v ~ n", "v if c1 else 'E'", "'a' in s", "2 in xs", "2 not in xs",
            "xs[0]", "xs[5]", "d.k", "d['k']", "d.zz", "u", "u.x", "none", "true", "false", "1.5", "'lit'", "[1, 2]", "(1, 2)", "{'a': 1}",
            "xs | length", "xs | join('-')", "xs | first", "xs | last", "xs | sum", "xs | reverse | list", "xs | sort", "xs | max",
            "xs | min", "xs | unique | list", "xs | map('string') | join", "xs | select('odd') | list", "xs | reject('odd') | list",
            "xs | batch(1) | list", "xs | list", "range(3) | list", "d | dictsort", "dict(a=1)", "namespace(a=1).a",
            "s | upper", "s | lower", "s | capitalize", "s | title", "s | trim", "s | replace('a', 'z')", "s | length",
            "s | indent(2)", "s | indent(2, true)", "s | center(7)", "s | wordcount", "s | list", "s | e", "s | escape",
            "s | striptags", "s | first", "s | reverse", "s | string", "s | default('D')", "s.upper()", "s.split('a')",
            "'<b>' | safe", "'<b>' | e", "n | string", "'12' | int", "'zz' | int", "'1.5' | float", "n | abs", "n | float",
            "3.7 | round", "3.14159 | round(2)", "2.5 | int", "v | default('D')", "u | default('D')", "v | default('D', true)",
            "u is defined", "v is defined", "u is undefined", "n is odd", "n is even", "n is divisibleby(3)", "v is string",
            "n is number", "xs is iterable", "xs is sequence", "d is mapping", "v is none", "n is sameas(n)", "v is lower", "v is upper",
            "n is eq(3)", "n is gt(1)", "v | lower | upper", "'%s-%s' | format(v, n)", "v | format", "n | filesizeformat",
            "s | truncate(3, true, '~', 0)", "xs | attr('zz')", "(xs | length) + n", "v * 2", "[v, n] | join(',')",
            "s | urlencode", "joiner(',')()", "cycler(1, 2).next()", "v[0:1]", "xs[1:]", "xs[-1]", "v | trim | length"}
      [] OTHER -> {}

(* a body starting with `*` only in the single-construct profile: `{#*` is an ordinary comment upstream            *)
CommentBodies ==
    CASE Profile = "lex1" -> {" c ", "* c *", " c\n  d "}
      [] OTHER -> {" c "}
RawBodies ==
    CASE Profile \in {"lex1", "lex2"} -> {"r", " {{ v }}\n  {% if %} "}
      [] OTHER -> {"{{ r }}"}
Conds == IF IsLex THEN {"c1"} ELSE {"c1", "c2"}
Iters == {"xs", "ys"}
(* not generated: `include ... without context` (inside a macro BOTH engines print a generator repr with its address) *)
Includes == IF IsLex THEN {"include 'inc'"} ELSE {"include 'inc'", "include 'nope'", "include 'nope' ignore missing"}

EndName(top) ==
    CASE top \in {"if", "ifE"} -> "endif" [] top \in {"for", "forE"} -> "endfor" [] top = "setblock" -> "endset"
      [] top = "macro" -> "endmacro" [] top = "call" -> "endcall" [] top = "filter" -> "endfilter" [] top = "block" -> "endblock"

Top == IF stack = <<>> THEN "none" ELSE stack[Len(stack)]
Pop == SubSeq(stack, 1, Len(stack) - 1)
CanPush == Len(stack) < MaxDepth

Put(p, k, dw, dwc, st, pl) ==
    /\ w + dw <= MaxW /\ wc + dwc <= MaxWc
    /\ ps' = Append(ps, p) /\ ks' = Append(ks, k) /\ w' = w + dw /\ wc' = wc + dwc
    /\ stack' = st /\ plus' = (plus \/ pl) /\ UNCHANGED <<tight, aux>>

(* ---------------------------------------------- productions ------------------------------------------- *)
PText == \E t \in Texts : (IF ks = <<>> THEN TRUE ELSE ks[Len(ks)] # "text") /\ Put(t, "text", TextW, 0, stack, FALSE)

PVar == "var" \in Kinds /\ \E e \in Exprs, l \in VLeads, r \in Trails : Put(V(l, e, r), "var", 1, Cost(l, r), stack, FALSE)

PComment == "comment" \in Kinds /\ \E b \in CommentBodies, l \in VLeads, r \in Trails :
                Put(C(l, b, r), IF b = "* c *" THEN "comment*" ELSE "comment", 1, Cost(l, r), stack, FALSE)

PRaw == "raw" \in Kinds /\ \E b \in RawBodies, l1 \in BLeads, r1 \in Trails, l2 \in {"", "-"}, r2 \in Trails :
            Put(B(l1, "raw", r1) \o b \o B(l2, "endraw", r2), "raw", 1, Cost(l1, r1) + Cost(l2, r2), stack, l1 = "+")

(* a leaf block tag                                                                                       *)
Leaf(k, inner) == k \in Kinds /\ \E l \in BLeads, r \in Trails : Put(B(l, inner, r), k, 1, Cost(l, r), stack, l = "+")
(* a tag that opens a block                                                                               *)
Open(k, inner, push) == k \in Kinds /\ CanPush /\ \E l \in BLeads, r \in Trails :
                            Put(B(l, inner, r), k, 1, Cost(l, r), Append(stack, push), l = "+")

PSet      == Leaf("set", "set a = n")
PInclude  == \E i \in Includes : Leaf("include", i)
PImport   == Leaf("import", "import 'lib' as lib")
PFrom     == Leaf("from", "from 'lib' import f")
PExtends  == ps = <<>> /\ Leaf("extends", "extends 'base'")
PIf       == \E c \in Conds : Open("if", "if " \o c, "if")
PFor      == \E it \in Iters : Open("for", "for i in " \o it, "for")
PSetBlock == Open("setblock", "set a", "setblock")
PMacro    == Open("macro", "macro m(p)", "macro")
PCall     == Open("call", "call m(n)", "call")
PFilter   == Open("filter", "filter upper", "filter")
PBlock    == Open("block", "block b", "block")
PElif     == "elif" \in Kinds /\ Top = "if" /\ \E c \in Conds, l \in BLeads, r \in Trails :
                 Put(B(l, "elif " \o c, r), "elif", 1, Cost(l, r), stack, l = "+")
PElse     == "else" \in Kinds /\ Top \in {"if", "for"} /\ \E l \in BLeads, r \in Trails :
                 Put(B(l, "else", r), "else", 1, Cost(l, r), Append(Pop, Top \o "E"), l = "+")
PEnd      == stack # <<>> /\ \E l \in BLeads, r \in Trails : Put(B(l, EndName(Top), r), "end", 0, Cost(l, r), Pop, l = "+")

GNext == \/ PText \/ PVar \/ PComment \/ PRaw \/ PSet \/ PInclude \/ PImport \/ PFrom \/ PExtends
         \/ PIf \/ PFor \/ PSetBlock \/ PMacro \/ PCall \/ PFilter \/ PBlock \/ PElif \/ PElse \/ PEnd

GInit == /\ ps = <<>> /\ ks = <<>> /\ stack = <<>> /\ w = 0 /\ wc = 0 /\ plus = FALSE /\ tight \in Tights /\ aux = [ph |-> "g"]

(* the small dict loader and the frozen pool of contexts (u is never defined)                              *)
Loader == [inc  |-> "I{{ v }}\n  {% if c1 %}J{% endif %}\n",
           lib  |-> "{% macro f(q) %}<{{ q }}>{% endmacro %}\n",
           base |-> "B\n  {% block b %}bb{% endblock %}\n{# c #}\nE{{ v }}\n"]
Contexts == << [c1 |-> TRUE,  c2 |-> FALSE, v |-> "V", s |-> "ab\n cd", n |-> 3, xs |-> <<1, 2, 3>>, ys |-> <<>>, d |-> [k |-> "K"]],
               [c1 |-> FALSE, c2 |-> TRUE,  v |-> "",  s |-> "<a>\n\nb\n", n |-> 0, xs |-> <<7>>, ys |-> <<>>, d |-> [k |-> "L"]] >>

(* ============================================ Part 2: marker ========================================== *)
(* phases: wrap -> pre -> construct -> post -> done.  aux.pp collects the plain twin, aux.pre/ws/post the   *)
(* literals the T-layer needs.                                                                            *)
MWraps == IF MaxW >= 2 THEN {"none", "if", "for1", "block"} ELSE {"none", "if"}
MPres(wrap) == IF wrap = "none" THEN {"", "A", "A\n", "\n", "A\n\n"} ELSE {"", "A\n"}
MWs == IF MaxWc >= 2 THEN {"", " ", "  ", "\t", " \t", "      "} ELSE {"", "  ", "\t"}
MPosts(wrap) == IF wrap # "none" THEN {"Z", "\nZ"} ELSE IF MaxWc >= 2 THEN {"", "Z", "\nZ", "  Z", "\n  Z\n"} ELSE {"", "\nZ", "  Z"}
(* strings of the context with their line-ending styles (values in MStrings below)                         *)
MVarExprs == {"s1", "s2", "s3", "s4", "s5", "s6", "s7", "s8", "s9", "s10", "s1 | upper", "'q1\\nq2'", "n", "xs", "none", "u",
              "e1", "e2", "e3"}
MStrings == [s1 |-> <<97, 10, 98>>, s2 |-> <<97, 13, 10, 98>>, s3 |-> <<97, 13, 98>>, s4 |-> <<97, 10, 98, 10>>,
             s5 |-> <<97, 10, 10, 98>>, s6 |-> <<97, 10, 32, 32, 10, 98>>, s7 |-> <<>>, s8 |-> <<97>>, s9 |-> <<10, 97>>,
             s10 |-> <<97, 13, 10, 13, 10, 98, 13, 10>>, e1 |-> <<97, 12, 98>>, e2 |-> <<97, 8232, 98>>, e3 |-> <<97, 133, 98, 10>>]
MBodies == {"b1\nb2", "\nb1\n  b2\n", "{{ s2 }}", "b1\n\n  \nb2\n", "b"}
(* block constructs: <<kind, open inner, end name or "" for a leaf>>                                       *)
MBlocks == { <<"if", "if c1", "endif">>, <<"if0", "if c2", "endif">>, <<"for", "for i in xs", "endfor">>, <<"filter", "filter upper", "endfilter">>,
             <<"block", "block q", "endblock">>, <<"setblock", "set a", "endset">>, <<"macro", "macro m()", "endmacro">>,
             <<"raw", "raw", "endraw">>, <<"include", "include 'inc'", "">>, <<"set", "set a = n", "">>, <<"import", "import 'lib' as lib", "">> }

MInit == /\ ps = <<>> /\ ks = <<>> /\ stack = <<>> /\ w = 0 /\ wc = 0 /\ plus = FALSE /\ tight \in Tights
         /\ aux = [ph |-> "wrap", pp |-> <<>>, pre |-> "", ws |-> "", post |-> "", wrap |-> "none", ck |-> ""]

MPut(p, q, k, a) == /\ ps' = Append(ps, p) /\ ks' = Append(ks, k) /\ aux' = [a EXCEPT !.pp = Append(aux.pp, q)]
                    /\ UNCHANGED <<stack, w, wc, plus, tight>>

MWrap == aux.ph = "wrap" /\ \E wr \in MWraps :
           LET a == [aux EXCEPT !.ph = "pre", !.wrap = wr]
               o == CASE wr = "if" -> B("", "if c1", "") [] wr = "for1" -> B("", "for j in [1]", "") [] wr = "block" -> B("", "block b", "") [] OTHER -> ""
           IN MPut(o, o, "wrap", a)
MPre == aux.ph = "pre" /\ \E p \in MPres(aux.wrap) : MPut(p, p, "text", [aux EXCEPT !.ph = "con", !.pre = p])
(* {{* e }} : the marker piece carries ws; the plain twin drops ws and the star                            *)
MVar == aux.ph = "con" /\ \E ws \in MWs, e \in MVarExprs, r \in Trails :
           MPut(ws \o "{{*" \o sp \o e \o sp \o r \o "}}", V("", e, r), "mvar", [aux EXCEPT !.ph = "post", !.ws = ws, !.ck = "var"])
MBlock == aux.ph = "con" /\ \E ws \in MWs, b \in MBlocks, body \in MBodies, r1 \in Trails, l2 \in {"", "-"}, r2 \in Trails :
           /\ (b[3] = "" => (body = "b" /\ l2 = "" /\ r2 = ""))
           /\ Cost("", r1) + Cost(l2, r2) <= MaxWc
           /\ LET tail == IF b[3] = "" THEN "" ELSE body \o B(l2, b[3], r2)
              IN MPut(ws \o "{%*" \o sp \o b[2] \o sp \o r1 \o "%}" \o tail, B("", b[2], r1) \o tail, "mblock",
                      [aux EXCEPT !.ph = "post", !.ws = ws, !.ck = b[1]])
MPost == aux.ph = "post" /\ \E p \in MPosts(aux.wrap) :
           LET c == CASE aux.wrap = "if" -> B("", "endif", "") [] aux.wrap = "for1" -> B("", "endfor", "") [] aux.wrap = "block" -> B("", "endblock", "") [] OTHER -> ""
           IN MPut(p \o c, p \o c, "text", [aux EXCEPT !.ph = "done", !.post = p])
MNext == MWrap \/ MPre \/ MVar \/ MBlock \/ MPost

(* ============================================ Part 3: assert ========================================== *)
(* value classes of the asserted expression with their Python truthiness                                  *)
AExprs == { <<"true", TRUE>>, <<"false", FALSE>>, <<"n == 3", TRUE>>, <<"n == 4", FALSE>>, <<"0", FALSE>>, <<"1", TRUE>>, <<"''", FALSE>>,
            <<"'x'", TRUE>>, <<"[]", FALSE>>, <<"[0]", TRUE>>, <<"none", FALSE>>, <<"ys", FALSE>>, <<"xs", TRUE>>, <<"not c2", TRUE>>,
            <<"c1 and c2", FALSE>>, <<"xs | length > 5", FALSE>>, <<"(1 + 1 == 4) and (2 + 2 == 5)", FALSE>> }
(* placements: <<name, text before the tag, text after the tag, is the tag executed, what is printed before it is reached>> *)
APlaces == { <<"top", "P", "Q", TRUE>>,
             <<"if-taken", "P{% if c1 %}", "{% endif %}Q", TRUE>>,
             <<"if-skipped", "P{% if c2 %}", "{% endif %}Q", FALSE>>,
             <<"else-taken", "P{% if c2 %}R{% else %}", "{% endif %}Q", TRUE>>,
             <<"for-2", "P{% for i in xs %}", "{{ i }}{% endfor %}Q", TRUE>>,
             <<"for-0", "P{% for i in ys %}", "{% endfor %}Q", FALSE>>,
             <<"macro-called", "{% macro m() %}", "M{% endmacro %}P{{ m() }}Q", TRUE>>,
             <<"macro-uncalled", "{% macro m() %}", "M{% endmacro %}PQ", FALSE>>,
             <<"lstrip-line", "P\n  ", "\nQ", TRUE>> }
AMsgs == {"", ", 'boom'"}
AInit == /\ ps = <<>> /\ ks = <<>> /\ stack = <<>> /\ w = 0 /\ wc = 0 /\ plus = FALSE /\ tight \in Tights /\ aux = [ph |-> "place"]
APlace == aux.ph = "place" /\ \E pl \in APlaces, e \in AExprs, m \in AMsgs, l \in {"", "-"}, r \in Trails :
            /\ Cost(l, r) <= MaxWc
            /\ ps' = <<pl[2], B(l, "assert " \o e[1] \o m, r), pl[3]>>
            /\ ks' = <<"text", "assert", "text">>
            (* the ordinary conditional: {% if not (e) %}{{ fail(msg) }}{% endif %}                           *)
            /\ aux' = [ph |-> "done", place |-> pl[1], executed |-> pl[4], truthy |-> e[2], msg |-> (m # ""),
                       raises |-> AssertRaises(pl[4], e[2]),
                       pp |-> <<pl[2], B(l, "if not (" \o e[1] \o ")", "") \o "{{ fail() }}" \o B("", "endif", r), pl[3]>>]
            /\ UNCHANGED <<stack, w, wc, plus, tight>>
ANext == APlace

(* ============================================ Part 3: ifuses ========================================== *)
(* builder of chains: ifuses/ifnuses, then elifuses/elifnuses clauses, optional else, end tag.             *)
QTruth == {"T", "F", "U"}
UInit == /\ ps = <<>> /\ ks = <<>> /\ stack = <<>> /\ w = 0 /\ wc = 0 /\ plus = FALSE /\ tight \in Tights
         /\ aux = [ph |-> "open", cl |-> <<>>, else |-> FALSE, pp |-> <<>>, endneg |-> FALSE]
QName(i, q) == "q" \o (CASE i = 1 -> "1" [] i = 2 -> "2" [] OTHER -> "3") \o q
UClause == aux.ph \in {"open", "more"} /\ Len(aux.cl) < MaxW /\ \E neg \in BOOLEAN, q \in QTruth, l \in {"", "-"}, r \in Trails :
            /\ Cost(l, r) + wc <= MaxWc /\ wc' = wc + Cost(l, r)
            /\ LET i == Len(aux.cl) + 1
                   kw == (IF i = 1 THEN "if" ELSE "elif") \o (IF neg THEN "nuses" ELSE "uses")
                   pk == (IF i = 1 THEN "if " ELSE "elif ") \o (IF neg THEN "not " ELSE "")
                   body == "B" \o (CASE i = 1 -> "1" [] i = 2 -> "2" [] OTHER -> "3") \o "\n"
               IN /\ ps' = ps \o <<B(l, kw \o " '" \o QName(i, q) \o "'", r), body>>
                  /\ ks' = ks \o <<IF neg THEN "ifnuses" ELSE "ifuses", "text">>
                  /\ aux' = [aux EXCEPT !.ph = "more", !.cl = Append(aux.cl, [neg |-> neg, q |-> q]),
                                        !.pp = aux.pp \o <<B(l, pk \o "uses_queries." \o QName(i, q) \o "()", r), body>>]
            /\ UNCHANGED <<stack, w, plus, tight>>
UElse == aux.ph = "more" /\ ~aux.else
         /\ ps' = ps \o <<B("", "else", ""), "E\n">> /\ ks' = ks \o <<"else", "text">>
         /\ aux' = [aux EXCEPT !.else = TRUE, !.ph = "else", !.pp = aux.pp \o <<B("", "else", ""), "E\n">>]
         /\ UNCHANGED <<stack, w, wc, plus, tight>>
UEnd == aux.ph \in {"more", "else"} /\ \E en \in BOOLEAN :
         /\ ps' = Append(ps, B("", IF en THEN "endifnuses" ELSE "endifuses", "")) /\ ks' = Append(ks, "end")
         /\ aux' = [aux EXCEPT !.ph = "done", !.endneg = en, !.pp = Append(aux.pp, B("", "endif", ""))]
         /\ UNCHANGED <<stack, w, wc, plus, tight>>
UNext == UClause \/ UElse \/ UEnd

(* I => P for the chains: the parse loop with its carried negate flag selects the branch of the ordinary   *)
(* conditional                                                                                            *)
ChainRefines == (Profile = "ifuses" /\ aux.ph = "done") => ChainI(aux.cl, aux.else) = ChainP(aux.cl, aux.else)

(* negative control (must be REFUTED): a parse loop that forgets `negate = False` on elifuses                  *)
CarriedNegateRefines == (Profile = "ifuses" /\ aux.ph = "done") => ChainIWith(aux.cl, aux.else, FALSE) = ChainP(aux.cl, aux.else)

(* ============================================ Part 3b: filters ======================================= *)
(* argument space x input shape of the built-in filters the bundled copy touches or sits next to.  The input is   *)
(* built line by line (FLine), then terminated (FTerm), then a filter call and a form are chosen (FCall).         *)
(* shapes of a line: E empty, N non-empty, B blanks only                                                         *)
ShapeText(sh) == CASE sh = "E" -> <<>> [] sh = "N" -> <<97, 32, 98>> [] OTHER -> <<32, 32>>
(* <<style, trailing terminator>>                                                                                *)
FTerms == { <<"lf", FALSE>>, <<"lf", TRUE>>, <<"crlf", TRUE>> }
TermOf(style) == IF style = "crlf" THEN <<CR, LF>> ELSE <<LF>>
FInput(shapes, style, trail) ==
    JoinWith([i \in 1..Len(shapes) |-> ShapeText(shapes[i])], 1, TermOf(style)) \o (IF trail THEN TermOf(style) ELSE <<>>)
(* indent: every combination of width / first / blank, positional and keyword; w f b are the values in force     *)
IndentCalls == {
    [c |-> "indent", wd |-> 4, f |-> FALSE, b |-> FALSE], [c |-> "indent(3)", wd |-> 3, f |-> FALSE, b |-> FALSE],
    [c |-> "indent(0, true, true)", wd |-> 0, f |-> TRUE, b |-> TRUE],
    [c |-> "indent(3, true)", wd |-> 3, f |-> TRUE, b |-> FALSE], [c |-> "indent(3, false)", wd |-> 3, f |-> FALSE, b |-> FALSE],
    [c |-> "indent(3, true, true)", wd |-> 3, f |-> TRUE, b |-> TRUE], [c |-> "indent(3, true, false)", wd |-> 3, f |-> TRUE, b |-> FALSE],
    [c |-> "indent(3, false, true)", wd |-> 3, f |-> FALSE, b |-> TRUE], [c |-> "indent(3, false, false)", wd |-> 3, f |-> FALSE, b |-> FALSE],
    [c |-> "indent(first=true)", wd |-> 4, f |-> TRUE, b |-> FALSE], [c |-> "indent(blank=true)", wd |-> 4, f |-> FALSE, b |-> TRUE],
    [c |-> "indent(first=true, blank=true)", wd |-> 4, f |-> TRUE, b |-> TRUE],
    [c |-> "indent(width=2, first=true)", wd |-> 2, f |-> TRUE, b |-> FALSE],
    [c |-> "indent(width=2, blank=true, first=false)", wd |-> 2, f |-> FALSE, b |-> TRUE],
    [c |-> "indent(1, blank=true)", wd |-> 1, f |-> FALSE, b |-> TRUE], [c |-> "indent(1, first=true)", wd |-> 1, f |-> TRUE, b |-> FALSE],
    [c |-> "indent(1, first=true, blank=false)", wd |-> 1, f |-> TRUE, b |-> FALSE] }
(* the legacy spelling: rejected by both engines (3.x dropped it, the 2.11.dev snapshot trips over its own warning) *)
IndentLegacy == {"indent(2, indentfirst=true)", "indent(indentfirst=false)"}
LinePrefixCalls == { [c |-> "lineprefix('  ')", ws |-> <<32, 32>>], [c |-> "lineprefix('')", ws |-> <<>>], [c |-> "lineprefix('\t')", ws |-> <<9>>] }
(* version skew, not generated: `trim(chars)` (argument added in 2.11 final); `wordwrap` on anything but one          *)
(* non-empty line (2.11 final / 3.x keep existing newlines and blank input)                                            *)
OtherCalls == {"trim", "center(7)", "center(0)", "center(11)", "truncate(3)", "truncate(3, true)", "truncate(3, true, '~')",
               "truncate(3, true, '~', 0)", "truncate(5, false, '..', 1)", "truncate(length=4, killwords=true)", "truncate(9)",
               "striptags", "replace('a', 'z')", "replace('a', 'z', 1)", "replace(' ', '')", "replace('b', '<b>')", "upper", "lower",
               "title", "capitalize", "wordcount", "length", "first", "last", "reverse", "list", "string", "escape", "forceescape",
               "urlencode", "default('D')", "default('D', true)", "batch(2) | list", "slice(2) | list", "join('-')", "int", "float",
               "indent(2) | trim", "striptags | trim", "wordwrap(3)", "wordwrap(3, false)", "urlize", "tojson", "format"}
FForms(style) == IF style = "lf" THEN {"expr", "safe", "block"} ELSE {"expr", "safe"}

FInit == /\ ps = <<>> /\ ks = <<>> /\ stack = <<>> /\ w = 0 /\ wc = 0 /\ plus = FALSE /\ tight = FALSE
         /\ aux = [ph |-> "flines", shapes |-> <<>>]
FLine == aux.ph = "flines" /\ Len(aux.shapes) < MaxW /\ \E sh \in {"E", "N", "B"} :
           aux' = [aux EXCEPT !.shapes = Append(aux.shapes, sh)] /\ UNCHANGED <<ps, ks, stack, w, wc, plus, tight>>
FTerm == aux.ph = "flines" /\ \E t \in FTerms :
           /\ (Len(aux.shapes) = 0 => t[1] = "lf")
           /\ aux' = [ph |-> "fcall", shapes |-> aux.shapes, style |-> t[1], input |-> FInput(aux.shapes, t[1], t[2])]
           /\ UNCHANGED <<ps, ks, stack, w, wc, plus, tight>>
FTemplate(call, form, input) ==
    CASE form = "expr" -> <<"{{ fs | " \o call \o " }}">>
      [] form = "safe" -> <<"{{ fs | safe | " \o call \o " }}">>
      [] OTHER -> <<"{% filter " \o call \o " %}", "{% endfilter %}">>   \* the input goes between the two pieces
FDone(fam, call, form, rest) ==
    /\ ps' = FTemplate(call, form, aux.input) /\ ks' = [i \in 1..Len(FTemplate(call, form, aux.input)) |-> "filter"]
    /\ aux' = [ph |-> "done", fam |-> fam, form |-> form, input |-> aux.input, shapes |-> aux.shapes, style |-> aux.style] @@ rest
    /\ UNCHANGED <<stack, w, wc, plus, tight>>
FIndent == aux.ph = "fcall" /\ \E c \in IndentCalls, form \in FForms(aux.style) :
             FDone("indent", c.c, form, [fw |-> c.wd, first |-> c.f, blank |-> c.b, exp |-> Indent(aux.input, c.wd, c.f, c.b)])
FLegacy == aux.ph = "fcall" /\ \E c \in IndentLegacy : FDone("fails", c, "expr", [x |-> 0])
FLinePrefix == aux.ph = "fcall" /\ \E c \in LinePrefixCalls, form \in FForms(aux.style) :
             FDone("lineprefix", c.c, form, [ws |-> c.ws, exp |-> ImplLP(aux.input, c.ws)])
(* the other filters: differential only, on inputs of at most two lines                                          *)
FOther == aux.ph = "fcall" /\ Len(aux.shapes) <= 2 /\ \E c \in OtherCalls, form \in {"expr", "safe"} :
            /\ (c \in {"wordwrap(3)", "wordwrap(3, false)"} => aux.shapes = <<"N">>)
            /\ FDone("other", c, form, [x |-> 0])

(* ============================================ Part 4: sem ============================================= *)
(* all texts up to MaxW over {x, SP, LF, CR, FF} x prefixes: do_lineprefix as coded satisfies P.           *)
SemAlpha == {120, 32, LF, CR, 12}
SemTexts == UNION {[1..k -> SemAlpha] : k \in 0..MaxW}
SemWs == {<<>>, <<32, 32>>, <<9>>}
SInit == /\ ps = <<>> /\ ks = <<>> /\ stack = <<>> /\ w = 0 /\ wc = 0 /\ plus = FALSE /\ tight = FALSE
         /\ aux \in [ph : {"sem"}, t : SemTexts, ws : SemWs]
HasExotic(t) == \E i \in 1..Len(t) : t[i] \in Exotic
(* I => P (with Python's notion of a line when an exotic boundary occurs; the standard one otherwise)      *)
ImplRefines == Profile = "sem" =>
    IF HasExotic(aux.t) THEN LinePrefixExoticOK(ImplLP(aux.t, aux.ws), aux.t, aux.ws)
    ELSE LinePrefixOK(ImplLP(aux.t, aux.ws), aux.t, aux.ws)
(* negative control (must be REFUTED): do_lineprefix is NOT the text-level reading                        *)
ImplIsStrict == Profile = "sem" => ImplLP(aux.t, aux.ws) = StrictLP(aux.t, aux.ws, TRUE)
(* the text-level reading implies P                                                                       *)
StrictRefines == Profile = "sem" => LinePrefixOK(StrictLP(aux.t, aux.ws, FALSE), aux.t, aux.ws)
(* P is not vacuous: a prefix that is missing on some non-empty line, or put on an empty one, is refuted    *)
RECURSIVE AllPref(_, _)
AllPref(ls, ws) == IF ls = <<>> THEN <<>> ELSE ws \o ls[1][1] \o ls[1][2] \o AllPref(Tail(ls), ws)
PRefutesBlankPrefix == (Profile = "sem" /\ aux.ws # <<>> /\ ~HasExotic(aux.t)) =>
    LET bad == AllPref(Lines(aux.t, FALSE), aux.ws)
    IN (\E i \in 1..Len(Lines(aux.t, FALSE)) : Lines(aux.t, FALSE)[i][1] = <<>>) => ~LinePrefixOK(bad, aux.t, aux.ws)
PRefutesIdentity == (Profile = "sem" /\ aux.ws # <<>> /\ ~HasExotic(aux.t)) =>
    ((\E i \in 1..Len(aux.t) : ~IsTerm(aux.t[i], FALSE)) => ~LinePrefixOK(aux.t, aux.t, aux.ws))
(* empty prefix: the marker changes nothing but terminator style / final terminator                        *)
EmptyPrefixLoose == (Profile = "sem" /\ aux.ws = <<>>) => LooseEq(ImplLP(aux.t, aux.ws), aux.t, TRUE)
(* indent: with width 0 the flags do not matter; `first` puts the indentation in front unconditionally; with      *)
(* first and without blank it is NOT "the rule of the other lines applied to the first line" (negative control)  *)
IndentZero == Profile = "sem" => \A f \in BOOLEAN, b \in BOOLEAN : Indent(aux.t, 0, f, b) = JoinWith(LineTexts(Append(aux.t, LF)), 1, <<LF>>)
IndentFirst == Profile = "sem" => \A b \in BOOLEAN : Indent(aux.t, 2, TRUE, b) = <<32, 32>> \o Indent(aux.t, 2, FALSE, b)
IndentBlankAll == Profile = "sem" => Indent(aux.t, 2, TRUE, TRUE) = IndentFirstLikeOthers(aux.t, 2, TRUE)
IndentFirstSkipsEmpty == Profile = "sem" => Indent(aux.t, 2, TRUE, FALSE) = IndentFirstLikeOthers(aux.t, 2, FALSE)
(* the prefix the parser derives from the begin token is the white space in front of the marker              *)
PrefixIsWs == Profile = "sem" => /\ AutoindentPrefix(aux.ws \o <<123, 123, 42>>) = aux.ws
                                 /\ AutoindentPrefix(aux.ws \o <<123, 37, 42>>) = aux.ws
SNext == FALSE /\ UNCHANGED vars

(* ================================================ spec =============================================== *)
Init == CASE Profile = "filters" -> FInit [] Profile = "marker" -> MInit [] Profile = "assert" -> AInit [] Profile = "ifuses" -> UInit [] Profile = "sem" -> SInit [] OTHER -> GInit
(* One flat disjunction, so that TLC's -coverage reports every production separately.  The productions of a part are   *)
(* only enabled in its own profiles: Kinds / Texts are empty elsewhere, and the phases in aux.ph are disjoint.           *)
Next == \/ PText \/ PVar \/ PComment \/ PRaw \/ PSet \/ PInclude \/ PImport \/ PFrom \/ PExtends
        \/ PIf \/ PFor \/ PSetBlock \/ PMacro \/ PCall \/ PFilter \/ PBlock \/ PElif \/ PElse \/ PEnd
        \/ MWrap \/ MPre \/ MVar \/ MBlock \/ MPost
        \/ APlace
        \/ UClause \/ UElse \/ UEnd
        \/ FLine \/ FTerm \/ FIndent \/ FLegacy \/ FLinePrefix \/ FOther
Spec == Init /\ [][Next]_vars

(* sanity of the builder: the stack discipline (every end tag closes the innermost open block)             *)
WellNested == Len(stack) <= MaxDepth /\ w <= MaxW /\ wc <= MaxWc

(* ------------------------------------------- case emission -------------------------------------------- *)
Done == CASE Profile \in {"marker", "assert", "ifuses", "filters"} -> aux.ph = "done"
          [] Profile = "sem" -> FALSE
          [] OTHER -> ps # <<>> /\ (stack = <<>> \/ EmitOpen)
Case ==
    CASE Profile = "marker" -> [k |-> "marker", ps |-> ps, ks |-> ks, pp |-> aux.pp, pre |-> aux.pre, ws |-> aux.ws, post |-> aux.post,
                                wrap |-> aux.wrap, ck |-> aux.ck, tight |-> tight]
      [] Profile = "assert" -> [k |-> "assert", ps |-> ps, ks |-> ks, pp |-> aux.pp, place |-> aux.place, executed |-> aux.executed,
                                truthy |-> aux.truthy, msg |-> aux.msg, raises |-> aux.raises, tight |-> tight]
      [] Profile = "ifuses" -> [k |-> "ifuses", ps |-> ps, ks |-> ks, pp |-> aux.pp, cl |-> aux.cl, else |-> aux.else,
                                sel |-> ChainP(aux.cl, aux.else), tight |-> tight]
      [] Profile = "filters" -> [k |-> "filter", ps |-> ps, ks |-> ks] @@ aux
      [] OTHER -> [k |-> "same", ps |-> ps, ks |-> ks, open |-> Len(stack), plus |-> plus, tight |-> tight]
Emit == Done => PrintT(ToJson(Case))
(* printed once: loader, contexts, the strings of the marker profile                                       *)
EmitTables == (ps = <<>>) => PrintT(ToJson([k |-> "tables", loader |-> Loader, contexts |-> Contexts, mstrings |-> MStrings]))
=============================================================================
