SPECIFICATION SSpec
CONSTANTS
  MaxLen = 5
INVARIANT AcceptsExactlyWellFormed
INVARIANT BalancedClause
INVARIANT SentinelClause
INVARIANT StackIsOpenTags
CHECK_DEADLOCK FALSE
