SPECIFICATION Spec
CONSTANTS
  MaxTypes = 2
  MaxNested = 1
  Langs = {"c", "cpp", "py", "html"}
  Audits = {FALSE}
  OpenSets = {{"stale_tail"}, {"process_memo_keyed_too_coarsely"}}
  SortedWalk = FALSE
  Vary = {"outst", "hist"}
INVARIANT EmitWitness
INVARIANT PathsStable
CHECK_DEADLOCK FALSE
