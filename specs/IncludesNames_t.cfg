SPECIFICATION Spec
CHECK_DEADLOCK FALSE
CONSTANTS
  MaxWords = 4
INVARIANT Emit
