SPECIFICATION Spec
CHECK_DEADLOCK FALSE
CONSTANTS
  MaxWords = 28
INVARIANT Emit
