\* environment registry: constructor order of CodeGenEnvironment/DSDLCodeGenerator, <= 2 user additions: I => P
SPECIFICATION EnvSpec
CHECK_DEADLOCK FALSE
INVARIANT EnvRefines
INVARIANT ErrOnlyIfTaken
CONSTANTS
  Shape = "chain3"
  Modes = {"fs"}
  MaxLookups = 0
  SharedCache = TRUE
  MaxAdds = 2
  StrictGlobals = FALSE
