----------------------------- MODULE WireMachine -----------------------------
(* I-layer for C01 / C05: the generated C serializer as the code does it - a cursor over a byte buffer that    *)
(* is NOT pre-zeroed, with the template's statically chosen fast paths:                                       *)
(*   * `offset.is_aligned_at_byte()` is a STATIC property of the set of possible offsets of a field (all       *)
(*     lengths of the variable-length fields before it); the machine carries that set modulo 8;               *)
(*   * aligned integers of <= 8 bits are written as a WHOLE BYTE (the bits above the field spill), aligned      *)
(*     wider integers / floats are memmove'd as ceil(w/8) whole bytes from the (saturated or raw) storage on    *)
(*     little-endian targets, everything else goes through the exact-bits primitives;                          *)
(*   * the capacity is checked once up front; a variable-size delimited nested object reserves its header and   *)
(*     patches it afterwards; alignment and void padding are written as zeros.                                 *)
(* TLC checks that for every type/value of the bounded universe, every garbage pattern in the buffer and every   *)
(* capacity around the needed one, the machine ends with exactly Ser(t, v) in the first size bytes, touches      *)
(* nothing beyond the capacity, and refuses a too-small buffer before touching it (refinement I => P).          *)
EXTENDS DsdlWire, TLC, Json

CONSTANTS Little,      \* target_endianness = little (enables memmove / zero-cost paths)
          Level,
          Bug          \* "none"; negative controls: "nofinalpad" (no zero padding at the end), "dynalign" (fast path chosen on the ACTUAL offset)

(* ------------------------------------------------ universe ------------------------------------------------ *)
Uint(w, s) == [k |-> "uint", w |-> w, sat |-> s]
Sint(w) == [k |-> "int", w |-> w]
Bool == [k |-> "bool"]
F32 == [k |-> "float", w |-> 32, sat |-> TRUE]
Void(w) == [k |-> "void", w |-> w]
FArr(e, n) == [k |-> "farr", n |-> n, e |-> e]
VArr(e, c) == [k |-> "varr", cap |-> c, wcap |-> c, e |-> e]
Struct0(fs, sealed, ext) == [k |-> "struct", fields |-> fs, sealed |-> sealed, extent |-> ext]
Struct(fs) == Struct0(fs, TRUE, MaxBitsBody(Struct0(fs, TRUE, 0)))
StructD(fs, slack) == Struct0(fs, FALSE, MaxBitsBody(Struct0(fs, TRUE, 0)) + 8 * slack)

Types1 == <<
    Struct(<<Uint(3, FALSE), Bool, Uint(5, TRUE)>>),                  \* aligned whole-byte write of a truncated uint3: spill
    Struct(<<Uint(8, TRUE), Uint(13, FALSE), Void(3), Sint(9)>>),      \* aligned memmove of 2 bytes for uint13: spill
    Struct(<<Bool, Uint(16, TRUE), Sint(3)>>),
    Struct(<<VArr(Bool, 3), Uint(8, TRUE), Void(9)>>),                 \* after a varr of bits the offset set is {0..3}+8: never aligned
    Struct(<<VArr(Uint(8, TRUE), 2), Sint(16), Bool>>),                \* after a varr of bytes every offset is aligned
    Struct(<<Uint(5, TRUE), FArr(Uint(8, FALSE), 2), Void(12)>>),
    Struct(<<Uint(8, TRUE), Struct(<<Uint(3, FALSE), Bool>>), Sint(5)>>),
    Struct(<<Bool, StructD(<<Uint(3, TRUE), VArr(Uint(8, TRUE), 1)>>, 1), Uint(7, FALSE)>>),   \* variable-size delimited: reserve + patch
    Struct(<<StructD(<<Sint(13)>>, 2), Bool>>),                        \* fixed-size delimited: header written ahead
    Struct(<<F32, Bool, F32>>),
    Struct(<<Void(8), Void(16), Uint(2, FALSE)>>),
    Struct(<<>>) >>
Types2 == Types1 \o <<
    Struct(<<FArr(Sint(16), 2), Bool, FArr(Sint(16), 1)>>),            \* zero-cost array copy on little-endian, aligned and not
    Struct(<<VArr(Sint(3), 2), VArr(Bool, 2), Uint(16, FALSE)>>),
    Struct(<<Uint(1, TRUE), FArr(Struct(<<Uint(4, FALSE)>>), 2), Bool>>),
    Struct(<<VArr(StructD(<<Uint(9, FALSE)>>, 0), 2), Void(1)>>) >>
Types == IF Level = 1 THEN Types1 ELSE Types2

(* boundary leaves in C storage form (bytes): zero, all-ones storage, one *)
SW(w) == StoreW("c", w)
LeafSeq(t) ==
    IF t.k \in {"uint", "int"} THEN <<BytesOfBits(Zeros(SW(t.w))), BytesOfBits(Ones(SW(t.w))), BytesOfBits(Take(<<1>>, SW(t.w)))>>
    ELSE IF t.k = "bool" THEN << <<0>>, <<1>> >>
    ELSE IF t.k = "float" THEN << <<0, 0, 128, 63>>, <<255, 255, 127, 255>> >>
    ELSE << <<>> >>
RECURSIVE Power(_, _), Flat(_, _), Vals(_, _), FieldVals(_, _, _)
Cross(ps, xs) == [i \in 1..(Len(ps) * Len(xs)) |-> Append(ps[((i - 1) \div Len(xs)) + 1], xs[((i - 1) % Len(xs)) + 1])]
Power(xs, n) == IF n = 0 THEN << <<>> >> ELSE Cross(Power(xs, n - 1), xs)
Flat(ss, i) == IF i > Len(ss) THEN <<>> ELSE ss[i] \o Flat(ss, i + 1)
FewSeq(s) == IF Len(s) <= 2 THEN s ELSE <<s[1], s[2]>>
FieldVals(fs, i, d) ==
    IF i > Len(fs) THEN << <<>> >>
    ELSE LET rest == FieldVals(fs, i + 1, d)
             mine == Vals(fs[i], d)
         IN [j \in 1..(Len(mine) * Len(rest)) |-> <<mine[((j - 1) \div Len(rest)) + 1]>> \o rest[((j - 1) % Len(rest)) + 1]]
Vals(t, d) ==
    IF IsPrim(t) THEN (IF d = 0 THEN LeafSeq(t) ELSE FewSeq(LeafSeq(t)))
    ELSE IF t.k = "farr" THEN Power(FewSeq(Vals(t.e, d + 1)), t.n)
    ELSE IF t.k = "varr" THEN Flat([c \in 1..(t.cap + 1) |-> LET ps == Power(FewSeq(Vals(t.e, d + 1)), c - 1) IN [j \in 1..Len(ps) |-> [n |-> c - 1, e |-> ps[j]]]], 1)
                              \o <<[n |-> t.cap + 1, e |-> <<>>]>>                       \* invalid object: count above capacity
    ELSE FieldVals(t.fields, 1, d + 1)
AllVals == [i \in 1..Len(Types) |-> FieldVals(Types[i].fields, 1, 0)]

(* ------------------------------------------------ the compiler ------------------------------------------------ *)
(* possible offsets modulo 8 *)
Shift(R, w) == {(r + w) % 8 : r \in R}
AlignedAt(R) == R = {0}
RECURSIVE AfterField(_, _)
AfterField(t, R) ==                                   \* offset set after a field placed at offsets R (already padded to its alignment)
    IF IsPrim(t) THEN Shift(R, PrimW(t))
    ELSE IF t.k = "farr" THEN Shift(R, t.n * MaxBitsField(t.e))            \* fixed-size elements only in this model
    ELSE IF t.k = "varr" THEN (IF Bug = "dynalign" THEN Shift(R, LenW(t))          \* negative control: forgets the variable part
                               ELSE UNION {Shift(R, LenW(t) + c * MaxBitsField(t.e)) : c \in 0..t.cap})
    ELSE {0}

ZeroCost(t) == Little /\ ((t.k \in {"uint", "int"} /\ t.w \in {8, 16, 32, 64}) \/ (t.k = "float" /\ t.w \in {32, 64}))
StdWidth(t) == t.w \in {8, 16, 32, 64}

(* storage bytes of the value the code actually hands to the write: saturated copies are clamped, truncated ones raw *)
Effective(t, v) ==
    IF t.k = "uint" THEN (IF t.sat /\ ~StdWidth(t) THEN BytesOfBits(Take(CastU(t, v), SW(t.w))) ELSE v)
    ELSE IF t.k = "int" THEN (IF ~StdWidth(t) THEN BytesOfBits(SignExtTo(CastS(t, v), SW(t.w))) ELSE v)
    ELSE v
WireBits(t, v) == IF t.k = "uint" THEN CastU(t, v) ELSE IF t.k = "int" THEN CastS(t, v) ELSE IF t.k = "bool" THEN CastB(v) ELSE BitsOfBytes(v)

(* micro-instructions: [op |-> "byte", val, w] whole-byte store, then offset += w;  [op |-> "move", bytes, w] memmove of whole bytes;       *)
(* [op |-> "bits", bits] exact bits (SetUxx / SetIxx / CopyBits / single-bit read-modify-write / zero padding);                            *)
(* [op |-> "reserve"] skip 32 bits; [op |-> "patch", back, nbytes] write the 32-bit header `back` bits behind the cursor; [op |-> "fail", e] *)
PrimInstr(t, v, R) ==
    IF t.k \in {"uint", "int"} THEN
        (IF AlignedAt(R) /\ t.w <= 8 THEN <<[op |-> "byte", val |-> Effective(t, v)[1], w |-> t.w]>>
         ELSE IF AlignedAt(R) /\ Little THEN <<[op |-> "move", bytes |-> SubSeq(Effective(t, v), 1, (t.w + 7) \div 8), w |-> t.w]>>
         ELSE <<[op |-> "bits", bits |-> WireBits(t, v)]>>)
    ELSE IF t.k = "bool" THEN
        (IF AlignedAt(R) THEN <<[op |-> "byte", val |-> (IF v[1] = 0 THEN 0 ELSE 1), w |-> 1]>> ELSE <<[op |-> "bits", bits |-> CastB(v)]>>)
    ELSE IF t.k = "void" THEN
        (IF AlignedAt(R) /\ t.w <= 8 THEN <<[op |-> "byte", val |-> 0, w |-> t.w]>>
         ELSE IF AlignedAt(R) THEN <<[op |-> "move", bytes |-> BytesOfBits(Zeros(8 * ((t.w + 7) \div 8))), w |-> t.w]>>
         ELSE <<[op |-> "bits", bits |-> Zeros(t.w)]>>)
    ELSE (* float32 *)
        (IF AlignedAt(R) /\ Little THEN <<[op |-> "move", bytes |-> v, w |-> 32]>> ELSE <<[op |-> "bits", bits |-> BitsOfBytes(v)]>>)

PadInstr(R) == IF AlignedAt(R) THEN <<>> ELSE <<[op |-> "pad8"]>>          \* `if (offset % 8) SetUxx(0, pad)`: dynamic amount
FinalPad(R) == IF Bug = "nofinalpad" THEN <<[op |-> "skip8"]>> ELSE PadInstr(R)

RECURSIVE FieldInstr(_, _, _), ElemLoop(_, _, _, _, _, _), BodyInstr(_, _, _, _), CompInstr(_, _, _)
ElemLoop(te, vs, i, n, R, acc) ==                     \* the element loop: every element sees the SAME static offset set
    IF i > n THEN acc ELSE ElemLoop(te, vs, i + 1, n, R, acc \o FieldInstr(te, vs[i], R))

ArrayElems(t, vs, n, R) ==
    LET e == t.e
        cap == IF t.k = "farr" THEN t.n ELSE t.cap
        Rel == UNION {Shift(R, c * MaxBitsField(e)) : c \in 0..(IF cap = 0 THEN 0 ELSE cap - 1)}      \* offsets of all elements
    IN IF e.k = "bool" THEN <<[op |-> "bits", bits |-> [i \in 1..n |-> CastB(vs[i])[1]]]>>          \* CopyBits from the bit-packed storage
       ELSE IF IsPrim(e) /\ ZeroCost(e) THEN <<[op |-> "bits", bits |-> Flat([i \in 1..n |-> BitsOfBytes(vs[i])], 1)]>>     \* CopyBits from native storage
       ELSE IF IsPrim(e) /\ e.w = 8 /\ e.k \in {"uint", "int"} /\ Little THEN <<[op |-> "bits", bits |-> Flat([i \in 1..n |-> BitsOfBytes(vs[i])], 1)]>>
       ELSE ElemLoop(e, vs, 1, n, Rel, <<>>)

CompInstr(t, v, R) ==                                 \* nested composite at an aligned offset (the caller padded)
    LET body == BodyInstr(t, v, {0}, TRUE)
        fixed == MinBitsBody(t) = MaxBitsBody(t)
    IN IF t.sealed THEN body
       ELSE IF fixed THEN PrimInstr(Uint(32, TRUE), BytesOfBits(OfNat(MaxBitsBody(t) \div 8, 32)), {0}) \o body   \* constant header written ahead
       ELSE <<[op |-> "reserve"]>> \o body \o <<[op |-> "patch"]>>

FieldInstr(t, v, R) ==
    IF IsPrim(t) THEN PrimInstr(t, v, R)
    ELSE IF t.k = "farr" THEN ArrayElems(t, v, t.n, R)
    ELSE IF t.k = "varr" THEN
        IF v.n > t.cap THEN <<[op |-> "fail", e |-> "bad_len"]>>
        ELSE PrimInstr(Uint(LenW(t), TRUE), BytesOfBits(OfNat(v.n, LenW(t))), R) \o ArrayElems(t, v.e, v.n, Shift(R, LenW(t)))
    ELSE CompInstr(t, v, R)

RECURSIVE FieldsInstr(_, _, _, _, _)
FieldsInstr(fs, vs, i, R, acc) ==
    IF i > Len(fs) THEN [prog |-> acc, R |-> R]
    ELSE LET f == fs[i]
             Rp == IF Align(f) = 8 THEN {0} ELSE R
             pad == IF Align(f) = 8 /\ i > 1 THEN PadInstr(R) ELSE <<>>
         IN FieldsInstr(fs, vs, i + 1, AfterField(f, Rp), acc \o pad \o FieldInstr(f, vs[i], Rp))

BodyInstr(t, v, R, nested) ==
    LET r == FieldsInstr(t.fields, v, 1, {0}, <<>>)
    IN <<[op |-> "enter", nested |-> nested]>> \o r.prog \o FinalPad(r.R) \o <<[op |-> "leave", nested |-> nested]>>

Program(t, v) == BodyInstr(t, v, {0}, FALSE)


(* ------------------------------------------------ structural plan (drift binding) ------------------------------------------------ *)
(* Which write path the templates choose for every top-level field of a type, in textual order of the generated serializer: the      *)
(* harness extracts the same sequence from the generated C text; a difference means this I-layer no longer mirrors the templates     *)
(* (a drift NOTE, never a verdict: the property is judged on P).                                                                    *)
ZeroVal(t) == IF t.k \in {"uint", "int"} THEN BytesOfBits(Zeros(SW(t.w))) ELSE IF t.k = "bool" THEN <<0>> ELSE IF t.k = "float" THEN <<0, 0, 0, 0>> ELSE <<>>
OpName(i) == IF i.op = "move" /\ \A j \in 1..Len(i.bytes) : i.bytes[j] = 0 /\ i.w # 32 /\ i.w > 16 THEN "move" ELSE i.op
RECURSIVE PlanOf(_, _)
PlanOf(t, R) ==
    IF IsPrim(t) THEN <<PrimInstr(t, ZeroVal(t), R)[1].op>>
    ELSE IF t.k \in {"farr", "varr"} THEN
        LET e == t.e
            pre == IF t.k = "varr" THEN <<PrimInstr(Uint(LenW(t), TRUE), BytesOfBits(Zeros(LenW(t))), R)[1].op>> ELSE <<>>
            Re == IF t.k = "varr" THEN Shift(R, LenW(t)) ELSE R
            cap == IF t.k = "farr" THEN t.n ELSE t.cap
            Rel == UNION {Shift(Re, c * MaxBitsField(e)) : c \in 0..(IF cap = 0 THEN 0 ELSE cap - 1)}
        IN pre \o (IF e.k = "bool" \/ (IsPrim(e) /\ ZeroCost(e)) \/ (IsPrim(e) /\ e.w = 8 /\ e.k \in {"uint", "int"} /\ Little) THEN <<"bits">>
                   ELSE PlanOf(e, IF IsComposite(e) THEN {0} ELSE Rel))
    ELSE LET fixed == MinBitsBody(t) = MaxBitsBody(t)
         IN IF t.sealed THEN <<"call">>
            ELSE IF fixed THEN <<PrimInstr(Uint(32, TRUE), BytesOfBits(Zeros(32)), {0})[1].op, "call">>
            ELSE <<"call", IF Little THEN "move" ELSE "bits">>
RECURSIVE PlanFields(_, _, _, _)
PlanFields(fs, i, R, acc) ==
    IF i > Len(fs) THEN acc
    ELSE LET f == fs[i]
             Rp == IF Align(f) = 8 THEN {0} ELSE R
         IN PlanFields(fs, i + 1, AfterField(f, Rp), Append(acc, PlanOf(f, Rp)))
Plan(t) == PlanFields(t.fields, 1, {0}, <<>>)

(* ------------------------------------------------ the machine ------------------------------------------------ *)
VARIABLES ti, vi, cap, garbage,                \* stimulus
          prog,                                \* the instruction sequence the templates emit for (type, value): fixed at PickCase
          buf, off, pc, rc, stack, size        \* machine: stack of the cursor positions where nested objects / headers began
vars == <<ti, vi, cap, garbage, prog, buf, off, pc, rc, stack, size>>

GuardBytes == 2
T == Types[IF ti = 0 THEN 1 ELSE ti]
V == AllVals[IF ti = 0 THEN 1 ELSE ti][IF vi = 0 THEN 1 ELSE vi]
Need == BufBytes(T)
Prog == prog

Init == prog = <<>> /\ ti = 0 /\ vi = 0 /\ cap = 0 /\ garbage = 0 /\ buf = <<>> /\ off = 0 /\ pc = 0 /\ rc = "none" /\ stack = <<>> /\ size = -1

PickType == ti = 0 /\ ti' \in 1..Len(Types) /\ UNCHANGED <<vi, cap, garbage, prog, buf, off, pc, rc, stack, size>>
PickCase ==
    /\ ti # 0 /\ vi = 0
    /\ vi' \in 1..Len(AllVals[ti])
    /\ cap' \in {Need, Need + 1} \cup (IF Need > 0 THEN {Need - 1, 0} ELSE {})
    /\ garbage' \in {0, 255, 165}
    /\ buf' = [i \in 1..(cap' + GuardBytes) |-> garbage']
    /\ prog' = Program(T, AllVals[ti][vi'])
    /\ pc' = 0 /\ UNCHANGED <<ti, off, rc, stack, size>>

CheckCapacity ==
    /\ vi # 0 /\ pc = 0 /\ rc = "none"
    /\ IF 8 * cap < MaxBitsBody(T) THEN rc' = "too_small" /\ pc' = -1 ELSE pc' = 1 /\ UNCHANGED rc
    /\ UNCHANGED <<ti, vi, cap, garbage, prog, buf, off, stack, size>>

WriteBytes(b, at, bytes) == [i \in 1..Len(b) |-> IF i > at /\ i <= at + Len(bytes) THEN bytes[i - at] ELSE b[i]]
WriteBits(b, o, bits) ==
    LET bb == BitsOfBytes(b) IN BytesOfBits([i \in 1..Len(bb) |-> IF i > o /\ i <= o + Len(bits) THEN bits[i - o] ELSE bb[i]])

Step ==
    /\ pc >= 1 /\ pc <= Len(Prog) /\ rc = "none"
    /\ LET ins == Prog[pc]
       IN \/ /\ ins.op = "byte"
             /\ buf' = [buf EXCEPT ![(off \div 8) + 1] = ins.val]
             /\ off' = off + ins.w /\ UNCHANGED <<stack, rc, size>>
          \/ /\ ins.op = "move"
             /\ buf' = WriteBytes(buf, off \div 8, ins.bytes)
             /\ off' = off + ins.w /\ UNCHANGED <<stack, rc, size>>
          \/ /\ ins.op = "bits"
             /\ buf' = WriteBits(buf, off, ins.bits)
             /\ off' = off + Len(ins.bits) /\ UNCHANGED <<stack, rc, size>>
          \/ /\ ins.op = "pad8"
             /\ LET p == (8 - (off % 8)) % 8 IN buf' = WriteBits(buf, off, Zeros(p)) /\ off' = off + p
             /\ UNCHANGED <<stack, rc, size>>
          \/ /\ ins.op = "skip8"
             /\ off' = off + ((8 - (off % 8)) % 8) /\ UNCHANGED <<buf, stack, rc, size>>
          \/ /\ ins.op = "reserve"
             /\ off' = off + 32 /\ stack' = Append(stack, off) /\ UNCHANGED <<buf, rc, size>>
          \/ /\ ins.op = "patch"
             /\ LET h == stack[Len(stack)]
                    nbytes == (off - h - 32) \div 8
                IN buf' = IF Little THEN WriteBytes(buf, h \div 8, BytesOfBits(OfNat(nbytes, 32))) ELSE WriteBits(buf, h, OfNat(nbytes, 32))
             /\ stack' = SubSeq(stack, 1, Len(stack) - 1) /\ UNCHANGED <<off, rc, size>>
          \/ /\ ins.op \in {"enter", "leave"}
             /\ IF ins.op = "leave" /\ ~ins.nested THEN size' = off \div 8 ELSE UNCHANGED size
             /\ UNCHANGED <<buf, off, stack, rc>>
          \/ /\ ins.op = "fail"
             /\ rc' = ins.e /\ UNCHANGED <<buf, off, stack, size>>
    /\ pc' = pc + 1
    /\ UNCHANGED <<ti, vi, cap, garbage, prog>>

Next == PickType \/ PickCase \/ CheckCapacity \/ Step
Spec == Init /\ [][Next]_vars

Done == vi # 0 /\ (pc = -1 \/ pc > Len(Prog) \/ rc # "none")
Expected == Ser(T, V, <<>>)

(* refinement: the machine's observable result is the property's *)
Refines ==
    Done =>
        IF 8 * cap < MaxBitsBody(T) THEN rc = "too_small" /\ \A i \in 1..Len(buf) : buf[i] = garbage          \* refused before touching anything
        ELSE IF Expected.err # "none" THEN rc = Expected.err
        ELSE /\ rc = "none" /\ size * 8 = Len(Expected.out)
             /\ SubSeq(buf, 1, size) = BytesOfBits(Expected.out)
(* nothing beyond the capacity is ever written, the cursor never passes it *)
StaysInside == vi # 0 => (/\ \A i \in (cap + 1)..Len(buf) : buf[i] = garbage
                          /\ (rc = "none" /\ pc >= 1) => off <= 8 * cap)
OnlyTypes == vi = 0          \* the plan is a property of the type: do not expand values
EmitPlan == (ti # 0 /\ vi = 0) => PrintT(ToJson([ti |-> ti, t |-> Types[ti], plan |-> Plan(Types[ti]), little |-> Little]))
=============================================================================
