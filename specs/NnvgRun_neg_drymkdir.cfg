SPECIFICATION Spec
CHECK_DEADLOCK FALSE
CONSTANTS
  Bug = "dry_mkdir"
  Writer = "direct"
  Size = "q"
INVARIANT P_passive
