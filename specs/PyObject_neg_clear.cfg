SPECIFICATION Spec
CONSTANTS
  KSel = 1
  IsUnion = TRUE
  MaxHist = 2
  CtorSpecial = 1
  MidReduced = FALSE
  ParseDigits = FALSE
  ClearFirst = TRUE
INVARIANT Refines
INVARIANT StateKept
INVARIANT UnionAlwaysOne
INVARIANT NeverOutOfRange
CHECK_DEADLOCK FALSE
