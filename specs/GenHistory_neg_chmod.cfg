SPECIFICATION Spec
CONSTANTS
  GenFiles = {1, 3}
  OtherFiles = {}
  Modes = {292, 420}
  Variants = {0}
  ChmodGate = FALSE
  CopyGate = TRUE
  Truncates = TRUE
  Privileged = FALSE
  OptsSel = "all"
  EnvOn = TRUE
  Record = FALSE
  MaxSteps = 0
INVARIANT RunEndOK
CHECK_DEADLOCK FALSE
