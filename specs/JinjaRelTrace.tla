--------------------------- MODULE JinjaRelTrace ---------------------------
(* T-layer for C19.  Every record is one observation of the real engines:                                  *)
(*   same    one template of the frozen grammar under one flag set, rendered by the bundled engine (b) and *)
(*           by stock Jinja2 (s) in every context of the pool                                              *)
(*   marker  a marker template (m) and its plain twin (p) through the bundled engine, the plain twin also  *)
(*           through stock (s); pre / ws / post are the literals chosen by the enumerator                  *)
(*   assert  `assert e` through the bundled engine (b), the ordinary conditional through stock (s)         *)
(*   filter  one filter call on one input shape through the bundled engine (b) and through stock (s)      *)
(*   ifuses  a use-query chain through the bundled engine (b), the plain if/elif/else through stock (s)    *)
(* An outcome is [ok |-> 1, out |-> code points] or [ok |-> 0, exc |-> class name].                        *)
(* Rejections are printed and the run continues; clauses starting with "drift:" are I-layer mismatches,   *)
(* "amb:" readings that differ, "harness." inconsistencies of the reference side (machinery).             *)
EXTENDS JinjaRelSem, Json, IOUtils, TLC

Trace == ndJsonDeserialize(IOEnv.TRACE_FILE)

VARIABLE l

(* bit i-1 of the detail is set when rendering i of the record violates Same (at most 30 renderings per record)  *)
RECURSIVE BadMask(_, _, _)
BadMask(runs, i, p) == IF i > Len(runs) THEN 0 ELSE (IF Same(runs[i].b, runs[i].s) THEN 0 ELSE p) + BadMask(runs, i + 1, 2 * p)

VSame(r) == LET m == BadMask(r.runs, 1, 1) IN IF m = 0 THEN <<"ok", 0>> ELSE <<"jinja.same", m>>

VMarker(r) ==
    IF ~Same(r.p, r.s) THEN "jinja.same"
    ELSE IF ~MarkerOK(r.m, r.p, r.pre, r.post, r.ws)
         THEN (IF MarkerExoticOK(r.m, r.p, r.pre, r.post, r.ws) THEN "amb:jinja.lineprefix.exotic-line-boundary" ELSE "jinja.lineprefix")
    (* I-layer: a marker on `raw` is lost (raw_begin tokens never reach the parser): white space swallowed, no prefix *)
    ELSE IF r.p.ok = 1 /\ ~(IF r.ck = "raw" THEN r.m.out = r.p.out ELSE MarkerImplOK(r.m, r.p, r.pre, r.post, r.ws)) THEN "drift:jinja.lineprefix.impl"
    ELSE "ok"

VAssert(r) ==
    LET R == AssertRaises(r.executed, r.truthy)
    IN IF (r.s.ok = 0) # R THEN "harness.assert"
       ELSE IF (r.b.ok = 0) # R THEN "jinja.assert"
       ELSE IF ~R /\ r.b.out # r.s.out THEN "jinja.assert"
       ELSE IF R /\ r.b.exc # "TemplateAssertionError" THEN "drift:jinja.assert.exception-class"
       ELSE "ok"

(* text of the selected branch: bodies[i] for clause i, ebody for the else branch, nothing for 0.  The tags may   *)
(* carry white-space control, so the branch text is compared modulo surrounding blanks with the specification  *)
(* and exactly with the ordinary conditional (same tags spelled if/elif/else) through stock Jinja2.            *)
VIfuses(r) ==
    LET sel == ChainP(r.cl, r.else)
        exp == IF sel = ChainErr \/ sel = 0 THEN <<>> ELSE IF sel = Len(r.cl) + 1 THEN r.ebody ELSE r.bodies[sel]
    IN IF sel = ChainErr THEN (IF r.s.ok = 1 THEN "harness.ifuses" ELSE IF r.b.ok = 1 THEN "jinja.ifuses" ELSE "ok")
       ELSE IF r.s.ok = 0 \/ Strip(r.s.out) # Strip(exp) THEN "harness.ifuses"
       ELSE IF r.b.ok = 0 \/ Strip(r.b.out) # Strip(exp) THEN "jinja.ifuses"
       ELSE IF r.b.out # r.s.out THEN "jinja.ifuses"
       ELSE IF ChainI(r.cl, r.else) # sel THEN "drift:jinja.ifuses.impl"
       ELSE "ok"

(* filter sweep: `indent` against the specification's Indent (which must itself equal the stock rendering) and   *)
(* against stock; `lineprefix` used as an ordinary filter against LinePrefixOK / ImplLP; the legacy spelling must *)
(* fail where upstream fails; every other filter: same as stock.                                                *)
VFilter(r) ==
    CASE r.fam = "indent" ->
           LET exp == Indent(r.input, r.fw, r.first, r.blank)
           IN IF r.s.ok = 0 \/ r.s.out # exp THEN "harness.filter.indent"
              ELSE IF r.b.ok = 0 \/ r.b.out # exp THEN "jinja.same"
              ELSE "ok"
      [] r.fam = "lineprefix" ->
           IF r.b.ok = 0 \/ ~LinePrefixOK(r.b.out, r.input, r.ws) THEN "jinja.lineprefix"
           ELSE IF r.b.out # ImplLP(r.input, r.ws) THEN "drift:jinja.lineprefix.impl"
           ELSE "ok"
      [] r.fam = "fails" -> IF r.s.ok = 1 THEN "harness.filter.legacy" ELSE IF r.b.ok = 1 THEN "jinja.same" ELSE "ok"
      [] OTHER -> IF Same(r.b, r.s) THEN "ok" ELSE "jinja.same"

Verdict(r) ==
    CASE r.k = "same" -> VSame(r)
      [] r.k = "marker" -> <<VMarker(r), IF r.p.ok = 1 /\ r.m.ok = 0 THEN 1 ELSE IF r.p.ok = 0 THEN 2 ELSE 3>>
      [] r.k = "assert" -> <<VAssert(r), 0>>
      [] r.k = "ifuses" -> <<VIfuses(r), 0>>
      [] r.k = "filter" -> <<VFilter(r), 0>>
      [] OTHER -> <<"harness.kind", 0>>

TInit == l = 1
TNext == /\ l <= Len(Trace)
         /\ LET v == Verdict(Trace[l]) IN IF v[1] = "ok" THEN TRUE ELSE PrintT(<<"REJECT", Trace[l].id, v[1], v[2]>>)
         /\ l' = l + 1
TSpec == TInit /\ [][TNext]_l
Accepted == TLCGet("stats").diameter - 1 = Len(Trace)
=============================================================================
