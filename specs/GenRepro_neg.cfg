SPECIFICATION Spec
CONSTANTS
  MaxTypes = 3
  MaxNested = 3
  Langs = {"py"}
  Audits = {FALSE}
  OpenSets = {{"model_cache"}}
  SortedWalk = FALSE
  Vary = {}
INVARIANT Refines
CHECK_DEADLOCK FALSE
