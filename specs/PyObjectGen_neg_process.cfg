SPECIFICATION Spec
CONSTANTS
  NRev = 3
  NTypes = 2
  MaxGen = 2
  Memo = "process"
INVARIANT EmbeddedEqSource
CHECK_DEADLOCK FALSE
