SPECIFICATION Spec
CONSTANTS
  EscMode = "markupsafe"
  LinkStyle = "page"
  MaxTok = 3
  Part = "links"
  ListStyle = "versioned"
  Chains = TRUE
  Configs = {"both"}
  SampleConfigs = {}
INVARIANT LinksRefineP
CHECK_DEADLOCK FALSE
