SPECIFICATION Spec
CONSTANTS
  EscMode = "markupsafe"
  LinkStyle = "fixed"
  MaxTok = 3
  Part = "both"
  ListStyle = "versioned"
  Chains = TRUE
  Configs = {"default"}
  SampleConfigs = {}
INVARIANT Emit
CHECK_DEADLOCK FALSE
