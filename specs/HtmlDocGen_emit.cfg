SPECIFICATION Spec
CONSTANTS
  EscMode = "markupsafe"
  LinkStyle = "fixed"
  MaxTok = 3
  Part = "both"
  Chains = TRUE
INVARIANT Emit
CHECK_DEADLOCK FALSE
