SPECIFICATION Spec
CONSTANTS
  Langs = {"c", "cpp"}
  BaseSet = "families"
  MaxMut = 4
  MinMut = 2
  MaxBoth = 1
  Star = FALSE
  HashBits = 32
INVARIANT Emit
CHECK_DEADLOCK FALSE
