SPECIFICATION Spec
CONSTANTS
  Profile = "marker"
  MaxW = 1
  MaxWc = 1
  MaxDepth = 1
  Tights = {FALSE}
  EmitOpen = FALSE
INVARIANT Emit
CHECK_DEADLOCK FALSE
