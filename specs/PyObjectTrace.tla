--------------------------- MODULE PyObjectTrace ---------------------------
(* T-layer for C18: events recorded from generated Python classes (imported in-process), judged by the       *)
(* P-layer notions of specs/PyObject.tla re-stated over CONCRETE types and values:                            *)
(*                                                                                                         *)
(*  type  t : [k |-> "uint"|"int", w] | [k |-> "bool"] | [k |-> "float", w] | [k |-> "comp", name]              *)
(*            | [k |-> "farr", n, e] | [k |-> "varr", cap, e]                                                   *)
(*  value v : [c |-> "int", neg, bits]   bits of x (x >= 0) or of -x-1 (x < 0), LSB first, no leading zeros     *)
(*            [c |-> "bool", v] | [c |-> "float", s, e, mh, ml] (binary64 fields, two 26-bit mantissa limbs,     *)
(*            any NaN is e=2047 mh=33554432 ml=0 s=0) | [c |-> "arr", items] | [c |-> "obj", name, oid]          *)
(*            | [c |-> "none"] | [c |-> "absent"] | [c |-> "other"] (a foreign object)                            *)
(*                                                                                                         *)
(*  ctor   : id, union, ft (field types), kw (one value per field), out, post (field values, <<>> if no object) *)
(*  assign : id, union, ft, f, x, pre, out, post                                                                *)
(*  model  : id, src, emb (structural digests of the source PyDSDL model and of Class._MODEL_), eq, back        *)
(*  rt     : id, a, b (bytes of serialize(o) and serialize(update_from_builtin(Class(), to_builtin(o)))),       *)
(*           erra, errb, plain                                                                                  *)
(* out: "stored" (no exception) | "verr" (ValueError) | "rej" (another exception).                              *)
EXTENDS Naturals, Sequences, FiniteSets, Json, IOUtils, TLC

Trace == ndJsonDeserialize(IOEnv.TRACE_FILE)

VARIABLE l

(* ---- Valid(type, value): the declared range regardless of the cast mode ---- *)
LexLE(a, b) == \/ a[1] < b[1]
               \/ a[1] = b[1] /\ a[2] < b[2]
               \/ a[1] = b[1] /\ a[2] = b[2] /\ a[3] <= b[3]
(* largest finite magnitude as binary64 fields: float16 65504 = 2^15 (2 - 2^-10), float32 = 2^127 (2 - 2^-23)   *)
FloatMax(w) == IF w = 16 THEN <<1038, 67043328, 0>> ELSE <<1150, 67108856, 0>>
FloatOK(w, v) == v.e = 2047 \/ w = 64 \/ LexLE(<<v.e, v.mh, v.ml>>, FloatMax(w))

RECURSIVE TClass(_, _)
TClass(t, v) ==
    IF t.k = "uint" THEN
        (IF v.c = "int" THEN (IF v.neg = 0 /\ Len(v.bits) <= t.w THEN "valid" ELSE "range") ELSE "wtype")
    ELSE IF t.k = "int" THEN
        (IF v.c = "int" THEN (IF Len(v.bits) <= t.w - 1 THEN "valid" ELSE "range") ELSE "wtype")
    ELSE IF t.k = "bool" THEN
        (IF v.c = "bool" THEN "valid" ELSE IF v.c \in {"int", "float"} THEN "amb" ELSE "wtype")
    ELSE IF t.k = "float" THEN
        (IF v.c = "float" THEN (IF FloatOK(t.w, v) THEN "valid" ELSE "range") ELSE "wtype")
    ELSE IF t.k = "comp" THEN
        (IF v.c = "obj" /\ v.name = t.name THEN "valid" ELSE "wtype")
    ELSE \* arrays
        IF v.c # "arr" THEN "amb"
        ELSE LET n == Len(v.items)
                 lenok == IF t.k = "farr" THEN n = t.n ELSE n <= t.cap
                 elemsok == \A i \in 1..n : TClass(t.e, v.items[i]) = "valid"
             IN IF ~lenok THEN (IF elemsok THEN "range" ELSE "reject")   \* two defects: either may be reported first
                ELSE IF elemsok THEN "valid"
                ELSE "amb"

Allowed(cls) == IF cls = "valid" THEN {"stored"} ELSE IF cls = "range" THEN {"verr"}
                ELSE IF cls = "reject" THEN {"verr", "rej"} ELSE {"stored", "verr", "rej"}

RECURSIVE VEq(_, _)
VEq(e, g) ==
    IF e.c # g.c THEN FALSE
    ELSE IF e.c = "arr" THEN Len(e.items) = Len(g.items) /\ \A i \in 1..Len(e.items) : VEq(e.items[i], g.items[i])
    ELSE IF e.c = "obj" THEN e.name = g.name /\ (e.oid = 0 \/ e.oid = g.oid)
    ELSE e = g

Zero == [c |-> "int", neg |-> 0, bits |-> <<>>]
RECURSIVE Default(_)
Default(t) ==
    IF t.k \in {"uint", "int"} THEN Zero
    ELSE IF t.k = "bool" THEN [c |-> "bool", v |-> 0]
    ELSE IF t.k = "float" THEN [c |-> "float", s |-> 0, e |-> 0, mh |-> 0, ml |-> 0]
    ELSE IF t.k = "comp" THEN [c |-> "obj", name |-> t.name, oid |-> 0]
    ELSE IF t.k = "farr" THEN [c |-> "arr", items |-> [i \in 1..t.n |-> Default(t.e)]]
    ELSE [c |-> "arr", items |-> <<>>]

(* the container shape every reading demands of whatever is stored *)
ShapeOK(t, v) ==
    IF t.k \in {"farr", "varr"} THEN v.c = "arr" /\ (IF t.k = "farr" THEN Len(v.items) = t.n ELSE Len(v.items) <= t.cap)
    ELSE IF t.k = "bool" THEN v.c = "bool"
    ELSE TClass(t, v) = "valid"

(* what field f must hold after candidate x of class cls was stored *)
StoredOK(t, cls, x, got) ==
    IF cls = "valid" THEN (IF VEq(x, got) THEN "ok" ELSE "pyobj.stored")
    ELSE IF cls = "wtype" THEN (IF TClass(t, got) = "valid" THEN "ok" ELSE "pyobj.valid")
    ELSE (IF ShapeOK(t, got) THEN "ok" ELSE "pyobj.valid")

NonNone(vs) == {g \in 1..Len(vs) : vs[g].c # "none"}

First(S) == CHOOSE x \in S : \A y \in S : x <= y
FirstBad(n, V(_)) == LET bad == {g \in 1..n : V(g) # "ok"} IN IF bad = {} THEN "ok" ELSE V(First(bad))

AssignVerdict(r) ==
    LET t == r.ft[r.f]
        cls == TClass(t, r.x)
        n == Len(r.ft)
    IN  IF r.out \notin Allowed(cls) THEN
            (IF cls = "valid" THEN "pyobj.accept" ELSE IF r.out = "stored" THEN "pyobj.reject" ELSE "pyobj.reject.valueerror")
        ELSE IF r.out # "stored" THEN (IF r.post = r.pre THEN "ok" ELSE "pyobj.state_kept")
        ELSE IF r.union /\ NonNone(r.post) # {r.f} THEN "pyobj.union_one"
        ELSE IF ~r.union /\ \E g \in 1..n : g # r.f /\ r.post[g] # r.pre[g] THEN "pyobj.state_kept"
        ELSE StoredOK(t, cls, r.x, r.post[r.f])

CtorVerdict(r) ==
    LET n == Len(r.ft)
        present == {g \in 1..n : r.kw[g].c \notin {"absent", "none"}}
        cls(g) == TClass(r.ft[g], r.kw[g])
        exc == UNION {Allowed(cls(g)) \ {"stored"} : g \in present}
        allowed == IF r.union /\ Cardinality(present) > 1 THEN {"verr"} \cup exc
                   ELSE exc \cup (IF \A g \in present : "stored" \in Allowed(cls(g)) THEN {"stored"} ELSE {})
        FieldV(g) == IF g \in present THEN StoredOK(r.ft[g], cls(g), r.kw[g], r.post[g])
                     ELSE IF r.union /\ ~(present = {} /\ g = 1) THEN (IF r.post[g].c = "none" THEN "ok" ELSE "pyobj.union_one")
                     ELSE IF VEq(Default(r.ft[g]), r.post[g]) THEN "ok" ELSE "pyobj.default"
    IN  IF r.out \notin allowed THEN
            (IF r.out = "stored" THEN (IF r.union /\ Cardinality(present) > 1 THEN "pyobj.union_one" ELSE "pyobj.reject")
             ELSE IF "stored" \in allowed /\ exc = {} THEN "pyobj.accept" ELSE "pyobj.reject.valueerror")
        ELSE IF r.out # "stored" THEN (IF r.post = <<>> THEN "ok" ELSE "harness.post")
        ELSE IF Len(r.post) # n THEN "harness.post"
        ELSE IF r.union /\ Cardinality(NonNone(r.post)) # 1 THEN "pyobj.union_one"
        ELSE FirstBad(n, FieldV)

(* the embedded model against the source model, component by component *)
ModelVerdict(r) ==
    LET s == r.src  m == r.emb IN
    IF s.kind # m.kind THEN "pyobj.model.kind"
    ELSE IF s.name # m.name THEN "pyobj.model.name"
    ELSE IF s.ver # m.ver THEN "pyobj.model.version"
    ELSE IF s.sealed # m.sealed THEN "pyobj.model.sealed"
    ELSE IF s.extent # m.extent THEN "pyobj.model.extent"
    ELSE IF s.deprecated # m.deprecated THEN "pyobj.model.deprecated"
    ELSE IF s.port # m.port THEN "pyobj.model.portid"
    ELSE IF s.fields # m.fields THEN "pyobj.model.fields"
    ELSE IF s.consts # m.consts THEN "pyobj.model.constants"
    ELSE IF s.inner # m.inner THEN "pyobj.model.inner"
    ELSE IF s.doc # m.doc THEN "pyobj.model.doc"
    ELSE IF r.eq # 1 THEN "pyobj.model.eq"
    ELSE IF r.back # 1 THEN "pyobj.model.get_class"
    ELSE "ok"

RtVerdict(r) ==
    IF r.erra # "none" THEN "harness.serialize"
    ELSE IF r.errb # "none" THEN "pyobj.builtin_rt.exception"
    ELSE IF r.plain # 1 THEN "pyobj.builtin_rt.plain"
    ELSE IF r.a # r.b THEN "pyobj.builtin_rt"
    ELSE "ok"

Verdict(r) ==
    IF r.ev = "assign" THEN AssignVerdict(r)
    ELSE IF r.ev = "ctor" THEN CtorVerdict(r)
    ELSE IF r.ev = "model" THEN ModelVerdict(r)
    ELSE IF r.ev = "rt" THEN RtVerdict(r)
    ELSE "harness.event"

TInit == l = 1
TNext == /\ l <= Len(Trace)
         /\ LET v == Verdict(Trace[l]) IN IF v = "ok" THEN TRUE ELSE PrintT(<<"REJECT", Trace[l].id, v>>)
         /\ l' = l + 1
TSpec == TInit /\ [][TNext]_l
Accepted == TLCGet("stats").diameter - 1 = Len(Trace)
=============================================================================
