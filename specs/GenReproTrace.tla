--------------------------- MODULE GenReproTrace ---------------------------
(* T-layer for C07.  Every record is one complete run of the real generator (CLI or API):                  *)
(*   id       record id                                                                                    *)
(*   inputs   id of the DSDL namespace set (content + paths relative to the namespace roots)               *)
(*   opts     id of the option set (front end, target, flags; auditing is part of it)                      *)
(*   audit    embed_auditing_info                                                                          *)
(*   files    the result: sequence of [p |-> path relative to the output directory (code points),          *)
(*                                      d |-> sha256 of the file as 16 limbs of 16 bits]                   *)
(*   par, nodes, order   the namespace tree and the order in which the files were opened for writing       *)
(*            (implementation level; order = <<>> when it was not recorded)                                *)
(* The ambient state of the run (clock, hash seed, process, cwd, location) is in the record for the         *)
(* diagnostics only: the specification never reads it.                                                     *)
(*                                                                                                        *)
(* History variable `first`: (inputs, opts) |-> index of the first record of that pair.  Any later run of   *)
(* the same pair with another path set (repro.paths) or another digest (repro.digest) is rejected by the    *)
(* P-layer operator Judge.  The verdict is total: a rejection is printed and validation continues.          *)
EXTENDS GenReproP, Json, IOUtils

Trace == ndJsonDeserialize(IOEnv.TRACE_FILE)

VARIABLES l, first

Key(r) == <<r.inputs, r.opts>>

(* the recorded result as the function the P-layer speaks about                                            *)
MapOf(files) == [p \in {files[i].p : i \in DOMAIN files} |-> files[CHOOSE i \in DOMAIN files : files[i].p = p].d]

WellFormed(r) == /\ Cardinality({r.files[i].p : i \in DOMAIN r.files}) = Len(r.files)
                 /\ \A i \in DOMAIN r.files : Len(r.files[i].d) = 16
                 /\ \A i \in DOMAIN r.order : r.order[i] \in DOMAIN r.nodes

PVerdict(r) ==
    LET k == Key(r) IN
    Judge(k \in DOMAIN first, IF k \in DOMAIN first THEN MapOf(Trace[first[k]].files) ELSE <<>>, r.audit, MapOf(r.files))

IVerdict(r) == IF r.order = <<>> \/ ValidOrder(r.par, r.nodes, r.order) THEN "ok" ELSE "drift.order"

Verdict(r) ==
    IF ~WellFormed(r) THEN "harness.record"
    ELSE LET pv == PVerdict(r)
             iv == IVerdict(r)
         IN IF pv = "ok" THEN iv
            ELSE IF iv = "ok" THEN pv
            ELSE pv \o "+" \o iv

TInit == l = 1 /\ first = <<>>
TNext == /\ l <= Len(Trace)
         /\ LET v == Verdict(Trace[l]) IN IF v = "ok" THEN TRUE ELSE PrintT(<<"REJECT", Trace[l].id, v>>)
         /\ first' = Remember(first, Key(Trace[l]), l)
         /\ l' = l + 1
TSpec == TInit /\ [][TNext]_<<l, first>>
Accepted == TLCGet("stats").diameter - 1 = Len(Trace)
=============================================================================
