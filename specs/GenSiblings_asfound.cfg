SPECIFICATION Spec
CONSTANTS
  NTypes = 3
  MaxRuns = 2
  Shapes <- ShapesMixed
  Limits = {0, 2}
  DefIds = {1, 2}
  OmitVals = {FALSE}
  Modes = {"fresh", "lctx", "gen", "proc"}
  ResetLimiter = FALSE
  IdentityDepKey = FALSE
  VolatileUniq = FALSE
  FreshModule = FALSE
VIEW View
INVARIANT SibDigest
CHECK_DEADLOCK FALSE
