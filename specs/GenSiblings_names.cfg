SPECIFICATION Spec
CONSTANTS
  NTypes = 3
  MaxRuns = 3
  Shapes <- ShapesNames
  Limits = {0}
  DefIds = {1, 2}
  OmitVals = {FALSE}
  Modes = {"fresh", "lctx", "gen", "proc"}
  ResetLimiter = TRUE
  IdentityDepKey = TRUE
  VolatileUniq = TRUE
  FreshModule = TRUE
  Words = {1, 2, 3}
  FullStropKey = TRUE
  Docs = {0}
  PureFilters = TRUE
  Confs = {0}
  PureDerivedNames = TRUE
VIEW View
INVARIANT SibDigest
INVARIANT LimitRespected
INVARIANT OwnLineKept
CHECK_DEADLOCK FALSE
