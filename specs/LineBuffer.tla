----------------------------- MODULE LineBuffer -----------------------------
(* I-layer for C15: CodeGenerator._generate_with_line_buffer step by step, and the refinement I => P.    *)
(* One action per loop iteration of the code:                                                            *)
(*   PullChunk     -- `for part in template_gen` (with the held-back trailing CR of the repaired code)    *)
(*   ScanEmit      -- newline found inside the chunk: line buffer + prefix becomes a line, filtered, written*)
(*   ScanBuffer    -- no newline in the rest of the chunk: append the rest to the line buffer              *)
(*   Flush         -- after the last chunk: non-empty remainder is a line with empty terminator            *)
EXTENDS LinePP, FiniteSets, TLC, Json

CONSTANTS Alphabet,      \* code points used to build texts
          MaxLen,        \* texts of length 0..MaxLen
          MaxLimit,      \* limiter N in 0..MaxLimit
          HoldCR         \* TRUE: the code holds back a chunk-final CR (repaired); FALSE: the original code

VARIABLES text, chunks, pps,         \* the stimulus (chosen in Init, constant afterwards)
          ci, part, pos, lineBuf, held, sts, out, phase

vars == <<text, chunks, pps, ci, part, pos, lineBuf, held, sts, out, phase>>

Texts == UNION {[1..k -> Alphabet] : k \in 0..MaxLen}

PPLists == {<<>>, <<[k |-> "trim"]>>}
           \cup {<<[k |-> "limit", n |-> n]>> : n \in 0..MaxLimit}
           \cup {<<[k |-> "trim"], [k |-> "limit", n |-> n]>> : n \in 0..MaxLimit}
           \cup {<<[k |-> "limit", n |-> n], [k |-> "trim"]>> : n \in 0..MaxLimit}

(* A chunking: a set of cut positions (cut after character c) and whether empty chunks are interleaved.  *)
RECURSIVE CutSeq(_, _, _, _)
CutSeq(t, cuts, i, cur) ==
    IF i > Len(t) THEN <<cur>>
    ELSE IF i \in cuts THEN <<Append(cur, t[i])>> \o CutSeq(t, cuts, i + 1, <<>>)
    ELSE CutSeq(t, cuts, i + 1, Append(cur, t[i]))

RECURSIVE Interleave(_, _)
Interleave(cs, i) == IF i > Len(cs) THEN << <<>> >> ELSE << <<>>, cs[i] >> \o Interleave(cs, i + 1)

Chunkings(t) ==
    LET base == {CutSeq(t, cuts, 1, <<>>) : cuts \in SUBSET (1..(Len(t) - 1))}
    IN base \cup {Interleave(c, 1) : c \in base}

Init ==
    /\ text \in Texts
    /\ chunks \in Chunkings(text)
    /\ pps \in PPLists
    /\ ci = 0 /\ part = <<>> /\ pos = 1 /\ lineBuf = <<>> /\ held = FALSE
    /\ sts = ZeroSt(pps) /\ out = <<>> /\ phase = "pull"

(* index of the first newline match at or after p in s: <<start, end>> or <<0,0>>                        *)
RECURSIVE FindNL(_, _)
FindNL(s, p) ==
    IF p > Len(s) THEN <<0, 0>>
    ELSE IF s[p] = LF THEN <<p, p>>
    ELSE IF s[p] = CR /\ p < Len(s) /\ s[p + 1] = LF THEN <<p, p + 1>>
    ELSE FindNL(s, p + 1)

WriteLine(line, term) ==
    IF Len(pps) = 0 THEN /\ out' = out \o line \o term /\ UNCHANGED sts
    ELSE LET r == ApplyAll(pps, 1, line, term, sts)
         IN /\ out' = out \o r[1] \o r[2] /\ sts' = r[3]

PullChunk ==
    /\ phase = "pull" /\ ci < Len(chunks)
    /\ LET raw == chunks[ci + 1]
           p1  == IF held THEN <<CR>> \o raw ELSE raw
           hold == HoldCR /\ p1 # <<>> /\ p1[Len(p1)] = CR
       IN /\ part' = IF hold THEN SubSeq(p1, 1, Len(p1) - 1) ELSE p1
          /\ held' = hold
    /\ ci' = ci + 1 /\ pos' = 1 /\ phase' = "scan"
    /\ UNCHANGED <<text, chunks, pps, lineBuf, sts, out>>

ScanEmit ==
    /\ phase = "scan" /\ pos <= Len(part) /\ FindNL(part, pos)[1] # 0
    /\ LET m == FindNL(part, pos)
           line == lineBuf \o SubSeq(part, pos, m[1] - 1)
       IN /\ WriteLine(line, SubSeq(part, m[1], m[2]))
          /\ pos' = m[2] + 1
    /\ lineBuf' = <<>>
    /\ UNCHANGED <<text, chunks, pps, ci, part, held, phase>>

ScanBuffer ==
    /\ phase = "scan"
    /\ \/ pos > Len(part) /\ UNCHANGED lineBuf
       \/ pos <= Len(part) /\ FindNL(part, pos)[1] = 0 /\ lineBuf' = lineBuf \o SubSeq(part, pos, Len(part))
    /\ phase' = "pull"
    /\ UNCHANGED <<text, chunks, pps, ci, part, pos, held, sts, out>>

Flush ==
    /\ phase = "pull" /\ ci = Len(chunks)
    /\ LET rem == IF held THEN Append(lineBuf, CR) ELSE lineBuf
       IN IF rem # <<>> THEN WriteLine(rem, <<>>) ELSE UNCHANGED <<out, sts>>
    /\ phase' = "done"
    /\ UNCHANGED <<text, chunks, pps, ci, part, pos, lineBuf, held>>

Next == PullChunk \/ ScanEmit \/ ScanBuffer \/ Flush

Spec == Init /\ [][Next]_vars

(* ---- the code path without line processors: every chunk is written as it comes ----                    *)
RECURSIVE Concat(_, _)
Concat(cs, i) == IF i > Len(cs) THEN <<>> ELSE cs[i] \o Concat(cs, i + 1)

(* ---- refinement: at the end the file equals the property's definition ----                             *)
Refines == phase = "done" => out = Whole(text, pps)

(* The chunking is a chunking of the text (sanity of the stimulus generator).                              *)
ChunkingOK == Concat(chunks, 1) = text

(* Clauses of the property statement, stated independently of Whole (they hold of the I-layer's output).   *)
LimitClause ==
    phase = "done" =>
        \A j \in 1..Len(pps) :
            (pps[j].k = "limit" /\ j = Len(pps)) => MaxEmptyRun(Lines(out), 1, 0, 0) <= pps[j].n
NonEmptyKept ==
    phase = "done" =>
        ((Len(pps) = 1 /\ pps[1].k = "limit") =>
            NonEmptyLines(out) = NonEmptyLines(text))
NoPPIdentity == (phase = "done" /\ Len(pps) = 0) => out = text

(* ---- case emission (spec -> code) ----                                                                  *)
Emit == phase = "done" => PrintT(ToJson([text |-> text, chunks |-> chunks, pps |-> pps, out |-> out]))
=============================================================================
