----------------------------- MODULE GenSiblings -----------------------------
(* I-layer for C10 (per-type output ignores sibling types, processing order and earlier runs) and the    *)
(* refinement I => P (GenSiblingsP).                                                                      *)
(*                                                                                                       *)
(* The model is the PROCESS-WIDE and OBJECT-WIDE state that survives from one generated file to the next  *)
(* in nunavut, shaped like the code:                                                                      *)
(*   uniq  -- lang/_common.py UniqueNameGenerator._singleton (class attribute: one per interpreter),       *)
(*            replaced by CodeGenerator._generate_code before each file is rendered                       *)
(*   lim   -- _postprocessors.py LimitEmptyLines._empty_line_count; the object lives in the generator's    *)
(*            post-processor list and serves every file (and every generate_all) of that generator        *)
(*   tplc  -- the generator's Jinja environment: compiled templates.  Jinja folds `"lit" | filter` at      *)
(*            COMPILE time unless the filter is marked volatile (contextfilter); compile time is           *)
(*            env.get_template() in _generate_type, i.e. BEFORE UniqueNameGenerator.reset()                *)
(*   modv  -- Jinja's per-template module cache (Template._module): the body of a template imported with   *)
(*            {% from "helper.j2" import x %} runs ONCE per environment, its top-level {% set %} values     *)
(*            are kept for every later file                                                               *)
(*   depc  -- lang/_language.py Language.get_dependency_builder: functools.lru_cache keyed by the PyDSDL    *)
(*            type, whose __eq__/__hash__ see name + version + bit-length set only (EqKey below)           *)
(*   unch  -- lang/_common.py TokenEncoder.strop: a memo per encoder (= per Language = per LanguageContext).  *)
(*            Stropping is token-type specific ("path" applies fewer rules than "any"), and the path tokens    *)
(*            (namespace components, file stems) of EVERY type of a run are stropped while the namespace tree   *)
(*            is built, before any file is rendered.  A memo that notes "came back unchanged" by spelling alone  *)
(*            lets the file stem of a sibling decide how an equally spelled field of another type is emitted.    *)
(*   fst   -- state inside a template filter that outlives the call: e.g. lang/cpp `_make_textwrap`, a         *)
(*            module-level lru_cache of textwrap.TextWrapper objects behind the block_comment filter: one per   *)
(*            interpreter, shared by every file, generator, context and run.  A filter that writes to such an     *)
(*            object (say a hanging indent for an indented documentation line) and does not restore it lets the   *)
(*            doc comment of one type decide how the doc comment of a later type is wrapped.                     *)
(*   reg   -- a first-come registry of names DERIVED from a type (macro-cased / snake-cased / separator-free /  *)
(*            truncated / stropped spelling of its full name, say the C include guard) kept on the Language      *)
(*            object: a derivation is not injective, two DISTINCT types of one run may collide under it, and a    *)
(*            registry that gives the later of two colliding types an ordinal suffix makes the file of a type      *)
(*            depend on whether the sibling is generated in the same run (or was in an earlier run with the same    *)
(*            LanguageContext) and on the processing order.  Not a behaviour of the pinned tree: the design flaw    *)
(*            "a derived name is disambiguated by arrival", kept as a negative control (PureDerivedNames = FALSE). *)
(* Files are sequences of abstract lines:                                                                 *)
(*   <<"E">> empty line, <<"T",t>> the type's own text, <<"L",k>> unique name from a literal base token,   *)
(*   <<"D",k>> unique name from a computed base token, <<"M",a,b>> imported module-level name a and a name  *)
(*   b made by an imported macro, <<"I",u>> include of dependency u, <<"N",w,c>> a field whose name is spelled  *)
(*   w, emitted stropped (c) or as it is, <<"C",t,s>> the doc comments of t rendered under filter state s,      *)
(*   <<"G",k,o>> a name derived from the type (derived key k, ordinal o given by the registry),                  *)
(*   <<"S">> include of the serialization                                                                   *)
(*   support (absent with omit_serialization_support).                                                     *)
(* One action per critical step of DSDLCodeGenerator._generate_type/_generate_code:                        *)
(*   StartRun (build_namespace_tree + generator construction or reuse), Compile (env.get_template),         *)
(*   Render (UniqueNameGenerator.reset + template.generate), Post (line post-processors + write).          *)
(* The boolean constants select, per mechanism, the behaviour that satisfies the property (TRUE) or    *)
(* the behaviour found in the pinned tree (FALSE); TLC proves I => P for all-TRUE and refutes each FALSE.   *)
(* FullStropKey = FALSE is not a behaviour of the pinned tree: it is the design flaw "memo keyed by spelling   *)
(* only", kept as a negative control whose violating histories are replayed against the real code; likewise    *)
(* PureFilters = FALSE: "a filter keeps state between files" and PureDerivedNames = FALSE: "a registry of        *)
(* derived names hands out ordinals in order of arrival".                                                      *)
EXTENDS GenSiblingsP, TLC, Json

CONSTANTS NTypes,          \* types are 1..NTypes (3 or 4)
          MaxRuns,         \* generator invocations per interpreter history
          Shapes,          \* template shapes (records, see ShapesXxx below)
          Limits,          \* 0 = no LimitEmptyLines; k > 0 = LimitEmptyLines(k - 1)
          DefIds,          \* definition sets that may be generated (see Deps)
          OmitVals,        \* values of generate_all(omit_serialization_support=...)
          Modes,           \* how a later run relates to the earlier one: "fresh", "lctx", "gen", "proc"
          ResetLimiter,    \* TRUE: the limiter starts every file with count 0
          IdentityDepKey,  \* TRUE: the dependency memo is keyed by what the type really is (or absent)
          VolatileUniq,    \* TRUE: to_template_unique_name is never constant-folded
          FreshModule,     \* TRUE: imported template modules are evaluated for every file
          Words,           \* spellings: 1 = clean as "path" but reserved as "any", 2 = plain, 3 = keyword (both)
          FullStropKey,    \* TRUE: the stropping memo is keyed by (token, token type) (or absent)
          Docs,            \* 0 = types without documentation, 1 = type 2 has indented doc lines, 1 and 3 long ones
          PureFilters,     \* TRUE: a template filter's result depends on its arguments only
          Confs,           \* 0 = no two types collide under a name derivation, 1 = types 1 and 2 (which do not refer
                           \* to each other) have the same derived name and the template shows the derived name
          PureDerivedNames \* TRUE: a derived name is a function of the type alone (the registry never alters a name)

VARIABLES shape, limit, word, docs, conf,  \* scenario parameters (chosen in Init)
          uniq, lim, tplc, modv, depc, unch, fst, reg,
          run, last, nruns, pc, cur, raw,
          memo, ok,        \* P-layer memo and verdict
          hist             \* history (for case emission only; hidden by VIEW in exhaustive configs)

vars == <<shape, limit, word, docs, conf, uniq, lim, tplc, modv, depc, unch, fst, reg, run, last, nruns, pc, cur, raw, memo, ok, hist>>
View == <<shape, limit, word, docs, conf, uniq, lim, tplc, modv, depc, unch, fst, reg, run, last, nruns, pc, cur, raw, memo, ok>>

Types == 1..NTypes

(* ---- definition sets: type 3 keeps its name, version and size in sets 1 and 2 but refers to 1 resp. 2;  *)
(* in set 3 it refers to both (its size changes); type 4 (if present) refers to 3.                          *)
Deps(d) == [t \in Types |->
              IF t = 3 THEN (CASE d = 1 -> {1} [] d = 2 -> {2} [] OTHER -> {1, 2})
              ELSE IF t = 4 THEN {3} ELSE {}]

RECURSIVE Closure(_, _)
Closure(d, t) == {t} \cup UNION {Closure(d, u) : u \in Deps(d)[t]}

Refs(d, t) == [u \in Closure(d, t) |-> Deps(d)[u]]       \* the type and everything it refers to
Size(d, t) == Cardinality(Closure(d, t))                  \* stands for the bit-length set
EqKey(d, t) == <<t, Size(d, t)>>                          \* what PyDSDL's __eq__/__hash__ can see

Closed(d) == {S \in SUBSET Types : S # {} /\ \A t \in S : Deps(d)[t] \subseteq S}
Orders(S) == {f \in [1..Cardinality(S) -> S] : \A i, j \in 1..Cardinality(S) : f[i] = f[j] => i = j}

(* ---- template shapes ----                                                                              *)
Shape(le, tr, li, dy, mo, in, na) == [lead |-> le, trail |-> tr, lit |-> li, dyn |-> dy, mod |-> mo, inc |-> in, nam |-> na]
ShapesLimiter == {Shape(le, tr, 0, 0, FALSE, FALSE, FALSE) : le \in 0..2, tr \in 0..2}
ShapesUniq    == {Shape(0, 0, li, dy, mo, FALSE, FALSE) : li \in 0..2, dy \in 0..1, mo \in BOOLEAN}
ShapesDeps    == {Shape(0, 0, 0, 0, FALSE, TRUE, FALSE)}
ShapesNames   == {Shape(0, 0, 0, 0, FALSE, in, TRUE) : in \in BOOLEAN}
ShapesMixed   == {Shape(le, tr, li, 1, mo, in, FALSE) : le \in {0, 1}, tr \in {0, 1}, li \in {0, 1}, mo \in BOOLEAN, in \in BOOLEAN}
ShapesEmit    == {Shape(le, le, 1, 1, mo, in, in) : le \in {0, 2}, mo \in BOOLEAN, in \in BOOLEAN}
ShapesEmitQ   == {Shape(2, 2, 1, 1, TRUE, TRUE, TRUE), Shape(0, 2, 1, 1, FALSE, TRUE, FALSE), Shape(1, 1, 2, 1, TRUE, FALSE, TRUE)}

(* ---- names: type 1 has a field spelled `word`; the file stem (a "path" token) of type 2 -- which type 1   *)
(* does not refer to -- has the same spelling.  Changed(w, kind): does stropping alter the token?            *)
Changed(w, kind) == (w = 3) \/ (w = 1 /\ kind = "any")
HasStem(S) == 2 \in S

(* ---- documentation: rendering the docs of type 2 writes to the filter's shared object, the docs of types 1  *)
(* and 3 are long enough to show it                                                                          *)
SetsFilterState(t) == t = 2
ShowsFilterState(t) == t \in {1, 3}
ShapesPlain == {Shape(0, 0, 0, 0, FALSE, FALSE, FALSE)}

(* ---- derived names: the key under which a type's derived name is registered; with conf = 1 the derivation    *)
(* maps types 1 and 2 to one key (FooBar / Foo_Bar -> FOO_BAR, Ver.1.10 / Ver.11.0 -> Ver110, ...)               *)
DKey(t) == IF conf = 1 /\ t = 2 THEN 1 ELSE t
NoReg == [k \in {} |-> <<>>]
Owners(k) == IF k \in DOMAIN reg THEN reg[k] ELSE <<>>

RECURSIVE IndexOf(_, _, _)
IndexOf(s, x, i) == IF i > Len(s) THEN 0 ELSE IF s[i] = x THEN i ELSE IndexOf(s, x, i + 1)

(* ---- the P key of a generated file: shape and limit are fixed per scenario, hence implicit ----          *)
PKey(d, t, omit) == <<t, Refs(d, t), omit>>

(* ---- helpers ----                                                                                      *)
Rep(x, n) == [i \in 1..n |-> x]

RECURSIVE SortedSeq(_)
SortedSeq(S) == IF S = {} THEN <<>>
                ELSE LET m == CHOOSE x \in S : \A y \in S : x <= y IN <<m>> \o SortedSeq(S \ {m})

RECURSIVE LimLines(_, _, _, _, _)
LimLines(n, lines, i, c, out) ==
    IF i > Len(lines) THEN [out |-> out, cnt |-> c]
    ELSE LET e == lines[i] = <<"E">>
         IN LimLines(n, lines, i + 1, LimCount(c, e), IF LimKeeps(n, c, e) THEN Append(out, lines[i]) ELSE out)

NoTpl == [c |-> FALSE, f |-> FALSE, v |-> <<>>]
NoUniq == [init |-> FALSE, n |-> 0]
NoDeps == [k \in {} |-> {}]
Idle == [d |-> 0, ord |-> <<>>, omit |-> FALSE]

Init ==
    /\ shape \in Shapes /\ limit \in Limits /\ word \in Words /\ docs \in Docs /\ fst = 0
    /\ conf \in Confs /\ reg = NoReg
    /\ uniq = NoUniq /\ lim = 0 /\ tplc = NoTpl /\ modv = 0 /\ depc = NoDeps /\ unch = {}
    /\ run = Idle /\ last = Idle /\ nruns = 0 /\ pc = "idle" /\ cur = 0 /\ raw = <<>>
    /\ memo = EmptyMemo /\ ok = TRUE /\ hist = <<>>

(* build_namespace_tree over a dependency-closed subset in some order + DSDLCodeGenerator(...) (or the     *)
(* same generator object again) + generate_all(omit_serialization_support=omit)                           *)
StartRun(d, ord, mode, omit) ==
    /\ pc = "idle" /\ nruns < MaxRuns
    /\ mode \in (IF nruns = 0 THEN {"fresh"} ELSE Modes)
    /\ (mode = "gen") => (d = last.d /\ ord = last.ord)         \* same generator = same namespace object
    /\ uniq' = IF mode = "proc" THEN NoUniq ELSE uniq            \* the singleton is per interpreter
    /\ fst' = IF mode = "proc" THEN 0 ELSE fst                   \* so is a module-level cache of filter objects
    /\ IF mode = "gen" THEN UNCHANGED <<lim, tplc, modv>>
       ELSE lim' = 0 /\ tplc' = NoTpl /\ modv' = 0               \* new pp objects, new Jinja environment
    /\ depc' = IF mode \in {"gen", "lctx"} THEN depc ELSE NoDeps  \* the memo lives in the Language object
    /\ reg' = IF mode \in {"gen", "lctx"} THEN reg ELSE NoReg     \* so does a registry of derived names
    /\ LET u0  == IF mode \in {"gen", "lctx"} THEN unch ELSE {}  \* so does the TokenEncoder
           \* build_namespace_tree strops the path tokens of every listed type (a reused generator keeps its tree)
           req == mode # "gen" /\ HasStem({ord[i] : i \in 1..Len(ord)})
           res == IF ~FullStropKey /\ word \in u0 THEN FALSE ELSE Changed(word, "path")
       IN unch' = IF req /\ ~FullStropKey /\ ~res THEN u0 \cup {word} ELSE u0
    /\ run' = [d |-> d, ord |-> ord, omit |-> omit]
    /\ last' = run'
    /\ nruns' = nruns + 1
    /\ pc' = "compile" /\ cur' = ord[1]
    /\ hist' = Append(hist, [d |-> d, ord |-> ord, mode |-> mode, omit |-> omit, files |-> <<>>])
    /\ UNCHANGED <<shape, limit, word, docs, conf, raw, memo, ok>>

(* template = self._env.get_template(name): compiled on first use in this environment                      *)
Compile ==
    /\ pc = "compile"
    /\ IF tplc.c THEN UNCHANGED <<tplc, uniq>>
       ELSE IF ~VolatileUniq /\ uniq.init /\ shape.lit > 0
            THEN /\ tplc' = [c |-> TRUE, f |-> TRUE, v |-> [i \in 1..shape.lit |-> uniq.n + i - 1]]
                 /\ uniq' = [uniq EXCEPT !.n = @ + shape.lit]
            ELSE /\ tplc' = [c |-> TRUE, f |-> FALSE, v |-> <<>>]
                 /\ UNCHANGED uniq
    /\ pc' = "render"
    /\ UNCHANGED <<shape, limit, word, docs, conf, lim, modv, depc, unch, fst, reg, run, last, nruns, cur, raw, memo, ok, hist>>

(* UniqueNameGenerator.reset(); then the template body runs top to bottom                                  *)
Render ==
    /\ pc = "render"
    /\ LET t    == cur
           litv == IF tplc.f THEN tplc.v ELSE [i \in 1..shape.lit |-> i - 1]
           n1   == IF tplc.f THEN 0 ELSE shape.lit
           dynv == [i \in 1..shape.dyn |-> n1 + i - 1]
           n2   == n1 + shape.dyn
           evm  == shape.mod /\ (FreshModule \/ modv = 0)
           mv   == IF evm THEN n2 ELSE modv - 1
           n3   == IF evm THEN n2 + 1 ELSE n2
           n4   == IF shape.mod THEN n3 + 1 ELSE n3
           k    == EqKey(run.d, t)
           hit  == ~IdentityDepKey /\ k \in DOMAIN depc
           deps == IF hit THEN depc[k] ELSE Deps(run.d)[t]
           nreq == shape.nam /\ t = 1                       \* {{ field | id }}: token type "any"
           nch  == IF ~FullStropKey /\ word \in unch THEN FALSE ELSE Changed(word, "any")
           dk   == DKey(t)                                   \* {{ T | derived_name }}
           own  == Owners(dk)
           at   == IndexOf(own, t, 1)
           dord == IF PureDerivedNames THEN 0 ELSE (IF at = 0 THEN Len(own) ELSE at - 1)
           incl == IF shape.inc
                   THEN [i \in 1..Cardinality(deps) |-> <<"I", SortedSeq(deps)[i]>>] \o (IF run.omit THEN <<>> ELSE << <<"S">> >>)
                   ELSE <<>>
       IN /\ raw' = Rep(<<"E">>, shape.lead) \o << <<"T", t>> >>
                    \o (IF docs = 1 THEN << <<"C", t, IF ShowsFilterState(t) /\ ~PureFilters THEN fst ELSE 0>> >> ELSE <<>>)
                    \o [i \in 1..shape.lit |-> <<"L", litv[i]>>]
                    \o [i \in 1..shape.dyn |-> <<"D", dynv[i]>>]
                    \o (IF shape.mod THEN << <<"M", mv, n3>> >> ELSE <<>>)
                    \o (IF nreq THEN << <<"N", word, nch>> >> ELSE <<>>)
                    \o (IF conf = 1 THEN << <<"G", dk, dord>> >> ELSE <<>>)
                    \o incl
                    \o Rep(<<"E">>, shape.trail)
          /\ uniq' = [init |-> TRUE, n |-> n4]
          /\ modv' = IF evm THEN mv + 1 ELSE modv
          /\ depc' = IF shape.inc /\ ~IdentityDepKey /\ ~hit
                     THEN [x \in (DOMAIN depc) \cup {k} |-> IF x = k THEN Deps(run.d)[t] ELSE depc[x]]
                     ELSE depc
          /\ unch' = IF nreq /\ ~FullStropKey /\ ~nch THEN unch \cup {word} ELSE unch
          /\ fst' = IF docs = 1 /\ SetsFilterState(t) /\ ~PureFilters THEN 1 ELSE fst
          /\ reg' = IF conf = 1 /\ at = 0                     \* the registry itself may stay (say to report collisions)
                    THEN [x \in (DOMAIN reg) \cup {dk} |-> IF x = dk THEN Append(own, t) ELSE reg[x]]
                    ELSE reg
    /\ pc' = "post"
    /\ UNCHANGED <<shape, limit, word, docs, conf, lim, tplc, run, last, nruns, cur, memo, ok, hist>>

(* _generate_with_line_buffer through the shared LimitEmptyLines object, write, record                      *)
Post ==
    /\ pc = "post"
    /\ LET c0  == IF ResetLimiter THEN 0 ELSE lim
           r   == IF limit = 0 THEN [out |-> raw, cnt |-> lim] ELSE LimLines(limit - 1, raw, 1, c0, <<>>)
           key == PKey(run.d, cur, run.omit)
           n   == Len(hist)
       IN /\ lim' = r.cnt
          /\ ok' = (ok /\ Judge(memo, key, r.out))
          /\ memo' = Learn(memo, key, r.out)
          /\ hist' = [hist EXCEPT ![n].files = Append(@, [t |-> cur, out |-> r.out])]
    /\ IF Len(run.ord) = 1
       THEN run' = Idle /\ pc' = "idle" /\ cur' = 0
       ELSE run' = [run EXCEPT !.ord = Tail(@)] /\ pc' = "compile" /\ cur' = run.ord[2]
    /\ raw' = <<>>
    /\ UNCHANGED <<shape, limit, word, docs, conf, uniq, tplc, modv, depc, unch, fst, reg, last, nruns>>

(* A history ends when the property has been violated (the violating state is kept as a terminal state so    *)
(* that EmitBad can print it).                                                                              *)
Step ==
    \/ /\ pc = "idle" /\ nruns < MaxRuns
       /\ \E d \in DefIds : \E S \in Closed(d) : \E ord \in Orders(S) :
          \E mode \in (IF nruns = 0 THEN {"fresh"} ELSE Modes) : \E omit \in OmitVals :
              StartRun(d, ord, mode, omit)
    \/ Compile \/ Render \/ Post

Next == ok /\ Step

Spec == Init /\ [][Next]_vars

(* ---- I => P ----                                                                                         *)
SibDigest == ok

(* ---- independent sanity clauses of the model ----                                                        *)
RECURSIVE MaxERun(_, _, _, _)
MaxERun(ls, i, c, best) ==
    IF i > Len(ls) THEN best
    ELSE LET c2 == IF ls[i] = <<"E">> THEN c + 1 ELSE 0 IN MaxERun(ls, i + 1, c2, IF c2 > best THEN c2 ELSE best)

LimitRespected == limit > 0 => \A k \in DOMAIN memo : MaxERun(memo[k], 1, 0, 0) <= limit - 1
OwnLineKept == \A k \in DOMAIN memo : \E i \in 1..Len(memo[k]) : memo[k][i] = <<"T", k[1]>>

(* ---- case emission (spec -> code): one record per complete history ----                                  *)
Emit == (pc = "idle" /\ nruns = MaxRuns) => PrintT(ToJson([shape |-> shape, limit |-> limit, word |-> word, docs |-> docs, conf |-> conf, runs |-> hist]))

(* ---- negative controls: print every violating history (a predicted defect, replayed against the real code) *)
EmitBad == ok \/ PrintT(ToJson([shape |-> shape, limit |-> limit, word |-> word, docs |-> docs, conf |-> conf, runs |-> hist]))
=============================================================================
