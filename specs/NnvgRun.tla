------------------------------- MODULE NnvgRun -------------------------------
(* System-level run specification of the generator (growth build G1): I-layer and bounded design.           *)
(*                                                                                                         *)
(* State: fs (path -> [e exists, m mode, w writes]), run (mode, output directory as spelled, allow_overwrite,*)
(* file mode if a SetFileMode is in force, which generators run), reported (paths returned / printed),      *)
(* phase, and log: the sequence of observable steps (the P-layer of NnvgRunP decides on log + reported).    *)
(* One action per observable step of the real code:                                                        *)
(*   BeginRun(a)       ArgparseRunner.run / generate_all / generate_types is entered                        *)
(*   Pick / NextStage  support generator first, then the type generator; files of a generator in ANY order  *)
(*   Gate              CodeGenerator._handle_overwrite: exists /\ ~allow => PermissionError (EndRun error),  *)
(*                     exists /\ allow => ChmodWritable (mode | 0o220)                                       *)
(*   Mkdir             output_path.parent.mkdir(parents=True, exist_ok=True): pathlib tries the leaf, on     *)
(*                     ENOENT recurses to the parent and tries again (each os.mkdir is a step)               *)
(*   OpenTruncate / CopyFile   open(path, "w") / shutil.copy of a plain support resource                     *)
(*   Chmod             shutil.copy's copymode; SetFileMode (last file post-processor the CLI appends)        *)
(*   Spawn             ExternalProgramEditInPlace before SetFileMode                                        *)
(*   Rename            only the alternative writer (Writer = "atomic": temporary sibling + rename), which    *)
(*                     nnvg does not use: it shows that P admits it                                          *)
(*   Report            the path is appended to the returned list (dry run and list-outputs: the only step)   *)
(*   EndRun(result)                                                                                          *)
(* TLC checks I => P (PHolds) for every initial directory, every argument combination and every file order,  *)
(* ReplayAgrees (the P-layer's replay of the log reconstructs the model's directory) and IShape (the drift    *)
(* automaton of the T-layer accepts every log of this I-layer).  Negative controls: Bug # "none".            *)
EXTENDS NnvgRunP

CONSTANTS Bug,        \* "none" | "dry_mkdir" | "dotdot" | "support_no_gate" | "mode_first" | "unreported" | "rewrite"
          Writer,     \* "direct" (the code) | "atomic"
          Size        \* "q" | "t": which argument space

VARIABLES fs, run, reported, phase, stage, todo, cur, pc, mk, chain, log, result
vars == <<fs, run, reported, phase, stage, todo, cur, pc, mk, chain, log, result>>

(* interned path components *)
O == 1  X == 2  N == 3  T1 == 4  T2 == 5  S == 6  H == 7  TMP == 8

Outdirs == IF Size = "t" THEN {<<O>>, <<X, UP, O>>, <<O, N, UP>>} ELSE {<<O>>, <<X, UP, O>>}
FMs == IF Size = "t" THEN {292, 420} ELSE {292}
PreModes == {292, 420}
ResourceMode == 420

Rel(f) == IF f = 1 THEN <<S, H>> ELSE IF f = 2 THEN <<N, T1>> ELSE <<N, T2>>
PathOf(f, od) == (IF Bug = "dotdot" /\ f = 1 THEN od \o <<UP>> ELSE od) \o Rel(f)     \* as spelled, not normalised
TmpOf(f, od) == Parent(PathOf(f, od)) \o <<TMP + f>>

(* initial directories: the output directory and its parts may or may not be there, files with either mode *)
Fe(b, m) == [e |-> b, m |-> m, w |-> 0]
FileSts == {Fe(FALSE, 0)} \cup {Fe(TRUE, m) : m \in PreModes}
MkFs(o, n, s, a, b, c) ==
    (<<X>> :> Fe(TRUE, 493)) @@ (<<O>> :> Fe(o, 493)) @@ (<<O, N>> :> Fe(n, 493)) @@ (<<O, S>> :> Fe(s, 493))
    @@ (<<O, N, T1>> :> a) @@ (<<O, N, T2>> :> b) @@ (<<O, S, H>> :> c)
InitFs == {MkFs(o, n, s, a, b, c) : o, n, s \in BOOLEAN, a, b, c \in FileSts}
ValidFs(f) == /\ (f[<<O, N>>].e \/ f[<<O, S>>].e) => f[<<O>>].e
              /\ (f[<<O, N, T1>>].e \/ f[<<O, N, T2>>].e) => f[<<O, N>>].e
              /\ f[<<O, S, H>>].e => f[<<O, S>>].e
              /\ \A p \in {<<O>>, <<O, N>>, <<O, S>>} : ~f[p].e => f[p].m = 493     \* one representative

Exists(f, np) == np = <<>> \/ (np \in DOMAIN f /\ f[np].e)
ModeAt(f, np) == IF np \in DOMAIN f /\ f[np].e THEN f[np].m ELSE 0

Args == {[mode |-> mo, od |-> od, ovw |-> ov, hasfm |-> hf, fm |-> fm, sup |-> su, copy |-> cp, prog |-> pr] :
            mo \in Modes, od \in Outdirs, ov \in BOOLEAN, hf \in BOOLEAN, fm \in FMs, su \in BOOLEAN, cp \in BOOLEAN, pr \in BOOLEAN}
ValidArgs(a) == /\ (~a.hasfm => a.fm = 292) /\ (~a.sup => ~a.copy)
                /\ (a.mode \in Passive => (~a.prog /\ ~a.copy /\ ~a.hasfm /\ a.fm = 292))   \* irrelevant there: one representative
NoRun == [mode |-> "none"]
PRun(a) == [mode |-> a.mode, hasod |-> TRUE, od |-> a.od, ovw |-> a.ovw, hasfm |-> a.hasfm, fm |-> a.fm, dup |-> FALSE, hasrep |-> TRUE]

MkStep(k, p, q, m) ==
    LET np == Norm(p) IN
    [k |-> k, p |-> p, q |-> q, m |-> m, ex |-> Exists(fs, np), om |-> ModeAt(fs, np), pe |-> Exists(fs, Parent(np)), tmp |-> FALSE]
Do(s) == fs' = Apply(fs, s) /\ log' = Append(log, s)

Init == /\ fs \in {f \in InitFs : ValidFs(f)} /\ run = NoRun /\ reported = {} /\ phase = "idle" /\ stage = "none" /\ todo = {}
        /\ cur = 0 /\ pc = "pick" /\ mk = <<>> /\ chain = <<>> /\ log = <<>> /\ result = "none"

FilesOf(st) == IF st = "support" THEN {1} ELSE {2, 3}
Visits(a) == a.mode \in {"generate", "dryrun", "list_outputs"}

BeginRun(a) ==
    /\ phase = "idle" /\ phase' = "run" /\ run' = a
    /\ stage' = IF ~Visits(a) THEN "fin" ELSE IF a.sup THEN "support" ELSE "types"
    /\ todo' = IF ~Visits(a) THEN {} ELSE FilesOf(stage')
    /\ UNCHANGED <<fs, reported, cur, pc, mk, chain, log, result>>

Pick ==
    /\ phase = "run" /\ cur = 0 /\ pc = "pick" /\ todo # {}
    /\ \E f \in todo :
        /\ cur' = f /\ todo' = todo \ {f}
        /\ IF run.mode \in Passive
           THEN IF Bug = "dry_mkdir" /\ run.mode = "dryrun"
                THEN pc' = "mkdir" /\ mk' = <<Parent(PathOf(f, run.od))>>
                ELSE pc' = "report" /\ mk' = mk
           ELSE pc' = "gate" /\ mk' = mk
    /\ UNCHANGED <<fs, run, reported, phase, stage, chain, log, result>>

NextStage ==
    /\ phase = "run" /\ cur = 0 /\ pc = "pick" /\ todo = {} /\ stage \in {"support", "types"}
    /\ stage' = IF stage = "support" THEN "types"
                ELSE IF Bug = "rewrite" /\ run.mode = "generate" THEN "again" ELSE "fin"
    /\ todo' = IF stage = "support" THEN FilesOf("types") ELSE {}
    /\ UNCHANGED <<fs, run, reported, phase, cur, pc, mk, chain, log, result>>

EndRun(res) == phase' = "done" /\ result' = res

Gate ==
    /\ phase = "run" /\ pc = "gate"
    /\ LET p == PathOf(cur, run.od)
           gated == ~(Bug = "support_no_gate" /\ cur = 1) IN
       IF gated /\ Exists(fs, Norm(p))
       THEN IF ~run.ovw
            THEN EndRun("error") /\ UNCHANGED <<fs, run, reported, stage, todo, cur, pc, mk, chain, log>>
            ELSE /\ Do(MkStep("chmod", p, <<>>, Or(ModeAt(fs, Norm(p)), UGW)))
                 /\ pc' = "mkdir" /\ mk' = <<Parent(p)>>
                 /\ UNCHANGED <<run, reported, phase, stage, todo, cur, chain, result>>
       ELSE /\ pc' = "mkdir" /\ mk' = <<Parent(p)>>
            /\ UNCHANGED <<fs, run, reported, phase, stage, todo, cur, chain, log, result>>

Mkdir ==
    /\ phase = "run" /\ pc = "mkdir" /\ mk # <<>>
    /\ LET s == MkStep("mkdir", Head(mk), <<>>, 511) IN
       /\ Do(s)
       /\ mk' = IF s.ex \/ s.pe THEN Tail(mk) ELSE <<Parent(Head(mk))>> \o mk
    /\ UNCHANGED <<run, reported, phase, stage, todo, cur, pc, chain, result>>

PostChain(f) ==
    LET copymode == IF f = 1 /\ run.copy /\ Writer = "direct" THEN <<"copymode">> ELSE <<>>
        prog == IF run.prog THEN <<"prog">> ELSE <<>>
        setmode == IF run.hasfm THEN <<"setmode">> ELSE <<>>
    IN IF Bug = "mode_first" THEN setmode \o copymode \o prog ELSE copymode \o prog \o setmode

MkdirDone ==
    /\ phase = "run" /\ pc = "mkdir" /\ mk = <<>>
    /\ pc' = IF run.mode \in Passive THEN "report" ELSE "write"
    /\ UNCHANGED <<fs, run, reported, phase, stage, todo, cur, mk, chain, log, result>>

Write ==
    /\ phase = "run" /\ pc = "write"
    /\ LET p == PathOf(cur, run.od) IN
       IF Writer = "atomic"
       THEN Do(MkStep("open", TmpOf(cur, run.od), <<>>, 1)) /\ pc' = "rename" /\ chain' = chain
       ELSE /\ Do(MkStep(IF cur = 1 /\ run.copy THEN "copy" ELSE "open", p, <<>>, 1))
            /\ pc' = "post" /\ chain' = PostChain(cur)
    /\ UNCHANGED <<run, reported, phase, stage, todo, cur, mk, result>>

Rename ==
    /\ phase = "run" /\ pc = "rename"
    /\ Do(MkStep("rename", TmpOf(cur, run.od), PathOf(cur, run.od), 0))
    /\ pc' = "post" /\ chain' = PostChain(cur)
    /\ UNCHANGED <<run, reported, phase, stage, todo, cur, mk, result>>

Post ==
    /\ phase = "run" /\ pc = "post" /\ chain # <<>>
    /\ LET p == PathOf(cur, run.od) a == Head(chain) IN
       Do(IF a = "copymode" THEN MkStep("chmod", p, <<>>, ResourceMode)
          ELSE IF a = "prog" THEN MkStep("spawn", p, <<>>, 0)
          ELSE MkStep("chmod", p, <<>>, run.fm))
    /\ chain' = Tail(chain)
    /\ UNCHANGED <<run, reported, phase, stage, todo, cur, pc, mk, result>>

PostDone ==
    /\ phase = "run" /\ pc = "post" /\ chain = <<>>
    /\ pc' = "report"
    /\ UNCHANGED <<fs, run, reported, phase, stage, todo, cur, mk, chain, log, result>>

Report ==
    /\ phase = "run" /\ pc = "report"
    /\ reported' = IF Bug = "unreported" /\ cur = 1 THEN reported ELSE reported \cup {PathOf(cur, run.od)}
    /\ cur' = 0 /\ pc' = "pick"
    /\ UNCHANGED <<fs, run, phase, stage, todo, mk, chain, log, result>>

Again ==      \* negative control: the first type file is opened once more at the end of the run
    /\ phase = "run" /\ stage = "again" /\ cur = 0
    /\ Do(MkStep("open", PathOf(2, run.od), <<>>, 1))
    /\ stage' = "fin"
    /\ UNCHANGED <<run, reported, phase, todo, cur, pc, mk, chain, result>>

Finish ==
    /\ phase = "run" /\ stage = "fin" /\ cur = 0
    /\ EndRun("ok")
    /\ UNCHANGED <<fs, run, reported, stage, todo, cur, pc, mk, chain, log>>

Next == \/ \E a \in {x \in Args : ValidArgs(x)} : BeginRun(a)
        \/ Pick \/ NextStage \/ Gate \/ Mkdir \/ MkdirDone \/ Write \/ Rename \/ Post \/ PostDone \/ Report \/ Again \/ Finish

Spec == Init /\ [][Next]_vars

(* ------------------------------------------------------------------------------------------------------ *)
(* what TLC checks                                                                                         *)
(* ------------------------------------------------------------------------------------------------------ *)
Done == phase = "done"
Failed == FailedClauses(PRun(run), log, reported, result = "ok")
PHolds == Done => Failed = {}
P_passive     == Done => "sys.passive_no_effect" \notin Failed
P_inside      == Done => "sys.inside_outdir" \notin Failed
P_no_overwrite == Done => "sys.no_overwrite" \notin Failed
P_write_once  == Done => "sys.write_once" \notin Failed
P_reported    == Done => "sys.reported_eq_written" \notin Failed
P_final_mode  == Done => "sys.final_mode" \notin Failed

(* the replay of the P-layer (which sees only the log) reconstructs the directory of the model                *)
ReplayAgrees == LET st == Replay(log) IN
                \A p \in DOMAIN st.fs : st.fs[p].e = Exists(fs, p) /\ (st.fs[p].e => st.fs[p].m = ModeAt(fs, p))
(* the drift automaton of the T-layer accepts every log of this I-layer (direct writer)                        *)
IShape == (Done /\ Writer = "direct") => (ShapeOK(PRun(run), log) /\ ModeLastOK(PRun(run), log))
(* design facts: a refused run has not touched the conflicting file; passive runs leave fs as it was             *)
RefusedOnlyOnConflict == (Done /\ result = "error") => (~run.ovw /\ run.mode = "generate")
TypeOK == /\ phase \in {"idle", "run", "done"} /\ result \in {"none", "ok", "error"}
          /\ pc \in {"pick", "gate", "mkdir", "write", "rename", "post", "report"}
          /\ cur \in 0..3
=============================================================================
