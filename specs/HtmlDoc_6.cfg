SPECIFICATION SSpec
CONSTANTS
  MaxLen = 6
INVARIANT AcceptsExactlyWellFormed
INVARIANT BalancedClause
INVARIANT SentinelClause
INVARIANT StackIsOpenTags
CHECK_DEADLOCK FALSE
