----------------------------- MODULE BitPrimsP -----------------------------
(* The P-layer operators of BitPrims without the I-layer's variables (for the trace spec). *)
EXTENDS Ieee, TLC
Min2(a, b) == IF a < b THEN a ELSE b
Max2(a, b) == IF a > b THEN a ELSE b
(* ------------------------------------------------ P-layer ------------------------------------------------ *)
(* copy len bits src[so..] -> dst[do..]; precondition: both ranges inside their buffers *)
PCopy(dst, do, len, src, so) ==
    LET d == BitsOfBytes(dst)
        s == BitsOfBytes(src)
    IN BytesOfBits([i \in 1..Len(d) |-> IF i > do /\ i <= do + len THEN s[so + (i - do)] ELSE d[i]])

SatBits(size, off, len) == Min2(len, (8 * size) - Min2(8 * size, off))

(* bounded fetch: ceil(len/8) output bytes are written: the available bits, then zeros; the rest of `out` stays *)
PGetBits(out, buf, off, len) ==          \* buf: exactly the declared bytes
    LET o == BitsOfBytes(out)
        b == BitsOfBytes(buf)
        n == 8 * ((len + 7) \div 8)
        sat == SatBits(Len(buf), off, len)
    IN BytesOfBits([i \in 1..Len(o) |-> IF i <= n THEN (IF i <= sat THEN b[off + i] ELSE 0) ELSE o[i]])

(* set: too small => error and untouched; else exactly bits off+1..off+min(len,64) are replaced *)
(* buf is the PHYSICAL memory (declared bytes followed by guard bytes), size the declared size *)
PSetU(buf, size, off, val, len) ==
    IF 8 * size < off + len THEN [rc |-> "too_small", out |-> buf]
    ELSE LET b == BitsOfBytes(buf)
             v == BitsOfBytes(val)
             n == Min2(len, 64)
         IN [rc |-> "none", out |-> BytesOfBits([i \in 1..Len(b) |-> IF i > off /\ i <= off + n THEN v[i - off] ELSE b[i]])]

PSetBit(buf, size, off, bit) ==
    IF 8 * size <= off THEN [rc |-> "too_small", out |-> buf]
    ELSE LET b == BitsOfBytes(buf)
         IN [rc |-> "none", out |-> BytesOfBits([i \in 1..Len(b) |-> IF i = off + 1 THEN bit ELSE b[i]])]

(* get: min(len, W) bits, bits beyond the buffer are zero, result zero- / sign-extended to W *)
(* only the first `size` bytes of the physical memory exist for the callee: the rest must read as zero *)
PGetU(W, buf, size, off, len) == BytesOfBits(Take(Slice(BitsOfBytes(SubSeq(buf, 1, size)), off, Min2(len, W)), W))
PGetI(W, buf, size, off, len) ==
    LET n == Min2(len, W)
    IN IF n = 0 THEN BytesOfBits(Zeros(W)) ELSE BytesOfBits(SignExtTo(Slice(BitsOfBytes(SubSeq(buf, 1, size)), off, n), W))
(* float get: the fetched (zero-extended) pattern, half precision widened exactly *)
PGetFOK(W, buf, size, off, val) ==
    LET p == Slice(BitsOfBytes(SubSeq(buf, 1, size)), off, W)
    IN IF W = 16 THEN FloatEq(Widen(p, 32), BitsOfBytes(val)) ELSE FloatEq(p, BitsOfBytes(val))
(* float set: like PSetU with the (faithfully narrowed, for half) pattern *)
PSetFOK(W, buf, size, off, fval, rc, out) ==
    IF 8 * size < off + W THEN rc # "none" /\ out = buf
    ELSE /\ rc = "none"
         /\ LET o == BitsOfBytes(out)
                b == BitsOfBytes(buf)
                got == Slice(o, off, W)
            IN /\ \A i \in 1..Len(b) : (i <= off \/ i > off + W) => o[i] = b[i]
               /\ IF W = 16 THEN Faithful(BitsOfBytes(fval), got, FALSE) ELSE FloatEq(BitsOfBytes(fval), got)

(* half precision *)
PUnpackOK(h, f) == FloatEq(Widen(BitsOfBytes(h), 32), BitsOfBytes(f))
PPackOK(f, h) == Faithful(BitsOfBytes(f), BitsOfBytes(h), FALSE)
(* monotone on non-NaN inputs: a <= b (as reals) implies pack(a) <= pack(b); order via sign-magnitude keys *)
RECURSIVE MagLess(_, _, _)
MagLess(a, b, i) == IF i = 0 THEN FALSE ELSE IF a[i] # b[i] THEN a[i] < b[i] ELSE MagLess(a, b, i - 1)
FLess(a, b) ==          \* strict order of two non-NaN patterns of equal width, -0 = +0
    LET n == Len(a)
        za == AllZero(a, 1, n - 1)
        zb == AllZero(b, 1, n - 1)
    IN IF za /\ zb THEN FALSE
       ELSE IF a[n] = 1 /\ b[n] = 0 THEN TRUE
       ELSE IF a[n] = 0 /\ b[n] = 1 THEN FALSE
       ELSE IF a[n] = 0 THEN MagLess(a, b, n - 1) ELSE MagLess(b, a, n - 1)

=============================================================================
