--------------------------- MODULE StroppingTrace ---------------------------
(* T-layer for C09.  Every record is one QUESTION put to the real Language.filter_id (configuration, category, *)
(* input) together with every answer observed for it (first call, repeated call, after cache eviction, on a   *)
(* fresh language object, in a second process with another PYTHONHASHSEED).                                   *)
(*   - the P-layer operators of Stropping decide valid / reserved / identity / determinism;                  *)
(*   - the I-layer operator Pipe predicts the answer (and the stage trace): a difference under a satisfied P   *)
(*     is drift, and on a P failure Pipe tells whether the answer came out of a failure handler;              *)
(*   - r.py holds what Python's `re`/`str` say about the same atoms: a difference means the matcher of this    *)
(*     spec (or the harness) is wrong -> machinery failure, never a verdict.                                  *)
EXTENDS Stropping

Trace == ndJsonDeserialize(IOEnv.TRACE_FILE)

VARIABLE l

Ans(o) == [err |-> o.err, out |-> o.out, nf |-> o.nf, cc |-> o.cc]
Answers(r) == [i \in DOMAIN r.obs |-> Ans(r.obs[i])]

XCheck(r, ia, oa1) ==
    IF ia.v # r.py.iv THEN "harness.xcheck.iv"
    ELSE IF ia.r # r.py.ir THEN "harness.xcheck.ir"
    ELSE IF ia.l # r.py.il THEN "harness.xcheck.il"
    ELSE IF ia.e # r.py.ie THEN "harness.xcheck.ie"
    ELSE IF oa1.v # r.py.ov THEN "harness.xcheck.ov"
    ELSE IF oa1.r # r.py.orr THEN "harness.xcheck.or"
    ELSE "ok"

(* the property's clauses over every DISTINCT answer observed for the question, and determinism over all of them *)
PClauses(r, ia) ==
    LET c == r.cfg  k == r.kind  as == Answers(r)
        D  == {as[i] : i \in DOMAIN as}
        OA == [a \in D |-> OutAtoms(c, k, a)]
        v  == IF \A a \in D : ClauseValidA(a, OA[a]) THEN "" ELSE "+strop.valid"
        rs == IF \A a \in D : ClauseReservedA(a, OA[a]) THEN "" ELSE "+strop.reserved"
        id == IF \A a \in D : ClauseIdentityA(r.inp, ia, a) THEN "" ELSE "+strop.identity"
        dt == IF Deterministic(as) THEN "" ELSE "+strop.determinism"
    IN v \o rs \o id \o dt

SameOutcome(p, a) == p.err = a.err /\ (a.err \/ p.out = a.out)

(* records replayed from the model's own emission carry nopipe: the harness has compared them with the emitted *)
(* prediction already; Pipe is then evaluated only to classify a P failure.                                  *)
Verdict(r) ==
    LET ia == InAtoms(r.cfg, r.kind, r.inp, r.innf)
        a1 == Ans(r.obs[1])
        x  == XCheck(r, ia, OutAtoms(r.cfg, r.kind, a1))
    IN IF x # "ok" THEN <<x, "">>
       ELSE LET pc == PClauses(r, ia)
                p  == Pipe(r.cfg, r.kind, r.inp)
            IN IF pc # "" THEN <<pc, IF ~SameOutcome(p, a1) THEN "unmodelled" ELSE IF p.hnd THEN "via-handler" ELSE "as-modelled">>
               ELSE IF r.nopipe THEN <<"ok", "">>
               ELSE IF ~SameOutcome(p, a1) THEN <<"drift.out", "">>
               ELSE IF "steps" \in DOMAIN r /\ r.steps # p.steps THEN <<"drift.steps", "">>
               ELSE <<"ok", "">>

(* the variables of the I-layer state machine are not used by the trace spec *)
TInit == /\ l = 1
         /\ cfg = "" /\ kind = "" /\ inp = <<>> /\ stage = "" /\ tok = <<>> /\ err = FALSE /\ hnd = FALSE
         /\ steps = <<>> /\ memo = <<>> /\ asked = 0
TNext == /\ l <= Len(Trace)
         /\ UNCHANGED vars
         /\ LET v == Verdict(Trace[l]) IN IF v[1] = "ok" THEN TRUE ELSE PrintT(<<"REJECT", Trace[l].id, v[1], v[2]>>)
         /\ l' = l + 1
TSpec == TInit /\ [][TNext]_<<l, vars>>
Accepted == TLCGet("stats").diameter - 1 = Len(Trace)
=============================================================================
