SPECIFICATION Spec
CONSTANTS
  EscMode = "markupsafe"
  LinkStyle = "sameprefix"
  MaxTok = 3
  Part = "links"
  Chains = FALSE
INVARIANT LinksRefineP
CHECK_DEADLOCK FALSE
