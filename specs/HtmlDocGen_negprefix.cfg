SPECIFICATION Spec
CONSTANTS
  EscMode = "markupsafe"
  LinkStyle = "sameprefix"
  MaxTok = 3
  Part = "links"
  ListStyle = "versioned"
  Chains = FALSE
  Configs = {"default"}
  SampleConfigs = {}
INVARIANT LinksRefineP
CHECK_DEADLOCK FALSE
