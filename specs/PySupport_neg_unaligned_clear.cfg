SPECIFICATION Spec
CONSTANTS
  Kind = "ser"
  MaxCalls = 3
  Level = 1
  FragMode = "join"
  Bug = "unaligned_clear"
  Emit = FALSE
INVARIANT RefinesSer
CHECK_DEADLOCK FALSE
