SPECIFICATION Spec
CONSTANTS
  CopyMode = "rebuild"
  Mode = "hist"
  Universe <- UHist
  Sharings = {"none", "doc"}
  AnyOrder = FALSE
  NB = 3
  MaxOps = 9
  Group = "none"
  Record = TRUE
  Slice = 0
  NSlices = 1
INVARIANT Refines
INVARIANT DocsUnmodified
INVARIANT CtxStable
INVARIANT NoSharing
INVARIANT Emit
CHECK_DEADLOCK FALSE
