SPECIFICATION Spec
CONSTANTS
  Little = FALSE
  Level = 2
  Bug = "none"
INVARIANT EmitPlan
CONSTRAINT OnlyTypes
CHECK_DEADLOCK FALSE
