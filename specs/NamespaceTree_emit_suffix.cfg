SPECIFICATION Spec
CONSTANTS
  Roots <- RootsRIf
  Names <- NamesSuffix
  Shorts <- ShortsT
  TwoVer <- TwoVerT
  MaxDepth = 2
  MaxTypes = 2
  StropMode = "suffix"
  GenNsChoices = {TRUE}
  Spellings = {"rel"}
  CanonNs = FALSE
  SupportFromRootParent = FALSE
INVARIANT Emit
CHECK_DEADLOCK FALSE
