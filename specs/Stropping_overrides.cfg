SPECIFICATION Spec
CHECK_DEADLOCK FALSE
INVARIANT IRefinesP
INVARIANT PipeAgrees
INVARIANT TypeOK
CONSTANTS
  CfgIds = {"c.affix.xy", "c.affix.swap", "c.affix.enc", "c.affix.noenc", "c.empty", "c.resv.plain", "cpp.affix.xy", "cpp.affix.swap", "cpp.affix.enc", "cpp.affix.noenc", "cpp.empty", "cpp.resv.plain", "py.affix.xy", "py.affix.swap", "py.affix.enc", "py.affix.noenc", "py.empty", "py.resv.plain", "py.resv.us"}
  Kinds = {"any", "path", "macro", "typedef", "function", "enum"}
  Alphabet = {105, 102, 110, 116, 111, 65, 69, 49, 95, 32, 45, 233, 178, 65353, 10084}
  MaxLen = 2
  Reverify = FALSE
  WithReask = FALSE
