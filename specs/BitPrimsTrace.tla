--------------------------- MODULE BitPrimsTrace ---------------------------
(* T-layer for C14: one record per call of a support-library primitive (C any/little, C++ bitspan, Python     *)
(* Serializer/Deserializer), judged by the pointwise contracts of BitPrimsP.                                   *)
EXTENDS BitPrimsP, Json, IOUtils

Trace == ndJsonDeserialize(IOEnv.TRACE_FILE)
VARIABLE l

(* pointer watch (records of the instrumented C build carry psrc = the largest byte offset from the declared source buffer at which a source  *)
(* pointer was formed, -1 = none): a bounded fetch never forms a pointer beyond one-past-the-end of the declared buffer (C04 / C14)            *)
PtrOK(r) == ("psrc" \in DOMAIN r) => r.psrc <= r.size

Verdict(r) ==
    IF ~PtrOK(r) THEN "prim.ptr_inside"
    ELSE IF r.ev = "copy" THEN (IF r.out = PCopy(r.dst, r.do, r.len, r.src, r.so) THEN "ok" ELSE "prim.copy")
    ELSE IF r.ev = "getbits" THEN (IF r.out = PGetBits(r.out0, SubSeq(r.buf, 1, r.size), r.off, r.len) THEN "ok" ELSE "prim.getbits")
    ELSE IF r.ev = "setu" THEN
        LET e == PSetU(r.buf, r.size, r.off, r.val, r.len)
        IN IF (r.rc = "none") # (e.rc = "none") THEN "prim.set.rc"
           ELSE IF r.rc # e.rc /\ r.kinds THEN "prim.set.rc"
           ELSE IF r.out # e.out THEN (IF e.rc = "none" THEN "prim.set.bits" ELSE "prim.outside_untouched")
           ELSE "ok"
    ELSE IF r.ev = "setbit" THEN
        LET e == PSetBit(r.buf, r.size, r.off, r.bit)
        IN IF (r.rc = "none") # (e.rc = "none") THEN "prim.set.rc"
           ELSE IF r.out # e.out THEN "prim.set.bits" ELSE "ok"
    ELSE IF r.ev = "getu" THEN (IF r.val = PGetU(r.W, r.buf, r.size, r.off, r.len) THEN "ok" ELSE "prim.get.value")
    ELSE IF r.ev = "geti" THEN (IF r.val = PGetI(r.W, r.buf, r.size, r.off, r.len) THEN "ok" ELSE "prim.get.signext")
    ELSE IF r.ev = "getf" THEN (IF PGetFOK(r.W, r.buf, r.size, r.off, r.val) THEN "ok" ELSE "prim.get.value")
    ELSE IF r.ev = "setf" THEN (IF PSetFOK(r.W, r.buf, r.size, r.off, r.f, r.rc, r.out) THEN "ok" ELSE "prim.set.bits")
    ELSE IF r.ev = "unpack" THEN (IF PUnpackOK(r.h, r.f) THEN "ok" ELSE "prim.f16.unpack")
    ELSE IF r.ev = "pack" THEN
        (IF ~PPackOK(r.f, r.h) THEN (IF IsNaN(BitsOfBytes(r.f)) \/ IsInf(BitsOfBytes(r.f)) THEN "prim.f16.class" ELSE "prim.f16.pack_faithful")
         ELSE "ok")
    ELSE IF r.ev = "rt16" THEN    \* unpack then pack returns the same half (NaNs: some NaN)
        (IF IsNaN(BitsOfBytes(r.h)) THEN (IF IsNaN(BitsOfBytes(r.h2)) THEN "ok" ELSE "prim.f16.roundtrip")
         ELSE IF r.h2 = r.h THEN "ok" ELSE "prim.f16.roundtrip")
    ELSE IF r.ev = "mono" THEN     \* a < b (non-NaN floats) => pack(a) <= pack(b)
        (IF FLess(BitsOfBytes(r.a), BitsOfBytes(r.b)) /\ FLess(BitsOfBytes(r.hb), BitsOfBytes(r.ha)) THEN "prim.f16.monotone" ELSE "ok")
    ELSE "harness.unknown_event"

TInit == l = 1
TNext == /\ l <= Len(Trace)
         /\ LET v == Verdict(Trace[l]) IN IF v = "ok" THEN TRUE ELSE PrintT(<<"REJECT", Trace[l].id, v>>)
         /\ l' = l + 1
TSpec == TInit /\ [][TNext]_l
Accepted == TLCGet("stats").diameter - 1 = Len(Trace)
=============================================================================
