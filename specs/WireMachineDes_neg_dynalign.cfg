SPECIFICATION Spec
CONSTANTS
    Little = FALSE
    Level = 1
    Clamp = TRUE
    Bug = "dynalign"
INVARIANT Refines
INVARIANT AssertsHold
INVARIANT ReadsInside
INVARIANT CallsBalanced
INVARIANT SizesNested
CHECK_DEADLOCK FALSE
