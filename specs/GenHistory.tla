----------------------------- MODULE GenHistory -----------------------------
(* C12 - regeneration over existing output is safe for every history of runs.                              *)
(*                                                                                                         *)
(* State: fs, the output directory as a partial function  path -> [c |-> content, m |-> permission bits].  *)
(*                                                                                                         *)
(* P-layer (section 2): the property as a RELATION between the directory before a run, the options, what  *)
(*   the same options produce in an empty directory (fresh), the reported status and the directory after. *)
(*   It is the most general system: every post-state the relation admits is acceptable, nothing about      *)
(*   order, intermediate modes, files the run does not generate (unless overwriting is disallowed).        *)
(*   Contents are opaque to P (only equality is used): sequences in the model, interned digests in traces. *)
(* I-layer (sections 3-4): nnvg as the code does it.  ArgparseRunner._generate runs the support generator  *)
(*   (SupportGenerator._generate_header for templates, ._copy_header for plain resources) and then the     *)
(*   type generator; every file goes through                                                               *)
(*     HandleOverwrite  CodeGenerator._handle_overwrite: exists /\ ~allow => PermissionError,              *)
(*                                                       exists /\ allow  => chmod(st_mode | 0o220)         *)
(*     OpenTruncate     open(path, "w") / shutil.copyfile: EACCES for a non-root caller without u+w,       *)
(*                      creates with 0o666 & ~umask, truncates                                             *)
(*     Write            the rendered text replaces what is in the file from offset 0                       *)
(*     CopyMode         only shutil.copy (copied resource, no line post-processor): mode of the resource   *)
(*     RunProgram       --pp-run-program (ExternalProgramEditInPlace): an external editor that appends in   *)
(*                      place (needs u+w for a non-root caller), saves atomically (temp file + rename: NEW   *)
(*                      inode with the temp file's mode 0o666 & ~umask) or does nothing                       *)
(*     SetMode          SetFileMode post-processor the CLI always appends LAST: chmod(file_mode)            *)
(*   The file post-processors are an ordered CHAIN per file over (content, mode, inode); the order is the    *)
(*   order of the list ArgparseRunner._build_post_processor_list_from_args builds (PPOrder).                 *)
(*   A run that is refused stops there: files handled before stay generated, later ones are not touched.   *)
(*   Environment between runs: Foreign(path) (a file nnvg did not write), Chmod(path, mode), Remove(path). *)
(* TLC checks I => P at every end of a run (invariant RunEndOK) over ALL histories (the model has no run   *)
(* counter: the reachable directory states are closed under further runs).                                 *)
EXTENDS Naturals, Sequences, FiniteSets, TLC, Json

CONSTANTS GenFiles,      \* generated paths in play, subset of 1..4: 1 templated support file, 2 copied support file, 3 4 type files
          OtherFiles,    \* paths no run generates (subset of {5})
          Modes,         \* permission bits requested by --file-mode / left by the environment
          Variants,      \* content-changing options: 0 plain, 1 longer (serialization asserts), 2 shorter (empty-line limit 0,
                         \* a line post-processor), 3 same length (trailing-white-space trimmer, a line post-processor),
                         \* --pp-run-program: 4 editor appending in place, 7 editor replacing by rename, 8 no-op program
          PPOrder,       \* "program_first": external program, then SetFileMode (the code); "mode_first": negative control
          ChmodGate,     \* TRUE: _handle_overwrite adds u+w,g+w before the file is opened (the code); FALSE: negative control
          CopyGate,      \* TRUE: _copy_header goes through _handle_overwrite (the code); FALSE: negative control
          Truncates,     \* TRUE: open(..., "w") truncates (the code); FALSE: negative control ("r+" style rewrite)
          Privileged,    \* TRUE: the caller is root (permission bits never refuse an open)
          OptsSel,       \* which options StartRun ranges over: "all" or a named subset (bounded-exhaustive case emission)
          EnvOn,         \* FALSE: no environment actions (case emission of pure run histories)
          Record,        \* TRUE: keep the history for case emission
          MaxSteps       \* history length bound for emission; 0 = unbounded (exhaustive check)

VARIABLES fs, pc, queue, chain, opts, pre, status, hist, nsteps
vars == <<fs, pc, queue, chain, opts, pre, status, hist, nsteps>>

(* ------------------------------------------------------------------------------------------------------ *)
(* 1. permission bits and directory helpers                                                                *)
(* ------------------------------------------------------------------------------------------------------ *)
RECURSIVE OrBits(_, _, _)
OrBits(a, b, i) ==
    IF i > 11 THEN 0
    ELSE (IF (a \div (2 ^ i)) % 2 = 1 \/ (b \div (2 ^ i)) % 2 = 1 THEN 2 ^ i ELSE 0) + OrBits(a, b, i + 1)
Or(a, b) == OrBits(a, b, 0)

UGW == 144                      \* 0o220
CreateMode == 420               \* 0o666 & ~0o022
ResourceMode == 420             \* mode of the packaged resource shutil.copy propagates
OwnerWritable(m) == (m \div 128) % 2 = 1

Put(f, p, r) == [q \in DOMAIN f \cup {p} |-> IF q = p THEN r ELSE f[q]]
Del(f, p) == [q \in DOMAIN f \ {p} |-> f[q]]
Empty == [q \in {} |-> 0]

Kind(f) == IF f = 1 THEN "tmpl" ELSE IF f = 2 THEN "copy" ELSE "type"

(* ------------------------------------------------------------------------------------------------------ *)
(* 2. P-layer                                                                                              *)
(* ------------------------------------------------------------------------------------------------------ *)
(* pre, post : path -> [c, m];  o : options with at least fm (requested mode) and no (--no-overwrite);      *)
(* fresh : path -> content of the run with the same options into an empty directory (its domain is the set *)
(* of files the run generates);  fok : that fresh run succeeded;  st : "ok" | "error".                     *)
(* The directory is benign: every file belongs to the caller and every directory is writable.              *)
Conflict(before, fresh) == (DOMAIN fresh \cap DOMAIN before) # {}

FailedClauses(before, o, fresh, fok, st, after) ==
    (IF o.no /\ \E p \in DOMAIN before : p \notin DOMAIN after \/ after[p] # before[p]
        THEN {"run.no_overwrite_untouched"} ELSE {})
    \cup (IF o.no /\ Conflict(before, fresh) /\ st # "error"
        THEN {"run.no_overwrite_error"} ELSE {})
    \cup (IF st = "ok" /\ \E p \in DOMAIN fresh : p \notin DOMAIN after \/ after[p].c # fresh[p]
        THEN {"run.fresh_content"} ELSE {})
    \cup (IF st = "ok" /\ \E p \in DOMAIN fresh : p \in DOMAIN after /\ after[p].m # o.fm
        THEN {"run.mode"} ELSE {})
    \cup (IF st = "error" /\ fok /\ ~(o.no /\ Conflict(before, fresh))
        THEN {"run.completes"} ELSE {})

ClauseOrder == <<"run.no_overwrite_untouched", "run.no_overwrite_error", "run.fresh_content", "run.mode", "run.completes">>
FirstClause(bad) == LET s == SelectSeq(ClauseOrder, LAMBDA c : c \in bad) IN IF s = <<>> THEN "ok" ELSE s[1]

PRun(before, o, fresh, fok, st, after) == FailedClauses(before, o, fresh, fok, st, after) = {}

(* ------------------------------------------------------------------------------------------------------ *)
(* 3. I-layer: options, generated set, per-file steps (operators shared with the T-layer)                  *)
(* ------------------------------------------------------------------------------------------------------ *)
GS == {"never", "asneeded", "only", "always"}
AllOpts == {o \in [fm : Modes, no : BOOLEAN, omit : BOOLEAN, gs : GS, v : Variants] :
               ~(o.omit /\ o.gs = "always")}          \* rejected by the argument parser
NoOpts == [fm |-> 0, no |-> FALSE, omit |-> FALSE, gs |-> "never", v |-> 0]
Lpp(o) == o.v \in {2, 3}
Rp(o) == IF o.v = 4 THEN "inplace" ELSE IF o.v = 7 THEN "replace" ELSE IF o.v = 8 THEN "noop" ELSE "none"
Edits(o) == Rp(o) \in {"inplace", "replace"}          \* the program appends one unit to what the generator wrote
(* the ordered chain of file post-processors of one file                                                    *)
FileChain(o) == LET prog == IF Rp(o) = "none" THEN <<>> ELSE <<Rp(o)>>
                IN IF PPOrder = "program_first" THEN prog \o <<"setmode">> ELSE <<"setmode">> \o prog
RunOpts == IF OptsSel = "all" THEN AllOpts
           ELSE IF OptsSel = "q28" THEN {o \in AllOpts : o.fm \in {292, 420} /\ o.v = 0}
           ELSE IF OptsSel = "t56" THEN {o \in AllOpts : o.fm \in {292, 420} /\ o.v \in {0, 2}}
           ELSE {o \in AllOpts : o.fm \in {292, 420} /\ o.v = 0 /\ (o.gs = "asneeded" \/ (~o.omit /\ o.gs \in {"only", "never"}))}                               \* a line post-processor is in force

(* ArgparseRunner._should_generate_support; c/c++ support consists of serialization support only            *)
SupportRuns(o) == IF o.gs = "asneeded" THEN ~o.omit ELSE o.gs \in {"always", "only"}
Gen(o) == GenFiles \cap ((IF SupportRuns(o) /\ ~o.omit THEN {1, 2} ELSE {}) \cup (IF o.gs # "only" THEN {3, 4} ELSE {}))
Order(o) == SelectSeq(<<1, 2, 3, 4>>, LAMBDA f : f \in Gen(o))     \* support generator first

(* model contents: homogeneous sequences, so that a torn file (tail of an older, longer content) is visible *)
Tag(f, o) == f * 1000 + (IF Kind(f) = "type" /\ o.omit THEN 100 ELSE 0) + o.v
FreshLen(f, o) == IF Kind(f) = "type" /\ o.omit THEN (IF Edits(o) THEN 2 ELSE 1)
                  ELSE IF o.v = 1 \/ Edits(o) THEN 4 ELSE IF o.v = 2 THEN 2 ELSE 3
FreshContent(f, o) == [i \in 1..FreshLen(f, o) |-> Tag(f, o)]
Rendered(f, o) == IF Edits(o) THEN SubSeq(FreshContent(f, o), 1, FreshLen(f, o) - 1) ELSE FreshContent(f, o)
Fresh(o) == [f \in Gen(o) |-> FreshContent(f, o)]
ForeignContent(k) == IF k = "long" THEN [i \in 1..5 |-> 9001] ELSE <<9002>>
Overlay(new, old) == new \o SubSeq(old, Len(new) + 1, Len(old))

Gated(f) == Kind(f) # "copy" \/ CopyGate
OvwRefuses(d, f, o) == f \in DOMAIN d /\ o.no /\ Gated(f)
StepOvw(d, f, o) == IF f \in DOMAIN d /\ Gated(f) /\ ChmodGate THEN [d EXCEPT ![f].m = Or(@, UGW)] ELSE d
OpenDenied(d, f) == f \in DOMAIN d /\ ~Privileged /\ ~OwnerWritable(d[f].m)
StepOpen(d, f) == IF f \in DOMAIN d THEN (IF Truncates THEN [d EXCEPT ![f].c = <<>>] ELSE d)
                  ELSE Put(d, f, [c |-> <<>>, m |-> CreateMode, i |-> 0])
StepWrite(d, f, o) == [d EXCEPT ![f].c = Overlay(Rendered(f, o), @)]
HasCopyMode(f, o) == Kind(f) = "copy" /\ ~Lpp(o)
StepCopyMode(d, f) == [d EXCEPT ![f].m = ResourceMode]
StepSetMode(d, f, o) == [d EXCEPT ![f].m = o.fm]
(* the external program as the caller's uid: appending in place needs u+w; a rename only needs the directory  *)
ProgDenied(d, f, k) == k = "inplace" /\ ~Privileged /\ ~OwnerWritable(d[f].m)
StepProg(d, f, o, k) == IF k = "inplace" THEN [d EXCEPT ![f].c = Append(@, Tag(f, o))]
                        ELSE IF k = "replace" THEN [d EXCEPT ![f] = [c |-> Append(@.c, Tag(f, o)), m |-> CreateMode, i |-> 1 - @.i]]
                        ELSE d

(* ------------------------------------------------------------------------------------------------------ *)
(* 4. I-layer: the state machine                                                                           *)
(* ------------------------------------------------------------------------------------------------------ *)
AllPaths == GenFiles \cup OtherFiles
FsJ(d) == LET ps == SelectSeq(<<1, 2, 3, 4, 5>>, LAMBDA p : p \in DOMAIN d)
          IN [i \in 1..Len(ps) |-> [p |-> ps[i], c |-> d[ps[i]].c, m |-> d[ps[i]].m]]
Log(rec) == IF Record THEN Append(hist, rec) ELSE hist
Bounded == MaxSteps > 0
CanStep == pc = "idle" /\ status = "none" /\ (Bounded => nsteps < MaxSteps)
Tick == IF Bounded THEN nsteps + 1 ELSE nsteps

Init == /\ fs = Empty /\ pc = "idle" /\ queue = <<>> /\ chain = <<>> /\ opts = NoOpts /\ pre = Empty
        /\ status = "none" /\ hist = <<>> /\ nsteps = 0

End(o, st, d) ==
    /\ pc' = "idle" /\ status' = st /\ queue' = <<>> /\ chain' = <<>> /\ fs' = d
    /\ hist' = Log([a |-> "run", o |-> o, st |-> st, fs |-> FsJ(d)])
    /\ nsteps' = Tick

StartRun(o) ==
    /\ CanStep
    /\ pre' = fs /\ opts' = o
    /\ IF Order(o) = <<>>
       THEN End(o, "ok", fs)
       ELSE /\ pc' = "ovw" /\ queue' = Order(o) /\ status' = "none"
            /\ UNCHANGED <<fs, chain, hist, nsteps>>

HandleOverwrite ==
    /\ pc = "ovw"
    /\ LET f == Head(queue) IN
       IF OvwRefuses(fs, f, opts)
       THEN End(opts, "error", fs) /\ UNCHANGED <<opts, pre>>
       ELSE /\ fs' = StepOvw(fs, f, opts) /\ pc' = "open"
            /\ UNCHANGED <<queue, chain, opts, pre, status, hist, nsteps>>

OpenTruncate ==
    /\ pc = "open"
    /\ LET f == Head(queue) IN
       IF OpenDenied(fs, f)
       THEN End(opts, "error", fs) /\ UNCHANGED <<opts, pre>>
       ELSE /\ fs' = StepOpen(fs, f) /\ pc' = "write"
            /\ UNCHANGED <<queue, chain, opts, pre, status, hist, nsteps>>

Write ==
    /\ pc = "write"
    /\ LET f == Head(queue) IN
       /\ fs' = StepWrite(fs, f, opts)
       /\ pc' = IF HasCopyMode(f, opts) THEN "copymode" ELSE "chain"
    /\ chain' = FileChain(opts)
    /\ UNCHANGED <<queue, opts, pre, status, hist, nsteps>>

CopyMode ==
    /\ pc = "copymode"
    /\ fs' = StepCopyMode(fs, Head(queue)) /\ pc' = "chain"
    /\ UNCHANGED <<queue, chain, opts, pre, status, hist, nsteps>>

(* the chain of file post-processors, in list order                                                          *)
RunProgram ==
    /\ pc = "chain" /\ chain # <<>> /\ Head(chain) # "setmode"
    /\ LET f == Head(queue) k == Head(chain) IN
       IF ProgDenied(fs, f, k)
       THEN End(opts, "error", fs) /\ UNCHANGED <<opts, pre>>        \* the program fails, check=True: the run ends
       ELSE /\ fs' = StepProg(fs, f, opts, k) /\ chain' = Tail(chain)
            /\ UNCHANGED <<pc, queue, opts, pre, status, hist, nsteps>>

SetMode ==
    /\ pc = "chain" /\ chain # <<>> /\ Head(chain) = "setmode"
    /\ fs' = StepSetMode(fs, Head(queue), opts) /\ chain' = Tail(chain)
    /\ UNCHANGED <<pc, queue, opts, pre, status, hist, nsteps>>

FileDone ==
    /\ pc = "chain" /\ chain = <<>>
    /\ IF Tail(queue) = <<>>
       THEN End(opts, "ok", fs) /\ UNCHANGED <<opts, pre>>
       ELSE /\ queue' = Tail(queue) /\ pc' = "ovw"
            /\ UNCHANGED <<fs, chain, opts, pre, status, hist, nsteps>>

(* the end of a run is an observation point (RunEndOK is evaluated there); afterwards the run's bookkeeping is    *)
(* forgotten so that equal directories are equal states                                                    *)
Settle ==
    /\ pc = "idle" /\ status # "none"
    /\ pre' = Empty /\ opts' = NoOpts /\ status' = "none"
    /\ UNCHANGED <<fs, pc, queue, chain, hist, nsteps>>

EnvDone(rec, d) ==
    /\ fs' = d
    /\ hist' = Log(rec @@ [fs |-> FsJ(d)]) /\ nsteps' = Tick
    /\ UNCHANGED <<pc, queue, chain, pre, opts, status>>

Foreign(p, k, m) ==
    /\ CanStep
    /\ EnvDone([a |-> "foreign", p |-> p, k |-> k, m |-> m], Put(fs, p, [c |-> ForeignContent(k), m |-> m, i |-> 0]))

Chmod(p, m) ==
    /\ CanStep /\ p \in DOMAIN fs /\ fs[p].m # m
    /\ EnvDone([a |-> "chmod", p |-> p, m |-> m], [fs EXCEPT ![p].m = m])

Remove(p) ==
    /\ CanStep /\ p \in DOMAIN fs
    /\ EnvDone([a |-> "remove", p |-> p], Del(fs, p))

Next ==
    \/ /\ CanStep
       /\ \/ \E o \in RunOpts : StartRun(o)
          \/ EnvOn /\ \E p \in AllPaths, k \in {"long", "short"}, m \in Modes : Foreign(p, k, m)
          \/ EnvOn /\ \E p \in AllPaths, m \in Modes : Chmod(p, m)
          \/ EnvOn /\ \E p \in AllPaths : Remove(p)
    \/ HandleOverwrite \/ OpenTruncate \/ Write \/ CopyMode \/ RunProgram \/ SetMode \/ FileDone \/ Settle

Spec == Init /\ [][Next]_vars

(* ------------------------------------------------------------------------------------------------------ *)
(* 5. what TLC checks                                                                                      *)
(* ------------------------------------------------------------------------------------------------------ *)
RunEnded == pc = "idle" /\ status # "none"

(* I => P at every end of a run                                                                            *)
RunEndOK == RunEnded => PRun(pre, opts, Fresh(opts), TRUE, status, fs)

(* design facts beyond P *)
Homogeneous(c) == \A i \in DOMAIN c : c[i] = c[1]
NoTornFile == pc = "idle" => \A p \in DOMAIN fs : fs[p].c # <<>> /\ Homogeneous(fs[p].c)   \* also after refused runs
IdleModes == pc = "idle" => \A p \in DOMAIN fs : fs[p].m \in Modes                          \* no u+w left behind
NeverDenied == (pc = "open" /\ ~Privileged) => ~OpenDenied(fs, Head(queue))                 \* the gate makes EACCES impossible
RefusedOnlyOnConflict == (RunEnded /\ status = "error") => (opts.no /\ Conflict(pre, Fresh(opts)))
(* the mode clause on its own: whatever the history and the post-processor options                            *)
RequestedMode == (RunEnded /\ status = "ok") => \A f \in Gen(opts) : f \in DOMAIN fs /\ fs[f].m = opts.fm
UntouchedOthers == RunEnded => \A p \in DOMAIN pre \ Gen(opts) : p \in DOMAIN fs /\ fs[p] = pre[p]

TypeOK ==
    /\ pc \in {"idle", "ovw", "open", "write", "copymode", "chain"}
    /\ status \in {"none", "ok", "error"}
    /\ DOMAIN fs \subseteq AllPaths
    /\ (pc # "idle" => queue # <<>> /\ opts \in AllOpts)

(* case emission: one JSON history per behaviour of MaxSteps steps                                         *)
Terminal == Bounded /\ pc = "idle" /\ status = "none" /\ nsteps = MaxSteps
Emit == (Record /\ Terminal) => PrintT(ToJson(hist))
=============================================================================
