------------------------------ MODULE HtmlDoc ------------------------------
(* P-layer for C20: what it means for the pages of one generator run to be well-formed, escaped and          *)
(* internally linked.  The property is stated over the TOKEN EVENTS a strict HTML tokenizer reports for each  *)
(* page (the harness uses html.parser with bookkeeping; the I-layer HtmlDocGen has its own character-level    *)
(* lexer).  The acceptor is a total function  Step(state, event) : it never blocks, it records every          *)
(* rejection of the current step in  rej  and carries on, so verdicts are total.                              *)
(*                                                                                                            *)
(* Events (records; names and text are code point sequences, never strings):                                  *)
(*   [k |-> "run",  exp, nt]                  start of a generator run; exp[sid] = payload planted as span sid; *)
(*                                            the input has the types 0..nt-1 (text refs name them, version-exact) *)
(*   [k |-> "doc",  pg, path]                 start of a page; path = <<segment, ...>> below the output dir    *)
(*   [k |-> "open", t, a, sc, taint, bad]     start tag t, attributes a[i] = [n, hv, v (pieces)], self-closing *)
(*   [k |-> "close", t, taint, bad]           end tag                                                         *)
(*   [k |-> "text", raw, p (pieces), refs, bad]   character data (raw: inside script/style); refs = types of   *)
(*                                            the run named by the text                                        *)
(*   [k |-> "comment", tm, tn]                comment / declaration / processing instruction / CDATA section    *)
(*   [k |-> "enddoc"]  [k |-> "endrun"]                                                                       *)
(* A piece is [m |-> 0, s |-> text] or a sentinel mark [m |-> 1 (span opens) | 2 (span closes), i |-> sid].    *)
(* taint / tm = number of sentinel occurrences inside a tag name, attribute name, comment.                     *)
(* bad = well-formedness defects the tokenizer had to recover from.                                           *)
EXTENDS Naturals, Sequences, FiniteSets, TLC

(* ---------------------------------------- vocabulary ---------------------------------------------------- *)
N_area == <<97, 114, 101, 97>>              N_base == <<98, 97, 115, 101>>
N_br == <<98, 114>>                         N_col == <<99, 111, 108>>
N_embed == <<101, 109, 98, 101, 100>>       N_hr == <<104, 114>>
N_img == <<105, 109, 103>>                  N_input == <<105, 110, 112, 117, 116>>
N_link == <<108, 105, 110, 107>>            N_meta == <<109, 101, 116, 97>>
N_param == <<112, 97, 114, 97, 109>>        N_source == <<115, 111, 117, 114, 99, 101>>
N_track == <<116, 114, 97, 99, 107>>        N_wbr == <<119, 98, 114>>
N_script == <<115, 99, 114, 105, 112, 116>> N_style == <<115, 116, 121, 108, 101>>
N_svg == <<115, 118, 103>>                  N_math == <<109, 97, 116, 104>>
N_a == <<97>>                               N_id == <<105, 100>>
N_name == <<110, 97, 109, 101>>             N_href == <<104, 114, 101, 102>>
N_index_html == <<105, 110, 100, 101, 120, 46, 104, 116, 109, 108>>

VoidTags == {N_area, N_base, N_br, N_col, N_embed, N_hr, N_img, N_input, N_link, N_meta, N_param, N_source,
             N_track, N_wbr}
RawTags  == {N_script, N_style}
Foreign  == {N_svg, N_math}

HASH == 35   QMARK == 63   SLASH == 47   COLON == 58   DOT == 46

(* ---------------------------------------- URL resolution ------------------------------------------------ *)
MinOf(J) == CHOOSE j \in J : \A k \in J : j <= k
IndexOf(s, c) == LET J == {i \in 1..Len(s) : s[i] = c} IN IF J = {} THEN 0 ELSE MinOf(J)

(* split s at every c (recursion per separator, not per character) *)
RECURSIVE SplitFrom(_, _, _)
SplitFrom(s, c, i) ==
    LET J == {j \in i..Len(s) : s[j] = c}
    IN IF J = {} THEN <<SubSeq(s, i, Len(s))>>
       ELSE LET j == MinOf(J) IN <<SubSeq(s, i, j - 1)>> \o SplitFrom(s, c, j + 1)
SplitOn(s, c) == SplitFrom(s, c, 1)

(* remove_dot_segments of RFC 3986 over segment sequences; acc = FALSE once the path climbs above the root  *)
RECURSIVE Walk(_, _, _)
Walk(base, segs, i) ==
    IF i > Len(segs) THEN [ok |-> TRUE, path |-> base]
    ELSE IF segs[i] = <<DOT>> \/ segs[i] = <<>> THEN Walk(base, segs, i + 1)
    ELSE IF segs[i] = <<DOT, DOT>> THEN
        (IF base = <<>> THEN [ok |-> FALSE, path |-> <<>>] ELSE Walk(SubSeq(base, 1, Len(base) - 1), segs, i + 1))
    ELSE Walk(Append(base, segs[i]), segs, i + 1)

HasScheme(p) == \E i \in 2..Len(p) : p[i] = COLON /\ \A j \in 1..(i - 1) : p[j] # SLASH

(* Resolve a hyperlink found on  page  (a path below the output directory) against the set of produced pages. *)
(* A URL that denotes a directory denotes that directory's index.html AND NOTHING ELSE: that is the web         *)
(* convention (a server's directory index), it is not "whatever namespace page the run produced".  A run that    *)
(* names its namespace pages differently (--namespace-output-stem / --output-extension) produces no index.html, *)
(* so a directory URL then resolves to a page that is not among the produced ones.                             *)
(* Result: [ok, why, page, frag, dir]; dir = the URL denoted a directory (index.html was supplied by Resolve).  *)
Resolve(page, href, pages) ==
    LET h     == IndexOf(href, HASH)
        pq    == IF h = 0 THEN href ELSE SubSeq(href, 1, h - 1)
        frag  == IF h = 0 THEN <<>> ELSE SubSeq(href, h + 1, Len(href))
        q     == IndexOf(pq, QMARK)
        path  == IF q = 0 THEN pq ELSE SubSeq(pq, 1, q - 1)
    IN  IF path = <<>> THEN [ok |-> TRUE, why |-> "ok", page |-> page, frag |-> frag, dir |-> FALSE]
        ELSE IF HasScheme(path) THEN [ok |-> FALSE, why |-> "external", page |-> <<>>, frag |-> frag, dir |-> FALSE]
        ELSE LET base == IF path[1] = SLASH THEN <<>> ELSE SubSeq(page, 1, Len(page) - 1)
                 segs == SplitOn(path, SLASH)
                 w    == Walk(base, segs, 1)
                 dir  == path[Len(path)] = SLASH \/ segs[Len(segs)] \in {<<DOT>>, <<DOT, DOT>>}
             IN  IF ~w.ok THEN [ok |-> FALSE, why |-> "outside-output", page |-> <<>>, frag |-> frag, dir |-> FALSE]
                 ELSE LET isdir == dir \/ (w.path \notin pages /\ Append(w.path, N_index_html) \in pages)
                          tgt   == IF isdir THEN Append(w.path, N_index_html) ELSE w.path
                      IN [ok |-> TRUE, why |-> "ok", page |-> tgt, frag |-> frag, dir |-> isdir]

(* THE link clause: the link points to a page and an anchor the run produced.                                *)
LinkVerdict(lk, pages, ids) ==
    LET r == Resolve(lk.from, lk.href, pages)
    IN  IF ~r.ok THEN r.why
        ELSE IF r.page \notin pages THEN "page-not-produced"
        ELSE IF r.frag # <<>> /\ <<r.page, r.frag>> \notin ids THEN "anchor-not-produced"
        ELSE "ok"

(* ---------------------------------------- acceptor state ------------------------------------------------ *)
NoDoc == [pg |-> 0, page |-> <<>>, stack |-> <<>>, span |-> 0, broken |-> FALSE, acc |-> <<>>,
          ain |-> FALSE, ahas |-> FALSE, ahref |-> <<>>, arefs |-> {}, aspan |-> FALSE, pids |-> {}]

Init0 == [doc |-> NoDoc, exp |-> <<>>, nt |-> 0, pages |-> {}, ids |-> {}, links |-> {}, rej |-> <<>>, notes |-> <<>>,
          lrej |-> {}, trej |-> {}, srej |-> {}]

Rej(s, clause, detail, arg) == [s EXCEPT !.rej = Append(@, [clause |-> clause, detail |-> detail, arg |-> arg])]
Note(s, clause, arg)        == [s EXCEPT !.notes = Append(@, [clause |-> clause, arg |-> arg])]

RECURSIVE RejAll(_, _, _, _)
RejAll(s, clause, details, i) ==
    IF i > Len(details) THEN s ELSE RejAll(Rej(s, clause, details[i], 0), clause, details, i + 1)

Expected(s, sid) == IF sid \in 1..Len(s.exp) THEN s.exp[sid] ELSE <<>>

(* text of a piece sequence with the marks removed *)
RECURSIVE PlainOf(_, _)
PlainOf(ps, i) == IF i > Len(ps) THEN <<>> ELSE (IF ps[i].m = 0 THEN ps[i].s ELSE <<>>) \o PlainOf(ps, i + 1)

(* ---- sentinel clause, character data: a span opens and closes in character data with nothing but        ---- *)
(* ---- character data in between                                                                          ---- *)
RECURSIVE TextFold(_, _, _)
TextFold(s, ps, i) ==
    IF i > Len(ps) THEN s
    ELSE LET p == ps[i]
             d == s.doc
         IN TextFold(
              IF p.m = 0 THEN (IF d.span # 0 THEN [s EXCEPT !.doc.acc = @ \o p.s] ELSE s)
              ELSE IF p.m = 1 THEN
                   LET s1 == [s EXCEPT !.doc.span = p.i, !.doc.acc = <<>>, !.doc.broken = FALSE]
                   IN IF d.span # 0 /\ ~d.broken THEN Rej(s1, "html.sentinel", "span-not-closed", d.span) ELSE s1
              ELSE LET s1 == [s EXCEPT !.doc.span = 0, !.doc.acc = <<>>, !.doc.broken = FALSE]
                   IN IF d.span = p.i
                      THEN (IF ~d.broken /\ d.acc # Expected(s, p.i) THEN Note(s1, "html.text_fidelity", p.i) ELSE s1)
                      ELSE Rej(s1, "html.sentinel", "close-without-open", p.i),
              ps, i + 1)

(* ---- sentinel clause, attribute value: spans are complete inside ONE value                              ---- *)
RECURSIVE ValueFold(_, _, _, _, _)
ValueFold(s, ps, i, span, acc) ==
    IF i > Len(ps) THEN (IF span # 0 THEN Rej(s, "html.sentinel", "attribute-breakout", span) ELSE s)
    ELSE LET p == ps[i]
         IN IF p.m = 0 THEN ValueFold(s, ps, i + 1, span, IF span # 0 THEN acc \o p.s ELSE acc)
            ELSE IF p.m = 1 THEN
                 ValueFold(IF span # 0 THEN Rej(s, "html.sentinel", "attribute-breakout", span) ELSE s, ps, i + 1, p.i, <<>>)
            ELSE IF span = p.i THEN
                 ValueFold(IF acc # Expected(s, p.i) THEN Note(s, "html.text_fidelity", p.i) ELSE s, ps, i + 1, 0, <<>>)
            ELSE ValueFold(Rej(s, "html.sentinel", "attribute-breakout", p.i), ps, i + 1, 0, <<>>)

(* anchors of a page: every id, and the name of an <a>; an id occurs once per page                             *)
RECURSIVE AttrFold(_, _, _, _)
AttrFold(s, as, i, tag) ==
    IF i > Len(as) THEN s
    ELSE LET a  == as[i]
             s1 == ValueFold(s, a.v, 1, 0, <<>>)
             v  == PlainOf(a.v, 1)
             s2 == IF a.hv /\ (a.n = N_id \/ (a.n = N_name /\ tag = N_a))
                   THEN (IF a.n = N_id /\ v \in s1.doc.pids
                         THEN Rej(s1, "html.balanced", "duplicate-id", 0)
                         ELSE [s1 EXCEPT !.doc.pids = @ \cup {v}])
                   ELSE s1
         IN AttrFold(s2, as, i + 1, tag)

(* markup (anything but character data) while a character-data span is open: the payload introduced it       *)
Markup(s) ==
    IF s.doc.span # 0 /\ ~s.doc.broken
    THEN Rej([s EXCEPT !.doc.broken = TRUE], "html.sentinel", "markup-in-span", s.doc.span)
    ELSE s

InForeign(stack) == \E i \in 1..Len(stack) : stack[i] \in Foreign

RECURSIVE LastIndex(_, _, _)
LastIndex(stack, t, i) == IF i = 0 THEN 0 ELSE IF stack[i] = t THEN i ELSE LastIndex(stack, t, i - 1)

HrefOf(as) == LET I == {i \in 1..Len(as) : as[i].n = N_href /\ as[i].hv} IN
              IF I = {} THEN [has |-> FALSE, v |-> <<>>]
              ELSE [has |-> TRUE, v |-> PlainOf(as[CHOOSE i \in I : \A j \in I : i <= j].v, 1)]

HasMark(ps) == \E i \in 1..Len(ps) : ps[i].m # 0
ValHasMark(as) == \E i \in 1..Len(as) : HasMark(as[i].v)
(* tokenizer recoveries (bad) on a token that carries or follows sentinel text were introduced by the payload: sentinel clause; *)
(* on a token of the template they are plain ill-formedness: balanced clause                                                  *)
Malformed(s, bad, payload, span) ==
    IF bad = <<>> THEN s
    ELSE IF payload THEN Rej(s, "html.sentinel", "malformed-markup-in-span", span)
    ELSE RejAll(s, "html.balanced", bad, 1)

(* ---------------------------------------- one action per event kind -------------------------------------- *)
DoRun(s, e) == [Init0 EXCEPT !.exp = e.exp, !.nt = e.nt]

DoDoc(s, e) == [s EXCEPT !.doc = [NoDoc EXCEPT !.pg = e.pg, !.page = e.path], !.rej = <<>>, !.notes = <<>>]

DoOpen(s, e) ==
    LET s0 == [s EXCEPT !.rej = <<>>, !.notes = <<>>]
        s1 == Markup(s0)
        s2 == IF e.taint > 0 THEN Rej(s1, "html.sentinel", "sentinel-in-tag-or-attribute-name", 0) ELSE s1
        s3 == AttrFold(s2, e.a, 1, e.t)
        s4 == Malformed(s3, e.bad, s.doc.span # 0 \/ e.taint > 0 \/ ValHasMark(e.a), s.doc.span)
        h  == HrefOf(e.a)
        \* an <a> that opens while a sentinel span is open may have been introduced by the payload: remembered in the link (inspan)
        s5 == IF e.t = N_a
              THEN [s4 EXCEPT !.doc.ain = TRUE, !.doc.ahas = h.has, !.doc.ahref = h.v, !.doc.arefs = {}, !.doc.aspan = s.doc.span # 0] ELSE s4
        void == e.t \in VoidTags \/ (e.sc /\ InForeign(s.doc.stack))
    IN IF void THEN s5 ELSE [s5 EXCEPT !.doc.stack = Append(@, e.t)]

DoClose(s, e) ==
    LET s0 == [s EXCEPT !.rej = <<>>, !.notes = <<>>]
        s1 == Markup(s0)
        s2 == IF e.taint > 0 THEN Rej(s1, "html.sentinel", "sentinel-in-tag-or-attribute-name", 0) ELSE s1
        s3 == Malformed(s2, e.bad, s.doc.span # 0 \/ e.taint > 0, s.doc.span)
        st == s.doc.stack
        k  == LastIndex(st, e.t, Len(st))
        s4 == IF st # <<>> /\ st[Len(st)] = e.t THEN [s3 EXCEPT !.doc.stack = SubSeq(st, 1, Len(st) - 1)]
              ELSE IF e.t \in VoidTags THEN Rej(s3, "html.balanced", "end-tag-of-void-element", 0)
              ELSE IF k = 0 THEN Rej(s3, "html.balanced", "stray-end-tag", 0)
              ELSE Rej([s3 EXCEPT !.doc.stack = SubSeq(st, 1, k - 1)], "html.balanced", "misnested", Len(st) - k)
    IN IF e.t = N_a /\ s.doc.ain
       THEN LET s5 == [s4 EXCEPT !.doc.ain = FALSE, !.doc.arefs = {}]
            IN IF s.doc.ahas /\ s.doc.arefs # {}
               THEN [s5 EXCEPT !.links = @ \cup {[pg |-> s.doc.pg, from |-> s.doc.page, href |-> s.doc.ahref, refs |-> s.doc.arefs, inspan |-> s.doc.aspan]}]
               ELSE s5
       ELSE s4

DoText(s, e) ==
    LET s0 == [s EXCEPT !.rej = <<>>, !.notes = <<>>]
        pl == s.doc.span # 0 \/ HasMark(e.p)
        s1 == Malformed(IF e.bad # <<>> /\ pl THEN [s0 EXCEPT !.doc.broken = TRUE] ELSE s0, e.bad, pl, s.doc.span)
    IN IF e.raw
       THEN (IF HasMark(e.p) THEN Rej(s1, "html.sentinel", "sentinel-in-raw-text-element", 0) ELSE s1)
       ELSE LET s2 == TextFold(s1, e.p, 1)
            IN IF s.doc.ain THEN [s2 EXCEPT !.doc.arefs = @ \cup {e.refs[i] : i \in 1..Len(e.refs)}] ELSE s2

DoComment(s, e) ==
    LET s0 == [s EXCEPT !.rej = <<>>, !.notes = <<>>]
        s1 == Markup(s0)
    IN IF e.tm > 0 THEN Rej(s1, "html.sentinel", "sentinel-in-comment-or-declaration", 0) ELSE s1

DoEndDoc(s, e) ==
    LET s0 == [s EXCEPT !.rej = <<>>, !.notes = <<>>]
        d  == s.doc
        s1 == IF d.stack # <<>> THEN Rej(s0, "html.balanced", "unclosed-at-end", Len(d.stack)) ELSE s0
        s2 == IF d.span # 0 /\ ~d.broken THEN Rej(s1, "html.sentinel", "span-not-closed", d.span) ELSE s1
    IN [s2 EXCEPT !.pages = @ \cup {d.page}, !.ids = @ \cup {<<d.page, i>> : i \in d.pids},
                  !.doc = [NoDoc EXCEPT !.pg = d.pg]]

(* end of run: every type-reference hyperlink of every page resolves; every type of the input is named by at    *)
(* least one hyperlink that resolves (it is listed and its anchor exists: no type is left out of the pages);   *)
(* hyperlinks for different types do not lead to the same anchor (one anchor per type and version).            *)
(* The rejections are kept as sets of records so that the T-layer can print one line each.                   *)
(* every link resolved and judged once: [lk |-> [to, frag, why]]                                              *)
Judged(links, pages, ids) ==
    [lk \in links |-> LET r == Resolve(lk.from, lk.href, pages)
                      IN [to |-> r.page, frag |-> r.frag, dir |-> r.dir,
                          why |-> IF ~r.ok THEN r.why
                                  ELSE IF r.page \notin pages THEN "page-not-produced"
                                  ELSE IF r.frag # <<>> /\ <<r.page, r.frag>> \notin ids THEN "anchor-not-produced"
                                  ELSE "ok"]]
BrokenJ(J) == {[link |-> lk, why |-> J[lk].why, to |-> J[lk].to, dir |-> J[lk].dir] : lk \in {lk \in DOMAIN J : J[lk].why # "ok"}}
UnlistedJ(nt, J) == LET good == {lk \in DOMAIN J : J[lk].why = "ok"} IN {t \in 0..nt : t < nt /\ ~\E lk \in good : t \in lk.refs}
SharedJ(J) ==
    LET one == {lk \in DOMAIN J : J[lk].why = "ok" /\ Cardinality(lk.refs) = 1 /\ J[lk].frag # <<>>}
    IN {[to |-> J[p[1]].to, frag |-> J[p[1]].frag, types |-> p[1].refs \cup p[2].refs] :
            p \in {p \in one \X one : p[1].refs # p[2].refs /\ J[p[1]].to = J[p[2]].to /\ J[p[1]].frag = J[p[2]].frag}}
Unlisted(nt, links, pages, ids) == UnlistedJ(nt, Judged(links, pages, ids))
SharedAnchors(links, pages, ids) == SharedJ(Judged(links, pages, ids))

DoEndRun(s, e) ==
    LET J == Judged(s.links, s.pages, s.ids)
    IN [s EXCEPT !.rej = <<>>, !.notes = <<>>, !.doc = NoDoc, !.lrej = BrokenJ(J), !.trej = UnlistedJ(s.nt, J), !.srej = SharedJ(J)]

Step(s, e) ==
    CASE e.k = "run"     -> DoRun(s, e)
      [] e.k = "doc"     -> DoDoc(s, e)
      [] e.k = "open"    -> DoOpen(s, e)
      [] e.k = "close"   -> DoClose(s, e)
      [] e.k = "text"    -> DoText(s, e)
      [] e.k = "comment" -> DoComment(s, e)
      [] e.k = "enddoc"  -> DoEndDoc(s, e)
      [] e.k = "endrun"  -> DoEndRun(s, e)

(* whole event sequences (used by the I-layer): all rejections and notes, in order                            *)
RECURSIVE RunAll(_, _, _, _, _)
RunAll(s, es, i, rejs, notes) ==
    IF i > Len(es) THEN [s |-> s, rej |-> rejs, notes |-> notes]
    ELSE LET s1 == Step(s, es[i]) IN RunAll(s1, es, i + 1, rejs \o s1.rej, notes \o s1.notes)

Clauses(rejs) == {rejs[i].clause : i \in 1..Len(rejs)}

(* ======================================== bounded sanity model ========================================== *)
(* All token strings of length <= MaxLen over a small alphabet are fed to the acceptor; it must accept        *)
(* exactly those that an INDEPENDENT definition calls well-formed: the tags form a Dyck word (defined by        *)
(* repeatedly deleting an adjacent <x></x> pair, not by a stack), and every sentinel span opens and closes      *)
(* in character data with nothing but character data in between.                                              *)
CONSTANT MaxLen
VARIABLES st, toks, seen

X == <<120>>
TextEv(ps, raw) == [k |-> "text", raw |-> raw, p |-> ps, refs |-> <<>>, bad |-> <<>>, pg |-> 1, n |-> 0]
OpenEv(t)  == [k |-> "open", t |-> t, a |-> <<>>, sc |-> FALSE, taint |-> 0, bad |-> <<>>, pg |-> 1, n |-> 0]
CloseEv(t) == [k |-> "close", t |-> t, taint |-> 0, bad |-> <<>>, pg |-> 1, n |-> 0]
Plain == [m |-> 0, i |-> 0, s |-> X]
MarkO(i) == [m |-> 1, i |-> i, s |-> <<>>]
MarkC(i) == [m |-> 2, i |-> i, s |-> <<>>]
N_p == <<112>>
N_pre == <<112, 114, 101>>

Tokens == {"p", "/p", "pre", "/pre", "br", "x", "s", "so", "sc", "script", "/script", "rawm", "c", "cm"}
Ev(tok) ==
    CASE tok = "p" -> OpenEv(N_p)           [] tok = "/p" -> CloseEv(N_p)
      [] tok = "pre" -> OpenEv(N_pre)       [] tok = "/pre" -> CloseEv(N_pre)
      [] tok = "script" -> OpenEv(N_script) [] tok = "/script" -> CloseEv(N_script)
      [] tok = "br" -> OpenEv(N_br)
      [] tok = "x" -> TextEv(<<Plain>>, FALSE)
      [] tok = "s" -> TextEv(<<MarkO(2), Plain, MarkC(2)>>, FALSE)
      [] tok = "so" -> TextEv(<<Plain, MarkO(1)>>, FALSE)
      [] tok = "sc" -> TextEv(<<MarkC(1), Plain>>, FALSE)
      [] tok = "rawm" -> TextEv(<<MarkO(3)>>, TRUE)
      [] tok = "c" -> [k |-> "comment", tm |-> 0, tn |-> 0, pg |-> 1, n |-> 0]
      [] tok = "cm" -> [k |-> "comment", tm |-> 1, tn |-> 0, pg |-> 1, n |-> 0]

SInit == /\ st = Step(Step(Init0, [k |-> "run", exp |-> <<X, X, X>>, nt |-> 0]), [k |-> "doc", pg |-> 1, path |-> <<N_index_html>>])
         /\ toks = <<>> /\ seen = {}
SNext == /\ Len(toks) < MaxLen
         /\ \E tok \in Tokens :
              LET s1 == Step(st, Ev(tok)) IN
              /\ st' = s1 /\ toks' = Append(toks, tok) /\ seen' = seen \cup Clauses(s1.rej)
SSpec == SInit /\ [][SNext]_<<st, toks, seen>>

(* ---- the independent definition ---- *)
Opener == [p |-> "/p", pre |-> "/pre", script |-> "/script"]
Structural == {"p", "/p", "pre", "/pre", "script", "/script"}
RECURSIVE Reduce(_)
Reduce(w) ==
    LET I == {i \in 1..(Len(w) - 1) : w[i] \in DOMAIN Opener /\ w[i + 1] = Opener[w[i]]}
    IN IF I = {} THEN w
       ELSE LET i == CHOOSE i \in I : TRUE IN Reduce(SubSeq(w, 1, i - 1) \o SubSeq(w, i + 2, Len(w)))
Dyck(ts) == Reduce(SelectSeq(ts, LAMBDA t : t \in Structural)) = <<>>
SpansOK(ts) ==
    /\ \A i \in 1..Len(ts) : ts[i] \notin {"rawm", "cm"}
    /\ \A i \in 1..Len(ts) : ts[i] = "so" =>
            \E j \in (i + 1)..Len(ts) : ts[j] = "sc" /\ \A k \in (i + 1)..(j - 1) : ts[k] = "x"
    /\ \A j \in 1..Len(ts) : ts[j] = "sc" =>
            \E i \in 1..(j - 1) : ts[i] = "so" /\ \A k \in (i + 1)..(j - 1) : ts[k] = "x"
WellFormed(ts) == Dyck(ts) /\ SpansOK(ts)

EndClauses == Clauses(Step(st, [k |-> "enddoc", pg |-> 1]).rej)
AcceptsExactlyWellFormed == ((seen \cup EndClauses) = {}) <=> WellFormed(toks)
BalancedClause == ("html.balanced" \in (seen \cup EndClauses)) <=> ~Dyck(toks)
SentinelClause == ("html.sentinel" \in (seen \cup EndClauses)) <=> ~SpansOK(toks)
StackIsOpenTags == Len(st.doc.stack) <= Len(toks)
(* negative control (expected to be VIOLATED): some string of full length that contains a span is accepted   *)
NoSpanEverAccepted == ~(Len(toks) = MaxLen /\ (seen \cup EndClauses) = {} /\ \E i \in 1..Len(toks) : toks[i] = "so")

(* ---- unit sanity of rarely taken branches (evaluated once at start-up of every run that loads this module) ---- *)
AcceptsPage(es) ==
    RunAll(Step(Step(Init0, [k |-> "run", exp |-> <<>>, nt |-> 0]), [k |-> "doc", pg |-> 1, path |-> <<N_index_html>>]),
           es \o <<[k |-> "enddoc", pg |-> 1]>>, 1, <<>>, <<>>).rej = <<>>
N_path == <<112, 97, 116, 104>>
N_div == <<100, 105, 118>>
ASSUME AcceptsPage(<<OpenEv(N_svg), [OpenEv(N_path) EXCEPT !.sc = TRUE], CloseEv(N_svg)>>)      \* <svg><path/></svg>
ASSUME ~AcceptsPage(<<[OpenEv(N_div) EXCEPT !.sc = TRUE]>>)                                   \* <div/> stays open in HTML
ASSUME ~AcceptsPage(<<OpenEv(N_br), CloseEv(N_br)>>)                                          \* </br>
ASSUME ~AcceptsPage(<<[OpenEv(N_p) EXCEPT !.bad = <<"dupattr">>], CloseEv(N_p)>>)
UA == <<97>>  UB == <<98>>
UPages == {<<UA, N_index_html>>, <<UA, UB, N_index_html>>}
UR(page, href) == Resolve(page, href, UPages)
ASSUME UR(<<UA, UB, N_index_html>>, <<46, 46, 47, 35, 120>>) = [ok |-> TRUE, why |-> "ok", page |-> <<UA, N_index_html>>, frag |-> <<120>>, dir |-> TRUE]   \* ../#x
ASSUME UR(<<UA, N_index_html>>, <<47, 97, 47, 98, 47>>).page = <<UA, UB, N_index_html>>                                             \* /a/b/
ASSUME UR(<<UA, N_index_html>>, <<98>>).page = <<UA, UB, N_index_html>>                                                             \* b (a directory)
ASSUME UR(<<UA, N_index_html>>, <<46, 46, 47, 46, 46, 47, 120>>).why = "outside-output"                                             \* ../../x
ASSUME UR(<<UA, N_index_html>>, <<104, 116, 116, 112, 58, 47, 47, 104, 47>>).why = "external"                                       \* http://h/
ASSUME UR(<<UA, N_index_html>>, <<46, 47, 98, 47, 105, 110, 100, 101, 120, 46, 104, 116, 109, 108, 63, 113, 35, 102>>)
         = [ok |-> TRUE, why |-> "ok", page |-> <<UA, UB, N_index_html>>, frag |-> <<102>>, dir |-> FALSE]                                       \* ./b/index.html?q#f
ASSUME UR(<<UA, N_index_html>>, <<>>).page = <<UA, N_index_html>>
ASSUME LinkVerdict([from |-> <<UA, N_index_html>>, href |-> <<98, 47, 35, 120>>], UPages, {<<<<UA, UB, N_index_html>>, <<120>>>>}) = "ok"
ASSUME LinkVerdict([from |-> <<UA, N_index_html>>, href |-> <<98, 47, 35, 121>>], UPages, {<<<<UA, UB, N_index_html>>, <<120>>>>}) = "anchor-not-produced"
ASSUME LinkVerdict([from |-> <<UA, N_index_html>>, href |-> <<99, 47, 35, 120>>], UPages, {}) = "page-not-produced"
(* a run whose namespace pages are NOT named index.html (a/page.htm, a/b/page.htm): the directory URL of a namespace denotes  *)
(* a/b/index.html, which that run does not produce, although a/b/page.htm carries the anchor; naming the page resolves       *)
N_page_htm == <<112, 97, 103, 101, 46, 104, 116, 109>>
VPages == {<<UA, N_page_htm>>, <<UA, UB, N_page_htm>>}
VIds == {<<<<UA, UB, N_page_htm>>, <<120>>>>}
ASSUME LinkVerdict([from |-> <<UA, N_page_htm>>, href |-> <<98, 47, 35, 120>>], VPages, VIds) = "page-not-produced"                 \* b/#x
ASSUME Resolve(<<UA, N_page_htm>>, <<98, 47, 35, 120>>, VPages) = [ok |-> TRUE, why |-> "ok", page |-> <<UA, UB, N_index_html>>, frag |-> <<120>>, dir |-> TRUE]
ASSUME LinkVerdict([from |-> <<UA, N_page_htm>>, href |-> <<98, 35, 120>>], VPages, VIds) = "page-not-produced"                     \* b#x
ASSUME LinkVerdict([from |-> <<UA, N_page_htm>>, href |-> <<98, 47>> \o N_page_htm \o <<35, 120>>], VPages, VIds) = "ok"            \* b/page.htm#x
ASSUME LinkVerdict([from |-> <<UA, N_page_htm>>, href |-> <<98, 47>> \o N_page_htm \o <<35, 121>>], VPages, VIds) = "anchor-not-produced"
IdAttr(v) == [n |-> N_id, hv |-> TRUE, v |-> <<[m |-> 0, i |-> 0, s |-> v]>>]
ASSUME ~AcceptsPage(<<[OpenEv(N_p) EXCEPT !.a = <<IdAttr(X)>>], CloseEv(N_p), [OpenEv(N_p) EXCEPT !.a = <<IdAttr(X)>>], CloseEv(N_p)>>)   \* id twice
ULk(h, t) == [pg |-> 1, from |-> <<UA, N_index_html>>, href |-> h, refs |-> {t}, inspan |-> FALSE]
UIds == {<<<<UA, N_index_html>>, <<120>>>>, <<<<UA, N_index_html>>, <<121>>>>}
ASSUME Unlisted(2, {ULk(<<35, 120>>, 0)}, UPages, UIds) = {1}                                   \* type 1 is named by no resolving link
ASSUME Unlisted(2, {ULk(<<35, 120>>, 0), ULk(<<35, 122>>, 1)}, UPages, UIds) = {1}              \* ... a dangling one does not count
ASSUME Unlisted(2, {ULk(<<35, 120>>, 0), ULk(<<35, 121>>, 1)}, UPages, UIds) = {}
ASSUME SharedAnchors({ULk(<<35, 120>>, 0), ULk(<<35, 121>>, 1)}, UPages, UIds) = {}
ASSUME SharedAnchors({ULk(<<35, 120>>, 0), ULk(<<35, 120>>, 1)}, UPages, UIds) # {}              \* two types, one anchor
=============================================================================
