SPECIFICATION Spec
CONSTANTS
  Profile = "assert"
  MaxW = 1
  MaxWc = 1
  MaxDepth = 0
  Tights = {FALSE}
  EmitOpen = FALSE
INVARIANT Emit
INVARIANT EmitTables
CHECK_DEADLOCK FALSE
