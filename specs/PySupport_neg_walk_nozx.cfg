SPECIFICATION Spec
CONSTANTS
  Kind = "des"
  MaxCalls = 2
  Level = 1
  FragMode = "walk"
  Bug = "walk_nozx"
  Emit = FALSE
INVARIANT RefinesDes
CHECK_DEADLOCK FALSE
