SPECIFICATION Spec
CHECK_DEADLOCK FALSE
CONSTANTS
  Bug = "support_no_gate"
  Writer = "direct"
  Size = "q"
INVARIANT P_no_overwrite
