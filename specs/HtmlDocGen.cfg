SPECIFICATION Spec
CONSTANTS
  EscMode = "markupsafe"
  LinkStyle = "fixed"
  MaxTok = 3
  Part = "both"
  ListStyle = "versioned"
  Chains = TRUE
INVARIANT TextRefinesP
INVARIANT LinksRefineP
INVARIANT LexShape
CHECK_DEADLOCK FALSE
