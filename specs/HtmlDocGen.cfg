SPECIFICATION Spec
CONSTANTS
  EscMode = "markupsafe"
  LinkStyle = "page"
  MaxTok = 3
  Part = "both"
  ListStyle = "versioned"
  Chains = TRUE
  Configs = {"default"}
  SampleConfigs = {}
INVARIANT TextRefinesP
INVARIANT LinksRefineP
INVARIANT LexShape
CHECK_DEADLOCK FALSE
