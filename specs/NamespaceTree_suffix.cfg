SPECIFICATION Spec
CONSTANTS
  Roots <- RootsRIf
  Names <- NamesFoldSuffix
  Shorts <- ShortsTIf
  TwoVer <- TwoVerT
  MaxDepth = 2
  MaxTypes = 2
  StropMode = "suffix"
  GenNsChoices = {FALSE, TRUE}
  Spellings = {"rel"}
  CanonNs = FALSE
  SupportFromRootParent = FALSE
INVARIANT Refines
INVARIANT IndexClosed
INVARIANT MadeIndexed
INVARIANT AtMostOneParent
INVARIANT OneWritePerFile
INVARIANT FoldedOnlyWithKeyword
CHECK_DEADLOCK FALSE
