SPECIFICATION Spec
CONSTANTS
  Kind = "ser"
  MaxCalls = 4
  Level = 1
  FragMode = "join"
  Bug = "none"
  Emit = FALSE
INVARIANT RefinesSer
INVARIANT NoXWithoutForks
CHECK_DEADLOCK FALSE
