SPECIFICATION Spec
CONSTANTS
  Level = 1
  GuardEmpty = TRUE
INVARIANT Refines
INVARIANT ReadsInside
INVARIANT PtrInside
CHECK_DEADLOCK FALSE
