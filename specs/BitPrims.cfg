SPECIFICATION Spec
CONSTANTS
  Level = 1
INVARIANT Refines
INVARIANT ReadsInside
CHECK_DEADLOCK FALSE
