SPECIFICATION Spec
CONSTANTS
  Roots <- RootsRIf
  Names <- NamesAIf
  Shorts <- ShortsT
  TwoVer <- TwoVerT
  MaxDepth = 2
  MaxTypes = 2
  StropMode = "prefix"
  GenNsChoices = {FALSE, TRUE}
  Spellings <- AllSpellings
  CanonNs = FALSE
  SupportFromRootParent = FALSE
INVARIANT Refines
INVARIANT IndexClosed
INVARIANT MadeIndexed
INVARIANT AtMostOneParent
INVARIANT OneWritePerFile
CHECK_DEADLOCK FALSE
