---------------------------- MODULE OptionGuardP ----------------------------
(* C17 - headers generated with different language options cannot be compiled together.                   *)
(*                                                                                                         *)
(* Operator library shared by the design model (OptionGuard.tla) and the trace checker                     *)
(* (OptionGuardTrace.tla).  It holds                                                                       *)
(*   - the documented option values of the c and cpp targets (text is Seq(Nat) of code points),            *)
(*   - the P-layer: when two option sets are THE SAME (after the documented language-standard short-hands  *)
(*     are expanded), which option sets are known to build on their own, and the verdict PVerdict on one   *)
(*     observed compilation - nothing in it depends on HOW the generated headers compare options,          *)
(*   - the I-layer vocabulary: how the real templates render an option value into the integer that the     *)
(*     support header #defines / the type header static_asserts (bool -> 0/1, int -> itself, string ->     *)
(*     CRC-32 of its UTF-8 bytes), with CRC-32 written out bit by bit so that TLC computes the very        *)
(*     numbers that appear in the generated headers and can look for collisions.                           *)
EXTENDS Naturals, Sequences, FiniteSets, TLC

(* ------------------------------------------------------------------------------------------------------ *)
(* text literals (code points)                                                                             *)
T_empty == <<>>
T_any == <<97, 110, 121>>                                                                      \* any
T_big == <<98, 105, 103>>                                                                      \* big
T_little == <<108, 105, 116, 116, 108, 101>>                                                   \* little
T_castC == <<40, 40, 123, 116, 121, 112, 101, 125, 41, 32, 123, 118, 97, 108, 117, 101, 125, 41>>          \* (({type}) {value})
T_castC2 == <<40, 40, 123, 116, 121, 112, 101, 125, 41, 40, 123, 118, 97, 108, 117, 101, 125, 41, 41>>     \* (({type})({value}))
T_castCpp == <<115, 116, 97, 116, 105, 99, 95, 99, 97, 115, 116, 60, 123, 116, 121, 112, 101, 125, 62, 40,
               123, 118, 97, 108, 117, 101, 125, 41>>                                           \* static_cast<{type}>({value})
T_cpp14 == <<99, 43, 43, 49, 52>>                                                              \* c++14
T_cpp17 == <<99, 43, 43, 49, 55>>                                                              \* c++17
T_cpp20 == <<99, 43, 43, 50, 48>>                                                              \* c++20
T_cpp17pmr == <<99, 43, 43, 49, 55, 45, 112, 109, 114>>                                        \* c++17-pmr
T_cetl1417 == <<99, 101, 116, 108, 43, 43, 49, 52, 45, 49, 55>>                                \* cetl++14-17
T_std == <<115, 116, 100>>                                                                     \* std
T_pmr == <<112, 109, 114>>                                                                     \* pmr
T_cetl == <<99, 101, 116, 108>>                                                                \* cetl
T_incVec == <<60, 118, 101, 99, 116, 111, 114, 62>>                                            \* <vector>
T_incVecQ == <<34, 118, 101, 99, 116, 111, 114, 34>>                                           \* "vector"
T_incCetlVla == <<34, 99, 101, 116, 108, 47, 118, 97, 114, 105, 97, 98, 108, 101, 95, 108, 101, 110, 103, 116,
                  104, 95, 97, 114, 114, 97, 121, 46, 104, 112, 112, 34>>                       \* "cetl/variable_length_array.hpp"
T_tplVec == <<115, 116, 100, 58, 58, 118, 101, 99, 116, 111, 114, 60, 123, 84, 89, 80, 69, 125, 62>>       \* std::vector<{TYPE}>
T_tplVecA == <<115, 116, 100, 58, 58, 118, 101, 99, 116, 111, 114, 60, 123, 84, 89, 80, 69, 125, 44, 32, 123,
               82, 69, 66, 73, 78, 68, 95, 65, 76, 76, 79, 67, 65, 84, 79, 82, 125, 62>>        \* std::vector<{TYPE}, {REBIND_ALLOCATOR}>
T_tplCetl == <<99, 101, 116, 108, 58, 58, 86, 97, 114, 105, 97, 98, 108, 101, 76, 101, 110, 103, 116, 104, 65,
               114, 114, 97, 121, 60, 123, 84, 89, 80, 69, 125, 44, 32, 123, 82, 69, 66, 73, 78, 68, 95, 65, 76,
               76, 79, 67, 65, 84, 79, 82, 125, 62>>                                            \* cetl::VariableLengthArray<{TYPE}, {REBIND_ALLOCATOR}>
T_maxSize == <<123, 77, 65, 88, 95, 83, 73, 90, 69, 125>>                                      \* {MAX_SIZE}
T_incMemRes == <<60, 109, 101, 109, 111, 114, 121, 95, 114, 101, 115, 111, 117, 114, 99, 101, 62>>         \* <memory_resource>
T_incCetlMemRes == <<34, 99, 101, 116, 108, 47, 112, 102, 49, 55, 47, 115, 121, 115, 47, 109, 101, 109, 111, 114,
                     121, 95, 114, 101, 115, 111, 117, 114, 99, 101, 46, 104, 112, 112, 34>>    \* "cetl/pf17/sys/memory_resource.hpp"
T_allocPmr == <<115, 116, 100, 58, 58, 112, 109, 114, 58, 58, 112, 111, 108, 121, 109, 111, 114, 112, 104, 105,
                99, 95, 97, 108, 108, 111, 99, 97, 116, 111, 114>>                              \* std::pmr::polymorphic_allocator
T_allocCetl == <<99, 101, 116, 108, 58, 58, 112, 102, 49, 55, 58, 58, 112, 109, 114, 58, 58, 112, 111, 108, 121,
                 109, 111, 114, 112, 104, 105, 99, 95, 97, 108, 108, 111, 99, 97, 116, 111, 114>> \* cetl::pf17::pmr::polymorphic_allocator
T_default == <<100, 101, 102, 97, 117, 108, 116>>                                              \* default
T_leading == <<117, 115, 101, 115, 45, 108, 101, 97, 100, 105, 110, 103, 45, 97, 108, 108, 111, 99, 97, 116,
               111, 114>>                                                                       \* uses-leading-allocator
T_trailing == <<117, 115, 101, 115, 45, 116, 114, 97, 105, 108, 105, 110, 103, 45, 97, 108, 108, 111, 99, 97,
                116, 111, 114>>                                                                 \* uses-trailing-allocator
T_check == <<49, 50, 51, 52, 53, 54, 55, 56, 57>>                                              \* 123456789 (CRC catalogue check input)
T_Any == <<65, 110, 121>>                                                                      \* Any (example of the filter's docstring)

(* ------------------------------------------------------------------------------------------------------ *)
(* option values and option vectors                                                                        *)
S(x)  == [t |-> "s", v |-> x]                      \* a string value
Bv(x) == [t |-> "b", v |-> <<IF x THEN 1 ELSE 0>>] \* a boolean value (travels as <<0>> / <<1>>: every v is a Seq(Nat))
Iv(n) == [t |-> "i", v |-> <<n>>]                  \* an integer value (no documented option has one; the filter accepts it)

LangsAll == {"c", "cpp"}

\* option names in the order of lang/properties.yaml (the order the templates iterate in)
Keys(lang) ==
    IF lang = "c"
    THEN <<"target_endianness", "omit_float_serialization_support", "enable_serialization_asserts",
           "enable_override_variable_array_capacity", "cast_format">>
    ELSE <<"target_endianness", "omit_float_serialization_support", "enable_serialization_asserts",
           "enable_override_variable_array_capacity", "std", "std_flavor", "cast_format",
           "variable_array_type_include", "variable_array_type_template", "variable_array_type_constructor_args",
           "allocator_include", "allocator_type", "allocator_is_default_constructible", "ctor_convention">>
KeySet(lang) == {Keys(lang)[i] : i \in 1..Len(Keys(lang))}

\* the documented values; the FIRST one is the built-in default.  cast_format has one documented value per target, the
\* second one is a syntactically equivalent alternative so that the option can differ at all; "vector" in quotes is the
\* quoted spelling of the default include (values containing quotes are documented for the CETL include paths).
DocC ==
    [target_endianness |-> <<S(T_any), S(T_big), S(T_little)>>,
     omit_float_serialization_support |-> <<Bv(FALSE), Bv(TRUE)>>,
     enable_serialization_asserts |-> <<Bv(FALSE), Bv(TRUE)>>,
     enable_override_variable_array_capacity |-> <<Bv(FALSE), Bv(TRUE)>>,
     cast_format |-> <<S(T_castC), S(T_castC2)>>]
DocCpp ==
    [target_endianness |-> <<S(T_any), S(T_big), S(T_little)>>,
     omit_float_serialization_support |-> <<Bv(FALSE), Bv(TRUE)>>,
     enable_serialization_asserts |-> <<Bv(FALSE), Bv(TRUE)>>,
     enable_override_variable_array_capacity |-> <<Bv(FALSE), Bv(TRUE)>>,
     std |-> <<S(T_cpp14), S(T_cpp17), S(T_cpp20), S(T_cpp17pmr), S(T_cetl1417)>>,
     std_flavor |-> <<S(T_std), S(T_pmr), S(T_cetl)>>,
     cast_format |-> <<S(T_castCpp), S(T_castC)>>,
     variable_array_type_include |-> <<S(T_incVec), S(T_incVecQ), S(T_incCetlVla)>>,
     variable_array_type_template |-> <<S(T_tplVec), S(T_tplVecA), S(T_tplCetl)>>,
     variable_array_type_constructor_args |-> <<S(T_empty), S(T_maxSize)>>,
     allocator_include |-> <<S(T_empty), S(T_incMemRes), S(T_incCetlMemRes)>>,
     allocator_type |-> <<S(T_empty), S(T_allocPmr), S(T_allocCetl)>>,
     allocator_is_default_constructible |-> <<Bv(TRUE), Bv(FALSE)>>,
     ctor_convention |-> <<S(T_default), S(T_leading), S(T_trailing)>>]
Doc(lang) == IF lang = "c" THEN DocC ELSE DocCpp
DocVals(lang, k) == {Doc(lang)[k][i] : i \in 1..Len(Doc(lang)[k])}

Default(lang) == [k \in KeySet(lang) |-> Doc(lang)[k][1]]
Over(v, p) == [k \in DOMAIN v |-> IF k \in DOMAIN p THEN p[k] ELSE v[k]]      \* v with the entries of p replaced

(* The language-standard short-hands of the cpp target (properties.yaml `defaults`, docs/languages.rst): naming one as   *)
(* `std` stands for the whole group of option values.                                                                   *)
GroupPmr ==
    [std |-> S(T_cpp17), std_flavor |-> S(T_pmr), variable_array_type_include |-> S(T_incVec),
     variable_array_type_template |-> S(T_tplVecA), variable_array_type_constructor_args |-> S(T_empty),
     allocator_include |-> S(T_incMemRes), allocator_type |-> S(T_allocPmr),
     allocator_is_default_constructible |-> Bv(TRUE), ctor_convention |-> S(T_trailing)]
GroupCetl ==
    [std |-> S(T_cpp14), std_flavor |-> S(T_cetl), variable_array_type_include |-> S(T_incCetlVla),
     variable_array_type_template |-> S(T_tplCetl), variable_array_type_constructor_args |-> S(T_maxSize),
     allocator_include |-> S(T_incCetlMemRes), allocator_type |-> S(T_allocCetl),
     allocator_is_default_constructible |-> Bv(FALSE), ctor_convention |-> S(T_trailing)]
ShorthandNames == {T_cpp17pmr, T_cetl1417}
Group(name) == IF name = T_cpp17pmr THEN GroupPmr ELSE GroupCetl
GroupKeys == DOMAIN GroupPmr

IsShorthand(lang, v) == lang = "cpp" /\ v["std"].t = "s" /\ v["std"].v \in ShorthandNames
Expand(lang, v) == IF IsShorthand(lang, v) THEN Over(v, Group(v["std"].v)) ELSE v

(* ------------------------------------------------------------------------------------------------------ *)
(* P-layer                                                                                                 *)

\* two option sets are the same iff they give every option the same value once short-hands are spelled out
Same(lang, a, b) == Expand(lang, a) = Expand(lang, b)
DiffKeys(lang, a, b) == {k \in DOMAIN a : Expand(lang, a)[k] # Expand(lang, b)[k]}
ReqDiffKeys(a, b) == {k \in DOMAIN a : a[k] # b[k]}             \* differing options as the user wrote them

\* the generator refuses an allocator-aware constructor convention without an allocator type (documented)
Valid(lang, v) ==
    \/ lang = "c"
    \/ LET e == Expand(lang, v) IN e["ctor_convention"] # S(T_default) => e["allocator_type"] # S(T_empty)

(* Option sets that are documented to work on their own: every c vector; for cpp the three documented families         *)
(* (plain std::vector, the c++17-pmr group, the cetl++14-17 group) with any language standard that has the library      *)
(* parts the family needs, either spelling of the <vector> include, and any DOCUMENTED value of the other options.      *)
(* Only for these does "identical option sets => the build succeeds" say anything about the guard: other combinations   *)
(* (e.g. a leading-allocator convention with std::vector) fail to build for reasons of their own.                       *)
FamilyKeys == GroupKeys
Restrict(v, ks) == [k \in ks |-> v[k]]
FamDefault(sv, inc) ==
    [std |-> S(sv), std_flavor |-> S(T_std), variable_array_type_include |-> S(inc),
     variable_array_type_template |-> S(T_tplVec), variable_array_type_constructor_args |-> S(T_empty),
     allocator_include |-> S(T_empty), allocator_type |-> S(T_empty),
     allocator_is_default_constructible |-> Bv(TRUE), ctor_convention |-> S(T_default)]
FamilyProfiles ==
    {FamDefault(sv, inc) : sv \in {T_cpp14, T_cpp17, T_cpp20}, inc \in {T_incVec, T_incVecQ}}
    \cup {Over(GroupPmr, [std |-> S(sv), variable_array_type_include |-> S(inc)]) :
              sv \in {T_cpp17, T_cpp20}, inc \in {T_incVec, T_incVecQ}}
    \cup {Over(GroupCetl, [std |-> S(sv)]) : sv \in {T_cpp14, T_cpp17}}
Coherent(lang, v) ==
    /\ \A k \in KeySet(lang) \ (IF lang = "c" THEN {} ELSE FamilyKeys) : v[k] \in DocVals(lang, k)
    /\ \/ lang = "c"
       \/ Restrict(Expand(lang, v), FamilyKeys) \in FamilyProfiles

(* One observed build of a translation unit that includes the type headers generated with option set a and the        *)
(* support header generated with option set b:                                                                         *)
(*   obs.rc            compiler exit status                                                                            *)
(*   obs.msg           a failed static assertion whose diagnostic names the language-option mismatch was reported      *)
(*   obs.headers       the type headers included, obs.fired_headers those in which such an assertion failed            *)
(* The verdict is "ok" or the name of the violated clause.                                                             *)
PVerdict(lang, a, b, obs) ==
    IF ~Same(lang, a, b)
    THEN IF obs.rc = 0 THEN "guard.iff.mismatch_accepted"
         ELSE IF ~obs.msg THEN "guard.message.missing"
         ELSE IF obs.fired_headers # obs.headers THEN "guard.message.header_silent"
         ELSE "ok"
    ELSE IF obs.msg \/ obs.fired_headers # {} THEN "guard.message.spurious"
         ELSE IF Coherent(lang, a) /\ obs.rc # 0 THEN "guard.iff.identical_rejected"
         ELSE "ok"

\* the abstract outcome the property fixes for a pair ("any" = not fixed)
PExpect(lang, a, b) ==
    [ok  |-> IF ~Same(lang, a, b) THEN "no" ELSE IF Coherent(lang, a) THEN "yes" ELSE "any",
     msg |-> ~Same(lang, a, b)]

(* ------------------------------------------------------------------------------------------------------ *)
(* I-layer vocabulary: filter_to_static_assertion_value                                                    *)

\* A 32-bit word is a pair of 16-bit limbs <<high, low>> (TLC integers are 32-bit signed); all arithmetic is on naturals.
RECURSIVE Xor16(_, _, _)
Xor16(x, y, n) == IF n = 0 THEN 0 ELSE (((x % 2) + (y % 2)) % 2) + 2 * Xor16(x \div 2, y \div 2, n - 1)
XorW(p, q) == <<Xor16(p[1], q[1], 16), Xor16(p[2], q[2], 16)>>
Shr1(p) == <<p[1] \div 2, (p[2] \div 2) + (32768 * (p[1] % 2))>>
Ones == <<65535, 65535>>
Poly == <<60856, 33568>>                                             \* 0xEDB88320, the reflected CRC-32 polynomial

RECURSIVE Steps(_, _)
Steps(p, n) == IF n = 0 THEN p ELSE Steps(IF (p[2] % 2) = 1 THEN XorW(Shr1(p), Poly) ELSE Shr1(p), n - 1)
RECURSIVE CrcBytes(_, _, _)
CrcBytes(bs, i, crc) == IF i > Len(bs) THEN crc ELSE CrcBytes(bs, i + 1, Steps(XorW(crc, <<0, bs[i]>>), 8))
Crc32(bs) == XorW(CrcBytes(bs, 1, Ones), Ones)                       \* zlib.crc32, as limbs

Limbs(p) == p
Keep(p, bits) ==                                                     \* only the low `bits` bits (32 = all)
    IF bits >= 32 THEN p ELSE IF bits > 16 THEN <<p[1] % (2 ^ (bits - 16)), p[2]>> ELSE <<0, p[2] % (2 ^ bits)>>

Utf8One(c) ==
    IF c < 128 THEN <<c>>
    ELSE IF c < 2048 THEN <<192 + c \div 64, 128 + (c % 64)>>
    ELSE IF c < 65536 THEN <<224 + c \div 4096, 128 + ((c \div 64) % 64), 128 + (c % 64)>>
    ELSE <<240 + c \div 262144, 128 + ((c \div 4096) % 64), 128 + ((c \div 64) % 64), 128 + (c % 64)>>
RECURSIVE Utf8(_, _)
Utf8(s, i) == IF i > Len(s) THEN <<>> ELSE Utf8One(s[i]) \o Utf8(s, i + 1)

\* the integer written into `#define NUNAVUT_SUPPORT_LANGUAGE_OPTION_<KEY> n` / `constexpr std::uint32_t <key> = n;` and
\* into `static_assert(... == n, ...)`, as limbs.  hashbits < 32 models a weaker hash (negative control only).
Render(val, hashbits) ==
    IF val.t = "s" THEN Limbs(Keep(Crc32(Utf8(val.v, 1)), hashbits))
    ELSE <<val.v[1] \div 65536, val.v[1] % 65536>>

(* Tables over the documented values.  TLC re-evaluates a constant definition on every use inside an operator or LET  *)
(* context, so the users of this module read these tables ONCE, at the top level of their initial predicate, into a   *)
(* state variable that never changes, and pass that variable (tab) to the operators below.                            *)
AllDocVals == UNION {UNION {DocVals(l, k) : k \in KeySet(l)} : l \in LangsAll}
DocRender == TLCEval([x \in AllDocVals |-> Render(x, 32)])
DocRenderWeak == TLCEval([x \in AllDocVals |-> Render(x, 1)])         \* a 1-bit hash: negative control of the design model
RenderT(tab, x) == IF x \in DOMAIN tab THEN tab[x] ELSE Render(x, 32)

ASSUME Limbs(Crc32(T_check)) = <<52212, 14630>>      \* 0xCBF43926, the catalogued check value of CRC-32/ISO-HDLC
ASSUME Render(S(T_Any), 32) = <<23742, 45396>>       \* 1556001108, the example in the filter's documentation
ASSUME Render(S(T_empty), 32) = <<0, 0>>
ASSUME Render(Bv(TRUE), 32) = <<0, 1>> /\ Render(Bv(FALSE), 32) = <<0, 0>>

(* The collision caveat: the guard compares hashes, so two different documented values of ONE option with equal CRC-32 *)
(* could be mixed unnoticed.  No such pair exists among the documented values (TLC evaluates this).                     *)
NoCollision(lang, hashbits) ==
    \A k \in KeySet(lang) : \A x, y \in DocVals(lang, k) : x # y => Render(x, hashbits) # Render(y, hashbits)

(* what the generated code does with a pair: the support header defines one constant per option of b, every type      *)
(* header asserts one equality per option of a; the assertions whose two sides differ fail                             *)
IFired(lang, a, b, hashbits) ==
    LET ea == Expand(lang, a)  eb == Expand(lang, b)
    IN {k \in DOMAIN ea : Render(ea[k], hashbits) # Render(eb[k], hashbits)}
IFiredT(tab, lang, a, b) ==
    LET ea == Expand(lang, a)  eb == Expand(lang, b) IN {k \in DOMAIN ea : RenderT(tab, ea[k]) # RenderT(tab, eb[k])}
=============================================================================
