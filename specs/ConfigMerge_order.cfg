SPECIFICATION Spec
CONSTANTS
  CopyMode = "rebuild"
  Mode = "fold"
  Universe <- UOrder
  Sharings = {"none", "doc"}
  AnyOrder = TRUE
  NB = 1
  MaxOps = 0
  Group = "none"
  Record = FALSE
  Slice = 0
  NSlices = 1
INVARIANT Refines
INVARIANT DocsUnmodified
INVARIANT CtxStable
INVARIANT NoSharing
INVARIANT OracleClauses
CHECK_DEADLOCK FALSE
