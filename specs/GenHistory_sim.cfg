SPECIFICATION Spec
CONSTANTS
  GenFiles = {1, 2, 3, 4}
  OtherFiles = {5}
  Modes = {292, 420, 384}
  Variants = {0, 1, 2, 3, 4, 7, 8}
  ChmodGate = TRUE
  CopyGate = TRUE
  Truncates = TRUE
  PPOrder = "program_first"
  Privileged = FALSE
  OptsSel = "all"
  EnvOn = TRUE
  Record = TRUE
  MaxSteps = 5
INVARIANT RunEndOK
INVARIANT Emit
CHECK_DEADLOCK FALSE
