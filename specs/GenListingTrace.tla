-------------------------- MODULE GenListingTrace --------------------------
(* T-layer for C08.  Every record of the trace is ONE history of invocations of the real CLI (`python -m nunavut`, *)
(* one subprocess each) for one option combination on one scratch tree:                                           *)
(*   steps[i] = [m, ok, pre, post, listed, ver, dig]   exactly the observation record of GenListing part 1;       *)
(*              paths, attribute tuples (type, size, mtime_ns, mode, sha256) and digests are interned as small      *)
(*              integers by the driver (equal id <=> equal value), snapshots are arrays of [path, attr, kind, zone]. *)
(* The history is folded through the P-layer statistic PStep and judged by the three P-layer clauses only; the     *)
(* I-layer variables are pinned and unused.  All failing clauses of a record are reported, joined by "+".          *)
EXTENDS GenListing, IOUtils

Trace == ndJsonDeserialize(IOEnv.TRACE_FILE)

VARIABLE l

tvars == <<l, opts, pfile, pert, out, pc, mode, printed, okf, pre, cnt, res, ps>>

ToSet(s) == {s[i] : i \in DOMAIN s}

Ev(s) == [m |-> s.m, ok |-> s.ok, pre |-> ToSet(s.pre), post |-> ToSet(s.post), listed |-> ToSet(s.listed),
          ver |-> ToSet(s.ver), dig |-> s.dig]

Evs(r) == [i \in DOMAIN r.steps |-> Ev(r.steps[i])]

ShapeOK(r) ==
    \A i \in DOMAIN r.steps :
        LET s == r.steps[i]
        IN /\ s.m \in {"lo", "li", "dry", "run"}
           /\ \A j \in DOMAIN s.pre : Len(s.pre[j]) = 4
           /\ \A j \in DOMAIN s.post : Len(s.post[j]) = 4

Verdict(r) ==
    IF ~ShapeOK(r) THEN "harness.shape"
    ELSE LET p == PFold(PInit, Evs(r), 1)
         IN IF ~p.dom THEN "ok"         \* generation did not succeed: outside the statement's domain
            ELSE LET a == IF OutputsEq(p) THEN "" ELSE "+list.outputs_eq"
                     b == IF PassiveNoEffect(p) THEN "" ELSE "+list.passive_no_effect"
                     c == IF InputsCover(p) THEN "" ELSE "+list.inputs_cover"
                 IN IF a \o b \o c = "" THEN "ok" ELSE a \o b \o c

TInit ==
    /\ l = 1
    /\ opts = <<>> /\ pfile = "none" /\ pert = {} /\ out = {} /\ pc = "trace" /\ mode = "-" /\ printed = {} /\ okf = TRUE
    /\ pre = {} /\ cnt = <<>> /\ res = <<>> /\ ps = PInit

TNext ==
    /\ l <= Len(Trace)
    /\ LET v == Verdict(Trace[l]) IN IF v = "ok" THEN TRUE ELSE PrintT(<<"REJECT", Trace[l].id, v>>)
    /\ l' = l + 1
    /\ UNCHANGED <<opts, pfile, pert, out, pc, mode, printed, okf, pre, cnt, res, ps>>

TSpec == TInit /\ [][TNext]_tvars

Accepted == TLCGet("stats").diameter - 1 = Len(Trace)
=============================================================================
