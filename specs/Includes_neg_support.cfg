SPECIFICATION Spec
CHECK_DEADLOCK FALSE
CONSTANTS
  N = 3
  NRoots = 2
  NestedRoots = {1}
  RefStyle = "file"
  SupportRef = "always"
  SupportGen = "unless_omitted"
  ScanResponse = TRUE
  ScanArrays = TRUE
  EmitWorlds = FALSE
INVARIANT TypeOK
INVARIANT Closure
INVARIANT SelfSufficient
