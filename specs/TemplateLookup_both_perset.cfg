\* both template sets, cache entries valid for the set that produced them (repaired design): I => P
SPECIFICATION Spec
CHECK_DEADLOCK FALSE
INVARIANT RefNearest
INVARIANT RefSource
INVARIANT RefHistory
INVARIANT CacheSound
INVARIANT BfsIsNearest
INVARIANT NameRefines
CONSTANTS
  Shape = "chain5"
  Modes = {"both"}
  MaxLookups = 3
  SharedCache = FALSE
  MaxAdds = 1
  StrictGlobals = FALSE
