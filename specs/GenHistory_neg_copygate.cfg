SPECIFICATION Spec
CONSTANTS
  GenFiles = {2, 3}
  OtherFiles = {}
  Modes = {292, 420}
  Variants = {0}
  ChmodGate = TRUE
  CopyGate = FALSE
  Truncates = TRUE
  PPOrder = "program_first"
  Privileged = FALSE
  OptsSel = "all"
  EnvOn = TRUE
  Record = FALSE
  MaxSteps = 0
INVARIANT RunEndOK
CHECK_DEADLOCK FALSE
