------------------------- MODULE ConfigMergeTrace -------------------------
(* T-layer for C13.  One record = one history of the real code: builders, documents, contexts, and what   *)
(* every one of them showed after every operation.  The P-layer (ConfigMergeP) is threaded through the      *)
(* steps of the history; nothing of the I-layer is used, so any implementation that satisfies the          *)
(* statement is accepted.                                                                                  *)
(*                                                                                                        *)
(* record:  id, docs (initial snapshot of every source object, JSON form of a value),                      *)
(*          optkey (key id of the `options` map inside the observed section, 0 = not observed),            *)
(*          grp = [defs, std, l2k, table]  (language-standard groups: key id of the `defaults` map, of the   *)
(*                `std` option, the pairs <<leaf id, key id>> of strings that occur both as value and key,  *)
(*                and the DOCUMENTED groups: << <<leaf id of the shorthand, << <<option key id, <<allowed     *)
(*                leaf ids>> >>, ... >> >>, ... >> - a fixed table of the harness taken from                 *)
(*                docs/languages.rst, not from the tree under test; std = 0: the language has no groups)     *)
(*          steps: sequence of [op, b, d, c, key, blind, cfg, docs, rep]                                   *)
(*             blind = 1: the builder's configuration cannot be observed at this step (inside one nnvg run)  *)
(*             op = "new"    builder b exists; d = 0: its configuration is the built-in one as observed,     *)
(*                            d > 0: an empty configuration updated with document d                          *)
(*                  "upd"    document d (a map) merged into b's configuration (file or API)                  *)
(*                  "set"    override key := document d for builder b (takes effect at create)               *)
(*                  "create" builder b creates context c                                                    *)
(*                  "obs"    nothing happens (everything is observed again)                                  *)
(*             cfg / docs / rep: what changed in the observation since the previous step (the harness        *)
(*                  compares deep snapshots): <<b, value>>, <<d, value>>, <<c, section value, options value>> *)
(* JSON form of a value: [k |-> "x"|"d"|"m", v |-> id, e |-> << <<key, value>>, ... >>]                       *)
(*                                                                                                        *)
(* What is asserted, per step (clauses as in DESIGN Appendix A):                                          *)
(*   merge.precedence / default_marker / deep_union  the observed configuration of the step's builder       *)
(*        Match-es Merge(previous, source) (effective values; AnyV where the statement is silent); at        *)
(*        create also what the new context reports (section and options, options through GroupApply)        *)
(*   merge.doc_unmodified   every document still equals its initial snapshot (markers included)             *)
(*   merge.ctx_stable       every other builder's configuration and every context of another builder        *)
(*        shows exactly what it showed before the step                                                     *)
(* Not asserted: a builder used again after it created a context, and its contexts (ambiguity register).    *)
(* Overrides take effect at create (documented and doctested in set_target_language_configuration_override). *)
EXTENDS ConfigMergeP, Json, IOUtils, TLC

Trace == ndJsonDeserialize(IOEnv.TRACE_FILE)

VARIABLE l

RECURSIVE J2V(_)
J2V(j) ==
    IF j.k = "m"
    THEN M([key \in {j.e[i][1] : i \in DOMAIN j.e} |-> J2V(j.e[CHOOSE i \in DOMAIN j.e : j.e[i][1] = key][2])])
    ELSE [k |-> j.k, v |-> j.v, m |-> <<>>]

Upd1(f, pairs, Val(_)) ==      \* apply a delta << <<index, ...>>, ... >> to a function
    [x \in (DOMAIN f) \cup {pairs[i][1] : i \in DOMAIN pairs} |->
        IF \E i \in DOMAIN pairs : pairs[i][1] = x THEN Val(pairs[CHOOSE i \in DOMAIN pairs : pairs[i][1] = x]) ELSE f[x]]

(* option keys a document mentions with something that is not merely a default *)
Mentions(v, optkey) ==
    IF optkey # 0 /\ IsMap(v) /\ optkey \in DOMAIN v.m /\ IsMap(v.m[optkey])
    THEN {key \in DOMAIN v.m[optkey].m : v.m[optkey].m[key].k # "d"} ELSE {}

(* what a document says about the groups themselves: key ids it mentions inside `defaults`, 0 if it replaces   *)
(* `defaults` by something that is not a map                                                                 *)
DefMentions(v, defs) ==
    IF defs # 0 /\ IsMap(v) /\ defs \in DOMAIN v.m THEN (IF IsMap(v.m[defs]) THEN DOMAIN v.m[defs].m ELSE {0}) ELSE {}

(* the block of options the selected language standard stands for, as key -> expectation, or <<>>:             *)
(*  - a documented shorthand: the documented block (never the tree's own `defaults`), unless a user source      *)
(*    redefines that group (dm), then nothing is fixed;                                                       *)
(*  - a group the user defines in `defaults` of the merged configuration: that block.                          *)
Block(cfg, r, dm) ==
    LET g == r.grp
        ok == /\ g.std # 0 /\ r.optkey \in DOMAIN cfg /\ IsMap(cfg[r.optkey])
              /\ g.std \in DOMAIN cfg[r.optkey].m /\ cfg[r.optkey].m[g.std].k \in {"x", "d"}
        leaf == cfg[r.optkey].m[g.std].v
        names == {g.l2k[i][2] : i \in {j \in DOMAIN g.l2k : g.l2k[j][1] = leaf}}
        doc == {i \in DOMAIN g.table : g.table[i][1] = leaf}
        userdef == g.defs # 0 /\ g.defs \in DOMAIN cfg /\ IsMap(cfg[g.defs])
                   /\ \E key \in names : key \in DOMAIN cfg[g.defs].m /\ IsMap(cfg[g.defs].m[key])
    IN IF ~ok THEN <<>>
       ELSE IF doc # {} THEN
            LET t == g.table[CHOOSE i \in doc : TRUE][2]
                redefined == 0 \in dm \/ names \cap dm # {}
            IN [key \in {t[i][1] : i \in DOMAIN t} |->
                   IF redefined THEN AnyV ELSE OneOf(t[CHOOSE i \in DOMAIN t : t[i][1] = key][2])]
       ELSE IF userdef
       THEN cfg[g.defs].m[CHOOSE key \in names : key \in DOMAIN cfg[g.defs].m /\ IsMap(cfg[g.defs].m[key])].m
       ELSE <<>>

Code(clause) == CASE clause = "merge.doc_unmodified" -> "unmod" [] clause = "merge.ctx_stable" -> "stable"
                  [] clause = "merge.deep_union" -> "union" [] clause = "merge.default_marker" -> "marker"
                  [] clause = "merge.precedence" -> "prec" [] OTHER -> clause

(* clauses violated by an observed section o against the expectation e after merging the sources srcs (the last   *)
(* one is the source of this step, the others were merged in steps whose result could not be observed): the      *)
(* clause is the one of the latest source that mentions the deviating path                                       *)
RECURSIVE ClauseOf(_, _, _)
ClauseOf(srcs, p, i) ==
    IF i = 0 THEN "merge.deep_union"
    ELSE LET c == ClauseAt(srcs[i], p) IN IF c = "merge.deep_union" THEN ClauseOf(srcs, p, i - 1) ELSE c
MergeClauses(e, o, srcs) == {ClauseOf(srcs, p, Len(srcs)) : p \in Diff(e, o, FALSE, <<>>)}

St0(r) == [pcfg |-> <<>>, ppend |-> <<>>, made |-> {}, loose |-> {}, ment |-> <<>>, rank |-> <<>>, dment |-> <<>>, unseen |-> <<>>,
           ocfg |-> <<>>, odocs |-> [d \in DOMAIN r.docs |-> J2V(r.docs[d])], orep |-> <<>>, frozen |-> <<>>, owner |-> <<>>,
           errs |-> {}, first |-> 0]

Step(st, r, i) ==
    LET s == r.steps[i]
        docs == [d \in DOMAIN r.docs |-> J2V(r.docs[d])]
        ocfg == Upd1(st.ocfg, s.cfg, LAMBDA pr : J2V(pr[2]))
        odocs == Upd1(st.odocs, s.docs, LAMBDA pr : J2V(pr[2]))
        orep == Upd1(st.orep, s.rep, LAMBDA pr : <<J2V(pr[2]), J2V(pr[3])>>)
        b == s.b
        known == b \in DOMAIN st.pcfg
        wasLoose == b \in st.loose
        nowLoose == wasLoose \/ (s.op \in {"upd", "create"} /\ b \in st.made)
        (* a source is taken as the document shows itself before the step (a document that the implementation *)
        (* has modified is reported once, under merge.doc_unmodified, not again through everything merged later) *)
        cur == st.odocs
        src == IF s.op \in {"new", "upd"} /\ s.d # 0 THEN cur[s.d]
               ELSE IF s.op = "create" /\ known THEN M([key \in DOMAIN st.ppend[b] |-> cur[st.ppend[b][key]]]) ELSE EmptyMap
        merged == IF s.op = "new" THEN (IF s.d = 0 THEN (IF IsMap(ocfg[b]) THEN ocfg[b].m ELSE <<>>) ELSE Merge(<<>>, src.m))
                  ELSE IF s.op \in {"upd", "create"} /\ known THEN Merge(st.pcfg[b], src.m)
                  ELSE IF known THEN st.pcfg[b] ELSE <<>>
        (* precedence bookkeeping: rank = number of sources merged into b so far (0 = built-in); ment = option   *)
        (* key -> rank of the latest source that gives it explicitly; dment = what user sources say about groups *)
        merging == s.op \in {"upd", "create"} /\ known
        rank == IF merging THEN st.rank[b] + 1 ELSE IF known /\ s.op # "new" THEN st.rank[b] ELSE 0
        named == IF merging THEN Mentions(src, r.optkey) ELSE {}
        ment == IF s.op = "new" \/ ~known THEN <<>>
                ELSE [key \in (DOMAIN st.ment[b]) \cup named |-> IF key \in named THEN rank ELSE st.ment[b][key]]
        dment == IF s.op = "new" \/ ~known THEN {}
                 ELSE IF merging THEN st.dment[b] \cup DefMentions(src, r.grp.defs) ELSE st.dment[b]
        rankstd == IF r.grp.std \in DOMAIN ment THEN ment[r.grp.std] ELSE 0
        protected == {key \in DOMAIN ment : ment[key] >= rankstd}
        block == IF s.op = "create" THEN Block(merged, r, dment) ELSE <<>>
        grouped == block # <<>>
        expCfg == IF grouped THEN Put(merged, r.optkey, M(GroupLoose(merged[r.optkey].m, block))) ELSE merged
        expOpts == IF r.optkey = 0 THEN AnyV
                   ELSE IF r.optkey \in DOMAIN merged /\ IsMap(merged[r.optkey])
                        THEN (IF grouped THEN M(GroupApply(merged[r.optkey].m, block, protected)) ELSE merged[r.optkey])
                   ELSE AnyV
        checked == s.op \in {"new", "upd", "create"} /\ ~nowLoose /\ ~(s.op = "new" /\ s.d = 0) /\ s.blind = 0
        srcs == (IF known /\ b \in DOMAIN st.unseen THEN st.unseen[b] ELSE <<>>) \o <<src>>
        cfgBad == IF checked THEN MergeClauses(M(expCfg), ocfg[b], srcs) ELSE {}
        repBad == IF s.op = "create" /\ ~nowLoose
                  THEN (IF s.blind = 0 THEN MergeClauses(M(expCfg), orep[s.c][1], srcs) ELSE {})
                       \cup {IF grouped /\ p # <<>> /\ p[1] \in DOMAIN block THEN "merge.precedence"
                             ELSE ClauseOf(srcs, <<r.optkey>> \o p, Len(srcs)) : p \in Diff(expOpts, orep[s.c][2], FALSE, <<>>)}
                  ELSE {}
        docBad == IF \E d \in DOMAIN docs : odocs[d] # docs[d] THEN {"merge.doc_unmodified"} ELSE {}
        loose == IF nowLoose THEN st.loose \cup {b} ELSE st.loose
        frozen == IF s.op = "create" THEN Put(st.frozen, s.c, orep[s.c]) ELSE st.frozen
        owner == IF s.op = "create" THEN Put(st.owner, s.c, b) ELSE st.owner
        (* an operation on builder b says nothing about b's own earlier contexts (same-builder reuse: the  *)
        (* statement quantifies over sequences of builders); everybody else must not notice it           *)
        ctxBad == IF \/ \E c \in DOMAIN st.frozen : owner[c] # b /\ orep[c] # st.frozen[c]
                     \/ \E o \in DOMAIN st.ocfg : o # b /\ ocfg[o] # st.ocfg[o]
                  THEN {"merge.ctx_stable"} ELSE {}
        bad == cfgBad \cup repBad \cup docBad \cup ctxBad
        (* continue from what the implementation shows, so that one deviation is reported once *)
        resync == s.blind = 0 /\ (cfgBad # {} \/ nowLoose) /\ b \in DOMAIN ocfg /\ IsMap(ocfg[b])
        pnew == IF s.op \in {"new", "upd", "create"} THEN (IF resync THEN ocfg[b].m ELSE expCfg) ELSE merged
    IN [pcfg |-> IF s.op = "obs" THEN st.pcfg ELSE Put(st.pcfg, b, pnew),
        ppend |-> IF s.op = "new" THEN Put(st.ppend, b, <<>>)
                  ELSE IF s.op = "set" /\ known THEN Put(st.ppend, b, Put(st.ppend[b], s.key, s.d))
                  ELSE st.ppend,
        made |-> IF s.op = "create" THEN st.made \cup {b} ELSE st.made,
        loose |-> loose,
        ment |-> IF s.op = "obs" THEN st.ment ELSE Put(st.ment, b, ment),
        rank |-> IF s.op = "obs" THEN st.rank ELSE Put(st.rank, b, rank),
        dment |-> IF s.op = "obs" THEN st.dment ELSE Put(st.dment, b, dment),
        unseen |-> IF s.op = "obs" THEN st.unseen
                   ELSE IF s.op \in {"upd", "create"} /\ ~checked /\ ~nowLoose THEN Put(st.unseen, b, SubSeq(srcs, 1, Len(srcs)))
                   ELSE IF s.op \in {"new", "upd", "create"} THEN Put(st.unseen, b, <<>>)
                   ELSE st.unseen,
        ocfg |-> ocfg, odocs |-> odocs, orep |-> orep, frozen |-> [c \in DOMAIN frozen |-> orep[c]], owner |-> owner,
        errs |-> st.errs \cup bad,
        first |-> IF st.first = 0 /\ bad # {} THEN i ELSE st.first]

RECURSIVE Run(_, _, _)
Run(st, r, i) == IF i > Len(r.steps) THEN st ELSE Run(Step(st, r, i), r, i + 1)

Order == <<"merge.doc_unmodified", "merge.ctx_stable", "merge.deep_union", "merge.default_marker", "merge.precedence">>
RECURSIVE Join(_, _)
Join(errs, i) ==
    IF i > Len(Order) THEN ""
    ELSE LET rest == Join(errs, i + 1)
         IN IF Order[i] \in errs THEN (IF rest = "" THEN Code(Order[i]) ELSE Code(Order[i]) \o "+" \o rest) ELSE rest

TInit == l = 1
TNext == /\ l <= Len(Trace)
         /\ LET r == Trace[l]
                st == Run(St0(r), r, 1)
            IN IF st.errs = {} THEN TRUE ELSE PrintT(<<"REJECT", r.id, Join(st.errs, 1), st.first>>)
         /\ l' = l + 1
TSpec == TInit /\ [][TNext]_l
Accepted == TLCGet("stats").diameter - 1 = Len(Trace)
=============================================================================
