SPECIFICATION Spec
CONSTANTS
  EscMode = "markupsafe"
  LinkStyle = "fixed"
  MaxTok = 3
  Part = "links"
  ListStyle = "byname"
  Chains = FALSE
  Configs = {"default"}
  SampleConfigs = {}
INVARIANT LinksRefineP
CHECK_DEADLOCK FALSE
