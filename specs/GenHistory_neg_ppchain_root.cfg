SPECIFICATION Spec
CONSTANTS
  GenFiles = {1, 3}
  OtherFiles = {}
  Modes = {292, 420}
  Variants = {0, 4, 7, 8}
  ChmodGate = TRUE
  CopyGate = TRUE
  Truncates = TRUE
  PPOrder = "mode_first"
  Privileged = TRUE
  OptsSel = "all"
  EnvOn = TRUE
  Record = FALSE
  MaxSteps = 0
INVARIANT RequestedMode
CHECK_DEADLOCK FALSE
