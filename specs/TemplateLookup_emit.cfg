\* case emission (spec -> code), run with -workers 1: one JSON record per complete lookup history
SPECIFICATION Spec
CHECK_DEADLOCK FALSE
INVARIANT Emit
CONSTANTS
  Shape = "chain4"
  Modes = {"both"}
  MaxLookups = 3
  SharedCache = TRUE
  MaxAdds = 1
  StrictGlobals = FALSE
