SPECIFICATION Spec
CONSTANTS
  GenFiles = {1, 2, 3}
  OtherFiles = {}
  Modes = {292, 420, 384}
  Variants = {0, 1, 2, 3}
  ChmodGate = TRUE
  CopyGate = TRUE
  Truncates = TRUE
  PPOrder = "program_first"
  Privileged = FALSE
  OptsSel = "all"
  EnvOn = TRUE
  Record = FALSE
  MaxSteps = 0
INVARIANT TypeOK
INVARIANT RunEndOK
INVARIANT NoTornFile
INVARIANT IdleModes
INVARIANT NeverDenied
INVARIANT RefusedOnlyOnConflict
INVARIANT UntouchedOthers
CHECK_DEADLOCK FALSE
