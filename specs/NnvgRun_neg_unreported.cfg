SPECIFICATION Spec
CHECK_DEADLOCK FALSE
CONSTANTS
  Bug = "unreported"
  Writer = "direct"
  Size = "q"
INVARIANT P_reported
