SPECIFICATION Spec
CONSTANTS
  NTypes = 3
  MaxRuns = 2
  Shapes <- ShapesEmitQ
  Limits = {0, 2}
  DefIds = {1, 2}
  OmitVals = {FALSE}
  Modes = {"fresh", "lctx", "gen"}
  ResetLimiter = TRUE
  IdentityDepKey = TRUE
  VolatileUniq = TRUE
  FreshModule = TRUE
  Words = {1, 2}
  FullStropKey = TRUE
  Docs = {1}
  PureFilters = TRUE
  Confs = {0}
  PureDerivedNames = TRUE
INVARIANT Emit
CHECK_DEADLOCK FALSE
