------------------------------ MODULE Includes ------------------------------
(* C06 - every valid DSDL input yields generated code that builds cleanly on its own.                              *)
(*                                                                                                                *)
(* PART 1 (P-layer): the property, stated on OBSERVATIONS of one generation campaign over a set of namespaces:    *)
(*   which files each generator run produced, which generated files every produced file refers to (#include /    *)
(*   import lines that do not name the language's own standard library or a documented third-party package),      *)
(*   and what a compiler / interpreter said when it was handed one produced file alone.  Nothing in part 1 refers *)
(*   to how Nunavut computes anything.  These operators are the only thing that decides VIOLATION; they are       *)
(*   evaluated on records of the real code by IncludesTrace.tla and on the bounded design of part 2 by the        *)
(*   invariant Closure.                                                                                           *)
(* PART 2 (bounded design, I-shaped): types placed in root / nested namespaces of <= NRoots roots, kinds          *)
(*   (message / service), a dependency relation (plain field or array element; request or response section),      *)
(*   Generate(root, omit) = one run of generate_types for one root with every other root as lookup directory:     *)
(*   one file per type of the root + the support file unless omitted (+ one package file per namespace in the     *)
(*   "package" reference style of the Python target); every type file refers to what IncludeGenerator /           *)
(*   filter_imports derive from DependencyBuilder.direct(): the files (packages) of the direct dependencies of    *)
(*   request AND response attributes, arrays unwrapped, + the support file according to SupportRef.               *)
(*   TLC explores every world x every order of runs x both omit settings per run.                                 *)
(*                                                                                                                *)
(* Text is Seq(Nat) (code points).  A Path is a text.                                                             *)
EXTENDS Naturals, Sequences, FiniteSets, TLC, Json

(* ======================================= PART 1: P-layer =============================================== *)

(* inc.closure: a produced file refers only to files that generating the involved namespaces produced *)
MissingRefs(producedSet, incs) == {k \in DOMAIN incs : incs[k] \notin producedSet}
ClosureOK(producedSet, incs) == MissingRefs(producedSet, incs) = {}

(* gen.rc: generation completes without error *)
GenOK(rc) == rc = 0

(* build.rc / build.diag: the tool accepted the file alone, and said nothing *)
BuildRcOK(rc) == rc = 0
BuildDiagOK(diag) == diag = <<>>

(* Definitions whose distinct names are folded onto one identifier by the documented one-way stropping are       *)
(* excluded by the property.  groups : Seq(Seq([raw : Text, strop : Text])) - one group per scope (attributes of *)
(* one type, types of one namespace, sibling namespaces); strop is the language's own image of the DSDL name.    *)
Folded(groups) ==
    \E g \in DOMAIN groups : \E i, j \in DOMAIN groups[g] :
        i # j /\ groups[g][i].raw # groups[g][j].raw /\ groups[g][i].strop = groups[g][j].strop

(* ================================== PART 2: bounded design model ======================================== *)
CONSTANTS
    N,            \* number of types (1..N, dependencies point to lower numbers: every DAG up to renaming)
    NRoots,       \* number of root namespaces
    NestedRoots,  \* roots that also have a nested namespace <root>.sub
    RefStyle,     \* "file": a type file refers to the type files of its dependencies (C, C++)
                  \* "package": it refers to the package file of the dependency's namespace (Python)
    SupportRef,   \* "unless_omitted" (C, C++) | "always" (Python templates ignore the omit flag)
    SupportGen,   \* "unless_omitted" (every target today) | "always": when the support file is written
    ScanResponse, \* DependencyBuilder._extract_data_types looks at request AND response attributes
    ScanArrays,   \* ... and unwraps array element types
    EmitWorlds    \* print one JSON record per world (case generation)

Types == 1..N
Roots == 1..NRoots
Slots == [r : Roots, d : {0}] \cup [r : NestedRoots, d : {1}]
Kinds == {"msg", "svc"}
ViaMsg == {"none", "f", "a"}             \* plain field | array element
ViaSvc == {"none", "qf", "pa", "qp"}     \* reQuest field | resPonse array element | a field in both sections

VARIABLES
    defined,  \* 0..N : the world is built type by type (so that TLC's workers share the enumeration)
    place,    \* Seq(Slots), place[t]
    kind,     \* Seq(Kinds)
    via,      \* via[t] : [1..t-1 -> Via] ; dependencies point to lower numbers
    status,   \* [Roots -> {"no", "ser", "omit"}]
    produced, \* set of files
    refs      \* [produced -> SUBSET files]

vars == <<defined, place, kind, via, status, produced, refs>>

TF(t) == [k |-> "type", t |-> t]
SF == [k |-> "support"]
NF(s) == [k |-> "pkg", r |-> s.r, d |-> s.d]

Known == 1..defined
TypesOfRoot(r) == {t \in Known : place[t].r = r}
UsedRoots == {place[t].r : t \in Known}

(* what the templates need the definition of: every composite attribute, in both sections, arrays included *)
Needs(t) == {j \in 1..(t - 1) : via[t][j] # "none"}

(* what DependencyBuilder.direct() finds *)
InRequest(v) == v \in {"f", "a", "qf", "qp"}
InResponse(v) == v \in {"pa", "qp"}
IsArray(v) == v \in {"a", "pa"}
Direct(t) ==
    {j \in 1..(t - 1) :
        /\ via[t][j] # "none"
        /\ InRequest(via[t][j]) \/ (ScanResponse /\ InResponse(via[t][j]))
        /\ IsArray(via[t][j]) => ScanArrays}

(* namespaces for which the Python target writes a package file: every namespace from the root to a type *)
PkgSlots(r) == IF TypesOfRoot(r) = {} THEN {} ELSE {[r |-> r, d |-> 0]} \cup {place[t] : t \in TypesOfRoot(r)}

SupportReferred(om) == SupportRef = "always" \/ ~om

RefsOf(f, om) ==
    IF f.k = "type"
    THEN (IF RefStyle = "file" THEN {TF(j) : j \in Direct(f.t)} ELSE {NF(place[j]) : j \in Direct(f.t)})
         \cup (IF SupportReferred(om) THEN {SF} ELSE {})
    ELSE IF f.k = "pkg" THEN {TF(t) : t \in {t \in Known : place[t] = [r |-> f.r, d |-> f.d]}}
    ELSE {}

NewFiles(r, om) ==
    {TF(t) : t \in TypesOfRoot(r)}
    \cup (IF SupportGen = "always" \/ ~om THEN {SF} ELSE {})
    \cup (IF RefStyle = "package" THEN {NF(s) : s \in PkgSlots(r)} ELSE {})

Init ==
    /\ defined = 0 /\ place = <<>> /\ kind = <<>> /\ via = <<>>
    /\ status = [r \in Roots |-> "no"]
    /\ produced = {}
    /\ refs = <<>>

(* the next type of the world: where it lives, what it is, which earlier types it uses and how *)
Define ==
    /\ defined < N
    /\ \E s \in Slots : \E k \in Kinds :
          /\ s.r <= Cardinality(UsedRoots) + 1                    \* roots are interchangeable: use them in order
          /\ \E v \in [1..defined -> IF k = "svc" THEN ViaSvc ELSE ViaMsg] :
                /\ \A j \in 1..defined : kind[j] = "svc" => v[j] = "none"     \* a service is not a field type
                /\ place' = Append(place, s) /\ kind' = Append(kind, k) /\ via' = Append(via, v)
    /\ defined' = defined + 1
    /\ UNCHANGED <<status, produced, refs>>

(* one run of the generator for root r, every other root being a lookup directory *)
Generate(r, om) ==
    /\ defined = N
    /\ status[r] = "no"
    /\ TypesOfRoot(r) # {}
    /\ status' = [status EXCEPT ![r] = IF om THEN "omit" ELSE "ser"]
    /\ produced' = produced \cup NewFiles(r, om)
    /\ refs' = [f \in produced \cup NewFiles(r, om) |-> IF f \in NewFiles(r, om) /\ f # SF THEN RefsOf(f, om)
                                                         ELSE IF f \in DOMAIN refs THEN refs[f] ELSE {}]
    /\ UNCHANGED <<defined, place, kind, via>>

Next == Define \/ \E r \in Roots : \E om \in BOOLEAN : Generate(r, om)

Spec == Init /\ [][Next]_vars

(* ---------------------------------------------------------------------------------------------------- *)
Generated == {r \in Roots : status[r] # "no"}
(* the roots the generated ones involve: closed under "a type of the root depends on a type of ..." *)
InvolvedBy(r) == {place[j].r : j \in UNION {Needs(t) : t \in TypesOfRoot(r)}}
AllInvolvedGenerated == \A r \in Generated : InvolvedBy(r) \subseteq Generated

(* P-layer on the model's own observation: files as records instead of texts *)
Closure ==
    (defined = N /\ AllInvolvedGenerated) => \A f \in produced : \A g \in refs[f] : g \in produced

(* design lemma behind "compiles on its own": whatever a type file needs is referred to by it *)
NeedFiles(t) == IF RefStyle = "file" THEN {TF(j) : j \in Needs(t)} ELSE {NF(place[j]) : j \in Needs(t)}
SelfSufficient ==
    \A f \in produced : f.k = "type" => NeedFiles(f.t) \subseteq refs[f]

TypeOK ==
    /\ DOMAIN refs = produced
    /\ \A f \in produced : f.k \in {"type", "support", "pkg"}

(* ---------------------------------------------------------------------------------------------------- *)
(* case generation: one record per world, with the predicted references for both omit settings *)
SetToSeq(S) == CHOOSE s \in [1..Cardinality(S) -> S] : \A i, j \in 1..Cardinality(S) : i < j => s[i] < s[j]
World ==
    [types |-> [t \in Types |-> [root |-> place[t].r, nested |-> place[t].d, kind |-> kind[t],
                                 deps |-> via[t],
                                 direct |-> SetToSeq(Direct(t)),
                                 needs |-> SetToSeq(Needs(t))]],
     roots |-> SetToSeq(UsedRoots),
     style |-> RefStyle, support |-> SupportRef, supportgen |-> SupportGen]
Emit == (EmitWorlds /\ defined = N /\ status = [r \in Roots |-> "no"]) => PrintT(ToJson(World))
=============================================================================
