------------------------------ MODULE BitPrims ------------------------------
(* C14: the bit-level primitives of the support libraries.                                                   *)
(* P-layer: pointwise contracts on bit strings (buffers are byte sequences, bit i of the buffer is bit i%8    *)
(* of byte i/8, LSB first).  I-layer: the byte-wise algorithm of nunavutCopyBits (aligned memmove branch +     *)
(* tail mask; unaligned branch moving min(8 - max(src_mod, dst_mod), remaining) bits per iteration) and of     *)
(* nunavutGetBits (saturate, memset, copy) as a state machine; TLC checks I = P exhaustively over the bounds.  *)
EXTENDS BitPrimsP

(* ------------------------------------------------ I-layer ------------------------------------------------ *)
CONSTANT Level,     \* 1 quick, 2 thorough
         GuardEmpty  \* TRUE: nunavutCopyBits returns at once when there is nothing to copy (the repaired code);
                     \* FALSE: its aligned branch forms `src + off / 8` before it looks at the length
MaxOff == IF Level = 1 THEN 9 ELSE 15
MaxLen == IF Level = 1 THEN 17 ELSE 20
Symbols == {0, 255, 165}
DstPatterns == IF Level = 1 THEN {<<0>>, <<255>>, <<165, 90>>} ELSE {<<0>>, <<255>>, <<165, 90>>, <<90, 0, 255>>}

VARIABLES op, src, dst0, so, do, len0, len,  \* stimulus (len: bits still to copy, after saturation)
          dst, soff, doff, phase,            \* machine
          ptr                                \* the largest byte index for which a pointer into the SOURCE was formed (-1: none)

vars == <<op, src, dst0, so, do, len0, len, dst, soff, doff, phase, ptr>>

NB == ((MaxOff + MaxLen + 7) \div 8) + 1
Rep(p, n) == [i \in 1..n |-> p[((i - 1) % Len(p)) + 1]]
SrcBufs == {Rep(p, NB) : p \in [1..3 -> Symbols]}
DstBufs == {Rep(p, NB) : p \in DstPatterns}

(* byte arithmetic *)
Shr(x, k) == x \div Pow2(k)
Shl8(x, k) == (x * Pow2(k)) % 256
And8(x, y) == LET a == BitsOfBytes(<<x>>) b == BitsOfBytes(<<y>>) IN BytesOfBits([i \in 1..8 |-> a[i] * b[i]])[1]
Or8(x, y) == LET a == BitsOfBytes(<<x>>) b == BitsOfBytes(<<y>>) IN BytesOfBits([i \in 1..8 |-> IF a[i] + b[i] > 0 THEN 1 ELSE 0])[1]
Not8(x) == 255 - x

GSize == NB - 2
Init ==
    /\ op \in {"copy", "getbits"}
    /\ src \in SrcBufs /\ dst0 \in DstBufs
    /\ so \in (0..MaxOff) \cup (IF op = "getbits" THEN {8 * GSize, 8 * GSize + 3, 8 * GSize + 8, 8 * GSize + 24} ELSE {})    \* also: cursor at / beyond the end
    /\ do \in (IF op = "copy" THEN 0..MaxOff ELSE {0})
    /\ len0 \in 0..MaxLen /\ len = len0
    /\ dst = dst0 /\ soff = so /\ doff = do
    /\ phase = IF op = "copy" THEN "dispatch" ELSE "saturate"
    /\ ptr = -1

(* nunavutGetBits: the source buffer is only `gsize` bytes long: bits beyond are implicit zeros *)
Saturate ==
    /\ phase = "saturate"
    /\ LET sat == SatBits(GSize, so, len)
           from == sat \div 8
           cnt == ((len + 7) \div 8) - from
       IN /\ dst' = [i \in 1..Len(dst) |-> IF i > from /\ i <= from + cnt THEN 0 ELSE dst[i]]        \* memset
          /\ len' = sat
          /\ phase' = "dispatch"
    /\ UNCHANGED <<op, src, dst0, so, do, len0, soff, doff, ptr>>

Dispatch ==
    /\ phase = "dispatch"
    /\ phase' = IF GuardEmpty /\ len = 0 THEN "done" ELSE IF soff % 8 = 0 /\ doff % 8 = 0 THEN "aligned" ELSE "unaligned"
    /\ UNCHANGED <<op, src, dst0, so, do, len0, len, dst, soff, doff, ptr>>

AlignedMove ==
    /\ phase = "aligned"
    /\ LET nbytes == len \div 8
           ps == soff \div 8
           pd == doff \div 8
       IN /\ dst' = [i \in 1..Len(dst) |-> IF i > pd /\ i <= pd + nbytes THEN src[ps + (i - pd)] ELSE dst[i]]
          /\ ptr' = Max2(ptr, ps)          \* `psrc = (src_offset_bits / 8U) + src` is formed before the length is looked at
    /\ phase' = IF len % 8 # 0 THEN "tail" ELSE "done"
    /\ UNCHANGED <<op, src, dst0, so, do, len0, len, soff, doff>>

AlignedTail ==
    /\ phase = "tail"
    /\ LET nbytes == len \div 8
           ls == (soff \div 8) + nbytes + 1
           ld == (doff \div 8) + nbytes + 1
           mask == Pow2(len % 8) - 1
       IN dst' = [dst EXCEPT ![ld] = Or8(And8(dst[ld], Not8(mask)), And8(src[ls], mask))]
    /\ phase' = "done"
    /\ UNCHANGED <<op, src, dst0, so, do, len0, len, soff, doff, ptr>>

UnalignedStep ==
    /\ phase = "unaligned"
    /\ LET last == so + len
       IN IF last > soff THEN
              LET smod == soff % 8
                  dmod == doff % 8
                  size == Min2(8 - Max2(smod, dmod), last - soff)
                  mask == Shl8(Pow2(size) - 1, dmod)
                  in == Shl8(Shr(src[(soff \div 8) + 1], smod), dmod)
                  a == And8(dst[(doff \div 8) + 1], Not8(mask))
                  b == And8(in, mask)
              IN /\ dst' = [dst EXCEPT ![(doff \div 8) + 1] = Or8(a, b)]
                 /\ soff' = soff + size /\ doff' = doff + size
                 /\ ptr' = Max2(ptr, soff \div 8)          \* psrc[src_off / 8U]: an access, inside by ReadsInside
                 /\ UNCHANGED phase
          ELSE phase' = "done" /\ UNCHANGED <<dst, soff, doff, ptr>>
    /\ UNCHANGED <<op, src, dst0, so, do, len0, len>>

Next == Saturate \/ Dispatch \/ AlignedMove \/ AlignedTail \/ UnalignedStep
Spec == Init /\ [][Next]_vars

Refines ==
    phase = "done" =>
        IF op = "copy" THEN dst = PCopy(dst0, do, len0, src, so)
        ELSE dst = PGetBits(dst0, SubSeq(src, 1, GSize), so, len0)

(* reads stay inside the source, writes inside the addressed range (implied by Refines for writes) *)
ReadsInside == phase = "unaligned" /\ so + len > soff => (soff \div 8) + 1 <= Len(src)
(* C04 / C14: a bounded fetch never forms a pointer beyond one-past-the-end of the declared source buffer, wherever the cursor is *)
PtrInside == op = "getbits" => ptr <= GSize
=============================================================================
