SPECIFICATION Spec
CONSTANTS
  NTypes = 3
  MaxRuns = 2
  Shapes <- ShapesPlain
  Limits = {0}
  DefIds = {1, 2}
  OmitVals = {FALSE}
  Modes = {"fresh", "lctx", "gen"}
  ResetLimiter = TRUE
  IdentityDepKey = TRUE
  VolatileUniq = TRUE
  FreshModule = TRUE
  Words = {2}
  FullStropKey = TRUE
  Docs = {1}
  PureFilters = FALSE
  Confs = {0}
  PureDerivedNames = TRUE
VIEW View
INVARIANT EmitBad
CHECK_DEADLOCK FALSE
