SPECIFICATION Spec
CONSTANTS
  KSel = 3
  IsUnion = FALSE
  MaxHist = 4
  CtorSpecial = 1
  MidReduced = FALSE
  ParseDigits = FALSE
  ClearFirst = FALSE
INVARIANT Refines
INVARIANT StateKept
INVARIANT UnionAlwaysOne
INVARIANT NeverOutOfRange
CHECK_DEADLOCK FALSE
