---------------------------- MODULE HtmlDocGen ----------------------------
(* I-layer for C20: how the html target of Nunavut turns DSDL text and type graphs into pages, shaped like the *)
(* code, and the refinement I => P against the acceptor of HtmlDoc.                                            *)
(*                                                                                                            *)
(* Part A (text):  type_info.j2 emits the literal  <pre class="docs">  , then  {{ t.doc }}  through the        *)
(*   environment's finalizer -- which escapes (markupsafe) or does not, depending on select_autoescape --,    *)
(*   then  </pre> .  A browser / tokenizer re-lexes the concatenated CHARACTERS.  Stages: Render, Lex, Judge.  *)
(*   EscMode = "markupsafe" is what the property needs, "none" is what a template named *.j2 gets.            *)
(*   An attribute context  <p title="{{doc}}">  is modelled too (not used by the built-in templates) so that   *)
(*   the attribute clause of P is exercised by the model.                                                     *)
(* Part B (links): build_namespace_tree + Namespace.j2: one namespace page per namespace listing every type of *)
(*   its subtree (ids = tag ids), nested composites rendered recursively with a hyperlink  url_from_type .     *)
(*   The NAME of the namespace page is a parameter of the run:  IndexPage(cfg) = <namespace file stem><extension> *)
(*   (Namespace.__init__: output_stem.with_suffix(extension)); "index.html" by default, changed by              *)
(*   --namespace-output-stem / --output-extension (the extension also names the per-type pages).                *)
(*   LinkStyle = "code":  "../<root>/#<tag id of the referenced type>"  (filter_url_from_type);                *)
(*   LinkStyle = "fixed": one "../" per namespace level of the page, request/response types link to the        *)
(*   anchor of their service; still the DIRECTORY url of the root namespace  ("../<root>/#id");                *)
(*   LinkStyle = "page":  as "fixed" but the url names the namespace page  ("../<root>/<IndexPage>#id").       *)
(*   Stages: BuildTree, EmitLinks, ResolveAll.  P resolves a directory url to index.html only, so "fixed"       *)
(*   refines P in the default configuration only and "page" in every configuration.                           *)
(* TLC checks I => P exhaustively for all payloads of <= MaxTok special tokens x both contexts and all         *)
(* type-graph shapes; the variants the unchanged tree implements are refuted (negative controls).             *)
EXTENDS Naturals, Sequences, FiniteSets, TLC, Json

CONSTANTS EscMode,      \* "none" | "markupsafe"
          LinkStyle,    \* "code" | "fixed" | "page" | "samepage" | "sameprefix"
          MaxTok,       \* payloads are sequences of 0..MaxTok special tokens
          Part,         \* "text" | "links" | "both"
          Chains,       \* BOOLEAN: shapes with a third type (nested rendering inside nested rendering)
          ListStyle,    \* "versioned": every type (name AND version) has its entry | "byname": one entry per unversioned name
          Configs,      \* run configurations under which EVERY type-graph shape is generated (subset of CfgNames)
          SampleConfigs \* run configurations under which one shape per (referrer namespace, target namespace) is generated

P == INSTANCE HtmlDoc WITH MaxLen <- 0, st <- 0, toks <- 0, seen <- 0

VARIABLES phase, stim, mid, result
vars == <<phase, stim, mid, result>>

(* ============================================ Part A: text ============================================== *)
LT == 60  GT == 62  AMP == 38  DQ == 34  SQ == 39  SL == 47  EQ == 61  BANG == 33  QM == 63  BT == 96
PRE_OPEN   == <<60, 112, 114, 101, 32, 99, 108, 97, 115, 115, 61, 34, 100, 111, 99, 115, 34, 62>>   \* <pre class="docs">
PRE_CLOSE  == <<60, 47, 112, 114, 101, 62>>                                                         \* </pre>
ATTR_OPEN  == <<60, 112, 32, 116, 105, 116, 108, 101, 61, 34>>                                      \* <p title="
ATTR_CLOSE == <<34, 62, 120, 60, 47, 112, 62>>                                                      \* ">x</p>
MarkA == <<122, 113, 106, 97, 49, 120>>                                                             \* zqja1x
MarkB == <<122, 113, 106, 98, 49, 120>>                                                             \* zqjb1x
ZQ == <<122, 113>>

(* the special tokens of the payload alphabet:  <  >  &  "  '  </pre>  <script>alert(1)</script>  -->  {{        *)
Tok == << <<60>>, <<62>>, <<38>>, <<34>>, <<39>>, <<60, 47, 112, 114, 101, 62>>,
          <<60, 115, 99, 114, 105, 112, 116, 62, 97, 108, 101, 114, 116, 40, 49, 41, 60, 47, 115, 99, 114, 105, 112, 116, 62>>,
          <<45, 45, 62>>, <<123, 123>> >>
Payloads == UNION {[1..k -> 1..Len(Tok)] : k \in 0..MaxTok}
RECURSIVE Flat(_, _)
Flat(pl, i) == IF i > Len(pl) THEN <<>> ELSE Tok[pl[i]] \o Flat(pl, i + 1)

(* markupsafe.escape *)
EscChar(c) == CASE c = AMP -> <<38, 97, 109, 112, 59>> [] c = LT -> <<38, 108, 116, 59>> [] c = GT -> <<38, 103, 116, 59>>
                [] c = DQ -> <<38, 35, 51, 52, 59>> [] c = SQ -> <<38, 35, 51, 57, 59>> [] OTHER -> <<c>>
MinOf(J) == CHOOSE j \in J : \A k \in J : j <= k
(* recursion only per special character (TLC's recursion is deep in Java frames) *)
RECURSIVE EscAll(_, _)
EscAll(t, i) ==
    LET J == {j \in i..Len(t) : t[j] \in {AMP, LT, GT, DQ, SQ}}
    IN IF J = {} THEN SubSeq(t, i, Len(t))
       ELSE LET j == MinOf(J) IN SubSeq(t, i, j - 1) \o EscChar(t[j]) \o EscAll(t, j + 1)
Finalize(mode, t) == IF mode = "markupsafe" THEN EscAll(t, 1) ELSE t

Render(mode, ctx, t) ==
    IF ctx = "pre" THEN PRE_OPEN \o MarkA \o Finalize(mode, t) \o MarkB \o PRE_CLOSE
    ELSE ATTR_OPEN \o MarkA \o Finalize(mode, t) \o MarkB \o ATTR_CLOSE

(* ---- a character-level HTML lexer (data, tags with attributes, end tags, raw text, character references) ---- *)
IsAlpha(c) == c \in 65..90 \/ c \in 97..122
IsWS(c) == c \in {9, 10, 12, 13, 32}
Lower(c) == IF c \in 65..90 THEN c + 32 ELSE c
LowerSeq(s) == [i \in 1..Len(s) |-> Lower(s[i])]
StartsWith(s, i, w) == i + Len(w) - 1 <= Len(s) /\ SubSeq(s, i, i + Len(w) - 1) = w

Refs == << << <<38, 97, 109, 112, 59>>, 38 >>, << <<38, 108, 116, 59>>, 60 >>, << <<38, 103, 116, 59>>, 62 >>,
           << <<38, 113, 117, 111, 116, 59>>, 34 >>, << <<38, 35, 51, 52, 59>>, 34 >>, << <<38, 35, 51, 57, 59>>, 39 >>,
           << <<38, 35, 120, 50, 55, 59>>, 39 >> >>
CharRef(s, i) ==
    LET M == {k \in 1..Len(Refs) : StartsWith(s, i, Refs[k][1])}
    IN IF M = {} THEN <<AMP, 1>> ELSE LET k == CHOOSE k \in M : TRUE IN <<Refs[k][2], Len(Refs[k][1])>>
RECURSIVE Decode(_, _)
Decode(s, i) ==
    LET J == {j \in i..Len(s) : s[j] = AMP}
    IN IF J = {} THEN SubSeq(s, i, Len(s))
       ELSE LET j == MinOf(J)  r == CharRef(s, j) IN SubSeq(s, i, j - 1) \o <<r[1]>> \o Decode(s, j + r[2])

(* sentinel lexing: text -> pieces, names -> number of sentinel occurrences                                 *)
TextPiece(cur) == IF cur = <<>> THEN <<>> ELSE << [m |-> 0, i |-> 0, s |-> cur] >>
RECURSIVE PiecesFrom(_, _)
PiecesFrom(t, i) ==
    LET J == {j \in i..Len(t) : StartsWith(t, j, MarkA) \/ StartsWith(t, j, MarkB)}
    IN IF J = {} THEN TextPiece(SubSeq(t, i, Len(t)))
       ELSE LET j == MinOf(J)
            IN TextPiece(SubSeq(t, i, j - 1)) \o << [m |-> IF StartsWith(t, j, MarkA) THEN 1 ELSE 2, i |-> 1, s |-> <<>>] >>
               \o PiecesFrom(t, j + Len(MarkA))
Pieces(t) == PiecesFrom(t, 1)
Taint(name) == Cardinality({i \in 1..Len(name) : StartsWith(name, i, ZQ)})

(* first index >= i whose character satisfies the stop set, or Len+1 *)
Until(s, i, stop) == LET J == {j \in i..Len(s) : s[j] \in stop} IN IF J = {} THEN Len(s) + 1 ELSE MinOf(J)
SkipWhile(s, i, set) == LET J == {j \in i..Len(s) : s[j] \notin set} IN IF J = {} THEN Len(s) + 1 ELSE MinOf(J)

WSset == {9, 10, 12, 13, 32}
StrayLt(sl) == \E j \in 1..(Len(sl) - 1) :
                  /\ sl[j] = LT
                  /\ \/ IsAlpha(sl[j + 1]) \/ sl[j + 1] \in {BANG, QM}
                     \/ (sl[j + 1] = SL /\ j + 2 <= Len(sl) /\ IsAlpha(sl[j + 2]))
NameOK(n) == n # <<>> /\ \A i \in 1..Len(n) : n[i] \in 97..122 \/ n[i] \in 48..57 \/ (n[i] = 45 /\ i > 1)
AttrNameBad(n) == \E i \in 1..Len(n) : n[i] \in {DQ, SQ, LT, EQ, BT}

(* attributes from position j; result [ok, end, a, sc] *)
RECURSIVE ParseAttrs(_, _, _, _)
ParseAttrs(s, j0, as, slash) ==
    LET j == SkipWhile(s, j0, WSset)
    IN IF j > Len(s) THEN [ok |-> FALSE, end |-> j, a |-> as, sc |-> FALSE]
       ELSE IF s[j] = GT THEN [ok |-> TRUE, end |-> j + 1, a |-> as, sc |-> slash]
       ELSE IF s[j] = SL THEN ParseAttrs(s, j + 1, as, TRUE)
       ELSE LET ne == Until(s, j + 1, WSset \cup {SL, GT, EQ})
                nm == LowerSeq(SubSeq(s, j, ne - 1))
                k  == SkipWhile(s, ne, WSset)
            IN IF k <= Len(s) /\ s[k] = EQ THEN
                    LET v0 == SkipWhile(s, SkipWhile(s, k, {EQ}), WSset)
                    IN IF v0 > Len(s) THEN [ok |-> FALSE, end |-> v0, a |-> as, sc |-> FALSE]
                       ELSE IF s[v0] \in {DQ, SQ} THEN
                            LET ve == Until(s, v0 + 1, {s[v0]})
                            IN IF ve > Len(s) THEN [ok |-> FALSE, end |-> ve, a |-> as, sc |-> FALSE]
                               ELSE ParseAttrs(s, ve + 1,
                                      Append(as, [n |-> nm, hv |-> TRUE, v |-> Pieces(Decode(SubSeq(s, v0 + 1, ve - 1), 1))]), FALSE)
                       ELSE LET ve == Until(s, v0, WSset \cup {GT})
                            IN ParseAttrs(s, ve, Append(as, [n |-> nm, hv |-> TRUE, v |-> Pieces(Decode(SubSeq(s, v0, ve - 1), 1))]), FALSE)
               ELSE ParseAttrs(s, ne, Append(as, [n |-> nm, hv |-> FALSE, v |-> <<>>]), FALSE)

RECURSIVE AttrTaint(_, _)
AttrTaint(as, i) == IF i > Len(as) THEN 0 ELSE Taint(as[i].n) + AttrTaint(as, i + 1)

StartTag(s, i) ==   \* s[i] = "<", s[i+1] a letter
    LET ne == Until(s, i + 1, WSset \cup {SL, GT})
        nm == LowerSeq(SubSeq(s, i + 1, ne - 1))
        r  == ParseAttrs(s, ne, <<>>, FALSE)
        dup == \E x, y \in 1..Len(r.a) : x < y /\ r.a[x].n = r.a[y].n
        bad == (IF NameOK(nm) THEN <<>> ELSE <<"tagname">>)
               \o (IF \E x \in 1..Len(r.a) : AttrNameBad(r.a[x].n) THEN <<"attrname">> ELSE <<>>)
               \o (IF dup THEN <<"dupattr">> ELSE <<>>)
    IN [ok |-> r.ok, end |-> r.end,
        ev |-> [k |-> "open", t |-> nm, a |-> r.a, sc |-> r.sc, taint |-> Taint(nm) + AttrTaint(r.a, 1), bad |-> bad]]

EndTag(s, i) ==     \* s[i] = "<", s[i+1] = "/", s[i+2] a letter
    LET ne == Until(s, i + 2, WSset \cup {SL, GT})
        nm == LowerSeq(SubSeq(s, i + 2, ne - 1))
        g  == Until(s, ne, {GT})
        junk == \E x \in ne..(g - 1) : ~IsWS(s[x])
    IN [ok |-> g <= Len(s), end |-> g + 1,
        ev |-> [k |-> "close", t |-> nm, taint |-> Taint(nm), bad |-> IF junk THEN <<"endtag">> ELSE <<>>]]

TextEv(sl) == IF sl = <<>> THEN <<>>
              ELSE << [k |-> "text", raw |-> FALSE, p |-> Pieces(Decode(sl, 1)), refs |-> <<>>,
                       bad |-> IF StrayLt(sl) THEN <<"straylt">> ELSE <<>>] >>
RawEv(sl) == IF sl = <<>> THEN <<>>
             ELSE << [k |-> "text", raw |-> TRUE, p |-> Pieces(sl), refs |-> <<>>, bad |-> <<>>] >>

(* end of a raw text element: first  </name  followed by white space, / or >  *)
RawEnd(s, i0, nm) ==
    LET J == {i \in i0..Len(s) :
                /\ s[i] = LT /\ i + 1 + Len(nm) <= Len(s) /\ s[i + 1] = SL /\ LowerSeq(SubSeq(s, i + 2, i + 1 + Len(nm))) = nm
                /\ (i + 2 + Len(nm) > Len(s) \/ s[i + 2 + Len(nm)] \in WSset \cup {SL, GT})}
    IN IF J = {} THEN Len(s) + 1 ELSE MinOf(J)

(* recursion per "<" only *)
RECURSIVE LexData(_, _, _, _)
LexData(s, i0, t0, out) ==       \* t0 = start of the pending character data
    LET i == Until(s, i0, {LT})
    IN IF i > Len(s) THEN out \o TextEv(SubSeq(s, t0, Len(s)))
       ELSE IF i + 1 <= Len(s) /\ IsAlpha(s[i + 1]) THEN
           LET r == StartTag(s, i)
           IN IF ~r.ok THEN LexData(s, i + 1, t0, out)
              ELSE LET out1 == out \o TextEv(SubSeq(s, t0, i - 1)) \o <<r.ev>>
                   IN IF r.ev.t \in P!RawTags
                      THEN LET e == RawEnd(s, r.end, r.ev.t)
                           IN LexData(s, e, e, out1 \o RawEv(SubSeq(s, r.end, e - 1)))
                      ELSE LexData(s, r.end, r.end, out1)
       ELSE IF i + 2 <= Len(s) /\ s[i + 1] = SL /\ IsAlpha(s[i + 2]) THEN
           LET r == EndTag(s, i)
           IN IF ~r.ok THEN LexData(s, i + 1, t0, out)
              ELSE LexData(s, r.end, r.end, out \o TextEv(SubSeq(s, t0, i - 1)) \o <<r.ev>>)
       ELSE LexData(s, i + 1, t0, out)

Lex(s) == LexData(s, 1, 1, <<>>)

(* ---- judge: the P-layer acceptor over the lexed page ---- *)
RunEv(exp) == [k |-> "run", exp |-> exp, nt |-> 0]
DocEv == [k |-> "doc", pg |-> 1, path |-> <<P!N_index_html>>]
EndEv == [k |-> "enddoc", pg |-> 1]
Judge(events, text) ==
    LET r == P!RunAll(P!Init0, <<RunEv(<<text>>), DocEv>> \o events \o <<EndEv>>, 1, <<>>, <<>>)
    IN [clauses |-> P!Clauses(r.rej), details |-> {r.rej[i].detail : i \in 1..Len(r.rej)},
        notes |-> {r.notes[i].clause : i \in 1..Len(r.notes)}]
Predict(mode, ctx, text) == Judge(Lex(Render(mode, ctx, text)), text)

TextStims == {[kind |-> "text", pl |-> pl, ctx |-> c] : pl \in Payloads, c \in {"pre", "attr"}}

(* ============================================ Part B: links ============================================= *)
R1 == <<122, 113, 114, 97>>   R2 == <<122, 113, 114, 98>>   NS_S == <<122, 113, 115>>   NS_U == <<122, 113, 117>>
(* names that are STRING prefixes of each other without being ancestors: root zqrax next to root zqra, nested zqra.zqsx next to   *)
(* zqra.zqs, and type short names that extend the name of a nested namespace (zqra.zqsZqt1 next to namespace zqra.zqs,            *)
(* zqra.zqs.zquZqt2 next to zqra.zqs.zqu): "listed on this page" must be decided on name COMPONENTS, never on string prefixes     *)
R1X == <<122, 113, 114, 97, 120>>     NS_SX == <<122, 113, 115, 120>>
TN1 == <<122, 113, 115, 90, 113, 116, 49>>   TN2 == <<122, 113, 117, 90, 113, 116, 50>>   TN3 == <<90, 113, 116, 51>>
USC == 95                     DOTHTML == <<46, 104, 116, 109, 108>>
UPDIR == <<46, 46, 47>>       SLHASH == <<47, 35>>
REQ == <<82, 101, 113, 117, 101, 115, 116>>     RESP == <<82, 101, 115, 112, 111, 110, 115, 101>>

Namespaces == { <<R1>>, <<R1, NS_S>>, <<R1, NS_S, NS_U>>, <<R2>>, <<R1X>>, <<R1, NS_SX>> }
Hows   == {"plain", "farr", "varr"}
SKinds == {"struct", "union", "delimited", "service_req", "service_resp"}
DKinds == {"struct", "union", "delimited", "deprecated"}
IsService(k) == k \in {"service_req", "service_resp"}

(* ---- the configuration of a run: namespace file stem and output extension ---- *)
STEM_INDEX == <<105, 110, 100, 101, 120>>      STEM_PAGE == <<112, 97, 103, 101>>          \* index   page
EXT_HTML   == <<46, 104, 116, 109, 108>>       EXT_HTM   == <<46, 104, 116, 109>>          \* .html   .htm
CfgNames == {"default", "stem", "ext", "both"}
CfgSeq   == <<"default", "stem", "ext", "both">>
StemOf(c) == IF c \in {"stem", "both"} THEN STEM_PAGE ELSE STEM_INDEX
ExtOf(c)  == IF c \in {"ext", "both"} THEN EXT_HTM ELSE EXT_HTML
IndexPage(c) == StemOf(c) \o ExtOf(c)
ASSUME IndexPage("default") = P!N_index_html
ASSUME Configs \subseteq CfgNames /\ SampleConfigs \subseteq CfgNames

Shape(s, d, h, sk, dk, c, cfg) == [kind |-> "links", src |-> s, dst |-> d, how |-> h, skind |-> sk, dkind |-> dk, chain |-> c, cfg |-> cfg]
(* the sample: per configuration one shape for every ordered pair of namespaces, the kinds rotating with the pair *)
NsSeq    == << <<R1>>, <<R1, NS_S>>, <<R1, NS_S, NS_U>>, <<R2>>, <<R1X>>, <<R1, NS_SX>> >>
HowSeq   == <<"plain", "farr", "varr">>
SKindSeq == <<"struct", "union", "delimited", "service_req", "service_resp">>
DKindSeq == <<"struct", "union", "delimited", "deprecated">>
Idx(seq, x) == CHOOSE i \in 1..Len(seq) : seq[i] = x
ASSUME {NsSeq[i] : i \in 1..Len(NsSeq)} = Namespaces /\ {HowSeq[i] : i \in 1..3} = Hows
ASSUME {SKindSeq[i] : i \in 1..5} = SKinds /\ {DKindSeq[i] : i \in 1..4} = DKinds
SampleOf(cfg) ==
    LET ci == Idx(CfgSeq, cfg)
    IN {Shape(NsSeq[a], NsSeq[b], HowSeq[((q + ci) % 3) + 1], SKindSeq[((q + (2 * ci)) % 5) + 1], DKindSeq[((q + (3 * ci)) % 4) + 1], FALSE, cfg)
          : <<a, b, q>> \in {<<a, b, ((a - 1) * Len(NsSeq)) + (b - 1)>> : a \in 1..Len(NsSeq), b \in 1..Len(NsSeq)}}

AllOf(cfg) == {Shape(s, d, h, sk, dk, c, cfg) :
                s \in Namespaces, d \in Namespaces, h \in Hows, sk \in SKinds, dk \in DKinds,
                c \in (IF Chains THEN BOOLEAN ELSE {FALSE})}
             \ {Shape(s, d, h, sk, dk, TRUE, cfg) :
                s \in Namespaces, d \in Namespaces, h \in Hows, sk \in {"service_req", "service_resp"}, dk \in DKinds}
LinkStims == UNION {AllOf(cfg) : cfg \in Configs} \cup UNION {SampleOf(cfg) : cfg \in SampleConfigs \ Configs}

RECURSIVE Join(_, _, _)
Join(segs, sep, i) == IF i > Len(segs) THEN <<>> ELSE (IF i > 1 THEN <<sep>> ELSE <<>>) \o segs[i] \o Join(segs, sep, i + 1)
RECURSIVE Rep(_, _)
Rep(s, n) == IF n = 0 THEN <<>> ELSE s \o Rep(s, n - 1)
IsPrefix(a, b) == Len(a) <= Len(b) /\ SubSeq(b, 1, Len(a)) = a

(* The referenced type exists in SEVERAL VERSIONS under one short name in one namespace (1.0, 1.1, 2.0); the referrer uses all  *)
(* of them.  Type indices: 0, 1, 2 = the versions of the target, 3 = the referrer, 4 = the third type of a chain.              *)
Versions == << <<1, 0>>, <<1, 1>>, <<2, 0>> >>
TypesOf(sh) == {[ns |-> sh.dst, name |-> TN1, ver |-> Versions[v], i |-> v - 1] : v \in 1..Len(Versions)}
               \cup {[ns |-> sh.src, name |-> TN2, ver |-> <<1, 0>>, i |-> 3]}
               \cup (IF sh.chain THEN {[ns |-> <<R1, NS_S>>, name |-> TN3, ver |-> <<1, 0>>, i |-> 4]} ELSE {})
Targets(sh) == {t \in TypesOf(sh) : t.name = TN1}
(* the referrer uses two of the three versions; 1.1 is used by nobody (only its own entry can name it)                        *)
Used(sh) == {t \in Targets(sh) : t.ver \in {<<1, 0>>, <<2, 0>>}}
Referrer(sh) == CHOOSE t \in TypesOf(sh) : t.name = TN2
VerSfx(t) == <<USC, 48 + t.ver[1], USC, 48 + t.ver[2]>>
TagId(t, sub) == Join(t.ns \o <<t.name>> \o (IF sub = <<>> THEN <<>> ELSE <<sub>>), USC, 1) \o VerSfx(t)
(* the types that get an entry (anchor + side bar link) on the namespace pages                                              *)
VerLE(a, b) == a[1] < b[1] \/ (a[1] = b[1] /\ a[2] <= b[2])
Listed(sh) == IF ListStyle = "versioned" THEN TypesOf(sh)
              ELSE {t \in TypesOf(sh) : \A u \in TypesOf(sh) : (u.ns = t.ns /\ u.name = t.name) => VerLE(u.ver, t.ver)}

(* build_namespace_tree: every prefix of a type's namespace is a namespace with its own page <stem><extension> *)
NsSet(sh) == UNION {{SubSeq(t.ns, 1, k) : k \in 1..Len(t.ns)} : t \in TypesOf(sh)}
NsPage(sh, n) == Append(n, IndexPage(sh.cfg))
PagesOf(sh) == {NsPage(sh, n) : n \in NsSet(sh)}
               \cup {Append(t.ns, t.name \o VerSfx(t) \o ExtOf(sh.cfg)) : t \in TypesOf(sh)}
(* ids that can be link targets: on the page of namespace n, the tag id of every type and namespace below n     *)
NT(sh) == {p \in NsSet(sh) \X Listed(sh) : IsPrefix(p[1], p[2].ns)}       \* <<namespace page, type listed on it>>
NM(sh) == {p \in NsSet(sh) \X NsSet(sh) : IsPrefix(p[1], p[2])}            \* <<namespace page, namespace listed on it>>
IdsOf(sh) == {<<NsPage(sh, p[1]), TagId(p[2], <<>>)>> : p \in NT(sh)}
             \cup {<<NsPage(sh, p[1]), Join(p[2], USC, 1)>> : p \in NM(sh)}

(* the hyperlink for a reference to type t (sub = Request/Response for the halves of a service) on the page of n *)
DOTC == 46
Climb(n, t) == Rep(UPDIR, Len(n)) \o t.ns[1] \o SLHASH \o TagId(t, <<>>)                               \* directory url
ClimbPage(c, n, t) == Rep(UPDIR, Len(n)) \o t.ns[1] \o <<SL>> \o IndexPage(c) \o <<35>> \o TagId(t, <<>>)    \* names the page
Href(style, c, n, t, sub) ==
    IF style = "code" THEN UPDIR \o t.ns[1] \o SLHASH \o TagId(t, sub)
    ELSE IF style = "fixed" THEN Climb(n, t)
    ELSE IF style = "page" THEN ClimbPage(c, n, t)
    \* a type listed on the page itself is linked by its bare anchor: decided on name components ...
    ELSE IF style = "samepage" THEN (IF IsPrefix(n, t.ns) THEN <<35>> \o TagId(t, <<>>) ELSE Climb(n, t))
    \* ... or (wrongly) on the dotted names as strings: zqra.zqs is a string prefix of zqra.zqsx.T and of zqra.zqsZqt1
    ELSE (IF IsPrefix(Join(n, DOTC, 1), Join(Append(t.ns, t.name), DOTC, 1)) THEN <<35>> \o TagId(t, <<>>) ELSE Climb(n, t))

(* references rendered (recursively) inside the entry of type t: <<referenced type, sub>>                       *)
RefsIn(sh, t) ==
    IF t.name = TN2 THEN {<<u, <<>> >> : u \in Used(sh)}
                         \cup (IF IsService(sh.skind) THEN {<<t, REQ>>, <<t, RESP>>} ELSE {})
    ELSE IF t.name = TN3 THEN {<<Referrer(sh), <<>> >>} \cup {<<u, <<>> >> : u \in Used(sh)}
    ELSE {}

LinksOf(style, sh) ==
    UNION {
      {[from |-> NsPage(sh, p[1]), href |-> Href(style, sh.cfg, p[1], r[1], r[2]), refs |-> {r[1].i}, pg |-> 0, inspan |-> FALSE] : r \in RefsIn(sh, p[2])}
      \cup {[from |-> NsPage(sh, p[1]), href |-> <<35>> \o TagId(p[2], <<>>), refs |-> {p[2].i}, pg |-> 0, inspan |-> FALSE]}   \* side bar
      : p \in NT(sh) }

(* ============================================ the state machine ========================================= *)
Stims == (IF Part \in {"text", "both"} THEN TextStims ELSE {}) \cup (IF Part \in {"links", "both"} THEN LinkStims ELSE {})

Init == /\ stim \in Stims
        /\ phase = IF stim.kind = "text" THEN "render" ELSE "tree"
        /\ mid = <<>> /\ result = <<>>

DoRender == /\ phase = "render"
            /\ mid' = Render(EscMode, stim.ctx, Flat(stim.pl, 1))
            /\ phase' = "lex" /\ UNCHANGED <<stim, result>>
DoLex ==    /\ phase = "lex"
            /\ mid' = Lex(mid)
            /\ phase' = "judge" /\ UNCHANGED <<stim, result>>
DoJudge ==  /\ phase = "judge"
            /\ result' = Judge(mid, Flat(stim.pl, 1))
            /\ phase' = "done" /\ UNCHANGED <<stim, mid>>

DoTree ==   /\ phase = "tree"
            /\ mid' = [pages |-> PagesOf(stim), ids |-> IdsOf(stim)]
            /\ phase' = "links" /\ UNCHANGED <<stim, result>>
DoLinks ==  /\ phase = "links"
            /\ mid' = [pages |-> mid.pages, ids |-> mid.ids, links |-> LinksOf(LinkStyle, stim)]
            /\ phase' = "resolve" /\ UNCHANGED <<stim, result>>
DoResolve == /\ phase = "resolve"
             /\ result' = {[from |-> lk.from, href |-> lk.href, why |-> P!LinkVerdict(lk, mid.pages, mid.ids)] : lk \in mid.links}
                           \cup {[from |-> <<>>, href |-> <<>>, why |-> "type-without-resolving-link"] :
                                    t \in P!Unlisted(Cardinality(TypesOf(stim)), mid.links, mid.pages, mid.ids)}
                           \cup {[from |-> r.to, href |-> r.frag, why |-> "anchor-shared-by-types"] :
                                    r \in P!SharedAnchors(mid.links, mid.pages, mid.ids)}
             /\ phase' = "done" /\ UNCHANGED <<stim, mid>>

Next == DoRender \/ DoLex \/ DoJudge \/ DoTree \/ DoLinks \/ DoResolve
Spec == Init /\ [][Next]_vars

(* ---- refinement I => P ---- *)
TextRefinesP  == (phase = "done" /\ stim.kind = "text") => (result.clauses = {} /\ result.notes = {})
LinksRefineP  == (phase = "done" /\ stim.kind = "links") => \A r \in result : r.why = "ok"
(* the lexer gives back the rendered page: one open, the span, one close (escaping variant only)               *)
LexShape      == (phase = "judge" /\ EscMode = "markupsafe" /\ stim.ctx = "pre") =>
                     /\ Len(mid) = 3 /\ mid[1].k = "open" /\ mid[2].k = "text" /\ mid[3].k = "close"
                     /\ mid[2].p = IF stim.pl = <<>> THEN <<[m |-> 1, i |-> 1, s |-> <<>>], [m |-> 2, i |-> 1, s |-> <<>>]>>
                                   ELSE <<[m |-> 1, i |-> 1, s |-> <<>>], [m |-> 0, i |-> 0, s |-> Flat(stim.pl, 1)], [m |-> 2, i |-> 1, s |-> <<>>]>>

ASSUME PrintT(ToJson([kind |-> "vocab", void |-> P!VoidTags, raw |-> P!RawTags]))

(* ---- case emission (spec -> code): the stimulus, what P demands, and what each I-variant predicts ---- *)
(* resolved_<style> = every hyperlink of that link style with what Resolve makes of it; broken_<style> = those P rejects      *)
Emit == phase = "done" =>
    IF stim.kind = "text"
    THEN (stim.ctx = "pre" =>
          PrintT(ToJson([kind |-> "text", pl |-> stim.pl, text |-> Flat(stim.pl, 1),
                         escaped |-> EscAll(Flat(stim.pl, 1), 1),
                         pred_none |-> Predict("none", "pre", Flat(stim.pl, 1)).clauses,
                         pred_esc  |-> Predict("markupsafe", "pre", Flat(stim.pl, 1)).clauses])))
    ELSE LET pages == PagesOf(stim)
             ids   == IdsOf(stim)
             Res(style) == {[from |-> lk.from, href |-> lk.href] @@ P!Resolve(lk.from, lk.href, pages) : lk \in LinksOf(style, stim)}
             Brk(style) == {[from |-> lk.from, href |-> lk.href, why |-> P!LinkVerdict(lk, pages, ids)] :
                               lk \in {lk \in LinksOf(style, stim) : P!LinkVerdict(lk, pages, ids) # "ok"}}
         IN PrintT(ToJson([kind |-> "links", src |-> stim.src, dst |-> stim.dst, how |-> stim.how, skind |-> stim.skind,
                        dkind |-> stim.dkind, chain |-> stim.chain, names |-> <<TN1, TN2, TN3>>, versions |-> Versions, used |-> {t.i : t \in Used(stim)},
                        cfg |-> stim.cfg, stem |-> StemOf(stim.cfg), ext |-> ExtOf(stim.cfg), index_page |-> IndexPage(stim.cfg),
                        pages |-> pages,
                        resolved_code |-> Res("code"), resolved_fixed |-> Res("fixed"), resolved_page |-> Res("page"),
                        broken_code |-> Brk("code"), broken_fixed |-> Brk("fixed"), broken_page |-> Brk("page")]))
=============================================================================
