----------------------------- MODULE PySupportP -----------------------------
(* P-layer for the Python support library's Serializer / Deserializer objects (nunavut_support.py).             *)
(*                                                                                                               *)
(* Serializer: the abstract object is a STORE of bits (the destination of the root serializer, 8*capacity bits,  *)
(* all zero at first) and a list of objects [base, cap, cur] that write into it (object 1 = the root, the others  *)
(* are forks: "uses the same underlying serialization destination buffer but offset by current_bit_length").      *)
(* The output of an object is the store from its base up to its cursor: exactly the concatenation of the          *)
(* little-endian bit images of what was added, skipped bits as they are in the store.                             *)
(* A store bit is 0, 1 or X (2 = "not fixed by the documented contract"): X arises only where a call meets bits    *)
(* that another object has set already (an unaligned write over set bits, the rest of the last byte, the byte      *)
(* after it: "some of the non-byte-aligned write operations require us to temporarily use one extra byte").        *)
(* On a store that is clean beyond the cursor (every documented usage) no X ever appears.                         *)
(*                                                                                                               *)
(* Deserializer: [data, cur] per object; every read beyond Len(data) yields zeros; fork_bytes(k) is an             *)
(* independent object over k bytes of the parent's data (empty when the parent is beyond the end), the parent is   *)
(* not affected.                                                                                                   *)
(* A call is a record [o, m, n, k, v]: object index, method class, bit length / count / amount, "ow" (aligned      *)
(* methods: whole bytes are assigned) or "or" (unaligned methods), value bits.  Results are bit strings.           *)
EXTENDS Ieee, TLC

PMin(a, b) == IF a < b THEN a ELSE b
PMax(a, b) == IF a > b THEN a ELSE b
Up8(x) == ((x + 7) \div 8) * 8
X == 2

WriteMethods == {"u", "s", "f", "bit", "bytes", "bits", "arr"}
FetchMethods == {"u", "s", "f", "bit", "bytes", "bits", "arr"}

(* ------------------------------------------------ serializer ------------------------------------------------ *)
SNew(cap) == [store |-> Zeros(8 * cap), objs |-> <<[base |-> 0, cap |-> cap, cur |-> 0]>>]

(* the bits a write call puts on the wire (integers: the low n bits of the two's complement image = implicit       *)
(* truncation; everything else: the image itself)                                                                  *)
WBits(c) == IF c.m \in {"u", "s"} THEN Take(c.v, c.n) ELSE c.v

SWriteBits(store, pos, w, kind) ==
    LET n == Len(w)
        e == pos + n
        z == Up8(e) + 8
        L == Len(store)
    IN Force([i \in 1..L |->
          IF i <= pos THEN store[i]
          ELSE IF i <= e THEN (IF kind = "ow" \/ store[i] = 0 \/ w[i - pos] = 1 THEN w[i - pos] ELSE X)
          ELSE IF i <= z THEN (IF store[i] = 0 THEN 0 ELSE X)
          ELSE store[i]], L)

(* the number of bits by which a call moves the cursor of its object *)
SAdvance(st, c) ==
    IF c.m = "skip" THEN c.n
    ELSE IF c.m = "pad" THEN (c.n - (st.objs[c.o].cur % c.n)) % c.n
    ELSE IF c.m \in WriteMethods THEN Len(WBits(c))
    ELSE 0

(* documented usage: an object stays inside the capacity it was created with *)
SDefined(st, c) ==
    /\ c.o \in 1..Len(st.objs)
    /\ st.objs[c.o].cur + SAdvance(st, c) <= 8 * st.objs[c.o].cap
    /\ c.m = "pad" => c.n >= 1

SApply(st, c) ==
    LET ob == st.objs[c.o]
        pos == ob.base + ob.cur
        adv == SAdvance(st, c)
        moved == [st.objs EXCEPT ![c.o].cur = ob.cur + adv]
    IN  IF c.m = "uneg" THEN [st |-> st, err |-> "ValueError"]                    \* unsigned method, negative value
        ELSE IF c.m = "skip" THEN [st |-> [st EXCEPT !.objs = moved], err |-> ""]
        ELSE IF c.m = "pad" THEN [st |-> [store |-> SWriteBits(st.store, pos, Zeros(adv), "or"), objs |-> moved], err |-> ""]
        ELSE IF c.m = "fork" THEN
            IF ob.cur % 8 # 0 \/ 8 * c.n > (8 * ob.cap) - ob.cur
            THEN [st |-> st, err |-> "ValueError"]
            ELSE [st |-> [st EXCEPT !.objs = Append(st.objs, [base |-> pos, cap |-> c.n, cur |-> 0])], err |-> ""]
        ELSE [st |-> [store |-> SWriteBits(st.store, pos, WBits(c), c.k), objs |-> moved], err |-> ""]

(* Serializer.buffer: "a properly sized read-only slice of the destination buffer zero-bit-padded to byte" *)
SView(st, o) ==
    LET ob == st.objs[o]
        n == Up8(ob.cur)
        L == Len(st.store)
    IN Force([i \in 1..n |-> IF ob.base + i <= L THEN st.store[ob.base + i] ELSE 0], n)

ViewMatches(exp, obs) == Len(exp) = Len(obs) /\ \A i \in 1..Len(exp) : exp[i] = X \/ exp[i] = obs[i]

(* ----------------------------------------------- deserializer ----------------------------------------------- *)
DNew(data) == [objs |-> <<[data |-> data, cur |-> 0]>>]

DAdvance(st, c) ==
    IF c.m = "skip" THEN c.n
    ELSE IF c.m = "pad" THEN (c.n - (st.objs[c.o].cur % c.n)) % c.n
    ELSE IF c.m \in {"u", "s", "f", "bits"} THEN c.n
    ELSE IF c.m = "bit" THEN 1
    ELSE IF c.m \in {"bytes", "arr"} THEN 8 * c.n
    ELSE 0

DDefined(st, c) ==
    /\ c.o \in 1..Len(st.objs)
    /\ c.m = "pad" => c.n >= 1
    /\ c.m \in {"u"} => c.n >= 1
    /\ c.m \in {"s"} => c.n >= 2
    /\ c.n >= 0

(* result bits of a fetch: zero extension beyond the end of the data *)
DResult(st, c) ==
    LET ob == st.objs[c.o]
        raw == Slice(ob.data, ob.cur, DAdvance(st, c))
    IN  IF c.m = "u" THEN Take(raw, 64)
        ELSE IF c.m = "s" THEN SignExtTo(raw, 64)
        ELSE IF c.m \in FetchMethods THEN raw
        ELSE <<>>

DApply(st, c) ==
    LET ob == st.objs[c.o]
        L == Len(ob.data)
        moved == [st.objs EXCEPT ![c.o].cur = ob.cur + DAdvance(st, c)]
    IN  IF c.m = "neg" THEN [st |-> st, err |-> "ValueError", res |-> <<>>]          \* negative amount / count
        ELSE IF c.m = "fork" THEN
            IF ob.cur % 8 # 0 \/ 8 * c.n > PMax(L - ob.cur, 0)
            THEN [st |-> st, err |-> "ValueError", res |-> <<>>]
            ELSE LET from == PMin(ob.cur, L)
                 IN [st |-> [objs |-> Append(st.objs, [data |-> SubSeq(ob.data, from + 1, from + 8 * c.n), cur |-> 0])], err |-> "", res |-> <<>>]
        ELSE [st |-> [objs |-> moved], err |-> "", res |-> DResult(st, c)]

(* is the observed result `r` acceptable for the expected bits `e` of call c?  floats: the number, NaN as a class *)
RECURSIVE FloatsEq(_, _, _)
FloatsEq(e, r, w) == IF Len(e) = 0 THEN Len(r) = 0
                     ELSE /\ Len(r) >= w
                          /\ FloatEq(SubSeq(e, 1, w), SubSeq(r, 1, w))
                          /\ FloatsEq(SubSeq(e, w + 1, Len(e)), SubSeq(r, w + 1, Len(r)), w)
DResultOK(c, e, r) ==
    IF c.m = "f" THEN Len(r) = 64 /\ FloatEq(IF c.n = 64 THEN e ELSE Widen(e, 64), r)     \* a Python float is a double
    ELSE IF c.m = "arr" /\ c.fl > 0 THEN Len(r) = Len(e) /\ FloatsEq(e, r, c.fl)
    ELSE r = e
=============================================================================
