SPECIFICATION Spec
CONSTANTS
  KSel = 3
  IsUnion = TRUE
  MaxHist = 3
  CtorSpecial = 1
  MidReduced = FALSE
  ParseDigits = FALSE
  ClearFirst = FALSE
INVARIANT Refines
INVARIANT StateKept
INVARIANT UnionAlwaysOne
INVARIANT NeverOutOfRange
INVARIANT Emit
CHECK_DEADLOCK FALSE
