----------------------------- MODULE GenReproP -----------------------------
(* P-layer for C07 (reproducible output).                                                                 *)
(*                                                                                                        *)
(* The property, and nothing more: with auditing information disabled the observable result of a run --   *)
(* the map  path-relative-to-the-output-directory |-> bytes  -- is a FUNCTION of (inputs, options).        *)
(* "Most general system that satisfies the property" = a history machine that remembers, for every        *)
(* (inputs, options) pair it has seen, the result of the first run and accepts a later run of the same     *)
(* pair iff it delivers the same path set (clause repro.paths) and the same content for every path         *)
(* (clause repro.digest).  Ambient state (clock, hash seed, process, cwd, absolute location) does not occur *)
(* in this module at all: that is the point.  With auditing enabled the property is silent: every result   *)
(* is accepted.                                                                                            *)
(*                                                                                                        *)
(* A result is a function  path -> content ; what a path and a content are is left open (sequences of code *)
(* points and digest limbs in the T-layer, abstract atoms in the design model).                            *)
EXTENDS Naturals, Sequences, FiniteSets, TLC

(* Verdict on two results of the same (inputs, options).                                                   *)
Compare(ref, out) ==
    IF DOMAIN ref # DOMAIN out THEN "repro.paths"
    ELSE IF \E p \in DOMAIN ref : ref[p] # out[p] THEN "repro.digest"
    ELSE "ok"

(* Verdict of the history machine on one run: `seen` = the (inputs, options) pair has occurred before,     *)
(* `ref` = the result of its first run (only looked at when seen).                                         *)
Judge(seen, ref, audit, out) ==
    IF ~seen THEN "ok"
    ELSE IF audit THEN "ok"
    ELSE Compare(ref, out)

(* The history after the run: the first run of every key stays the reference for all later ones.           *)
Remember(first, key, what) == IF key \in DOMAIN first THEN first ELSE first @@ (key :> what)

(* The paths whose content differs or that exist on one side only (diagnostics).                           *)
Differing(ref, out) == {p \in DOMAIN ref \cap DOMAIN out : ref[p] # out[p]}
                       \cup ((DOMAIN ref \ DOMAIN out) \cup (DOMAIN out \ DOMAIN ref))

(* ---------------------------------------------------------------------------------------------------- *)
(* NOT part of P (implementation level, a mismatch is model drift, never a violation): the order in which *)
(* one run writes its files is a pre-order walk of the namespace tree -- the namespace's own file first,   *)
(* then its data types, then each nested namespace's subtree as one contiguous block, the nested           *)
(* namespaces in ANY order (set iteration).                                                                *)
(*   par    namespace id -> id of the parent namespace (0 for a root)                                      *)
(*   nodes  node -> [k |-> "ns" | "type" | "sup", ns |-> namespace id]   ("sup": support file, unordered)  *)
(*   ord    the sequence of nodes in the order written                                                     *)
RECURSIVE Up(_, _)
Up(par, x) == IF x = 0 THEN {} ELSE {x} \cup Up(par, par[x])        \* x and its ancestors

RECURSIVE WalkOK(_, _, _, _, _, _, _)
WalkOK(par, nodes, ord, i, cur, closed, visited) ==
    IF i > Len(ord) THEN TRUE
    ELSE LET nd == nodes[ord[i]] IN
         IF nd.k = "sup" THEN WalkOK(par, nodes, ord, i + 1, cur, closed, visited)
         ELSE IF nd.ns = cur
              THEN /\ nd.k # "ns"                                   \* the namespace file opens its block
                   /\ WalkOK(par, nodes, ord, i + 1, cur, closed, visited)
              ELSE LET b == nd.ns
                       gone == IF cur = 0 THEN {} ELSE {x \in Up(par, cur) : x \notin Up(par, b)}
                   IN /\ b \notin visited                            \* one block per namespace
                      /\ Up(par, b) \cap (closed \cup gone) = {}     \* a subtree once left is never re-entered
                      /\ \A v \in visited : b \notin Up(par, v)      \* own files before any descendant's
                      /\ WalkOK(par, nodes, ord, i + 1, b, closed \cup gone, visited \cup {b})

ValidOrder(par, nodes, ord) ==
    /\ \A i, j \in DOMAIN ord : i # j => ord[i] # ord[j]
    /\ WalkOK(par, nodes, ord, 1, 0, {}, {})
=============================================================================
