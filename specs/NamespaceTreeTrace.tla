------------------------- MODULE NamespaceTreeTrace -------------------------
(* T-layer for C11.  Every record of the trace is the projection of ONE execution of the real code                *)
(* (pydsdl.read_namespace -> nunavut.build_namespace_tree -> generators) as defined in part 1 of NamespaceTree:   *)
(* the DSDL types given, the namespace objects reachable from the returned root through the public Namespace API, *)
(* their links, the type -> path map, path lookups from every node, the entries created below a sandbox root that *)
(* encloses the output directory, and the include paths found in dependants (same root and other root).           *)
(* The record is judged by the P-layer operator Verdict only; the I-layer variables are pinned and unused.        *)
EXTENDS NamespaceTree, IOUtils

Trace == ndJsonDeserialize(IOEnv.TRACE_FILE)

VARIABLE l

tvars == <<l, types, genNs, spell, pc, ti, wi, first, made, index, linked, held, par, kids, out>>

TInit ==
    /\ l = 1
    /\ types = <<>> /\ genNs = FALSE /\ spell = "trace" /\ pc = "trace" /\ ti = 0 /\ wi = 0 /\ first = <<>> /\ made = {} /\ index = {}
    /\ linked = {} /\ held = {} /\ par = {} /\ kids = {} /\ out = <<>>

TNext ==
    /\ l <= Len(Trace)
    /\ LET v == Verdict(Trace[l]) IN IF v[1] = "ok" THEN TRUE ELSE PrintT(<<"REJECT", Trace[l].id, v[1], v[2]>>)
    /\ l' = l + 1
    /\ UNCHANGED <<types, genNs, spell, pc, ti, wi, first, made, index, linked, held, par, kids, out>>

TSpec == TInit /\ [][TNext]_tvars

Accepted == TLCGet("stats").diameter - 1 = Len(Trace)
=============================================================================
