SPECIFICATION Spec
CONSTANTS
  Little = FALSE
  Level = 1
  Bug = "none"
INVARIANT Refines
INVARIANT StaysInside
CHECK_DEADLOCK FALSE
