SPECIFICATION Spec
CONSTANTS
  Alphabet = {120, 32, 13, 10}
  MaxLen = 6
  MaxLimit = 2
  HoldCR = TRUE
INVARIANT Refines
INVARIANT ChunkingOK
INVARIANT LimitClause
INVARIANT NonEmptyKept
INVARIANT NoPPIdentity
CHECK_DEADLOCK FALSE
