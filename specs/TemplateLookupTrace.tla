------------------------ MODULE TemplateLookupTrace ------------------------
(* T-layer for C16.  Every record is one observation of the real code:                                      *)
(*   k = "hist"  one loader object and the sequence of lookups made on it: for every step the class asked,  *)
(*               the class the returned template is named after (0 = None), the set its text was finally    *)
(*               loaded from (1 user, 2 built-in, 0 nothing), the answer of a fresh loader over the same     *)
(*               directories (cold) and of a fresh loader over the canonical realization of the same         *)
(*               configuration (ref).  fs/pkg: which loaders the object has (what it can see).               *)
(*   k = "name"  one request for a template BY NAME (get_source / get_template / include / import): inU, inB  *)
(*               (a file of that name exists in a user directory / the built-in set), fs / pkg (loader objects *)
(*               present), src (set the text came from: 1 user, 2 built-in, 3 a wrong text, 0 not found/error) *)
(*   k = "inst"  one value (class vcls; class of its data type dcls if it is an attribute) and the answers of *)
(*               every instance test: res[K] for the test named after class K, resa[K] for its alias         *)
(*               (0 false, 1 true, 2 no such test)                                                           *)
(*   k = "alias" one class name and the alias the driver probed (must be AliasOf(name))                      *)
(*   k = "env"   one attempt to build an environment with user additions: allow (overwrite requested),       *)
(*               err (an exception was raised), replaced (protected names bound to a user object afterwards) *)
(* Rejected records are printed and the run continues; acceptance = every record was looked at.              *)
EXTENDS TemplateLookupP, Json, IOUtils, TLC

Trace == ndJsonDeserialize(IOEnv.TRACE_FILE)

VARIABLE l

StepVerdict(r, U, B, s) ==
    IF ~HistoryOK(s.got, s.cold) THEN "lookup.history"
    ELSE IF ~NearestOK(r.bases, r.anyc, s.c, U, B, s.got) THEN "lookup.nearest"
    ELSE IF ~SourceOK(U, B, s.got, s.src) THEN "lookup.user_first"
    ELSE IF ~OrderOK(s.cold, s.ref) THEN "lookup.order"
    ELSE "ok"

RECURSIVE HistFrom(_, _, _, _)
HistFrom(r, U, B, i) ==
    IF i > Len(r.steps) THEN <<"ok", 0>>
    ELSE LET v == StepVerdict(r, U, B, r.steps[i])
         IN IF v # "ok" THEN <<v, i>> ELSE HistFrom(r, U, B, i + 1)

(* What a loader can see.  With both loader objects: both sets.  With one loader object the I-layer says the  *)
(* other set is invisible (FIND_FIRST with directories ignores the package; no directories, no user set);     *)
(* the statement does not say which sets a search policy consults, so P also accepts an execution that is    *)
(* right for BOTH sets being visible -- consistently for the whole history -- and reports it as drift.         *)
HistVerdict(r) ==
    LET n  == Len(r.bases)
        Ud == Range(r.user)
        Bd == Range(r.builtin)
        U1 == IF r.fs THEN Ud ELSE {}
        B1 == IF r.pkg THEN Bd ELSE {}
        v1 == HistFrom(r, U1, B1, 1)
    IN IF ~(Ud \cup Bd \subseteq 1..n) \/ ~(r.anyc \in 0..n)
          \/ (\E i \in DOMAIN r.steps : ~(r.steps[i].c \in 1..n /\ r.steps[i].got \in 0..n /\ r.steps[i].cold \in 0..n))
       THEN <<"harness.shape", 0>>
       ELSE IF v1[1] = "ok" THEN v1
       ELSE IF (r.fs # r.pkg) /\ HistFrom(r, Ud, Bd, 1)[1] = "ok" THEN <<"drift.visibility", v1[2]>>
       ELSE v1

InstOne(r, K) ==
    IF r.res[K] = 2 \/ r.resa[K] = 2 THEN "env.test_exists"
    ELSE IF ~InstOK(r.bases, K, r.vcls, IsSub(r.bases, r.vcls, r.attr), r.dcls, r.res[K] = 1) THEN "env.test_membership"
    ELSE IF r.resa[K] # r.res[K] THEN "env.test_alias"
    ELSE "ok"

RECURSIVE InstFrom(_, _, _)
InstFrom(r, T, K) ==
    IF K > Len(r.bases) THEN <<"ok", 0>>
    ELSE IF K \notin T THEN InstFrom(r, T, K + 1)
    ELSE LET v == InstOne(r, K) IN IF v # "ok" THEN <<v, K>> ELSE InstFrom(r, T, K + 1)

InstVerdict(r) ==
    IF Len(r.res) # Len(r.bases) \/ Len(r.resa) # Len(r.bases) THEN <<"harness.shape", 0>>
    ELSE InstFrom(r, Tested(r.bases, Range(r.roots)), 1)

AliasVerdict(r) ==
    IF r.alias # AliasOf(r.name) THEN <<"harness.alias", 0>>
    ELSE IF ~r.has_name \/ ~r.has_alias THEN <<"env.test_exists", 0>>
    ELSE <<"ok", 0>>

(* same leniency about visibility as for histories: with one loader object the other set is invisible for  *)
(* the I-layer; an execution that is right for both sets being visible is drift, not a violation            *)
NameVerdict(r) ==
    IF NameOK(r.inU, r.inB, r.fs, r.pkg, r.src) THEN <<"ok", 0>>
    ELSE IF (r.fs # r.pkg) /\ NameOK(r.inU, r.inB, TRUE, TRUE, r.src) THEN <<"drift.visibility", 0>>
    ELSE IF r.inU /\ r.fs THEN <<"lookup.user_first", r.src>>
    ELSE <<"lookup.resolvable", r.src>>

EnvVerdict(r) == IF NoSilentReplace(r.allow, r.err, r.replaced) THEN <<"ok", 0>> ELSE <<"env.no_silent_replace", r.replaced>>

Verdict(r) ==
    IF r.k = "hist" THEN HistVerdict(r)
    ELSE IF r.k = "inst" THEN InstVerdict(r)
    ELSE IF r.k = "alias" THEN AliasVerdict(r)
    ELSE IF r.k = "env" THEN EnvVerdict(r)
    ELSE IF r.k = "name" THEN NameVerdict(r)
    ELSE <<"harness.kind", 0>>

TInit == l = 1
TNext == /\ l <= Len(Trace)
         /\ LET v == Verdict(Trace[l]) IN IF v[1] = "ok" THEN TRUE ELSE PrintT(<<"REJECT", Trace[l].id, v[1], v[2]>>)
         /\ l' = l + 1
TSpec == TInit /\ [][TNext]_l
Accepted == TLCGet("stats").diameter - 1 = Len(Trace)
=============================================================================
