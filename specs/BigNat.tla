------------------------------- MODULE BigNat -------------------------------
(* Arbitrary-size naturals as bit strings (LSB first; leading zeros allowed): TLC integers are 32-bit, exact     *)
(* rational comparisons for constants (C05) need hundreds of bits (magnitudes are kept within 2^+-160: cost is quadratic).                                            *)
EXTENDS Bits

RECURSIVE BTop(_, _)
BTop(a, i) == IF i = 0 THEN 0 ELSE IF a[i] = 1 THEN i ELSE BTop(a, i - 1)
BLen(a) == BTop(a, Len(a))                        \* number of significant bits; 0 for zero
BIsZero(a) == BLen(a) = 0
BAt(a, i) == IF i <= Len(a) THEN a[i] ELSE 0

RECURSIVE BCmpFrom(_, _, _)
BCmpFrom(a, b, i) == IF i = 0 THEN 0 ELSE IF BAt(a, i) # BAt(b, i) THEN (IF BAt(a, i) < BAt(b, i) THEN -1 ELSE 1) ELSE BCmpFrom(a, b, i - 1)
BCmp(a, b) == LET n == IF Len(a) > Len(b) THEN Len(a) ELSE Len(b) IN BCmpFrom(a, b, n)      \* -1, 0, 1

RECURSIVE BAddFrom(_, _, _, _, _)
BAddFrom(a, b, i, n, c) ==                         \* bits i..n of a + b with carry c
    IF i > n THEN (IF c = 1 THEN <<1>> ELSE <<>>)
    ELSE LET s == BAt(a, i) + BAt(b, i) + c IN <<s % 2>> \o BAddFrom(a, b, i + 1, n, s \div 2)
BAdd(a, b) == BAddFrom(a, b, 1, IF Len(a) > Len(b) THEN Len(a) ELSE Len(b), 0)

RECURSIVE BSubFrom(_, _, _, _, _)
BSubFrom(a, b, i, n, br) ==                        \* a - b, requires a >= b
    IF i > n THEN <<>>
    ELSE LET d == BAt(a, i) - BAt(b, i) - br IN <<IF d < 0 THEN d + 2 ELSE d>> \o BSubFrom(a, b, i + 1, n, IF d < 0 THEN 1 ELSE 0)
BSub(a, b) == BSubFrom(a, b, 1, Len(a), 0)
BAbsDiff(a, b) == IF BCmp(a, b) >= 0 THEN BSub(a, b) ELSE BSub(b, a)

BShl(a, k) == Zeros(k) \o a

RECURSIVE BMulFrom(_, _, _, _)
BMulFrom(a, b, i, acc) == IF i > Len(b) THEN acc ELSE BMulFrom(a, b, i + 1, IF b[i] = 1 THEN BAdd(acc, BShl(a, i - 1)) ELSE acc)
BMul(a, b) == BMulFrom(a, b, 1, <<>>)
=============================================================================
