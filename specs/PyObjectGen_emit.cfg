SPECIFICATION Spec
CONSTANTS
  NRev = 3
  NTypes = 2
  MaxGen = 2
  Memo = "none"
INVARIANT EmbeddedEqSource
INVARIANT Emit
CHECK_DEADLOCK FALSE
