----------------------------- MODULE CodecTrace -----------------------------
(* T-layer for the generated codecs (C01 C02 C03 C04 C05).  One record = one call of a generated routine,  *)
(* recorded by a compiled / imported harness; the verdict is computed by the DsdlWire operators.            *)
(*                                                                                                         *)
(*  ser : id, L, t, v, buf (bytes offered, -1 = target has no caller buffer), err, size, bytes, guard        *)
(*  des : id, L, t, bytes, err, consumed (-1 = target does not report it), val, kinds (target tells error     *)
(*        kinds apart)                                                                                       *)
(*  meta: id, t, extent, bufsize  (exported constants)                                                       *)
(* Records of one `case` (same type and same stimulus, different target / option set / prior object state)   *)
(* are adjacent; `prev` carries the first outcome of the case: every later one must agree (oracle-free        *)
(* metamorphic clause of C03, and the prior-state clause of C04).                                            *)
EXTENDS DsdlMeta, Json, IOUtils, TLC

Trace == ndJsonDeserialize(IOEnv.TRACE_FILE)

VARIABLES l, prev
NoPrev == [case |-> -1]

SerVerdict(r, e) ==
    LET need == BufBytes(r.t)
    IN  IF r.guard # 1 THEN "ser.guard"
        ELSE IF r.buf >= 0 /\ r.buf < need THEN
            (IF r.err = "too_small" \/ (e.err # "none" /\ r.err = e.err) THEN "ok" ELSE "ser.too_small")
        ELSE IF e.err # "none" THEN (IF r.err = e.err \/ (~r.kinds /\ r.err # "none") THEN "ok" ELSE "ser." \o e.err)
        ELSE IF r.err # "none" THEN "ser.rc"
        ELSE IF r.size * 8 # Len(e.out) THEN "ser.size"
        ELSE IF r.bytes # BytesOfBits(e.out) THEN "ser.bytes"
        ELSE "ok"

DesVerdict(r) ==
    LET d == BitsOfBytes(r.bytes)
        e == Des(r.L, r.t, d)
    IN  IF e.err # "none" THEN (IF r.err = e.err \/ (~r.kinds /\ r.err # "none") THEN "ok" ELSE "des." \o e.err)
        ELSE IF r.err # "none" THEN "des.rc"
        ELSE IF ~ValEq(r.t, r.val, e.val) THEN "des.value"
        ELSE IF r.consumed >= 0 /\ r.consumed > Len(r.bytes) THEN "des.consumed_le_supplied"
        ELSE IF r.consumed >= 0 /\ r.consumed # Consumed(r.t, d, e) THEN "des.consumed"
        ELSE "ok"

MetaVerdict(r) ==
    IF r.extent # ExtentBytes(r.t) THEN "meta.extent"
    ELSE IF r.bufsize >= 0 /\ r.bufsize # BufBytes(r.t) THEN "meta.bufsize"
    ELSE "ok"

(* decode then re-encode the decoded object inside one harness process *)
RtVerdict(r) ==
    LET d == BitsOfBytes(r.bytes)
        e == Des(r.L, r.t, d)
    IN  IF e.err # "none" THEN (IF r.err # "none" THEN "ok" ELSE "rt.rc")
        ELSE IF r.err # "none" \/ r.err2 # "none" THEN "rt.rc"
        ELSE IF r.bytes2 # BytesOfBits(Ser(r.t, e.val, BitsOfBytes(r.bytes2)).out) THEN "rt.bytes"
        ELSE "ok"

(* agreement with the first record of the same case *)
CrossVerdict(r) ==
    IF prev.case # r.case \/ prev.ev # r.ev THEN "ok"
    ELSE IF r.ev = "ser" THEN
        (IF ~r.det THEN "ok"
         ELSE IF prev.err # r.err /\ r.kinds /\ prev.kinds THEN "cross.rc"
         ELSE IF (prev.err = "none") # (r.err = "none") THEN "cross.rc"
         ELSE IF r.err = "none" /\ prev.bytes # r.bytes THEN "cross.bytes" ELSE "ok")
    ELSE IF r.ev = "des" THEN
        (IF (prev.err = "none") # (r.err = "none") THEN "cross.rc"
         ELSE IF r.err = "none" /\ prev.L = r.L /\ ~ValEq(r.t, prev.val, r.val) THEN "cross.value"
         ELSE IF r.err = "none" /\ prev.consumed >= 0 /\ r.consumed >= 0 /\ prev.consumed # r.consumed THEN "cross.consumed"
         ELSE "ok")
    ELSE IF r.ev = "rt" THEN
        (IF (prev.err = "none") # (r.err = "none") \/ (prev.err2 = "none") # (r.err2 = "none") THEN "cross.rc"
         ELSE IF prev.kinds /\ r.kinds /\ (prev.err # r.err \/ prev.err2 # r.err2) THEN "cross.rc"
         ELSE IF prev.bytes2 # r.bytes2 /\ prev.L = r.L THEN "cross.bytes" ELSE "ok")
    ELSE "ok"

Verdict(r, e) ==
    LET v == IF r.ev = "ser" THEN SerVerdict(r, e) ELSE IF r.ev = "des" THEN DesVerdict(r)
             ELSE IF r.ev = "rt" THEN RtVerdict(r) ELSE IF r.ev = "metad" THEN MetaDeepVerdict(r) ELSE MetaVerdict(r)
    IN IF v # "ok" THEN v ELSE CrossVerdict(r)

(* det flag for ser records is computed by the spec, not taken from the harness *)
WithDet(r, e) == IF r.ev = "ser" THEN [ev |-> r.ev, case |-> r.case, err |-> r.err, kinds |-> r.kinds, bytes |-> r.bytes,
                                    det |-> e.det]
              ELSE IF r.ev = "des" THEN [ev |-> r.ev, case |-> r.case, err |-> r.err, kinds |-> r.kinds, L |-> r.L, val |-> r.val,
                                         consumed |-> r.consumed, t |-> r.t]
              ELSE IF r.ev = "rt" THEN [ev |-> r.ev, case |-> r.case, err |-> r.err, err2 |-> r.err2, bytes2 |-> r.bytes2, L |-> r.L, kinds |-> r.kinds]
              ELSE [ev |-> r.ev, case |-> r.case]

TInit == l = 1 /\ prev = NoPrev
TNext == /\ l <= Len(Trace)
         /\ LET r == Trace[l]
                e == IF r.ev = "ser" THEN Ser(r.t, r.v, BitsOfBytes(r.bytes)) ELSE [det |-> FALSE]
                w == WithDet(r, e)
                v == Verdict(IF r.ev = "ser" THEN [r EXCEPT !.det = w.det] ELSE r, e)
            IN /\ IF v = "ok" THEN TRUE ELSE PrintT(<<"REJECT", r.id, v>>)
               /\ prev' = IF prev.case = r.case /\ prev.ev = r.ev THEN prev ELSE w
         /\ l' = l + 1
TSpec == TInit /\ [][TNext]_<<l, prev>>
Accepted == TLCGet("stats").diameter - 1 = Len(Trace)
=============================================================================
