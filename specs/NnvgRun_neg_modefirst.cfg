SPECIFICATION Spec
CHECK_DEADLOCK FALSE
CONSTANTS
  Bug = "mode_first"
  Writer = "direct"
  Size = "q"
INVARIANT P_final_mode
