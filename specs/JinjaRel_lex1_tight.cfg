SPECIFICATION Spec
CONSTANTS
  Profile = "lex1"
  MaxW = 1
  MaxWc = 1
  MaxDepth = 1
  Tights = {TRUE}
  EmitOpen = FALSE
INVARIANT WellNested
INVARIANT Emit
CHECK_DEADLOCK FALSE
