--------------------------- MODULE PySupportTrace ---------------------------
(* T-layer: one record per executed HISTORY of calls on Serializer / Deserializer objects of nunavut_support.py.   *)
(*   {id, kind, cap, frags, steps: [{o, m, n, k, v, fl, std, err, curs, imgs | tots, r}]}                           *)
(* o: object (1 = root, forks in the order of their creation), m: method class, n: bit length / count / amount,     *)
(* k: "ow" aligned method / "or" unaligned method, v: the value (bytes; "bit"/"bits": one entry per bit; integers:   *)
(* two's complement, little-endian; floats: the double handed over), fl: float element width of an array (0: not     *)
(* float), err: "" or the exception class, curs: current_bit_length / consumed_bit_length of EVERY live object after  *)
(* the call, imgs: Serializer.buffer of every live object after the call, tots: consumed + remaining of every live    *)
(* deserializer, r: what the fetch returned.  The P state is threaded through the steps; the first step that P        *)
(* rejects is printed as <<"REJECT", id, clause, step>> and the next history is judged.                               *)
EXTENDS PySupportP, Json, IOUtils

Trace == ndJsonDeserialize(IOEnv.TRACE_FILE)
VARIABLE l

VBits(s) == IF s.m \in {"bit", "bits"} THEN s.v ELSE BitsOfBytes(s.v)
RBits(s) == IF s.m \in {"bit", "bits"} THEN s.r ELSE BitsOfBytes(s.r)

(* floats: any NaN for a NaN; narrowing: any faithful result (the observation decides which) *)
NaNHint(f, hint) == IF IsNaN(f) /\ Len(hint) = Len(f) /\ IsNaN(hint) THEN hint ELSE f
RECURSIVE NaNHints(_, _, _)
NaNHints(f, hint, w) == IF Len(f) < w THEN <<>>
                        ELSE NaNHint(SubSeq(f, 1, w), IF Len(hint) >= w THEN SubSeq(hint, 1, w) ELSE <<>>)
                             \o NaNHints(SubSeq(f, w + 1, Len(f)), IF Len(hint) >= w THEN SubSeq(hint, w + 1, Len(hint)) ELSE <<>>, w)

(* the bits the acting object shows at the addressed positions after the call *)
ObsAt(st, s, len) ==
    LET ob == st.objs[s.o]
        img == BitsOfBytes(s.imgs[s.o])
    IN IF s.o <= Len(s.imgs) /\ Len(img) >= ob.cur + len THEN SubSeq(img, ob.cur + 1, ob.cur + len) ELSE <<>>

SerCall(st, s) ==
    LET raw == VBits(s)
        v == IF s.m = "f" THEN (IF s.n = 64 THEN NaNHint(raw, ObsAt(st, s, 64)) ELSE Narrow(raw, s.n, FALSE, ObsAt(st, s, s.n)))
             ELSE IF s.m = "arr" /\ s.fl > 0 THEN NaNHints(raw, ObsAt(st, s, Len(raw)), s.fl)
             ELSE raw
    IN [o |-> s.o, m |-> s.m, n |-> s.n, k |-> IF s.m = "bit" THEN "or" ELSE s.k, v |-> v, fl |-> s.fl, std |-> s.std]     \* add_unaligned_bit is the only single-bit method

SerVerdict(st, s) ==
    LET c == SerCall(st, s)
    IN  IF ~(s.o \in 1..Len(st.objs)) \/ ~SDefined(st, c) THEN [v |-> "harness.precondition", st |-> st]
        ELSE
        LET e == SApply(st, c)
            ob == st.objs[s.o]
            pos == ob.base + ob.cur
            adv == SAdvance(st, c)
            nobj == Len(e.st.objs)
            BadAt(j, addressed) ==          \* a mismatch of object j's view inside / outside the addressed range
                LET exp == SView(e.st, j)
                    obs == BitsOfBytes(s.imgs[j])
                    base == e.st.objs[j].base
                IN \E i \in 1..PMin(Len(exp), Len(obs)) :
                      /\ exp[i] # X /\ exp[i] # obs[i]
                      /\ addressed = (base + i > pos /\ base + i <= pos + adv)
            BadLen(j) == Len(SView(e.st, j)) # 8 * Len(s.imgs[j])
            v == IF s.err # e.err THEN (IF s.m = "fork" THEN "pysup.fork" ELSE IF e.err = "" THEN "pysup.noret" ELSE "pysup.raises")
                 ELSE IF Len(s.curs) # nobj \/ Len(s.imgs) # nobj THEN "pysup.fork"
                 ELSE IF \E j \in 1..nobj : s.curs[j] # e.st.objs[j].cur THEN (IF s.m = "fork" THEN "pysup.fork" ELSE "pysup.cursor")
                 ELSE IF \E j \in 1..nobj : BadLen(j) THEN (IF s.m = "fork" THEN "pysup.fork" ELSE "pysup.bits")
                 ELSE IF \E j \in 1..nobj : BadAt(j, TRUE) THEN "pysup.bits"
                 ELSE IF \E j \in 1..nobj : BadAt(j, FALSE) THEN (IF s.m = "fork" THEN "pysup.fork" ELSE "pysup.untouched")
                 ELSE "ok"
        IN [v |-> v, st |-> e.st]

DesVerdict(st, s) ==
    LET c == [o |-> s.o, m |-> s.m, n |-> s.n, k |-> s.k, v |-> <<>>, fl |-> s.fl, std |-> s.std]
    IN  IF ~(s.o \in 1..Len(st.objs)) \/ ~DDefined(st, c) THEN [v |-> "harness.precondition", st |-> st]
        ELSE
        LET e == DApply(st, c)
            ob == st.objs[s.o]
            nobj == Len(e.st.objs)
            r == RBits(s)
            v == IF s.err # e.err THEN (IF s.m = "fork" THEN "pysup.fork" ELSE IF e.err = "" THEN "pysup.noret" ELSE "pysup.raises")
                 ELSE IF Len(s.curs) # nobj \/ Len(s.tots) # nobj THEN "pysup.fork"
                 ELSE IF \E j \in 1..nobj : s.curs[j] # e.st.objs[j].cur \/ s.tots[j] # Len(e.st.objs[j].data)
                      THEN (IF s.m = "fork" THEN "pysup.fork" ELSE "pysup.cursor")
                 ELSE IF e.err = "" /\ ~DResultOK(c, e.res, r) THEN
                      (IF s.m = "s" /\ Len(r) = 64 /\ Take(r, s.n) = Take(e.res, s.n) THEN "pysup.signext"
                       ELSE IF ob.cur + DAdvance(st, c) > Len(ob.data) THEN "pysup.zero_ext"
                       ELSE "pysup.fetch")
                 ELSE "ok"
        IN [v |-> v, st |-> e.st]

RECURSIVE Judge(_, _, _, _)
Judge(kind, st, steps, i) ==
    IF i > Len(steps) THEN <<"ok", 0>>
    ELSE LET j == IF kind = "ser" THEN SerVerdict(st, steps[i]) ELSE DesVerdict(st, steps[i])
         IN IF j.v # "ok" THEN <<j.v, i>> ELSE Judge(kind, j.st, steps, i + 1)

RECURSIVE JoinBytes(_, _)
JoinBytes(frags, i) == IF i > Len(frags) THEN <<>> ELSE frags[i] \o JoinBytes(frags, i + 1)

Verdict(r) ==
    IF r.kind = "ser" THEN Judge("ser", SNew(r.cap), r.steps, 1)
    ELSE IF r.kind = "des" THEN Judge("des", DNew(BitsOfBytes(JoinBytes(r.frags, 1))), r.steps, 1)
    ELSE <<"harness.unknown_kind", 0>>

TInit == l = 1
TNext == /\ l <= Len(Trace)
         /\ LET v == Verdict(Trace[l]) IN IF v[1] = "ok" THEN TRUE ELSE PrintT(<<"REJECT", Trace[l].id, v[1], v[2]>>)
         /\ l' = l + 1
TSpec == TInit /\ [][TNext]_l
Accepted == TLCGet("stats").diameter - 1 = Len(Trace)
=============================================================================
