SPECIFICATION Spec
CONSTANTS
  Roots <- RootsR
  Names <- NamesPrefix
  Shorts <- ShortsT
  TwoVer <- TwoVerT
  MaxDepth = 2
  MaxTypes = 3
  StropMode = "prefix"
  GenNsChoices = {FALSE}
  Spellings = {"rel"}
  CanonNs = FALSE
  SupportFromRootParent = FALSE
INVARIANT Emit
CHECK_DEADLOCK FALSE
