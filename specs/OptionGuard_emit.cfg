SPECIFICATION Spec
CONSTANTS
  Langs = {"c", "cpp"}
  BaseSet = "families"
  MaxMut = 1
  MinMut = 0
  MaxBoth = 1
  Star = TRUE
  HashBits = 32
INVARIANT Emit
CHECK_DEADLOCK FALSE
