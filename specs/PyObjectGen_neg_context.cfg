SPECIFICATION Spec
CONSTANTS
  NRev = 3
  NTypes = 2
  MaxGen = 2
  Memo = "context"
INVARIANT EmbeddedEqSource
CHECK_DEADLOCK FALSE
