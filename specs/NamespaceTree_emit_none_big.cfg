SPECIFICATION Spec
CONSTANTS
  Roots <- RootsRIf
  Names <- NamesAIf
  Shorts <- ShortsTIf
  TwoVer <- TwoVerT
  MaxDepth = 2
  MaxTypes = 3
  StropMode = "none"
  GenNsChoices = {TRUE}
  Spellings = {"rel"}
  CanonNs = FALSE
  SupportFromRootParent = FALSE
INVARIANT Emit
CHECK_DEADLOCK FALSE
