-------------------------- MODULE LineBufferTrace --------------------------
(* T-layer for C15: every record is one complete execution of the real line-buffer code (or of the public *)
(* generate_all path): the text, the chunk sequence the engine delivered, the processors, the file written.*)
EXTENDS LinePP, Json, IOUtils, TLC

Trace == ndJsonDeserialize(IOEnv.TRACE_FILE)

VARIABLE l

RECURSIVE Concat(_, _)
Concat(cs, i) == IF i > Len(cs) THEN <<>> ELSE cs[i] \o Concat(cs, i + 1)

Verdict(r) ==
    IF Concat(r.chunks, 1) # r.text THEN "harness.concat"
    ELSE IF r.out # Whole(r.text, r.pps) THEN "chunk.whole"
    ELSE "ok"

TInit == l = 1
TNext == /\ l <= Len(Trace)
         /\ LET v == Verdict(Trace[l]) IN IF v = "ok" THEN TRUE ELSE PrintT(<<"REJECT", Trace[l].id, v>>)
         /\ l' = l + 1
TSpec == TInit /\ [][TNext]_l
Accepted == TLCGet("stats").diameter - 1 = Len(Trace)
=============================================================================
