SPECIFICATION Spec
CONSTANTS
  Langs = {"c", "html"}
  Exts = {"def"}
  Stems = {"def"}
  SupTpls = {FALSE, TRUE}
  NsVals = {FALSE}
  Shapes = {"plain", "sibling", "rsibling"}
  Wipes = FALSE
  PFiles = {"dsdlD"}
  MaxLo = 0
  MaxLi = 1
  MaxDry = 0
  MaxRun = 4
  Linear = FALSE
  QuickOnly = FALSE
  FwdOmitToList = TRUE
  ListDeps = TRUE
  OwnByPrefix = TRUE
  ListUserSup = TRUE
INVARIANT RefinesInputs
CHECK_DEADLOCK FALSE
