--------------------------- MODULE HtmlDocTrace ---------------------------
(* T-layer for C20.  The trace file holds the token events of the pages of whole generator runs:             *)
(*   run, (doc, token events..., enddoc)*, endrun, run, ...                                                  *)
(* One TLC state per event; the state is the P-layer acceptor state of HtmlDoc.  Every rejection is printed   *)
(* as a JSON record and the acceptor continues (total verdicts); the link clause is decided at endrun over     *)
(* the pages, ids and type-reference hyperlinks accumulated over all pages of the run.                        *)
EXTENDS HtmlDoc, Json, IOUtils

Trace == ndJsonDeserialize(IOEnv.TRACE_FILE)

VARIABLE l

PgOf(e, s) == IF e.k \in {"run", "endrun"} THEN 0 ELSE e.pg
NOf(e) == IF e.k \in {"open", "close", "text", "comment"} THEN e.n ELSE 0

Report(e, s1) ==
    /\ \A i \in 1..Len(s1.rej) :
          PrintT(ToJson([tag |-> "REJECT", pg |-> PgOf(e, s1), n |-> NOf(e), clause |-> s1.rej[i].clause,
                         detail |-> s1.rej[i].detail, arg |-> s1.rej[i].arg, k |-> e.k]))
    /\ \A i \in 1..Len(s1.notes) :
          PrintT(ToJson([tag |-> "NOTE", pg |-> PgOf(e, s1), n |-> NOf(e), clause |-> s1.notes[i].clause,
                         arg |-> s1.notes[i].arg]))
    /\ e.k = "endrun" =>    \* how many distinct (page, href) type-reference hyperlinks the link clause judged in this run
          PrintT(ToJson([tag |-> "LINKS", pg |-> 0, run |-> e.run, judged |-> Cardinality({<<lk.from, lk.href>> : lk \in s1.links})]))
    /\ \A t \in s1.trej :
          PrintT(ToJson([tag |-> "REJECT", pg |-> 0, run |-> e.run, n |-> 0, clause |-> "html.link", detail |-> "type-without-resolving-link",
                         type |-> t, k |-> "endrun"]))
    /\ \A r \in s1.srej :
          PrintT(ToJson([tag |-> "REJECT", pg |-> 0, run |-> e.run, n |-> 0, clause |-> "html.link", detail |-> "anchor-shared-by-types",
                         to |-> r.to, frag |-> r.frag, types |-> r.types, k |-> "endrun"]))
    /\ \A r \in s1.lrej :
          PrintT(ToJson([tag |-> "REJECT", pg |-> r.link.pg, n |-> 0, clause |-> "html.link", detail |-> r.why,
                         href |-> r.link.href, refs |-> r.link.refs, to |-> r.to, dir |-> r.dir, inspan |-> r.link.inspan, k |-> "endrun"]))

TInit == l = 1 /\ st = Init0 /\ toks = <<>> /\ seen = {}
TNext == /\ l <= Len(Trace)
         /\ LET e  == Trace[l]
                s1 == Step(st, e)
            IN /\ st' = s1
               /\ IF s1.rej = <<>> /\ s1.notes = <<>> /\ s1.lrej = {} /\ e.k # "endrun" THEN TRUE ELSE Report(e, s1)
         /\ l' = l + 1
         /\ UNCHANGED <<toks, seen>>
TSpec == TInit /\ [][TNext]_<<l, st, toks, seen>>
Accepted == TLCGet("stats").diameter - 1 = Len(Trace)
=============================================================================
