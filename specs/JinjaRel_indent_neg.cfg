SPECIFICATION Spec
CONSTANTS
  Profile = "sem"
  MaxW = 3
  MaxWc = 0
  MaxDepth = 0
  Tights = {FALSE}
  EmitOpen = FALSE
INVARIANT IndentFirstSkipsEmpty
CHECK_DEADLOCK FALSE
