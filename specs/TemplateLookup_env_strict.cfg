\* environment registry, strict reading (Jinja default globals protected too): EXPECTED TO BE REFUTED - witness for the ambiguity register
SPECIFICATION EnvSpec
CHECK_DEADLOCK FALSE
INVARIANT EnvRefines
CONSTANTS
  Shape = "chain3"
  Modes = {"fs"}
  MaxLookups = 0
  SharedCache = TRUE
  MaxAdds = 1
  StrictGlobals = TRUE
