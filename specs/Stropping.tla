------------------------------ MODULE Stropping ------------------------------
(* C09 - identifier stropping.                                                                              *)
(*                                                                                                          *)
(* P-layer : what the property demands of ONE answer of a language's identifier filter (operators Lex*,     *)
(*           Reserved, AlreadyOk, GoodAnswer, Deterministic) and, as a state machine, the most general      *)
(*           system that satisfies it (PInit/PNext with the memo variable).                                 *)
(* I-layer : TokenEncoder.strop of src/nunavut/lang/_common.py stage by stage, with the failure handlers of *)
(*           lang/c and lang/cpp, parametrised by the configuration DATA in force (reserved identifiers,    *)
(*           reserved patterns, encoding rules, prefixes ...), which the harness reads from the live         *)
(*           language objects on every run and hands over as JSON (IOEnv.STROP_CFGS).  Regular expressions  *)
(*           arrive as syntax trees (sre_parse) and are evaluated HERE by a small position-set matcher.     *)
(*                                                                                                          *)
(* Text is Seq(Nat) of code points.  Unicode facts that no finite spec can state (membership of a non-ASCII  *)
(* code point in \d \s \w / XID_Start / XID_Continue, NFKC) come from the interpreter's tables (Doc.cls,     *)
(* Doc.nfkc, recorded `nf` fields); everything about ASCII is defined below.                                *)
EXTENDS Naturals, Sequences, FiniteSets, TLC, Json, IOUtils

CONSTANTS CfgIds,      \* configurations explored by the model (keys of Doc.cfgs)
          Kinds,       \* identifier categories explored by the model
          Alphabet,    \* code points the model builds inputs from
          MaxLen,      \* inputs of length 1..MaxLen
          Reverify,    \* FALSE: the code as it is (a failure handler's result is returned without re-verification)
                       \* TRUE : variant that ends with the three dry-run checks once more, without handlers
          WithReask    \* TRUE: after the first answer the same question is asked again (cache hit or recompute)

Doc  == JsonDeserialize(IOEnv.STROP_CFGS)
Cfgs == Doc.cfgs

Range(f) == {f[i] : i \in DOMAIN f}
NA == [k \in DOMAIN Doc.cls |-> Range(Doc.cls[k])]          \* non-ASCII members of the character classes

(* ------------------------------------------------------------------------------------------------------ *)
(* character classes                                                                                        *)
(* ------------------------------------------------------------------------------------------------------ *)
IsUpper(c) == c \in 65..90
IsLower(c) == c \in 97..122
IsDigit(c) == c \in 48..57
IsAsciiWord(c) == IsUpper(c) \/ IsLower(c) \/ IsDigit(c) \/ c = 95
AsciiSpace == {9, 10, 11, 12, 13, 28, 29, 30, 31, 32}

IsSpace(c) == IF c < 128 THEN c \in AsciiSpace ELSE c \in NA["s"]          \* str.isspace() = re \s
CatHas(k, c) ==
    CASE k = "d" -> IF c < 128 THEN IsDigit(c) ELSE c \in NA["d"]
      [] k = "s" -> IsSpace(c)
      [] k = "w" -> IF c < 128 THEN IsAsciiWord(c) ELSE c \in NA["w"]
      [] k = "D" -> ~(IF c < 128 THEN IsDigit(c) ELSE c \in NA["d"])
      [] k = "S" -> ~IsSpace(c)
      [] k = "W" -> ~(IF c < 128 THEN IsAsciiWord(c) ELSE c \in NA["w"])

(* ------------------------------------------------------------------------------------------------------ *)
(* regular expressions: a pattern is a sequence of items                                                    *)
(*   [t |-> "lit", c]  [t |-> "set", neg, rs (ranges), cats]  [t |-> "bol"]  [t |-> "eol"]  [t |-> "eos"]    *)
(*   [t |-> "alt", bs (sequence of patterns)]  [t |-> "rep", min, max, inf, x (pattern)]                     *)
(* Ends(pat, s, P): the set of positions at which a match of pat can end when it starts at a position of P. *)
(* ------------------------------------------------------------------------------------------------------ *)
ClassHas(it, c) ==
    ((\E i \in DOMAIN it.rs : it.rs[i][1] <= c /\ c <= it.rs[i][2]) \/ (\E i \in DOMAIN it.cats : CatHas(it.cats[i], c))) # it.neg

RECURSIVE Ends(_, _, _, _), EndsItem(_, _, _), Rep(_, _, _, _, _)
EndsItem(it, s, P) ==
    CASE it.t = "lit" -> {p + 1 : p \in {q \in P : q <= Len(s) /\ s[q] = it.c}}
      [] it.t = "set" -> {p + 1 : p \in {q \in P : q <= Len(s) /\ ClassHas(it, s[q])}}
      [] it.t = "bol" -> P \cap {1}
      [] it.t = "eol" -> {p \in P : p = Len(s) + 1 \/ (p = Len(s) /\ s[p] = 10)}
      [] it.t = "eos" -> P \cap {Len(s) + 1}
      [] it.t = "alt" -> UNION {Ends(it.bs[b], 1, s, P) : b \in DOMAIN it.bs}
      [] it.t = "rep" -> Rep(it, s, P, 0, {})
Ends(pat, i, s, P) == IF i > Len(pat) \/ P = {} THEN P ELSE Ends(pat, i + 1, s, EndsItem(pat[i], s, P))
Rep(it, s, P, k, acc) ==
    LET acc2 == IF k >= it.min THEN acc \cup P ELSE acc
    IN IF P = {} \/ (~it.inf /\ k >= it.max) THEN acc2
       ELSE LET Q == Ends(it.x, 1, s, P)
            IN IF it.inf /\ k >= it.min /\ Q \subseteq acc2 THEN acc2 ELSE Rep(it, s, Q, k + 1, acc2)

(* cheap necessary conditions evaluated before the matcher proper (they only save time):                     *)
(* CanStart(pat, i, ch): FALSE only if no match of pat[i..] can begin at a position holding ch;              *)
(* Anchored(pat): every match begins at position 1.                                                          *)
RECURSIVE CanStart(_, _, _)
CanStart(pat, i, ch) ==
    IF i > Len(pat) THEN TRUE
    ELSE LET it == pat[i]
         IN CASE it.t = "lit" -> it.c = ch
              [] it.t = "set" -> ClassHas(it, ch)
              [] it.t = "alt" -> \E b \in DOMAIN it.bs : CanStart(it.bs[b], 1, ch)
              [] it.t = "rep" -> CanStart(it.x, 1, ch) \/ (it.min = 0 /\ CanStart(pat, i + 1, ch))
              [] OTHER -> CanStart(pat, i + 1, ch)
RECURSIVE Anchored(_)
Anchored(pat) == /\ pat # <<>>
                 /\ \/ pat[1].t = "bol"
                    \/ (pat[1].t = "alt" /\ \A b \in DOMAIN pat[1].bs : Anchored(pat[1].bs[b]))

Match(pat, s)  == IF s = <<>> THEN Ends(pat, 1, s, {1}) # {}                              \* re.Pattern.match
                  ELSE CanStart(pat, 1, s[1]) /\ Ends(pat, 1, s, {1}) # {}
Search(pat, s) == IF Anchored(pat) THEN Match(pat, s)                                     \* re.Pattern.search
                  ELSE Ends(pat, 1, s, {p \in 1..(Len(s) + 1) : p > Len(s) \/ CanStart(pat, 1, s[p])}) # {}

(* ====================================================================================================== *)
(* P-LAYER                                                                                                  *)
(* ====================================================================================================== *)
IdSet == [c \in DOMAIN Cfgs |-> Range(Cfgs[c].ids)]                 \* reserved identifiers in force
KwSet == [c \in DOMAIN Cfgs |-> Range(Cfgs[c].kw)]                  \* the language's own keywords (py: keyword.kwlist)
(* reserved words of the LANGUAGE, independent of the tree under test: ISO C11 / C++20 keywords (constants of    *)
(* the harness), keyword.kwlist + dir(builtins) of the interpreter that runs the check.                         *)
OracleSet == [c \in DOMAIN Cfgs |-> Range(Cfgs[c].oracle)]

(* patterns in force for a category: those filed under `all` and those filed under the category; the       *)
(* category `any` stands for every category at once.  SomeRule(tbl, k, T(_)): some rule in force satisfies T.  *)
SomeRule(tbl, k, T(_)) ==
    IF k = "any" THEN \E x \in DOMAIN tbl \ {"any"} : \E i \in DOMAIN tbl[x] : T(tbl[x][i])   \* ("any" is the I-layer's ordered copy)
    ELSE \/ ("all" \in DOMAIN tbl /\ \E i \in DOMAIN tbl["all"] : T(tbl["all"][i]))
         \/ (k \in DOMAIN tbl /\ \E i \in DOMAIN tbl[k] : T(tbl[k][i]))

(* syntactically an identifier *)
LexC(o) == /\ o # <<>>
           /\ (IsUpper(o[1]) \/ IsLower(o[1]) \/ o[1] = 95)
           /\ \A i \in 2..Len(o) : IsAsciiWord(o[i])
PyStart(c) == IF c < 128 THEN IsUpper(c) \/ IsLower(c) \/ c = 95 ELSE c \in NA["xs"]
PyCont(c)  == IF c < 128 THEN IsAsciiWord(c) ELSE c \in NA["xc"]
(* str.isidentifier() and the form the parser works with (NFKC) is not a keyword *)
LexPy(c, o, nf) == /\ o # <<>> /\ PyStart(o[1]) /\ \A i \in 2..Len(o) : PyCont(o[i])
                   /\ o \notin KwSet[c] /\ nf \notin KwSet[c]
LexValid(c, o, nf) == IF Cfgs[c].lang = "py" THEN LexPy(c, o, nf) ELSE LexC(o)

Reserved1(c, k, o) == o \in IdSet[c] \/ o \in OracleSet[c] \/ SomeRule(Cfgs[c].pats, k, LAMBDA p : Match(p, o))
Reserved(c, k, o, nf) == Reserved1(c, k, o) \/ (Cfgs[c].lang = "py" /\ nf # o /\ Reserved1(c, k, nf))

(* reading of "reserved" under which a pattern that is not anchored counts wherever it occurs: used only to  *)
(* WEAKEN the premise of the identity clause (ambiguity rule).  (a match is in particular a search hit)       *)
ReservedLoose(c, k, o, nf) ==
    \/ o \in IdSet[c] \/ o \in OracleSet[c] \/ SomeRule(Cfgs[c].pats, k, LAMBDA p : Search(p, o))
    \/ (Cfgs[c].lang = "py" /\ nf # o /\ Reserved1(c, k, nf))
EncTouches(c, k, s) == SomeRule(Cfgs[c].encs, k, LAMBDA p : Search(p, s))

(* what the property's clauses need to know about the input, and about one answer                            *)
(* answer: [err |-> BOOLEAN, out |-> Seq(Nat), nf |-> NFKC(out), cc |-> the language's own compiler accepts    *)
(*          the token in identifier position (recorded for Python: compile(); TRUE where nobody was asked)]     *)
InAtoms(c, k, s, snf) ==
    LET l == ReservedLoose(c, k, s, snf)
    IN [v |-> LexValid(c, s, snf), r |-> l /\ Reserved(c, k, s, snf), l |-> l, e |-> EncTouches(c, k, s)]   \* (Reserved => ReservedLoose)
OutAtoms(c, k, a) == [v |-> ~a.err /\ LexValid(c, a.out, a.nf) /\ a.cc, r |-> ~a.err /\ Reserved(c, k, a.out, a.nf)]

(* "already a valid, unreserved identifier" under every reading (configuration-level validity included)      *)
AlreadyOkA(ia) == ia.v /\ ~ia.l /\ ~ia.e
ClauseValidA(a, oa)        == a.err \/ oa.v
ClauseReservedA(a, oa)     == a.err \/ ~oa.r
ClauseIdentityA(s, ia, a)  == AlreadyOkA(ia) => (~a.err /\ a.out = s)

AlreadyOk(c, k, s, nf) == AlreadyOkA(InAtoms(c, k, s, nf))
ClauseValid(c, k, a)    == ClauseValidA(a, OutAtoms(c, k, a))
ClauseReserved(c, k, a) == ClauseReservedA(a, OutAtoms(c, k, a))
ClauseIdentity(c, k, s, snf, a) == ClauseIdentityA(s, InAtoms(c, k, s, snf), a)
GoodAnswer(c, k, s, snf, a) == ClauseValid(c, k, a) /\ ClauseReserved(c, k, a) /\ ClauseIdentity(c, k, s, snf, a)
Deterministic(as) == \A i, j \in DOMAIN as : as[i].err = as[j].err /\ (as[i].err \/ as[i].out = as[j].out)

(* NFKC inside the model: per character (exact for the model's alphabet, which has no combining sequences)  *)
NfMap == [i \in DOMAIN Doc.nfkc |-> Doc.nfkc[i]]
Nf1(ch) == IF \E i \in DOMAIN NfMap : NfMap[i][1] = ch THEN (CHOOSE i \in DOMAIN NfMap : NfMap[i][1] = ch) ELSE 0
RECURSIVE NfModel(_)
NfModel(s) == IF s = <<>> THEN <<>>
              ELSE (IF Nf1(s[1]) = 0 THEN <<s[1]>> ELSE NfMap[Nf1(s[1])][2]) \o NfModel(Tail(s))

(* ====================================================================================================== *)
(* I-LAYER: the stages of TokenEncoder.strop as operators (shared by the state machine and the trace spec)  *)
(* ====================================================================================================== *)
HexDigit(n) == IF n < 10 THEN 48 + n ELSE 55 + n
RECURSIVE HexSeq(_)
HexSeq(n) == IF n < 16 THEN <<HexDigit(n)>> ELSE Append(HexSeq(n \div 16), HexDigit(n % 16))
Hex4(n) == LET h == HexSeq(n) IN IF Len(h) >= 4 THEN h ELSE [i \in 1..(4 - Len(h)) |-> 48] \o h   \* f"{ord(c):04X}"

(* ordered rule list of a table for one key (the harness supplies `any` = concatenation in configuration order) *)
RulesFor(tbl, k) == IF k \in DOMAIN tbl THEN tbl[k] ELSE <<>>
(* _do_for_type_and_all: first the rules under `all`, then those under the requested type *)
RulesAllThen(tbl, k) == RulesFor(tbl, "all") \o (IF k = "all" THEN <<>> ELSE RulesFor(tbl, k))

EncodeChar(cf, ch) == IF cf.hasws /\ IsSpace(ch) THEN cf.ws ELSE cf.encpre \o Hex4(ch)
RECURSIVE EncodeSpan(_, _)
EncodeSpan(cf, sp) == IF sp = <<>> THEN <<>> ELSE EncodeChar(cf, sp[1]) \o EncodeSpan(cf, Tail(sp))
EncFilter(cf, sp) ==                                                 \* TokenEncoder._encoding_filter
    IF cf.collapse /\ \A i \in DOMAIN sp : IsSpace(sp[i])
    THEN (IF cf.hasws THEN cf.ws ELSE cf.encpre \o Hex4(32))
    ELSE EncodeSpan(cf, sp)

SetMax(S) == CHOOSE m \in S : \A x \in S : x <= m
RECURSIVE SubFrom(_, _, _, _)
SubFrom(cf, pat, s, p) ==                                            \* pattern.sub(_encoding_filter, s), non-empty matches
    IF p > Len(s) THEN <<>>
    ELSE LET E == Ends(pat, 1, s, {p}) \ {p}
         IN IF E = {} THEN <<s[p]>> \o SubFrom(cf, pat, s, p + 1)
            ELSE EncFilter(cf, SubSeq(s, p, SetMax(E) - 1)) \o SubFrom(cf, pat, s, SetMax(E))
RECURSIVE SubAll(_, _, _, _)
SubAll(cf, rules, i, s) ==
    IF i > Len(rules) THEN s
    ELSE SubAll(cf, rules, i + 1, IF Search(rules[i], s) THEN SubFrom(cf, rules[i], s, 1) ELSE s)

Wrap(cf, t) == cf.pre \o t \o cf.suf
AnyMatch(rules, t) == \E i \in DOMAIN rules : Match(rules[i], t)

SEncode(c, k, t) == SubAll(Cfgs[c], RulesAllThen(Cfgs[c].encs, k), 1, t)
SKw(c, k, t) == LET a == IF t \in IdSet[c] THEN Wrap(Cfgs[c], t) ELSE t               \* _strop_by_keyword for `all`
                IN IF k # "all" /\ a \in IdSet[c] THEN Wrap(Cfgs[c], a) ELSE a        \* ... and again for the type
SPat(c, k, t) == LET a == IF AnyMatch(RulesFor(Cfgs[c].pats, "all"), t) THEN Wrap(Cfgs[c], t) ELSE t
                 IN IF k # "all" /\ AnyMatch(RulesFor(Cfgs[c].pats, k), a) THEN Wrap(Cfgs[c], a) ELSE a
FailPat(c, k, t) == AnyMatch(RulesAllThen(Cfgs[c].pats, k), t)                        \* dry-run _strop_by_pattern raises
FailKw(c, k, t)  == t \in IdSet[c]                                                    \* dry-run _strop_by_keyword raises
FailEnc(c, k, t) == AnyMatch(RulesAllThen(Cfgs[c].encs, k), t)                        \* dry-run _encode raises (match, not search)

(* lang/c _handle_stropping_failure = lang/cpp _handle_stropping_or_encoding_failure:                       *)
(*   m = re.match(r"^_+([A-Z]?)", t);  "_" + m.group(1).lower() + t[m.end():]   or re-raise                 *)
RECURSIVE LeadUnderscores(_)
LeadUnderscores(t) == IF t # <<>> /\ t[1] = 95 THEN 1 + LeadUnderscores(Tail(t)) ELSE 0
HandlerApplies(t) == t # <<>> /\ t[1] = 95
HandlerOut(t) == LET n == LeadUnderscores(t)
                 IN IF n < Len(t) /\ IsUpper(t[n + 1]) THEN <<95, t[n + 1] + 32>> \o SubSeq(t, n + 2, Len(t))
                    ELSE <<95>> \o SubSeq(t, n + 1, Len(t))
HasStropHandler(c) == Cfgs[c].lang \in {"c", "cpp"}
HasEncHandler(c)   == Cfgs[c].lang = "cpp"

(* The whole pipeline as one operator: [err, out, hnd (a handler produced the token), steps]                *)
Step(s, t, x) == [s |-> s, t |-> t, x |-> x]
Fails(c, k, chk, t) == CASE chk = "pat" -> FailPat(c, k, t) [] chk = "kw" -> FailKw(c, k, t) [] chk = "enc" -> FailEnc(c, k, t)
Recheck(c, k, st, chk, name, hname, hashandler) ==
    \* st = [err, out, hnd, steps]; one dry-run stage followed, when it raises, by the handler
    IF st.err THEN st
    ELSE IF ~Fails(c, k, chk, st.out) THEN [st EXCEPT !.steps = Append(@, Step(name, st.out, FALSE))]
    ELSE LET s1 == Append(st.steps, Step(name, st.out, TRUE))
         IN IF hashandler /\ HandlerApplies(st.out)
            THEN [err |-> FALSE, out |-> HandlerOut(st.out), hnd |-> TRUE, steps |-> Append(s1, Step(hname, HandlerOut(st.out), FALSE))]
            ELSE [err |-> TRUE, out |-> <<>>, hnd |-> st.hnd,
                  steps |-> IF hashandler THEN Append(s1, Step(hname, <<>>, TRUE)) ELSE s1]

Pipe(c, k, s) ==
    IF k = "all" THEN [err |-> TRUE, out |-> <<>>, hnd |-> FALSE, steps |-> <<>>]      \* ValueError: `all` is not a category
    ELSE
    LET e  == SEncode(c, k, s)
        w  == SKw(c, k, e)
        p  == SPat(c, k, w)
        s0 == [err |-> FALSE, out |-> p, hnd |-> FALSE, steps |-> <<Step("enc", e, FALSE), Step("kw", w, FALSE), Step("pat", p, FALSE)>>]
        s1 == Recheck(c, k, s0, "pat", "rpat", "hpat", HasStropHandler(c))
        s2 == Recheck(c, k, s1, "kw", "rkw", "hkw", HasStropHandler(c))
        s3 == Recheck(c, k, s2, "enc", "renc", "henc", HasEncHandler(c))
    IN IF ~Reverify THEN s3
       ELSE \* Reverify variant: the same three dry-run checks again on the final token, no handlers
            Recheck(c, k, Recheck(c, k, Recheck(c, k, s3, "pat", "rpat", "", FALSE), "kw", "rkw", "", FALSE), "enc", "renc", "", FALSE)

(* ------------------------------------------------------------------------------------------------------ *)
(* I-layer as a state machine: one action per stage of the code                                             *)
(* ------------------------------------------------------------------------------------------------------ *)
VARIABLES cfg, kind, inp,        \* the question (chosen in Init)
          stage, tok, err, hnd,  \* pipeline state
          steps,                 \* history: what each stage produced
          memo,                  \* P-layer variable: answers given so far (question -> answer)
          asked                  \* how often the question has been answered

vars == <<cfg, kind, inp, stage, tok, err, hnd, steps, memo, asked>>

Inputs == UNION {[1..n -> Alphabet] : n \in 1..MaxLen}

Init == /\ cfg \in CfgIds /\ kind \in Kinds /\ inp \in Inputs
        /\ stage = "enc" /\ tok = inp /\ err = FALSE /\ hnd = FALSE /\ steps = <<>>
        /\ memo = <<>> /\ asked = 0

Keep == UNCHANGED <<cfg, kind, inp, memo, asked>>
Go(nextStage, t, name, raised) ==
    /\ stage' = nextStage /\ tok' = t /\ steps' = Append(steps, Step(name, t, raised)) /\ UNCHANGED <<err, hnd>> /\ Keep
Fail(name) ==
    /\ stage' = "ans" /\ tok' = <<>> /\ err' = TRUE /\ steps' = Append(steps, Step(name, <<>>, TRUE)) /\ UNCHANGED hnd /\ Keep

Encode   == stage = "enc" /\ Go("kw", SEncode(cfg, kind, tok), "enc", FALSE)
StropKw  == stage = "kw"  /\ Go("pat", SKw(cfg, kind, tok), "kw", FALSE)
StropPat == stage = "pat" /\ Go("rpat", SPat(cfg, kind, tok), "pat", FALSE)

RecheckStage(here, name, fails, hashandler, handlerStage, nextStage) ==
    /\ stage = here
    /\ IF ~fails THEN Go(nextStage, tok, name, FALSE)
       ELSE IF hashandler THEN Go(handlerStage, tok, name, TRUE)
       ELSE /\ stage' = "ans" /\ tok' = <<>> /\ err' = TRUE /\ steps' = Append(steps, Step(name, tok, TRUE)) /\ UNCHANGED hnd /\ Keep
HandlerStage(here, name, nextStage) ==
    /\ stage = here
    /\ IF HandlerApplies(tok)
       THEN /\ stage' = nextStage /\ tok' = HandlerOut(tok) /\ hnd' = TRUE
            /\ steps' = Append(steps, Step(name, HandlerOut(tok), FALSE)) /\ UNCHANGED err /\ Keep
       ELSE Fail(name)

RecheckPat == RecheckStage("rpat", "rpat", FailPat(cfg, kind, tok), HasStropHandler(cfg), "hpat", "rkw")
HandlerPat == HandlerStage("hpat", "hpat", "rkw")
RecheckKw  == RecheckStage("rkw", "rkw", FailKw(cfg, kind, tok), HasStropHandler(cfg), "hkw", "renc")
HandlerKw  == HandlerStage("hkw", "hkw", "renc")
AfterChecks == IF Reverify THEN "vpat" ELSE "ans"
RecheckEnc == RecheckStage("renc", "renc", FailEnc(cfg, kind, tok), HasEncHandler(cfg), "henc", AfterChecks)
HandlerEnc == HandlerStage("henc", "henc", AfterChecks)
(* Reverify variant only: final verification of whatever token is about to be returned *)
VerifyPat == RecheckStage("vpat", "rpat", FailPat(cfg, kind, tok), FALSE, "", "vkw")
VerifyKw  == RecheckStage("vkw", "rkw", FailKw(cfg, kind, tok), FALSE, "", "venc")
VerifyEnc == RecheckStage("venc", "renc", FailEnc(cfg, kind, tok), FALSE, "", "ans")

Answer0 == [err |-> err, out |-> tok, nf |-> IF err THEN <<>> ELSE NfModel(tok), cc |-> TRUE]
(* the answer leaves the filter: this is the P-layer's step (memo records it)                               *)
Return == /\ stage = "ans"
          /\ memo' = Append(memo, Answer0)
          /\ asked' = asked + 1 /\ stage' = "done"
          /\ UNCHANGED <<cfg, kind, inp, tok, err, hnd, steps>>
(* lru_cache(1024) on strop: the next call with the same arguments is either served from the cache or, after *)
(* eviction / in another process, computed again by the same pipeline.                                      *)
ReaskHit  == /\ WithReask /\ stage = "done" /\ asked = 1
             /\ memo' = Append(memo, memo[1]) /\ asked' = 2
             /\ UNCHANGED <<cfg, kind, inp, stage, tok, err, hnd, steps>>
ReaskMiss == /\ WithReask /\ stage = "done" /\ asked = 1
             /\ stage' = "enc" /\ tok' = inp /\ err' = FALSE /\ hnd' = FALSE /\ steps' = <<>>
             /\ UNCHANGED <<cfg, kind, inp, memo, asked>>

Next == \/ Encode \/ StropKw \/ StropPat \/ RecheckPat \/ HandlerPat \/ RecheckKw \/ HandlerKw \/ RecheckEnc \/ HandlerEnc
        \/ VerifyPat \/ VerifyKw \/ VerifyEnc
        \/ Return \/ ReaskHit \/ ReaskMiss
Spec == Init /\ [][Next]_vars

(* ------------------------------------------------------------------------------------------------------ *)
(* P-layer as a state machine (the most general filter that has the property) and the refinement I => P      *)
(* ------------------------------------------------------------------------------------------------------ *)
(* P has one variable, memo, and one action: give answer `a` to the question, provided `a` is good and equals  *)
(* every earlier answer:  PStep(prev, a) /\ memo' = Append(memo, a).                                          *)
PStep(prev, a) == /\ GoodAnswer(cfg, kind, inp, NfModel(inp), a)
                  /\ \A i \in DOMAIN prev : prev[i].err = a.err /\ (a.err \/ prev[i].out = a.out)
(* refinement: every answer the stage machine has recorded in memo (action Return / ReaskHit) was a P-step    *)
IRefinesP == \A i \in DOMAIN memo : PStep(SubSeq(memo, 1, i - 1), memo[i])
(* the pipeline operator (used by the trace spec) and the stage machine agree *)
PipeAgrees == (stage = "done") =>
                 LET r == Pipe(cfg, kind, inp)
                 IN r.err = err /\ (err \/ r.out = tok) /\ r.hnd = hnd /\ r.steps = steps
TypeOK == /\ stage \in {"enc", "kw", "pat", "rpat", "hpat", "rkw", "hkw", "renc", "henc", "vpat", "vkw", "venc", "ans", "done"}
          /\ asked \in 0..2 /\ Len(memo) = asked

(* ---- case emission (spec -> code): one record per question, with the model's prediction and P's opinion of it *)
Emit == (stage = "done" /\ asked = 1) =>
            PrintT(ToJson([cfg |-> cfg, kind |-> kind, inp |-> inp, err |-> err, out |-> tok, hnd |-> hnd, steps |-> steps,
                           pok |-> GoodAnswer(cfg, kind, inp, NfModel(inp), memo[1])]))
=============================================================================
