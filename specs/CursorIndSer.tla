---------------------------- MODULE CursorIndSer ----------------------------
(* The encoder side of CursorInd: why the ONE up-front check `8 * capacity >= max serialized bits` of a generated        *)
(* serializer makes every later store safe, for buffers and types of ANY size.  `maxbits` is the padded maximum          *)
(* (a multiple of 8), `left` an upper bound of the bits still to be emitted (off + left <= maxbits is what the            *)
(* size computation of DsdlWire!MaxBitsBody guarantees).  Steps, as in the generated C:                                 *)
(*   EmitBits(k)      k <= left bits through nunavutCopyBits / nunavutSetUxx at any cursor: bytes [off div 8, ceil((off+k)/8)) *)
(*   EmitAligned(w)   the aligned fast path: cursor on a byte boundary, WHOLE bytes stored for a w-bit field (the spill   *)
(*                    beyond the field is inside the buffer because maxbits is a multiple of 8)                          *)
(*   Pad              zero bits up to the next byte boundary (accounted for in maxbits)                                  *)
(* checked = FALSE is the negative control: the option enable_override_variable_array_capacity compiles the up-front     *)
(* check out (defect D10, repaired by 268a21b by checking the counts against the reduced capacity instead).              *)
EXTENDS Integers

VARIABLES
    \* @type: Int;
    size,
    \* @type: Int;
    maxbits,
    \* @type: Int;
    off,
    \* @type: Int;
    left,
    \* @type: Int;
    hi,
    \* @type: Bool;
    checked

Init ==
    /\ size \in Nat /\ maxbits \in Nat /\ maxbits % 8 = 0
    /\ checked \in BOOLEAN
    /\ (checked => 8 * size >= maxbits)
    /\ off = 0 /\ left = maxbits /\ hi = 0

EmitBits ==
    \E k \in Nat :
        /\ k <= left
        /\ hi' = IF k = 0 THEN hi ELSE (off + k + 7) \div 8
        /\ off' = off + k /\ left' = left - k
        /\ UNCHANGED <<size, maxbits, checked>>

EmitAligned ==
    \E w \in Nat :
        /\ w <= left /\ w > 0 /\ off % 8 = 0
        /\ hi' = (off \div 8) + ((w + 7) \div 8)
        /\ off' = off + w /\ left' = left - w
        /\ UNCHANGED <<size, maxbits, checked>>

Pad ==
    LET k == (((off + 7) \div 8) * 8) - off
    IN /\ k <= left
       /\ hi' = IF k = 0 THEN hi ELSE (off + k + 7) \div 8
       /\ off' = off + k /\ left' = left - k
       /\ UNCHANGED <<size, maxbits, checked>>

Next == EmitBits \/ EmitAligned \/ Pad

Safe == hi <= size /\ off <= 8 * size

Types == size \in Nat /\ maxbits \in Nat /\ off \in Nat /\ left \in Nat /\ hi \in Nat
IndInv ==
    /\ Types /\ checked = TRUE
    /\ maxbits % 8 = 0 /\ 8 * size >= maxbits /\ off + left <= maxbits
    /\ Safe
IndInvUnchecked ==
    /\ Types /\ checked = FALSE
    /\ maxbits % 8 = 0 /\ off + left <= maxbits
    /\ Safe
InitChecked == Init /\ checked = TRUE
=============================================================================
