SPECIFICATION Spec
CONSTANTS
  Little = TRUE
  Level = 1
  Bug = "none"
INVARIANT Refines
INVARIANT StaysInside
CHECK_DEADLOCK FALSE
