SPECIFICATION Spec
CONSTANTS
  Little = TRUE
  Level = 2
  Bug = "none"
INVARIANT EmitPlan
CONSTRAINT OnlyTypes
CHECK_DEADLOCK FALSE
