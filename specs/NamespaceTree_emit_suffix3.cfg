SPECIFICATION Spec
CONSTANTS
  Roots <- RootsR
  Names <- NamesFoldSuffix
  Shorts <- ShortsT
  TwoVer <- TwoVerT
  MaxDepth = 2
  MaxTypes = 3
  StropMode = "suffix"
  GenNsChoices = {TRUE}
  Spellings = {"rel"}
  CanonNs = FALSE
  SupportFromRootParent = FALSE
INVARIANT Emit
CHECK_DEADLOCK FALSE
