SPECIFICATION Spec
CONSTANTS
  Roots <- RootsR
  Names <- NamesFoldSuffix
  Shorts <- ShortsT
  TwoVer <- TwoVerT
  MaxDepth = 2
  MaxTypes = 3
  StropMode = "suffix"
  GenNsChoices = {TRUE}
INVARIANT Emit
CHECK_DEADLOCK FALSE
