SPECIFICATION Spec
CONSTANTS
  MaxTypes = 4
  MaxNested = 3
  Langs = {"c", "cpp", "py", "html"}
  Audits = {FALSE, TRUE}
  OpenSets = {{}}
  SortedWalk = FALSE
  Vary = {"clock", "loc", "cwd"}
INVARIANT Refines
INVARIANT PathsStable
INVARIANT TreeStable
INVARIANT OrderOK
INVARIANT TypeOK
CHECK_DEADLOCK FALSE
