------------------------------ MODULE NnvgRunP ------------------------------
(* System-level run specification of the generator (growth build G1), P-layer.                              *)
(*                                                                                                         *)
(* A RUN is one outermost call of a public entry point (nunavut.cli.main, ArgparseRunner.run,              *)
(* DSDLCodeGenerator.generate_all, SupportGenerator.generate_all, generate_types).  What a run DOES is the  *)
(* sequence of its file-system steps (log), what it REPORTS is the set of paths it returns / prints (rep).  *)
(* The P-layer is a set of predicates over (run arguments, log, rep, ok): the most general system - any      *)
(* step order, any number of chmods, direct or write-to-temporary-and-rename writers are all admitted.       *)
(* Both the bounded state machine NnvgRun (I-layer: exhaustive TLC, I => P) and the trace spec NnvgRunTrace   *)
(* (T-layer: recorded runs of the real code) evaluate the SAME operators on their logs.                      *)
(*                                                                                                         *)
(* A path is a sequence of naturals (interned components of the absolute path); UP = 0 stands for "..".     *)
(* The specification talks about PHYSICAL files: the recorder resolves symbolic links of the directory part *)
(* the way the OS walks the path BEFORE any ".." is collapsed (lnk/../out with lnk -> deep/inner is deep/out),*)
(* for steps, returned paths, printed lists and snapshot differences alike; Norm therefore only ever meets a  *)
(* ".." that no symbolic link precedes (the bounded model, corrupted self-test records) or none at all.       *)
(* A step is [k, p, q, m, ex, om, pe, tmp]:                                                                  *)
(*   k  "mkdir" | "open" | "copy" | "chmod" | "remove" | "rmdir" | "rename" | "spawn"                        *)
(*   p  path (spawn: the file handed to the program); q  rename target (<<>> otherwise)                     *)
(*   m  chmod: the mode; open: 1 = truncating;   ex / om  the path existed / its mode when the step began    *)
(*   pe its parent directory existed;   tmp the path is a temporary file of a post-processor (announced by   *)
(*   tempfile.mkstemp / mkdtemp inside the run: that is how the recorder recognises them)                    *)
EXTENDS Naturals, Sequences, FiniteSets, TLC

UP == 0
NoMode == 4096                  \* "whatever the umask gave": not a permission the caller asked for
UGW == 144                      \* 0o220

RECURSIVE NormAcc(_, _, _)
NormAcc(acc, p, i) ==
    IF i > Len(p) THEN acc
    ELSE IF p[i] = UP THEN NormAcc(IF acc = <<>> THEN <<>> ELSE SubSeq(acc, 1, Len(acc) - 1), p, i + 1)
    ELSE NormAcc(Append(acc, p[i]), p, i + 1)
Norm(p) == NormAcc(<<>>, p, 1)                       \* lexical resolution of ".." (the root is its own parent)

IsPrefix(a, b) == Len(a) <= Len(b) /\ SubSeq(b, 1, Len(a)) = a
Inside(p, o) == LET np == Norm(p) no == Norm(o) IN Len(np) > Len(no) /\ IsPrefix(no, np)      \* strictly below o
AtOrAbove(p, o) == IsPrefix(Norm(p), Norm(o))                                                   \* o itself or an ancestor
Parent(p) == IF p = <<>> THEN <<>> ELSE SubSeq(p, 1, Len(p) - 1)

Passive == {"dryrun", "list_outputs", "list_inputs", "list_configuration"}
Modes == Passive \cup {"generate"}

RECURSIVE OrBits(_, _, _)
OrBits(a, b, i) ==
    IF i > 11 THEN 0
    ELSE (IF ((a \div (2 ^ i)) % 2) = 1 \/ ((b \div (2 ^ i)) % 2) = 1 THEN 2 ^ i ELSE 0) + OrBits(a, b, i + 1)
Or(a, b) == OrBits(a, b, 0)

(* ------------------------------------------------------------------------------------------------------ *)
(* the file system as far as the run touched it: normalised path -> [e exists, m mode, w writes]           *)
(* the first step that touches a path carries what was there before the run (ex, om)                       *)
(* ------------------------------------------------------------------------------------------------------ *)
Put(f, p, v) == [x \in DOMAIN f \cup {p} |-> IF x = p THEN v ELSE f[x]]
Empty == [x \in {} |-> 0]
Cur(fs, np, s) == IF np \in DOMAIN fs THEN fs[np] ELSE [e |-> s.ex, m |-> s.om, w |-> 0]

Writes == {"open", "copy"}
Effective(fs, s) ==
    LET c == Cur(fs, Norm(s.p), s) IN
    IF s.k = "mkdir" THEN ~c.e /\ s.pe
    ELSE IF s.k \in Writes THEN TRUE
    ELSE IF s.k = "chmod" THEN c.e /\ c.m # s.m
    ELSE IF s.k \in {"remove", "rmdir", "rename"} THEN c.e
    ELSE FALSE                                                                     \* spawn: not a step of this process

Apply(fs, s) ==
    LET np == Norm(s.p) c == Cur(fs, np, s) IN
    IF s.k = "mkdir" THEN Put(fs, np, IF ~c.e /\ s.pe THEN [e |-> TRUE, m |-> NoMode, w |-> c.w] ELSE c)
    ELSE IF s.k \in Writes THEN Put(fs, np, [e |-> TRUE, m |-> IF c.e THEN c.m ELSE NoMode, w |-> c.w + 1])
    ELSE IF s.k = "chmod" THEN Put(fs, np, IF c.e THEN [c EXCEPT !.m = s.m] ELSE c)
    ELSE IF s.k \in {"remove", "rmdir"} THEN Put(fs, np, [c EXCEPT !.e = FALSE])
    ELSE IF s.k = "rename" THEN
        (IF c.e THEN Put(Put(fs, np, [c EXCEPT !.e = FALSE]), Norm(s.q), [e |-> TRUE, m |-> c.m, w |-> c.w + 1]) ELSE Put(fs, np, c))
    ELSE (* spawn: an external editor may replace the file (new inode, new mode) *)
        Put(fs, np, IF c.e THEN [c EXCEPT !.m = NoMode] ELSE c)

(* fold: fs, pre (did the path exist when the run began), mut (effective steps), ws (write targets in order) *)
St0 == [fs |-> Empty, pre |-> Empty, mut |-> {}, ws |-> <<>>]
Targets(s) == IF s.k = "rename" THEN {Norm(s.p), Norm(s.q)} ELSE {Norm(s.p)}
StepSt(st, s) ==
    LET np == Norm(s.p)
        pre1 == IF np \in DOMAIN st.pre THEN st.pre ELSE Put(st.pre, np, s.ex)
        pre2 == IF s.k = "rename" /\ Norm(s.q) \notin DOMAIN pre1
                THEN Put(pre1, Norm(s.q), (IF Norm(s.q) \in DOMAIN st.fs THEN st.fs[Norm(s.q)].e ELSE FALSE)) ELSE pre1
        eff == Effective(st.fs, s)
    IN [fs  |-> Apply(st.fs, s),
        pre |-> pre2,
        mut |-> IF eff THEN st.mut \cup {[k |-> s.k, t |-> Targets(s), tmp |-> s.tmp]} ELSE st.mut,
        ws  |-> IF s.tmp THEN st.ws
                ELSE IF s.k \in Writes THEN Append(st.ws, np)
                ELSE IF s.k = "rename" /\ eff THEN Append(st.ws, Norm(s.q)) ELSE st.ws]

RECURSIVE ReplayFrom(_, _, _)
ReplayFrom(log, i, st) == IF i > Len(log) THEN st ELSE ReplayFrom(log, i + 1, StepSt(st, log[i]))
Replay(log) == ReplayFrom(log, 1, St0)

(* ------------------------------------------------------------------------------------------------------ *)
(* the clauses.  r: [mode, hasod, od, ovw, hasfm, fm, dup], log, rep: set of paths, ok: the run succeeded    *)
(* ------------------------------------------------------------------------------------------------------ *)
Written(st, od) == {p \in DOMAIN st.fs : st.fs[p].e /\ st.fs[p].w > 0 /\ Inside(p, od)}

(* sys.passive_no_effect (C08): dry run / listings perform no mutating step at all                           *)
PassiveOK(r, st) == r.mode \in Passive => st.mut = {}

(* sys.inside_outdir (C11): every mutating step of a generating run is below the output directory; creating  *)
(* the output directory itself and its missing ancestors is part of creating it; temporary files of a        *)
(* post-processor are not output                                                                            *)
InsideOK(r, st) ==
    (r.mode = "generate" /\ r.hasod) =>
        \A x \in st.mut : x.tmp \/ \A t \in x.t : Inside(t, r.od) \/ (x.k = "mkdir" /\ AtOrAbove(t, r.od))

(* sys.reported_eq_written (C08/C11): a successful generating run returns exactly the files it wrote         *)
ReportedOK(r, st, rep, ok) ==
    (r.mode = "generate" /\ ok /\ r.hasrep /\ r.hasod) => {Norm(p) : p \in rep} = Written(st, r.od)

(* sys.write_once (C11): no output path is written again after another output was begun (two types sharing   *)
(* one file); names folded onto one path by stropping (dup: the run itself reports a path twice) excepted     *)
WriteOnceOK(r, st) ==
    (r.mode = "generate" /\ ~r.dup) =>
        \A i, k \in DOMAIN st.ws : (i < k /\ st.ws[i] = st.ws[k]) => st.ws[i + 1] = st.ws[i]

(* sys.final_mode (C12): every generated file is left with the requested permission bits                     *)
FinalModeOK(r, st, rep, ok) ==
    (r.mode = "generate" /\ ok /\ r.hasfm /\ r.hasod) =>
        \A p \in Written(st, r.od) \cap {Norm(x) : x \in rep} : st.fs[p].m = r.fm

(* sys.no_overwrite (C12): with overwriting disallowed no file that existed before the run is opened for     *)
(* writing, replaced, removed or has its mode changed                                                        *)
NoOverwriteOK(r, st) ==
    ~r.ovw => \A x \in st.mut : x.k = "mkdir" \/ x.tmp \/ \A t \in x.t : ~st.pre[t]

ClauseOrder == <<"sys.passive_no_effect", "sys.inside_outdir", "sys.no_overwrite", "sys.write_once",
                 "sys.reported_eq_written", "sys.final_mode">>
FailedClauses(r, log, rep, ok) ==
    LET st == Replay(log) IN
       (IF PassiveOK(r, st) THEN {} ELSE {"sys.passive_no_effect"})
    \cup (IF InsideOK(r, st) THEN {} ELSE {"sys.inside_outdir"})
    \cup (IF NoOverwriteOK(r, st) THEN {} ELSE {"sys.no_overwrite"})
    \cup (IF WriteOnceOK(r, st) THEN {} ELSE {"sys.write_once"})
    \cup (IF ReportedOK(r, st, rep, ok) THEN {} ELSE {"sys.reported_eq_written"})
    \cup (IF FinalModeOK(r, st, rep, ok) THEN {} ELSE {"sys.final_mode"})

RECURSIVE BitsOf(_, _, _)
BitsOf(bad, i, acc) == IF i > Len(ClauseOrder) THEN acc
                       ELSE BitsOf(bad, i + 1, acc + (IF ClauseOrder[i] \in bad THEN 2 ^ (i - 1) ELSE 0))
Mask(bad) == BitsOf(bad, 1, 0)
FirstClause(bad) == LET s == SelectSeq(ClauseOrder, LAMBDA c : c \in bad) IN IF s = <<>> THEN "ok" ELSE s[1]

(* ------------------------------------------------------------------------------------------------------ *)
(* I-layer shape of one file's steps (DRIFT only): ChmodWritable? -> write -> Chmod* / Spawn* ; the chmod    *)
(* before the write is the overwrite gate: only on a file that exists, adding u+w g+w; opens truncate          *)
(* ------------------------------------------------------------------------------------------------------ *)
FileSteps(log, np) == SelectSeq(log, LAMBDA s : s.k # "mkdir" /\ ~s.tmp /\ Norm(s.p) = np)
RECURSIVE Shape(_, _, _)
Shape(q, i, pc) ==          \* pc: 0 before the gate, 1 gate done, 2 written
    IF i > Len(q) THEN pc = 2
    ELSE LET s == q[i] IN
         IF pc = 0 /\ s.k = "chmod" THEN s.ex /\ s.m = Or(s.om, UGW) /\ Shape(q, i + 1, 1)
         ELSE IF pc < 2 /\ s.k \in Writes THEN (s.k = "copy" \/ s.m = 1) /\ (s.ex => pc = 1) /\ Shape(q, i + 1, 2)
         ELSE IF pc = 2 /\ s.k \in {"chmod", "spawn"} THEN Shape(q, i + 1, 2)
         ELSE FALSE
ShapeOK(r, log) ==
    (r.mode = "generate" /\ r.hasod) =>
        \A np \in {Norm(log[i].p) : i \in {j \in DOMAIN log : log[j].k \in Writes /\ ~log[j].tmp /\ Inside(log[j].p, r.od)}} :
            Shape(FileSteps(log, np), 1, 0)
(* with a requested mode, SetFileMode is the last thing that happens to a file (after the external program)  *)
ModeLastOK(r, log) ==
    (r.mode = "generate" /\ r.hasfm /\ r.hasod) =>
        \A i \in DOMAIN log : (log[i].k = "spawn" /\ Inside(log[i].p, r.od)) =>
            \E j \in DOMAIN log : j > i /\ log[j].k = "chmod" /\ Norm(log[j].p) = Norm(log[i].p) /\ log[j].m = r.fm
=============================================================================
