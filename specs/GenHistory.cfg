SPECIFICATION Spec
CONSTANTS
  GenFiles = {1, 3, 4}
  OtherFiles = {}
  Modes = {292, 420, 384}
  Variants = {0, 1}
  ChmodGate = TRUE
  CopyGate = TRUE
  Truncates = TRUE
  Privileged = FALSE
  Record = FALSE
  MaxSteps = 0
INVARIANT TypeOK
INVARIANT RunEndOK
INVARIANT NoTornFile
INVARIANT IdleModes
INVARIANT NeverDenied
INVARIANT RefusedOnlyOnConflict
INVARIANT UntouchedOthers
CHECK_DEADLOCK FALSE
