SPECIFICATION Spec
CONSTANTS
  Alphabet = {120, 32, 13, 10}
  MaxLen = 4
  MaxLimit = 2
  HoldCR = FALSE
INVARIANT Refines
INVARIANT ChunkingOK
INVARIANT LimitClause
INVARIANT NonEmptyKept
INVARIANT NoPPIdentity
CHECK_DEADLOCK FALSE
