----------------------------- MODULE GenListing -----------------------------
(* C08 -- listing and dry-run modes tell the build system the truth.                                              *)
(*                                                                                                                *)
(* PART 1 (P-layer).  The property, stated over OBSERVATIONS of invocations of the tool for ONE option            *)
(* combination: what was on disk before/after, what was printed, the exit status, which input files were in an    *)
(* altered state, a digest of everything the run produced.  Nothing about how the tool works.  Any tool whose      *)
(* observations are accepted here satisfies C08; the T-layer (GenListingTrace) feeds recorded executions of the    *)
(* real CLI through exactly these operators, and they alone decide VIOLATION.                                      *)
(*                                                                                                                *)
(* PART 2 (I-layer).  nunavut.cli.runners.ArgparseRunner step by step: argument check, set-up, the dispatch in     *)
(* run(), and per mode the calls it makes WITH THE ARGUMENTS IT FORWARDS (is_dryrun / omit_serialization_support),  *)
(* _should_generate_support, SupportGenerator.get_templates/generate_all, DSDLCodeGenerator.generate_all with the  *)
(* template look-up that can fail for namespaces, the is_dryrun guard in front of every write.  TLC checks          *)
(* I => P (invariant Refines) over the full option product x all interleavings of the four modes x one perturbed    *)
(* input class; three switches select the behaviour of the code as found (FALSE) or repaired (TRUE):               *)
(*   FwdOmitToList  D1   --generate-support only --omit-serialization-support --list-outputs names the support file *)
(*   ListDeps       D12  --list-inputs does not name the --lookup-dir definitions the generated types depend upon    *)
(*   ListUserSup    D15  --list-inputs names the built-in support template although a --support-templates file of   *)
(*                       the same name is the one rendered (and does not name that file nor what it includes)        *)
(* With a switch FALSE the corresponding refinement invariant must be REFUTED (negative controls in c08.py).        *)
EXTENDS Naturals, Sequences, FiniteSets, TLC, Json

(* =============================================== PART 1: P-layer =============================================== *)
(* An observation `ev` is a record                                                                                *)
(*   m       "lo" (--list-outputs) | "li" (--list-inputs) | "dry" (--dry-run) | "run" (real generation)           *)
(*   ok      exit status 0                                                                                        *)
(*   pre,post  disk snapshots: sets of <<path, attributes, kind, zone>>; kind 1 = regular file, zone ZOUT = below   *)
(*           the output directory.  `attributes` stands for (size, mtime_ns, mode, sha256 / link target).           *)
(*   listed  the set of paths printed (lo: outputs, li: inputs), normalised to the ids used in the snapshots       *)
(*   ver     the set of input paths whose content differs from the original at the time of the invocation          *)
(*   dig     "run" only: digest of (relative path, bytes) of everything below the output directory afterwards      *)
ZIN == 0
ZOUT == 1
Passive == {"lo", "li", "dry"}

SnapPaths(s) == {e[1] : e \in s}
SnapFiles(s) == {e[1] : e \in {x \in s : x[3] = 1}}
SnapOutFiles(s) == {e[1] : e \in {x \in s : x[3] = 1 /\ x[4] = ZOUT}}
IntoEmpty(ev) == SnapOutFiles(ev.pre) = {}                  \* "a real run ... in an empty directory"
Created(ev) == SnapFiles(ev.post) \ SnapPaths(ev.pre)       \* every regular file that was not there before
SymDiff(v, w) == (v \ w) \cup (w \ v)

(* What has to be remembered of a history of observations (a sufficient statistic for the three clauses).         *)
PInit == [los |-> {}, crs |-> {}, lis |-> {}, eff |-> {}, runs |-> <<>>, dom |-> TRUE]

PStep(ps, ev) ==
    [los  |-> IF ev.m = "lo" THEN ps.los \cup {<<ev.ver, ev.listed>>} ELSE ps.los,
     crs  |-> IF ev.m = "run" /\ ev.ok /\ IntoEmpty(ev) THEN ps.crs \cup {<<ev.ver, Created(ev)>>} ELSE ps.crs,
     lis  |-> IF ev.m = "li" THEN ps.lis \cup {<<ev.ver, ev.listed>>} ELSE ps.lis,
     eff  |-> IF ev.m \in Passive /\ ev.post # ev.pre THEN ps.eff \cup {ev.m} ELSE ps.eff,
     runs |-> IF ev.m = "run" /\ ev.ok THEN Append(ps.runs, <<ev.ver, ev.dig>>) ELSE ps.runs,
     dom  |-> ps.dom /\ (ev.m = "run" => ev.ok)]

(* list.outputs_eq: what --list-outputs printed is exactly the set of files a real run over the same inputs       *)
(* created in an empty output directory -- whenever the list was asked for (before or after, empty or populated). *)
OutputsEq(ps) == \A l \in ps.los, c \in ps.crs : l[1] = c[1] => l[2] = c[2]

(* list.passive_no_effect: the three passive modes leave every snapshot entry as it was.                          *)
PassiveNoEffect(ps) == ps.eff = {}

(* list.inputs_cover.  "Content influences the generated output" is an observable relation between runs: two      *)
(* input states v, w whose outputs differ.  To keep irreproducible output (C07's subject: clocks, ...) from        *)
(* posing as influence, influence counts as ESTABLISHED only if both states were generated at least twice with      *)
(* equal digests and every run at w lies between two runs at v (a monotone clock cannot explain the difference).   *)
(* Then the list printed in state v must name at least one input in which v and w differ: a build system that       *)
(* watches the listed files must see a reason to regenerate.                                                       *)
Idx(ps, v) == {i \in DOMAIN ps.runs : ps.runs[i][1] = v}
RunVers(ps) == {ps.runs[i][1] : i \in DOMAIN ps.runs}
Stable(ps, v) == Cardinality(Idx(ps, v)) >= 2 /\ \A i, j \in Idx(ps, v) : ps.runs[i][2] = ps.runs[j][2]
Enclosed(ps, v, w) == \A k \in Idx(ps, w) : (\E i \in Idx(ps, v) : i < k) /\ (\E j \in Idx(ps, v) : j > k)
DigOf(ps, v) == ps.runs[CHOOSE i \in Idx(ps, v) : TRUE][2]
Influence(ps, v, w) == v # w /\ Stable(ps, v) /\ Stable(ps, w) /\ Enclosed(ps, v, w) /\ DigOf(ps, v) # DigOf(ps, w)
Uncovered(ps) == {<<l, w>> \in ps.lis \X RunVers(ps) : Influence(ps, l[1], w) /\ SymDiff(l[1], w) \cap l[2] = {}}
InputsCover(ps) == Uncovered(ps) = {}

(* The statement quantifies over "every option combination for which generation succeeds".                        *)
Accept(ps) == ps.dom => (OutputsEq(ps) /\ PassiveNoEffect(ps) /\ InputsCover(ps))

RECURSIVE PFold(_, _, _)
PFold(ps, evs, i) == IF i > Len(evs) THEN ps ELSE PFold(PStep(ps, evs[i]), evs, i + 1)

(* =============================================== PART 2: I-layer =============================================== *)
CONSTANTS Langs,          \* subset of {"c","cpp","py","html"}
          Exts, Stems,    \* subsets of {"def","ovr"}: --output-extension / --namespace-output-stem given or not
          SupTpls,        \* subset of BOOLEAN: --support-templates given
          NsVals,         \* subset of BOOLEAN: --generate-namespace-types given
          Shapes,         \* subset of {"plain","sibling","rsibling"}: textual relation of the directory names (see ShapeOf)
          Wipes,          \* TRUE: the environment may empty the output directory between invocations
          PFiles,         \* input classes that may be perturbed in a behaviour ({} = no perturbation)
          MaxLo, MaxLi, MaxDry, MaxRun,     \* how often each mode may be invoked in one behaviour
          Linear,         \* TRUE: modes in the fixed order lo, li, dry, run (case emission)
          QuickOnly,      \* TRUE: only the combinations of the quick tier (case emission)
          FwdOmitToList,  \* _list_outputs_only forwards omit_serialization_support        (FALSE = code as found, D1)
          ListDeps,       \* _list_inputs_only names the lookup-dir DSDL files depended upon (FALSE = as found, D12)
          ListUserSup,    \* _list_inputs_only names a --support-templates file that shadows a built-in one (D15)
          OwnByPrefix     \* HAZARD (FALSE = code as found): the root namespace's own files are told from dependencies by a
                          \* textual path prefix instead of by identity -- wrong as soon as a lookup directory is <root>+suffix

VARIABLES opts,     \* the option combination (chosen in Init)
          pfile,    \* the input class this behaviour may perturb ("none")
          pert,     \* input classes currently in the altered state
          out,      \* output directory: set of <<file, content>>
          pc, mode, printed, okf, pre,     \* the running invocation
          cnt,      \* invocations so far, per mode
          res,      \* last result per mode (for case emission)
          ps        \* P-layer statistic of the observations so far

vars == <<opts, pfile, pert, out, pc, mode, printed, okf, pre, cnt, res, ps>>

(* ---- language facts (transcribed from lang/properties.yaml and the template packages; bound by c08.py) ----     *)
HasSerSupport(l) == l \in {"c", "cpp"}             \* lang/<l>/support lists a SERIALIZATION_SUPPORT resource
HasTypeSupport(l) == l = "py"                       \* ... a TYPE_SUPPORT resource (generated also with --omit-serialization-support)
StdNsFiles(l) == l \in {"py", "html"}               \* has_standard_namespace_files
BuiltinNsTemplate(l) == l \in {"py", "html"}        \* a Namespace.j2 (or Any.j2) among the built-in templates

GsValues == {"always", "never", "as-needed", "only"}
AllOpts == [lang : Langs, gs : GsValues, omit : BOOLEAN, ns : NsVals, tpl : BOOLEAN, suptpl : SupTpls,
            lookup : BOOLEAN, ext : Exts, stem : Stems, shape : Shapes]

(* Directory-name shapes.  The tool must identify files, not compare path strings:                                  *)
(*   "plain"     lookup roots live elsewhere under unrelated names; the output directory is <scratch>/out             *)
(*   "sibling"   the lookup root is a sibling folder named <root>+suffix, the output directory a sibling <root>_out   *)
(*   "rsibling"  the root is a sibling folder named <lookup>+suffix, the output directory a sibling <root>_out        *)
(* (a lookup root NESTED in the root namespace folder is rejected by PyDSDL: outside the domain.)                     *)
(* The shape is not multiplied into the executed product: every combination gets ONE shape, chosen so that all shapes *)
(* meet all values of generate-support/omit/templates in every language; the thorough tier adds the other shapes     *)
(* where it probes with lookup directories.                                                                          *)
B2N(b) == IF b THEN 1 ELSE 0
GsIdx(g) == CASE g = "always" -> 0 [] g = "never" -> 1 [] g = "as-needed" -> 2 [] g = "only" -> 3
ShapeOf(o) ==
    IF ~o.lookup THEN (IF o.ns THEN "sibling" ELSE "plain")      \* without lookup only the output directory's name differs
    ELSE LET k == (GsIdx(o.gs) + B2N(o.omit) + B2N(o.tpl) + 2 * B2N(o.suptpl) + B2N(o.ext = "ovr")) % 3
         IN IF k = 0 THEN "sibling" ELSE IF k = 1 THEN "rsibling" ELSE "plain"

(* The quick tier executes: the full product for c (without --support-templates); for the other languages the     *)
(* product with extension and stem overridden together; and --support-templates against generate-support x omit.  *)
InQuick(o) ==
  /\ o.shape = ShapeOf(o)
  /\
    \/ o.lang = "c" /\ ~o.suptpl
    \/ o.lang # "c" /\ ~o.suptpl /\ o.ext = o.stem /\ (o.ext = "ovr") = (o.tpl = o.lookup)
    \/ o.suptpl /\ o.ext = "def" /\ o.stem = "def" /\ o.lookup /\ o.ns = o.tpl

(* Influence probing (metamorphic runs) in the quick tier / the thorough tier.                                      *)
ProbeQuick(o) ==
    /\ InQuick(o) /\ o.lookup /\ o.ns = o.tpl
    /\ o.lang = "c" => (o.ext = "def" /\ o.stem = "def")
    /\ o.lang # "c" => (o.tpl = o.suptpl /\ o.gs \in {"as-needed", "only"})
ProbeThorough(o) == o.ext = "def" /\ o.stem = "def"
(* which combinations exist in a configuration: emission = one shape each (+ the others where the thorough tier probes *)
(* with lookup directories); exhaustive exploration = every shape where there is a lookup directory to name           *)
Selected(o) ==
    IF Linear THEN (QuickOnly => InQuick(o))
                   /\ (o.shape = ShapeOf(o) \/ (~QuickOnly /\ ProbeThorough(o) /\ o.lookup /\ ~o.ns))
    ELSE o.lookup \/ o.shape = "plain"

(* ---- abstract files.  Outputs are classes of files (all type files / all namespace files / all serialization     *)
(* support files of the fixture), named by what determines their paths.  Inputs are classes as well.              *)
OutFile(k, o) == [k |-> k, e |-> o.ext, s |-> IF k = "ns" THEN o.stem ELSE "-"]
InFile(f) == [k |-> "in", e |-> f, s |-> "-"]
InClasses == {"tplB", "tplU", "supB", "supU", "supUx", "dsdlR", "dsdlD", "dsdlX"}
Exists(o, f) == CASE f = "tplU" -> o.tpl
                  [] f \in {"supU", "supUx"} -> o.suptpl
                  [] f \in {"dsdlD", "dsdlX"} -> o.lookup
                  [] OTHER -> TRUE

(* ---- transcription of the code ---- *)
ArgsRejected(o) == o.omit /\ o.gs = "always"                                       \* _post_process_args
ShouldGenerateSupport(o) ==                                                        \* _should_generate_support
    IF o.gs = "as-needed" THEN ~o.omit ELSE o.gs \in {"always", "only"}
GeneratesTypes(o) == o.gs # "only"
NsEffective(o) == o.ns \/ StdNsFiles(o.lang)                                       \* AbstractGenerator.__init__
TypeTemplateInForce(o) == IF o.tpl THEN "tplU" ELSE "tplB"                         \* FIND_FIRST
SupTemplateInForce(o) == IF o.suptpl THEN "supU" ELSE "supB"                       \* FIND_ALL, file system first
HasTemplateFor(o, kind) == o.tpl \/ kind = "type" \/ BuiltinNsTemplate(o.lang)     \* the fixture's user set has Any.j2
Provider(o) == IF NsEffective(o) THEN {"ns", "type"} ELSE {"type"}                 \* get_all_types / get_all_datatypes
(* SupportGenerator.get_templates(omit_serialization_support) -- resources, always the built-in ones               *)
SupResources(o, omit) == IF (~omit /\ HasSerSupport(o.lang)) \/ HasTypeSupport(o.lang) THEN {"supB"} ELSE {}
(* what the bytes of a generated file depend on (the most sensitive function of those inputs)                      *)
TypeInfluencers(o) == {TypeTemplateInForce(o), "dsdlR"} \cup (IF o.lookup THEN {"dsdlD"} ELSE {})
SupInfluencers(o) == {SupTemplateInForce(o)}
Influencers(o) == (IF GeneratesTypes(o) THEN TypeInfluencers(o) ELSE {})
                  \cup (IF ShouldGenerateSupport(o) /\ SupResources(o, o.omit) # {} THEN SupInfluencers(o) ELSE {})
GenerationFails(o) == GeneratesTypes(o) /\ \E k \in Provider(o) : ~HasTemplateFor(o, k)

Snap == {<<x[1], x[2], 1, ZOUT>> : x \in out}
        \cup {<<InFile(f), IF f \in pert THEN {f} ELSE {}, 1, ZIN>> : f \in {g \in InClasses : Exists(opts, g)}}
Ver == {InFile(f) : f \in pert}
Write(fs, files, content) == {x \in fs : x[1] \notin files} \cup {<<f, content>> : f \in files}
Total == cnt["lo"] + cnt["li"] + cnt["dry"] + cnt["run"]
Max(m) == CASE m = "lo" -> MaxLo [] m = "li" -> MaxLi [] m = "dry" -> MaxDry [] m = "run" -> MaxRun
Sched == <<"lo", "li", "dry", "run">>

Init ==
    /\ opts \in {o \in AllOpts : Selected(o)}
    /\ pfile \in {"none"} \cup {f \in PFiles : Exists(opts, f)}
    /\ pert = {} /\ out = {} /\ pc = "idle" /\ mode = "-" /\ printed = {} /\ okf = TRUE /\ pre = {}
    /\ cnt = [m \in {"lo", "li", "dry", "run"} |-> 0]
    /\ res = [m \in {"lo", "li", "dry", "run"} |-> [ok |-> FALSE, printed |-> {}, done |-> FALSE]]
    /\ ps = PInit

(* ---- the environment: the build system / the harness ---- *)
Toggle ==       \* an input file is edited (or restored); lists are asked for in the original state only
    /\ pc = "idle" /\ pfile # "none"
    /\ pert' = IF pfile \in pert THEN pert \ {pfile} ELSE pert \cup {pfile}
    /\ UNCHANGED <<opts, pfile, out, pc, mode, printed, okf, pre, cnt, res, ps>>

Wipe ==         \* the output directory is emptied
    /\ pc = "idle" /\ out # {} /\ Wipes
    /\ out' = {}
    /\ UNCHANGED <<opts, pfile, pert, pc, mode, printed, okf, pre, cnt, res, ps>>

Start(m) ==     \* nnvg is invoked
    /\ pc = "idle" /\ cnt[m] < Max(m)
    /\ m \in {"lo", "li"} => pert = {}
    /\ Linear => m = Sched[Total + 1]
    /\ mode' = m /\ pc' = "args" /\ printed' = {} /\ okf' = TRUE /\ pre' = Snap
    /\ cnt' = [cnt EXCEPT ![m] = @ + 1]
    /\ UNCHANGED <<opts, pfile, pert, out, res, ps>>

ArgCheck ==     \* _NunavutArgumentParser._post_process_args
    /\ pc = "args"
    /\ IF ArgsRejected(opts) THEN okf' = FALSE /\ pc' = "exit" ELSE okf' = okf /\ pc' = "setup"
    /\ UNCHANGED <<opts, pfile, pert, out, mode, printed, pre, cnt, res, ps>>

Setup ==        \* ArgparseRunner.__init__ (language context, read_namespace unless "only", tree, generators) + run()
    /\ pc = "setup"
    /\ pc' = CASE mode = "lo" -> "lo_types" [] mode = "li" -> "li_tpl" [] OTHER -> "gen_support"
    /\ UNCHANGED <<opts, pfile, pert, out, mode, printed, okf, pre, cnt, res, ps>>

(* DSDLCodeGenerator.generate_all(is_dryrun, omit): look every type's template up, write unless dry.  The root       *)
(* namespace comes first out of get_all_types, so a missing namespace template raises before anything is written.  *)
GenTypesCall(dry, next) ==
    IF ~GeneratesTypes(opts) THEN pc' = next /\ UNCHANGED <<out, printed, okf>>
    ELSE IF GenerationFails(opts) THEN pc' = "exit" /\ okf' = FALSE /\ UNCHANGED <<out, printed>>
    ELSE LET files == {OutFile(k, opts) : k \in Provider(opts)}
         IN /\ out' = IF dry THEN out ELSE Write(out, files, pert \cap TypeInfluencers(opts))
            /\ printed' = IF mode = "lo" THEN printed \cup files ELSE printed
            /\ pc' = next /\ okf' = okf

(* SupportGenerator.generate_all(is_dryrun, omit): one target per resource of get_templates(omit)                   *)
GenSupportCall(dry, omit, next) ==
    IF ~ShouldGenerateSupport(opts) THEN pc' = next /\ UNCHANGED <<out, printed, okf>>
    ELSE LET files == {OutFile("sup", opts) : r \in SupResources(opts, omit)}
         IN /\ out' = IF dry THEN out ELSE Write(out, files, pert \cap SupInfluencers(opts))
            /\ printed' = IF mode = "lo" THEN printed \cup files ELSE printed
            /\ pc' = next /\ okf' = okf

LoTypes ==      \* _list_outputs_only, first half: generate_all(is_dryrun=True)
    /\ pc = "lo_types" /\ GenTypesCall(TRUE, "lo_support")
    /\ UNCHANGED <<opts, pfile, pert, mode, pre, cnt, res, ps>>

LoSupport ==    \* second half: support generate_all(is_dryrun=True) -- omit_serialization_support NOT forwarded as found
    /\ pc = "lo_support" /\ GenSupportCall(TRUE, IF FwdOmitToList THEN opts.omit ELSE FALSE, "exit")
    /\ UNCHANGED <<opts, pfile, pert, mode, pre, cnt, res, ps>>

LiTemplates ==  \* _list_inputs_only: generator.get_templates, then support_generator.get_templates(omit)
    /\ pc = "li_tpl"
    /\ LET t == IF GeneratesTypes(opts) THEN {TypeTemplateInForce(opts)} ELSE {}
           r == IF ShouldGenerateSupport(opts) THEN SupResources(opts, opts.omit) ELSE {}
           s == IF ListUserSup /\ opts.suptpl /\ r # {} THEN r \cup {"supU"} ELSE r
       IN printed' = printed \cup {InFile(f) : f \in t \cup s}
    /\ pc' = "li_dsdl"
    /\ UNCHANGED <<opts, pfile, pert, out, mode, okf, pre, cnt, res, ps>>

LiDsdl ==       \* ... then the source files of get_all_types / get_all_datatypes of the ROOT namespace tree
    /\ pc = "li_dsdl"
    /\ LET own == OwnByPrefix /\ opts.shape = "sibling"     \* the dependencies' paths begin like the root folder's path
           d == IF GeneratesTypes(opts) THEN {"dsdlR"} \cup (IF ListDeps /\ opts.lookup /\ ~own THEN {"dsdlD"} ELSE {}) ELSE {}
       IN printed' = printed \cup {InFile(f) : f \in d}
    /\ pc' = "exit"
    /\ UNCHANGED <<opts, pfile, pert, out, mode, okf, pre, cnt, res, ps>>

GenSupport ==   \* _generate, first half (is_dryrun = args.dry_run, omit forwarded)
    /\ pc = "gen_support" /\ GenSupportCall(mode = "dry", opts.omit, "gen_types")
    /\ UNCHANGED <<opts, pfile, pert, mode, pre, cnt, res, ps>>

GenTypes ==     \* _generate, second half
    /\ pc = "gen_types" /\ GenTypesCall(mode = "dry", "exit")
    /\ UNCHANGED <<opts, pfile, pert, mode, pre, cnt, res, ps>>

Exit ==         \* the process ends: the observation is complete
    /\ pc = "exit"
    /\ LET ev == [m |-> mode, ok |-> okf, pre |-> pre, post |-> Snap, listed |-> printed, ver |-> Ver, dig |-> out]
       IN ps' = PStep(ps, ev)
    /\ res' = [res EXCEPT ![mode] = [ok |-> okf, printed |-> printed, done |-> TRUE]]
    /\ pc' = "idle"
    /\ UNCHANGED <<opts, pfile, pert, out, mode, printed, okf, pre, cnt>>

Next == Toggle \/ Wipe \/ (\E m \in {"lo", "li", "dry", "run"} : Start(m)) \/ ArgCheck \/ Setup
        \/ LoTypes \/ LoSupport \/ LiTemplates \/ LiDsdl \/ GenSupport \/ GenTypes \/ Exit

Spec == Init /\ [][Next]_vars

(* ---- I => P ---- *)
Refines == Accept(ps)
RefinesOutputs == ps.dom => OutputsEq(ps)
RefinesPassive == ps.dom => PassiveNoEffect(ps)
RefinesInputs == ps.dom => InputsCover(ps)

(* sanity of the model itself *)
DomainAsPredicted == (res["run"].done /\ pc = "idle") => (res["run"].ok = (~ArgsRejected(opts) /\ ~GenerationFails(opts)))
InfluenceAsPredicted ==       \* the run's digest reacts to the perturbed class iff the class is an influencer
    \A v, w \in RunVers(ps) : (DigOf(ps, v) # DigOf(ps, w)) => \E f \in Influencers(opts) : InFile(f) \in SymDiff(v, w)
(* vacuity guards: these must be VIOLATED (reachable) *)
NeverInfluence == \A v, w \in RunVers(ps) : ~Influence(ps, v, w)
NeverPopulatedPassive == ~(pc = "exit" /\ mode \in Passive /\ SnapOutFiles(pre) # {})

(* ---- case emission (spec -> code): one record per option combination at the end of the linear schedule ----     *)
Kinds(fs) == {f.k : f \in fs}
Emit ==
    (Linear /\ pc = "idle" /\ Total = 4) =>
        PrintT(ToJson([o |-> opts,
                       rejected |-> ArgsRejected(opts),
                       ok |-> res["run"].ok,
                       created |-> IF ps.crs = {} THEN {} ELSE Kinds((CHOOSE c \in ps.crs : TRUE)[2]),
                       lo_ok |-> res["lo"].ok,
                       lo |-> Kinds(res["lo"].printed),
                       li |-> {f.e : f \in res["li"].printed},
                       infl |-> Influencers(opts),
                       probe_q |-> ProbeQuick(opts),
                       probe_t |-> ProbeThorough(opts),
                       accept |-> Accept(ps)]))
=============================================================================
