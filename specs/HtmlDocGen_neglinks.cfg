SPECIFICATION Spec
CONSTANTS
  EscMode = "markupsafe"
  LinkStyle = "code"
  MaxTok = 3
  Part = "links"
  ListStyle = "versioned"
  Chains = FALSE
INVARIANT LinksRefineP
CHECK_DEADLOCK FALSE
