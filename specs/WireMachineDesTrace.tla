------------------------ MODULE WireMachineDesTrace ------------------------
(* T-layer for the C deserializer machine (C02 I-layer, C04 pointer clause).  One record = one call of a         *)
(* generated C deserialization routine recorded by the spy driver (vf/harness_c.py, -DVF_SPY):                  *)
(*   id, t (descriptor), bytes (the input: its length is the declared size), err, consumed, val,                *)
(*   calls <<[at, size]>>  : for every NESTED routine call, in call order, the pointer it was handed (bytes       *)
(*                           from the start of the top-level buffer) and the size it was handed,                *)
(*   rets  <<[rc, out]>>   : for every nested call, in return order, its result and the size it handed back      *)
(*                           (-1 with an error).                                                                *)
(* P clause (C04, decides): des.ptr_inside - every pointer handed to a nested routine lies inside                *)
(*   [buffer, buffer + size] of the top-level call.                                                             *)
(* I clauses (drift): mach.calls / mach.rets / mach.result - the run of WireMachineDes!StepF on the same type      *)
(*   and input makes exactly the recorded calls and returns and ends with the recorded result.                  *)
EXTENDS WireMachineDes, IOUtils

Trace == ndJsonDeserialize(IOEnv.TRACE_FILE)
VARIABLE l

Verdict(r) ==
    IF \E i \in 1..Len(r.calls) : r.calls[i].at > Len(r.bytes) \/ r.calls[i].at < 0 THEN "des.ptr_inside"
    ELSE LET mm == RunToEnd(InitM(r.t, r.bytes))
         IN IF mm.calls # r.calls THEN "mach.calls"
            ELSE IF mm.rets # r.rets THEN "mach.rets"
            ELSE IF mm.rc # r.err THEN "mach.result"
            ELSE IF r.err = "none" /\ (mm.consumed # r.consumed \/ ~ValEq(r.t, mm.val, r.val)) THEN "mach.result"
            ELSE IF ~mm.asserts THEN "mach.asserts"
            ELSE "ok"

TInit == l = 1 /\ ti = 0 /\ m = Idle
TNext == /\ l <= Len(Trace)
         /\ LET r == Trace[l]
                v == Verdict(r)
            IN IF v = "ok" THEN TRUE ELSE PrintT(<<"REJECT", r.id, v>>)
         /\ l' = l + 1
         /\ UNCHANGED <<ti, m>>
TSpec == TInit /\ [][TNext]_<<l, ti, m>>
Accepted == TLCGet("stats").diameter - 1 = Len(Trace)
=============================================================================
