SPECIFICATION Spec
CHECK_DEADLOCK FALSE
CONSTANTS
  Bug = "rewrite"
  Writer = "direct"
  Size = "q"
INVARIANT P_write_once
