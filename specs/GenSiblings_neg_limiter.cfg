SPECIFICATION Spec
CONSTANTS
  NTypes = 3
  MaxRuns = 2
  Shapes <- ShapesLimiter
  Limits = {1, 2, 3}
  DefIds = {1}
  OmitVals = {FALSE}
  Modes = {"fresh", "lctx", "gen"}
  ResetLimiter = FALSE
  IdentityDepKey = TRUE
  VolatileUniq = TRUE
  FreshModule = TRUE
  Words = {1}
  FullStropKey = TRUE
  Docs = {0}
  PureFilters = TRUE
VIEW View
INVARIANT EmitBad
CHECK_DEADLOCK FALSE
