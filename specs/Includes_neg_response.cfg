SPECIFICATION Spec
CHECK_DEADLOCK FALSE
CONSTANTS
  N = 3
  NRoots = 2
  NestedRoots = {1}
  RefStyle = "file"
  SupportRef = "unless_omitted"
  SupportGen = "unless_omitted"
  ScanResponse = FALSE
  ScanArrays = TRUE
  EmitWorlds = FALSE
INVARIANT TypeOK
INVARIANT Closure
INVARIANT SelfSufficient
