SPECIFICATION Spec
CONSTANTS
  Level = 1
  GuardEmpty = FALSE
INVARIANT Refines
INVARIANT ReadsInside
INVARIANT PtrInside
CHECK_DEADLOCK FALSE
