SPECIFICATION Spec
CONSTANTS
  Profile = "sem"
  MaxW = 5
  MaxWc = 0
  MaxDepth = 0
  Tights = {FALSE}
  EmitOpen = FALSE
INVARIANT ImplRefines
INVARIANT StrictRefines
INVARIANT PRefutesBlankPrefix
INVARIANT PRefutesIdentity
INVARIANT EmptyPrefixLoose
INVARIANT PrefixIsWs
INVARIANT IndentZero
INVARIANT IndentFirst
INVARIANT IndentBlankAll
CHECK_DEADLOCK FALSE
