SPECIFICATION Spec
CONSTANTS
  CopyMode = "rebuild"
  Mode = "fold"
  Universe <- UGroup4
  Sharings = {"none", "doc"}
  AnyOrder = FALSE
  NB = 1
  MaxOps = 0
  Group = "update"
  Record = FALSE
  Slice = 0
  NSlices = 1
INVARIANT Refines
INVARIANT DocsUnmodified
INVARIANT CtxStable
INVARIANT NoSharing
INVARIANT OracleClauses
CHECK_DEADLOCK FALSE
