SPECIFICATION Spec
CONSTANTS
  Profile = "lex2"
  MaxW = 2
  MaxWc = 0
  MaxDepth = 1
  Tights = {FALSE}
  EmitOpen = FALSE
INVARIANT WellNested
INVARIANT Emit
CHECK_DEADLOCK FALSE
