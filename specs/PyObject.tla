------------------------------ MODULE PyObject ------------------------------
(* C18 - generated Python data objects.  P-layer (the data-object contract) + I-layer (the generated        *)
(* constructor / property setters of lang/py/templates/base.j2, step by step) over a bounded object:        *)
(* a composite with Len(Kinds) fields (structure) or options (union).                                       *)
(*                                                                                                        *)
(* The object is abstract: obj : Field -> Label \cup {"None"}  (or "noobj" when no object exists).          *)
(* A label names WHICH candidate value a field holds ("default", "min", "max", "full", ...), "conv" = some   *)
(* valid value the implementation converted a foreign input to, "loose" = something of the right container  *)
(* shape whose content the property text leaves open (see PClass "amb").                                    *)
(*                                                                                                        *)
(* Candidate classes (the quantifier of C18: in range, boundary, out of range, wrong length, wrong type):   *)
(*   scalars   min max | below above (min-1, max+1; floats: the next double beyond +-max, finite)            *)
(*             inf nan (floats: always valid) | wtype (an object of a foreign type) | none (None)             *)
(*   composite ok | wclass (instance of another generated class) | wtype | none                               *)
(*   arrays    ok/empty/full (list -> slow path) ..._nd (ndarray of the storage dtype -> fast binding path)   *)
(*             full_b (bytes -> zero-copy path, byte-like element types only)                                 *)
(*             short long long_nd (wrong fixed length / beyond capacity)                                      *)
(*             long_b (bytes/str beyond capacity)  long_digits (the same, all ASCII digits)                    *)
(*             full_s / long_s (utf8 fields: a str with non-ASCII characters whose UTF-8 BYTE count is within /    *)
(*             beyond the capacity while its CHARACTER count is within it)                                        *)
(*             eover (an element beyond the DECLARED range that fits the storage dtype: 8 in uint3[])          *)
(*             ehuge (an element beyond the storage dtype: 256 or -1 in uint8[])                               *)
(*             ewtype (element of a foreign type) ewclass (composite element of another class)                 *)
(* P classifies a candidate for a field kind:                                                               *)
(*   valid  -> must be stored and read back                                                                 *)
(*   range  -> ValueError and the object is unchanged              ("raises ValueError rather than storing") *)
(*   wtype  -> either rejected (any exception, object unchanged) or converted to a VALID value               *)
(*   amb    -> the statement speaks of "a value outside the field's range" and of array length only: whether *)
(*             array ELEMENTS (and saturating bool()) are covered is open; both readings imply: rejected      *)
(*             with the object unchanged, or a container of the right shape is stored (foreign objects        *)
(*             offered as an array fall here too: numpy wraps some of them into one-element arrays)           *)
(* After every action of a union exactly one option is not None; an exception never changes the object.      *)
EXTENDS Naturals, Sequences, FiniteSets, TLC, Json

CONSTANTS KSel,         \* which vector of field kinds (cfg files cannot hold tuples)
          IsUnion,      \* the composite is a union
          MaxHist,      \* actions per history (the first one is the constructor)
          CtorSpecial,  \* how many constructor arguments may be other than absent / the first valid candidate
          MidReduced,   \* TRUE: actions strictly between the first and the last use one candidate per class
          ParseDigits,  \* I-layer: numpy parses an all-digit bytes/str as ONE integer (as the original code lets it)
          ClearFirst    \* I-layer: a union setter clears the other options BEFORE validating (negative control)

VARIABLES obj, hist, pc, cur, idx, cnt, tmp, pre, outc
vars == <<obj, hist, pc, cur, idx, cnt, tmp, pre, outc>>

(* field kinds: "int" "float" "bool" "comp" (nested composite) "farr" "varr" (arrays of primitives) "barr"      *)
(* (byte-like variable array: uint<=8 / utf8 / byte elements) "carr" (array of composites)                    *)
Kinds == CASE KSel = 1 -> <<"int", "barr", "comp">>
           [] KSel = 2 -> <<"float", "farr", "bool">>
           [] KSel = 3 -> <<"varr", "carr", "int">>
NF == Len(Kinds)
F == 1..NF
NoObj == [g \in F |-> "noobj"]          \* "no object exists" (a function, so that it compares with objects)

Cands(k) ==
    CASE k = "int"   -> {"min", "max", "below", "above", "wtype", "none"}
      [] k = "float" -> {"min", "max", "inf", "nan", "below", "above", "wtype", "none"}
      [] k = "bool"  -> {"min", "max", "above", "wtype", "none"}
      [] k = "comp"  -> {"ok", "wclass", "wtype", "none"}
      [] k = "farr"  -> {"ok", "ok_nd", "short", "long", "long_nd", "eover", "ehuge", "ewtype", "wtype", "none"}
      [] k = "varr"  -> {"empty", "full", "full_nd", "long", "long_nd", "eover", "ehuge", "ewtype", "wtype", "none"}
      [] k = "barr"  -> {"empty", "full", "full_b", "full_s", "long", "long_b", "long_s", "long_digits", "eover", "ehuge", "wtype", "none"}
      [] k = "carr"  -> {"ok", "long", "ewclass", "wtype", "none"}

AllCands == UNION {Cands(Kinds[g]) : g \in F}

FirstValid(k) == IF k \in {"int", "float", "bool"} THEN "max" ELSE IF k \in {"comp", "farr", "carr"} THEN "ok" ELSE "full"

(* ------------------------------------------------------------------------------------------------------ *)
(* P-layer                                                                                                  *)
ValidCands  == {"min", "max", "inf", "nan", "ok", "ok_nd", "empty", "full", "full_nd", "full_b", "full_s"}
RangeCands  == {"below", "above", "short", "long", "long_nd", "long_b", "long_s", "long_digits"}
AmbCands    == {"eover", "ehuge", "ewclass"}

IsArr(k) == k \in {"farr", "varr", "barr", "carr"}

PClass(k, c) ==
    IF c \in ValidCands THEN "valid"
    ELSE IF c \in RangeCands THEN (IF k = "bool" THEN "amb" ELSE "range")
    ELSE IF c \in AmbCands THEN "amb"
    ELSE IF IsArr(k) THEN "amb"                    \* a foreign object offered as an array: numpy may wrap it into elements
    ELSE "wtype"                                   \* wtype wclass none on scalars and composites

(* outcomes: "stored" (no exception), "verr" (ValueError), "rej" (another exception)                         *)
PAllowed(cls) == IF cls = "valid" THEN {"stored"} ELSE IF cls = "range" THEN {"verr"} ELSE {"stored", "verr", "rej"}
PLabel(k, c) == LET cls == PClass(k, c) IN IF cls = "valid" THEN c ELSE IF cls = "wtype" THEN "conv" ELSE "loose"

Present(kw) == {g \in F : kw[g] \notin {"absent", "none"}}         \* None means "not given" to the constructor

PAssignAllowed(f, c) == PAllowed(PClass(Kinds[f], c))
PAssignPost(o, f, c, out) ==
    IF out # "stored" THEN o
    ELSE [g \in F |-> IF g = f THEN PLabel(Kinds[f], c) ELSE IF IsUnion THEN "None" ELSE o[g]]

ExcOutcomes(kw) == UNION {PAllowed(PClass(Kinds[g], kw[g])) \ {"stored"} : g \in Present(kw)}
PCtorAllowed(kw) ==
    IF IsUnion /\ Cardinality(Present(kw)) > 1 THEN {"verr"} \cup ExcOutcomes(kw)
    ELSE ExcOutcomes(kw) \cup (IF \A g \in Present(kw) : "stored" \in PAllowed(PClass(Kinds[g], kw[g])) THEN {"stored"} ELSE {})
PCtorPost(kw, out) ==
    IF out # "stored" THEN NoObj
    ELSE IF IsUnion THEN
        (IF Present(kw) = {} THEN [g \in F |-> IF g = 1 THEN "default" ELSE "None"]
         ELSE [g \in F |-> IF g \in Present(kw) THEN PLabel(Kinds[g], kw[g]) ELSE "None"])
    ELSE [g \in F |-> IF g \in Present(kw) THEN PLabel(Kinds[g], kw[g]) ELSE "default"]

UnionOne(o) == IsUnion => Cardinality({g \in F : o[g] # "None"}) = 1
NoHole(o) == ~IsUnion => \A g \in F : o[g] \notin {"None", "unset"}

(* ------------------------------------------------------------------------------------------------------ *)
(* I-layer: base.j2                                                                                         *)
(* What the property setter does with candidate c BEFORE it stores anything: the set of possible results      *)
(* ("stored" = validation passed).  numpy's treatment of foreign objects depends on the element dtype         *)
(* (np.array(None, float32) is [nan], np.array(object(), bool) is [True], integers raise TypeError), which     *)
(* the abstract kinds do not distinguish: those cases are nondeterministic here.                              *)
ISet(k, c) ==
    IF k \in {"int", "float"} THEN            \* x = int(x) / float(x); range test
        (IF c \in ValidCands THEN {"stored"} ELSE IF c \in {"below", "above"} THEN {"verr"} ELSE {"rej"})
    ELSE IF k = "bool" THEN {"stored"}       \* self._f = bool(x)
    ELSE IF k = "comp" THEN (IF c = "ok" THEN {"stored"} ELSE {"verr"})     \* isinstance test
    ELSE                                      \* assign_array
        IF c \in {"full_b", "full_s"} THEN {"stored"}                       \* (str is encoded first) bytes and len OK: frombuffer
        ELSE IF c \in {"ok_nd", "full_nd"} THEN {"stored"}                  \* ndarray, dtype, ndim, size OK: bind
        ELSE                                                                \* np.array(x, dtype).flatten(), then size test
            IF c \in {"ok", "empty", "full", "eover", "ewclass"} THEN {"stored"}
            ELSE IF c \in {"short", "long", "long_nd"} THEN {"verr"}
            ELSE IF c \in {"long_b", "long_s"} THEN {"verr"}                \* bytes beyond capacity (counted AFTER encoding a str)
            ELSE IF c = "long_digits" THEN (IF ParseDigits THEN {"stored"} ELSE {"verr"})
            ELSE IF c = "ehuge" THEN {"rej"}                                \* OverflowError (NumPy 2)
            ELSE {"stored", "verr", "rej"}                                  \* ewtype wtype none

KwOK(kw) == /\ \A g \in F : kw[g] \in Cands(Kinds[g]) \cup {"absent"}
            /\ Cardinality({g \in F : kw[g] \notin {"absent", FirstValid(Kinds[g])}}) <= CtorSpecial
KwSet == {kw \in [F -> AllCands \cup {"absent"}] : KwOK(kw)}

(* one representative per class for the middle of a history                                                  *)
MidCands(k) ==
    LET cs == Cands(k) IN
    {FirstValid(k), "wtype"} \cup (cs \cap {"above", "long", "wclass", "eover", "ewclass", "long_digits", "long_s", "min", "empty"})

Idle == [op |-> "idle"]

Init == /\ obj = NoObj /\ hist = <<>> /\ pc = "idle" /\ cur = Idle /\ idx = 0 /\ cnt = 0 /\ tmp = NoObj
        /\ pre = NoObj /\ outc = "none"

(* --- constructor: __init__ --- *)
CallCtor(kw) ==
    /\ pc = "idle" /\ hist = <<>>
    /\ cur' = [op |-> "ctor", kw |-> kw]
    /\ pre' = obj
    /\ tmp' = [g \in F |-> IF IsUnion THEN "None" ELSE "unset"]
    /\ idx' = 1 /\ cnt' = 0 /\ pc' = "ctor"
    /\ UNCHANGED <<obj, hist, outc>>

(* one field of the constructor's body: `self.f = f if f is not None else <zero>` (structure),               *)
(* `if f is not None: _init_cnt_ += 1; self.f = f` (union; the setter clears the other options)                *)
CtorField ==
    /\ pc = "ctor" /\ idx <= NF
    /\ LET c == cur.kw[idx] IN
       IF idx \notin Present(cur.kw) THEN
            /\ tmp' = IF IsUnion THEN tmp ELSE [tmp EXCEPT ![idx] = "default"]
            /\ idx' = idx + 1
            /\ UNCHANGED <<obj, pc, outc, cnt>>
       ELSE \E o \in ISet(Kinds[idx], c) :
            IF o = "stored" THEN
                /\ tmp' = IF IsUnion THEN [g \in F |-> IF g = idx THEN PLabel(Kinds[idx], c) ELSE "None"]
                          ELSE [tmp EXCEPT ![idx] = PLabel(Kinds[idx], c)]
                /\ cnt' = cnt + 1 /\ idx' = idx + 1
                /\ UNCHANGED <<obj, pc, outc>>
            ELSE
                /\ outc' = o /\ obj' = NoObj /\ pc' = "ret"           \* exception leaves __init__: no object
                /\ UNCHANGED <<tmp, cnt, idx>>
    /\ UNCHANGED <<hist, cur, pre>>

CtorFinish ==
    /\ pc = "ctor" /\ idx > NF
    /\ IF ~IsUnion THEN obj' = tmp /\ outc' = "stored"
       ELSE IF cnt = 0 THEN obj' = [g \in F |-> IF g = 1 THEN "default" ELSE "None"] /\ outc' = "stored"
       ELSE IF cnt = 1 THEN obj' = tmp /\ outc' = "stored"
       ELSE obj' = NoObj /\ outc' = "verr"                             \* Union cannot hold values of more than one field
    /\ pc' = "ret"
    /\ UNCHANGED <<hist, cur, idx, cnt, tmp, pre>>

(* --- property setter on the live object (partial effects would be visible after an exception) --- *)
StepCands(k) == IF MidReduced /\ Len(hist) + 1 < MaxHist THEN MidCands(k) ELSE Cands(k)

CallAssign(f, c) ==
    /\ pc = "idle" /\ obj # NoObj /\ Len(hist) < MaxHist
    /\ cur' = [op |-> "assign", f |-> f, c |-> c]
    /\ pre' = obj
    /\ pc' = IF IsUnion /\ ClearFirst THEN "clear0" ELSE "validate"
    /\ UNCHANGED <<obj, hist, idx, cnt, tmp, outc>>

ClearBefore ==      \* only in the ClearFirst variant
    /\ pc = "clear0"
    /\ obj' = [g \in F |-> IF g = cur.f THEN obj[g] ELSE "None"]
    /\ pc' = "validate"
    /\ UNCHANGED <<hist, cur, idx, cnt, tmp, pre, outc>>

Validate ==
    /\ pc = "validate"
    /\ \E o \in ISet(Kinds[cur.f], cur.c) :
         IF o = "stored" THEN pc' = "store" /\ UNCHANGED outc
         ELSE pc' = "ret" /\ outc' = o                                   \* raise: nothing was written yet
    /\ UNCHANGED <<obj, hist, cur, idx, cnt, tmp, pre>>

Store ==            \* self._f = x
    /\ pc = "store"
    /\ obj' = [obj EXCEPT ![cur.f] = PLabel(Kinds[cur.f], cur.c)]
    /\ outc' = "stored"
    /\ pc' = IF IsUnion /\ ~ClearFirst THEN "clear" ELSE "ret"
    /\ UNCHANGED <<hist, cur, idx, cnt, tmp, pre>>

ClearOthers ==      \* self._z = None for every other option z
    /\ pc = "clear"
    /\ obj' = [g \in F |-> IF g = cur.f THEN obj[g] ELSE "None"]
    /\ pc' = "ret"
    /\ UNCHANGED <<hist, cur, idx, cnt, tmp, pre, outc>>

Allowed(a) == IF a.op = "ctor" THEN PCtorAllowed(a.kw) ELSE PAssignAllowed(a.f, a.c)
Post(p, a, o) == IF a.op = "ctor" THEN PCtorPost(a.kw, o) ELSE PAssignPost(p, a.f, a.c, o)

Return ==
    /\ pc = "ret"
    /\ hist' = Append(hist, [a |-> cur, out |-> outc, pa |-> Allowed(cur), pre |-> pre, post |-> obj])
    /\ pc' = "idle" /\ cur' = Idle
    /\ UNCHANGED <<obj, idx, cnt, tmp, pre, outc>>

Next ==
    \/ (pc = "idle" /\ hist = <<>>) /\ \E kw \in KwSet : CallCtor(kw)       \* (guards first: KwSet is large)
    \/ CtorField \/ CtorFinish
    \/ (pc = "idle" /\ obj # NoObj) /\ \E f \in F : \E c \in StepCands(Kinds[f]) : CallAssign(f, c)
    \/ ClearBefore \/ Validate \/ Store \/ ClearOthers \/ Return

Spec == Init /\ [][Next]_vars

(* ------------------------------------------------------------------------------------------------------ *)
(* I => P                                                                                                   *)
Last == hist[Len(hist)]
Refines ==          \* the outcome is one P allows and the object is the one P prescribes for that outcome
    (pc = "idle" /\ hist # <<>>) =>
        /\ Last.out \in Last.pa
        /\ Last.post = Post(Last.pre, Last.a, Last.out)
StateKept ==        \* an exception never changes the object (checked at the moment the exception is about to leave)
    (pc = "ret" /\ outc # "stored" /\ cur.op = "assign") => obj = pre
UnionAlwaysOne == (pc = "idle" /\ obj # NoObj) => UnionOne(obj) /\ NoHole(obj)
NeverOutOfRange ==  \* no field ever holds a candidate the property calls out of range
    (pc = "idle" /\ obj # NoObj) => \A g \in F : obj[g] \notin RangeCands

(* ------------------------------------------------------------------------------------------------------ *)
(* case emission (spec -> code): one record per complete history                                             *)
Done == pc = "idle" /\ hist # <<>> /\ (Len(hist) = MaxHist \/ obj = NoObj)
ActJ(h) == IF h.a.op = "ctor" THEN [op |-> "ctor", kw |-> h.a.kw, out |-> h.out, pa |-> h.pa, post |-> h.post]
           ELSE [op |-> "assign", f |-> h.a.f, c |-> h.a.c, out |-> h.out, pa |-> h.pa, post |-> h.post]
Emit == Done => PrintT(ToJson([steps |-> [i \in 1..Len(hist) |-> ActJ(hist[i])]]))
=============================================================================
