---------------------------- MODULE IncludesNames ----------------------------
(* C06 - the NAME universe (purely enumerative model).  One case = one small namespace set in which ONE DSDL       *)
(* identifier position carries a name of one lexical class, inside a host type of one kind:                       *)
(*     position  x  class of name  x  index of the word within its class  x  kind of the host type                *)
(*     (x type of the attribute when the position is a field)                                                       *)
(* The words of a class live in the driver (vf/props/c06.py: keywords of C, keywords only C++ has, Python          *)
(* keywords, Python builtins, reserved patterns of the C/C++ library, a pair of names that differ only by case),   *)
(* filtered by what the front end accepts; w ranges over 1..MaxWords and the driver drops indices beyond a class. *)
(* Combinations that cannot exist in DSDL are removed here (Valid).  TLC is the enumerator: every case of the     *)
(* product is emitted exactly once (invariant Emit), the driver materialises it, runs the real generator for      *)
(* every target configuration and omit setting, and hands every produced file alone to the compilers.            *)
EXTENDS Naturals, Sequences, TLC, Json

CONSTANTS MaxWords

Positions == {"ns", "nested_ns", "type", "field", "const"}
Classes == {"plain", "c_kw", "cpp_kw", "py_kw", "py_builtin", "pattern", "case"}
Kinds == {"struct", "union", "dunion", "service", "usvc", "empty", "deprecated", "maxwidth", "constants"}
(* the type of the attribute that carries the name when the position is "field": the templates reach a field through *)
(* different code paths (plain member, bit-packed boolean array member, array struct, wide integer)                  *)
FieldTypes == {"u8", "i64", "boolfix", "boolvar", "f32arr"}

VARIABLES pos, cls, kind, w, ft
vars == <<pos, cls, kind, w, ft>>

(* DSDL facts: an empty type has no attributes that could carry a field name (constants are allowed);            *)
(* the extreme-constant host is a structure whose constants are fixed, it hosts names in every position too.      *)
Valid(p, c, k, f) ==
    /\ (k = "empty" => p # "field")
    /\ (c = "case" => p \in {"type", "field", "const", "nested_ns"})
    /\ (p = "field" <=> f # "na")

Init ==
    /\ pos \in Positions /\ cls \in Classes /\ kind \in Kinds /\ w \in 1..MaxWords /\ ft \in FieldTypes \cup {"na"}
    /\ Valid(pos, cls, kind, ft)

Next == UNCHANGED vars
Spec == Init /\ [][Next]_vars

Emit == PrintT(ToJson([pos |-> pos, cls |-> cls, kind |-> kind, w |-> w, ft |-> ft]))
=============================================================================
