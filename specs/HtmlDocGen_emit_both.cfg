SPECIFICATION Spec
CONSTANTS
  EscMode = "markupsafe"
  LinkStyle = "fixed"
  MaxTok = 3
  Part = "links"
  ListStyle = "versioned"
  Chains = TRUE
  Configs = {"both"}
  SampleConfigs = {}
INVARIANT Emit
CHECK_DEADLOCK FALSE
