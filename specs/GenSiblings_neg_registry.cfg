SPECIFICATION Spec
CONSTANTS
  NTypes = 3
  MaxRuns = 2
  Shapes <- ShapesPlain
  Limits = {0}
  DefIds = {1, 2}
  OmitVals = {FALSE}
  Modes = {"fresh", "lctx", "gen"}
  ResetLimiter = TRUE
  IdentityDepKey = TRUE
  VolatileUniq = TRUE
  FreshModule = TRUE
  Words = {2}
  FullStropKey = TRUE
  Docs = {0}
  PureFilters = TRUE
  Confs = {1}
  PureDerivedNames = FALSE
VIEW View
INVARIANT EmitBad
CHECK_DEADLOCK FALSE
