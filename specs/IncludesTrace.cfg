SPECIFICATION TSpec
CHECK_DEADLOCK FALSE
POSTCONDITION Accepted
CONSTANTS
  N = 1
  NRoots = 1
  NestedRoots = {}
  RefStyle = "file"
  SupportRef = "unless_omitted"
  SupportGen = "unless_omitted"
  ScanResponse = TRUE
  ScanArrays = TRUE
  EmitWorlds = FALSE
