\* T-layer: TRACE_FILE=<ndjson> in the environment
SPECIFICATION TSpec
CHECK_DEADLOCK FALSE
POSTCONDITION Accepted
