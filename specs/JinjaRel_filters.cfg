SPECIFICATION Spec
CONSTANTS
  Profile = "filters"
  MaxW = 3
  MaxWc = 0
  MaxDepth = 0
  Tights = {FALSE}
  EmitOpen = FALSE
INVARIANT Emit
CHECK_DEADLOCK FALSE
